/-!
# Executable model of plumpy's future adapters (C20)

Python counterparts (one Lean function per function / closure, same branch order):

* `plumpy.futures.unwrap_kiwi_future` and its closure `unwrap`      → `unwrapKiwi`, `invokeUnwrap`
* `plumpy.communications.plum_to_kiwi_future` and closure `on_done` → `plumToKiwi`, `invokeMirror`
* `plumpy.futures.create_task` and its coroutine `run_task`         → `createTask`, `advanceCoro`
* `plumpy.processes.Process._schedule_rpc` / `run_callback`         → `scheduleRpc`, `advanceRpc`
* `plumpy.futures.CancellableAction.run`                            → `newAction`, `runAction`
* `kiwipy.capture_exceptions`                                       → `captureSetExc`

Assumed contracts of the runtime (modelled, exercised through the real libraries by the correspondence check):

* a future is `pending | result v | exc e | cancelled`; `set_result` / `set_exception` on a future that is not pending
  raises `InvalidStateError` and changes nothing; `cancel()` on a future that is not pending changes nothing;
* `concurrent.futures.Future` (= `kiwipy.Future`, kind `kiwi`): done-callbacks are invoked *inline* by whoever completes the
  future (and at once by `add_done_callback` on a done future); an `Exception` raised by a callback is logged and swallowed;
* `asyncio.Future` (kind `aio`): done-callbacks are scheduled on the loop (`call_soon`), also by `add_done_callback` on a
  done future; an exception raised by a callback goes to the loop's exception handler;
* `await f` on a done asyncio future does not suspend; on a cancelled one it raises `CancelledError`, which is a
  `BaseException` and not an `Exception`.

Inline invocation of callbacks is modelled by an explicit stack of pending invocations (`State.stack`): every call in the
Python closures that can invoke a callback inline (`set_result`, `set_exception`, `cancel`, `add_done_callback` on a kiwi
future) is the last effect of the closure, so running the pushed invocations after the closure body returns is the same as
running them nested.  `runStack` runs the stack with fuel (a cyclic chain of futures recurses without bound in the code).

A *value* is a plain value or a reference to another future: that is how "a future resolving to a future" is expressed.
-/
namespace Futures

abbrev FId := Nat
abbrev TId := Nat

inductive Exc where
  | user (n : Nat)        -- an `Exception` raised by user code or set by the environment
  | base (n : Nat)        -- a `BaseException` that is not an `Exception`
  | cancelledError        -- `asyncio.CancelledError` (a `BaseException`)
  | invalidState          -- asyncio / concurrent.futures `InvalidStateError`: setting a future that is done
  | actionInvalid         -- `plumpy.futures.InvalidStateError('Action has already been ran')`
  | notCallable           -- `TypeError`: `self._action` is `None`
  | notAwaitable          -- `TypeError`: `await` on a concurrent future
  | notDone               -- reading the result of a pending future (never happens: callbacks run on done futures)
  | rpcWrapped (n : Nat)  -- the `RuntimeError` `_schedule_rpc` raises from a callback that raised `user n`
deriving DecidableEq, Repr, Inhabited

/-- would `except Exception` catch it? -/
def Exc.isException : Exc → Bool
  | .base _ => false
  | .cancelledError => false
  | _ => true

inductive Val where
  | plain (n : Nat)
  | ref (f : FId)
deriving DecidableEq, Repr, Inhabited

inductive St where
  | pending
  | result (v : Val)
  | exc (e : Exc)
  | cancelled
deriving DecidableEq, Repr, Inhabited

def St.done (s : St) : Bool := s != .pending

inductive Kind where
  | kiwi   -- concurrent.futures.Future
  | aio    -- asyncio.Future
deriving DecidableEq, Repr, Inhabited

/-- done-callbacks, defunctionalised: the closure's captured variable is the argument -/
inductive Cb where
  | unwrap (u : FId)   -- `unwrap` of `unwrap_kiwi_future`, `unwrapping = u`
  | mirror (k : FId)   -- `on_done` of `plum_to_kiwi_future`, `kiwi_future = k`
  | wake (t : TId)     -- `Task.__wakeup` of task `t`
deriving DecidableEq, Repr, Inhabited

structure Cell where
  kind : Kind := .kiwi
  st : St := .pending
  cbs : List Cb := []
deriving Repr, Inhabited

/-- a user coroutine (oracle): awaits futures, then returns or raises; exceptions of awaited futures propagate -/
inductive Coro where
  | ret (v : Val)
  | raise (e : Exc)
  | await (f : FId) (k : Coro)   -- `await f` (value ignored), then `k`
  | retAwait (f : FId)           -- `return await f`; also a plain function returning the awaitable `f`
deriving Repr, Inhabited

/-- outcome of calling a synchronous user function (oracle) -/
inductive Call where
  | ret (v : Val)
  | raise (e : Exc)
deriving Repr, Inhabited, DecidableEq

inductive TCont where
  | coro (fut : FId) (c : Coro)      -- `run_task` of `create_task`, suspended in `res = await coro()`
  | rpcCall (kf : FId) (c : Call)    -- `run_callback` of `_schedule_rpc`, not started
  | rpcLoop (kf : FId) (v : Val)     -- `run_callback` at the head of `while asyncio.isfuture(result)`
  | finished (e : Option Exc)        -- task over; `some e`: it ended with exception `e` (stored in the task, not logged)
deriving Repr, Inhabited

inductive Ready where
  | call (cb : Cb) (f : FId)   -- a done-callback of the asyncio future `f`
  | start (t : TId)            -- first step of a task
deriving Repr, Inhabited

/-- the function of a `CancellableAction` (oracle): what it returns or raises, and whether running it gets the action
itself cancelled (superseded by another request while it runs, e.g. a kill arriving during the transition a pause
action performs) -/
structure ActFn where
  cancels : Bool := false
  out : Call
deriving Repr, Inhabited, DecidableEq

structure Act where
  fn : Option ActFn     -- `self._action` (`none` after `run`)
  calls : Nat := 0      -- ghost: how often the function was called
deriving Repr, Inhabited

inductive Src where
  | inline   -- raised out of a callback invoked by concurrent.futures (logged by its logger)
  | loop     -- raised out of a callback run by the event loop (loop exception handler)
deriving DecidableEq, Repr, Inhabited

structure State where
  heap : FId → Cell := fun _ => {}
  next : Nat := 0
  stack : List (Cb × FId) := []
  ready : List Ready := []
  tasks : TId → TCont := fun _ => .finished none
  ntasks : Nat := 0
  acts : FId → Option Act := fun _ => none
  errs : List (Src × Exc) := []     -- newest first
  /-- ghost: the futures on which a delivery was attempted (`set_result`, `set_exception`, `cancel`), successful or
  not, newest first -/
  sets : List FId := []
  fuelOut : Bool := false
deriving Inhabited

def State.setCell (s : State) (f : FId) (c : Cell) : State :=
  { s with heap := fun x => if x = f then c else s.heap x }

def State.setTask (s : State) (t : TId) (c : TCont) : State :=
  { s with tasks := fun x => if x = t then c else s.tasks x }

def State.setAct (s : State) (a : FId) (c : Option Act) : State :=
  { s with acts := fun x => if x = a then c else s.acts x }

def State.logErr (s : State) (src : Src) (e : Exc) : State := { s with errs := (src, e) :: s.errs }

def State.st (s : State) (f : FId) : St := (s.heap f).st

/-- `Future()` / `loop.create_future()` -/
def alloc (s : State) (k : Kind) : State × FId :=
  ({ s with heap := fun x => if x = s.next then { kind := k } else s.heap x, next := s.next + 1 }, s.next)

/-- `_invoke_callbacks` (kiwi: inline, in registration order) / `__schedule_callbacks` (aio: `call_soon` each) -/
def fire (s : State) (f : FId) : State :=
  let c := s.heap f
  let s1 := s.setCell f { c with cbs := [] }
  match c.kind with
  | .kiwi => { s1 with stack := c.cbs.map (fun cb => (cb, f)) ++ s1.stack }
  | .aio => { s1 with ready := s1.ready ++ c.cbs.map (fun cb => Ready.call cb f) }

/-- `set_result(v)` / `set_exception(e)`: `false` = raised `InvalidStateError` (nothing changed) -/
def setOutcome (s : State) (f : FId) (o : St) : State × Bool :=
  let c := s.heap f
  let s := { s with sets := f :: s.sets }
  if c.st = .pending then
    (fire (s.setCell f { c with st := o }) f, true)
  else
    (s, false)

/-- `cancel()`; the return value is not used by any adapter -/
def cancelFut (s : State) (f : FId) : State :=
  let c := s.heap f
  let s := { s with sets := f :: s.sets }
  if c.st = .pending then
    fire (s.setCell f { c with st := .cancelled }) f
  else
    s

/-- `add_done_callback(cb)` -/
def addDone (s : State) (f : FId) (cb : Cb) : State :=
  let c := s.heap f
  if c.st = .pending then
    s.setCell f { c with cbs := c.cbs ++ [cb] }
  else
    match c.kind with
    | .kiwi => { s with stack := (cb, f) :: s.stack }
    | .aio => { s with ready := s.ready ++ [Ready.call cb f] }

/-- the `except Exception` clause of `kiwipy.capture_exceptions(target)`: `target.set_exception(e)`; an exception
that is not an `Exception`, or the `InvalidStateError` of a done target, escapes from the callback -/
def captureSetExc (s : State) (src : Src) (target : FId) (e : Exc) : State :=
  if e.isException then
    if (setOutcome s target (.exc e)).2 then (setOutcome s target (.exc e)).1
    else (setOutcome s target (.exc e)).1.logErr src .invalidState
  else
    s.logErr src e

/-- `target.set_result(v)` inside `with capture_exceptions(target)` -/
def captureSetResult (s : State) (src : Src) (target : FId) (v : Val) : State :=
  if (setOutcome s target (.result v)).2 then (setOutcome s target (.result v)).1
  else captureSetExc (setOutcome s target (.result v)).1 src target .invalidState

/-- `plum_to_kiwi_future(p)` -/
def plumToKiwi (s : State) (p : FId) : State × FId :=
  (addDone (alloc s .kiwi).1 p (.mirror (alloc s .kiwi).2), (alloc s .kiwi).2)

/-- `unwrap_kiwi_future(f)` -/
def unwrapKiwi (s : State) (f : FId) : State × FId :=
  (addDone (alloc s .kiwi).1 f (.unwrap (alloc s .kiwi).2), (alloc s .kiwi).2)

/-- closure `unwrap(fut)` of `unwrap_kiwi_future` -/
def invokeUnwrap (s : State) (src : Src) (u f : FId) : State :=
  match s.st f with
  | .cancelled => cancelFut s u                       -- if fut.cancelled(): unwrapping.cancel()
  | .pending => s.logErr src .notDone
  | .exc e => captureSetExc s src u e                 -- fut.result() raises
  | .result (.ref g) =>
      if (s.heap g).kind = .kiwi then addDone s g (.unwrap u)   -- isinstance(result, kiwipy.Future)
      else captureSetResult s src u (.ref g)
  | .result v => captureSetResult s src u v

/-- closure `on_done(_)` of `plum_to_kiwi_future`, `plum_future = f` -/
def invokeMirror (s : State) (src : Src) (k f : FId) : State :=
  match s.st f with
  | .cancelled => cancelFut s k                       -- if plum_future.cancelled(): kiwi_future.cancel()
  | .pending => s.logErr src .notDone
  | .exc e => captureSetExc s src k e
  | .result (.ref g) =>
      if (s.heap g).kind = .aio then                  -- isinstance(result, futures.Future): convert it too
        captureSetResult (plumToKiwi s g).1 src k (.ref (plumToKiwi s g).2)
      else captureSetResult s src k (.ref g)
  | .result v => captureSetResult s src k v

inductive AwaitRes where
  | pending
  | ok (v : Val)
  | err (e : Exc)

/-- `await f` -/
def awaitOn (h : FId → Cell) (f : FId) : AwaitRes :=
  match (h f).kind with
  | .kiwi => .err .notAwaitable
  | .aio =>
    match (h f).st with
    | .pending => .pending
    | .result v => .ok v
    | .exc e => .err e
    | .cancelled => .err .cancelledError

inductive CoroRes where
  | suspend (f : FId) (k : Coro)
  | returned (v : Val)
  | raised (e : Exc)

/-- run the user coroutine until it suspends on a pending future, returns or raises -/
def runCoro (h : FId → Cell) : Coro → CoroRes
  | .ret v => .returned v
  | .raise e => .raised e
  | .await f k =>
      match awaitOn h f with
      | .pending => .suspend f (.await f k)
      | .ok _ => runCoro h k
      | .err e => .raised e
  | .retAwait f =>
      match awaitOn h f with
      | .pending => .suspend f (.retAwait f)
      | .ok v => .returned v
      | .err e => .raised e

/-- what escapes from `run_task` / `run_callback` when `set_exception` on the returned future fails too -/
def taskSetExc (s : State) (t : TId) (target : FId) (e : Exc) : State :=
  if e.isException then
    (setOutcome s target (.exc e)).1.setTask t
      (.finished (if (setOutcome s target (.exc e)).2 then none else some .invalidState))
  else
    s.setTask t (.finished (some e))

def taskSetResult (s : State) (t : TId) (target : FId) (v : Val) : State :=
  if (setOutcome s target (.result v)).2 then (setOutcome s target (.result v)).1.setTask t (.finished none)
  else taskSetExc (setOutcome s target (.result v)).1 t target .invalidState

/-- `run_task` of `create_task` (resumed or started) with the user coroutine at `c` -/
def advanceCoro (s : State) (t : TId) (fut : FId) (c : Coro) : State :=
  match runCoro s.heap c with
  | .suspend f k => addDone (s.setTask t (.coro fut k)) f (.wake t)
  | .returned v => taskSetResult s t fut v                        -- future.set_result(res)
  | .raised .cancelledError =>                                    -- except asyncio.CancelledError: future.cancel(); return
      (cancelFut s fut).setTask t (.finished none)
  | .raised e => taskSetExc s t fut e                             -- capture_exceptions(future)

/-- `while asyncio.isfuture(result): result = await result` then `kiwi_future.set_result(result)` -/
def rpcLoop (s : State) (t : TId) (kf : FId) : Nat → Val → State
  | 0, _ => { s with fuelOut := true }
  | n+1, .ref g =>
      if (s.heap g).kind = .aio then
        match s.st g with
        | .pending => addDone (s.setTask t (.rpcLoop kf (.ref g))) g (.wake t)
        | .result v => rpcLoop s t kf n v
        | .exc e => taskSetExc s t kf e
        | .cancelled => (cancelFut s kf).setTask t (.finished none)   -- except asyncio.CancelledError
      else taskSetResult s t kf (.ref g)
  | _+1, v => taskSetResult s t kf v

/-- `run_callback` of `_schedule_rpc` -/
def advanceRpc (s : State) (t : TId) (kf : FId) (fuel : Nat) : Call → State
  | .raise (.user n) => taskSetExc s t kf (.rpcWrapped n)         -- except Exception: raise RuntimeError(...) from exc
  | .raise e => taskSetExc s t kf e
  | .ret v => rpcLoop s t kf fuel v

/-- one step of task `t` (its first step, or a wake-up) -/
def advance (s : State) (fuel : Nat) (t : TId) : State :=
  match s.tasks t with
  | .coro fut c => advanceCoro s t fut c
  | .rpcCall kf c => advanceRpc s t kf fuel c
  | .rpcLoop kf v => rpcLoop s t kf fuel v
  | .finished _ => s

/-- invoke a done-callback with the future it was registered on -/
def invoke (s : State) (fuel : Nat) (src : Src) (cb : Cb) (f : FId) : State :=
  match cb with
  | .unwrap u => invokeUnwrap s src u f
  | .mirror k => invokeMirror s src k f
  | .wake t => advance s fuel t

/-- run the pending inline invocations to quiescence -/
def runStack : Nat → State → State
  | 0, s => if s.stack.isEmpty then s else { s with fuelOut := true }
  | n+1, s =>
    match s.stack with
    | [] => s
    | (cb, f) :: rest => runStack n (invoke { s with stack := rest } (n+1) .inline cb f)

def runReady (s : State) (fuel : Nat) : Ready → State
  | .call cb f => invoke s fuel .loop cb f
  | .start t => advance s fuel t

/-- one loop callback: the `i`-th ready handle (asyncio runs `i = 0`; the theorems allow any) and the inline work it causes -/
def tick (s : State) (fuel : Nat) (i : Nat) : State :=
  match s.ready[i]? with
  | none => s
  | some r => runStack fuel (runReady { s with ready := s.ready.eraseIdx i } fuel r)

/-- run the loop until nothing is ready -/
def drain (fuel : Nat) : Nat → State → State
  | 0, s => if s.ready.isEmpty then s else { s with fuelOut := true }
  | n+1, s => if s.ready.isEmpty then s else drain fuel n (tick s fuel 0)

/-- `create_task(coro)`: `asyncio.run_coroutine_threadsafe(run_task(), loop)` -/
def createTask (s : State) (c : Coro) : State × FId :=
  ({ ((alloc s .aio).1.setTask s.ntasks (.coro (alloc s .aio).2 c)) with
      ntasks := s.ntasks + 1, ready := s.ready ++ [.start s.ntasks] }, (alloc s .aio).2)

/-- `Process._schedule_rpc(callback)` -/
def scheduleRpc (s : State) (c : Call) : State × FId :=
  ({ ((alloc s .kiwi).1.setTask s.ntasks (.rpcCall (alloc s .kiwi).2 c)) with
      ntasks := s.ntasks + 1, ready := s.ready ++ [.start s.ntasks] }, (alloc s .kiwi).2)

/-- `CancellableAction(action)` -/
def newAction (s : State) (fn : ActFn) : State × FId :=
  ((alloc s .aio).1.setAct (alloc s .aio).2 (some { fn := some fn }), (alloc s .aio).2)

/-- the `try: result = self._action(..) / except Exception / else` block of `CancellableAction.run`, once the function
has had its effects; the second component is what propagates to the caller of `run` -/
def actFinish (s : State) (a : FId) : Call → State × Option Exc
  | .ret v =>
      if (s.st a).done then (s, none)                             -- else: if not self.done(): (it stays cancelled)
      else ((setOutcome s a (.result v)).1, none)                 --         self.set_result(result)
  | .raise e =>
      if e.isException then                                       -- except Exception as exception:
        if (s.st a).done then (s, none)                           --   if self.done(): log it (cancelled while running, e94edb5)
        else ((setOutcome s a (.exc e)).1, none)                  --   self.set_exception(exception)
      else (s, some e)                                            -- a BaseException propagates out of run()

/-- `CancellableAction.run()`; the second component is what `run` raises to its caller -/
def runAction (s : State) (a : FId) : State × Option Exc :=
  match s.acts a with
  | none => (s, some .notCallable)                                -- not an action (the driver never does this)
  | some act =>
    if (s.st a).done then (s, some .actionInvalid)                -- if self.done(): raise InvalidStateError
    else
      match act.fn with
      | none => actFinish s a (.raise .notCallable)               -- self._action is None: the call raises TypeError
      | some fn =>
          -- the function runs (and may get its own action cancelled); finally: self._action = None
          actFinish (if fn.cancels then cancelFut (s.setAct a (some { fn := none, calls := act.calls + 1 })) a
                     else s.setAct a (some { fn := none, calls := act.calls + 1 })) a fn.out

/-- the environment completes a future it owns -/
def complete (s : State) (f : FId) : St → State × Bool
  | .pending => (s, true)
  | .cancelled => (cancelFut s f, true)
  | o => setOutcome s f o

/-- follow results that are futures: the outcome of the innermost computation reachable from `f` -/
def deref (s : State) : Nat → FId → St
  | 0, _ => .pending
  | n+1, f =>
    match s.st f with
    | .result (.ref g) => deref s n g
    | o => o

end Futures
