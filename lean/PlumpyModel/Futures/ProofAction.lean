import PlumpyModel.Futures.Proof
/-!
# `CancellableAction`: any history of `run()` and `cancel()` calls on one action
-/
namespace Futures

inductive AEv where
  | run
  | cancel
deriving Repr, DecidableEq

def actStep (a : FId) (s : State) : AEv → State
  | .run => (runAction s a).1
  | .cancel => cancelFut s a

def actRun (a : FId) (s : State) (evs : List AEv) : State := evs.foldl (actStep a) s

/-- the three situations of an action created with function `fn` -/
inductive AInv (fn : Call) (a : FId) (s : State) : Prop where
  | fresh (h1 : s.st a = .pending) (h2 : s.acts a = some { fn := some fn, calls := 0 })
  | consumed (h1 : s.st a = .pending) (h2 : s.acts a = some { fn := none, calls := 1 })   -- the function raised a BaseException
  | done (c : Nat) (f : Option Call) (h1 : s.st a ≠ .pending) (h2 : s.acts a = some { fn := f, calls := c }) (h3 : c ≤ 1)

theorem fire_acts (s : State) (f : Nat) : (fire s f).acts = s.acts := by
  unfold fire; cases hk : (s.heap f).kind <;> simp [hk, State.setCell]

theorem setOutcome_acts (s : State) (f : Nat) (o : St) : (setOutcome s f o).1.acts = s.acts := by
  by_cases hp : (s.heap f).st = .pending <;> simp [setOutcome, hp, fire_acts, State.setCell]

theorem cancelFut_acts (s : State) (f : Nat) : (cancelFut s f).acts = s.acts := by
  by_cases hp : (s.heap f).st = .pending <;> simp [cancelFut, hp, fire_acts, State.setCell]

theorem setOutcome_st_self (s : State) (f : Nat) (o : St) (ho : o ≠ .pending) : (setOutcome s f o).1.st f ≠ .pending := by
  unfold setOutcome
  by_cases hp : (s.heap f).st = .pending
  · simp only [hp, if_true, fire_st]; simpa [State.st, State.setCell] using ho
  · simpa [hp, State.st] using hp

theorem setOutcome_pending (s : State) (f : Nat) (o : St) (hp : s.st f = .pending) :
    (setOutcome s f o).2 = true ∧ (setOutcome s f o).1.st f = o := by
  simp only [State.st] at hp
  simp only [setOutcome, hp, if_true, fire_st]
  simp [State.st, State.setCell]

theorem cancelFut_st_self (s : State) (f : Nat) : (cancelFut s f).st f ≠ .pending := by
  unfold cancelFut
  by_cases hp : (s.heap f).st = .pending
  · simp only [hp, if_true, fire_st]; simp [State.st, State.setCell]
  · simpa [hp, State.st] using hp

theorem newAction_inv (s : State) (fn : Call) : AInv fn (newAction s fn).2 (newAction s fn).1 := by
  refine .fresh ?_ ?_ <;> simp [newAction, alloc, State.setAct, State.st]

/-- `run()` on an action that is done or cancelled raises `InvalidStateError` and changes nothing -/
theorem runAction_refuses (s : State) (a : Nat) (act : Act) (h : s.acts a = some act) (hd : s.st a ≠ .pending) :
    runAction s a = (s, some .actionInvalid) := by
  have : (s.st a).done = true := by
    simp only [St.done]; cases hs : s.st a <;> simp_all
  simp [runAction, h, this]

theorem actStep_inv {fn : Call} {a : Nat} {s : State} (h : AInv fn a s) (ev : AEv) : AInv fn a (actStep a s ev) := by
  cases ev with
  | cancel =>
    simp only [actStep]
    cases h with
    | fresh h1 h2 => exact .done 0 _ (cancelFut_st_self s a) (by rw [cancelFut_acts]; exact h2) (by omega)
    | consumed h1 h2 => exact .done 1 _ (cancelFut_st_self s a) (by rw [cancelFut_acts]; exact h2) (by omega)
    | done c f h1 h2 h3 => exact .done c f (cancelFut_st_self s a) (by rw [cancelFut_acts]; exact h2) h3
  | run =>
    simp only [actStep]
    cases h with
    | done c f h1 h2 h3 => rw [runAction_refuses s a _ h2 h1]; exact .done c f h1 h2 h3
    | consumed h1 h2 =>
      have hnd : (s.st a).done = false := by simp [St.done, h1]
      simp only [runAction, h2, hnd, captureSetExc, Exc.isException, if_true, Bool.false_eq_true, if_false]
      have hp := setOutcome_pending s a (.exc .notCallable) h1
      simp only [hp.1, if_true]
      exact .done 1 none (by rw [hp.2]; simp) (by rw [setOutcome_acts]; exact h2) (by omega)
    | fresh h1 h2 =>
      have hnd : (s.st a).done = false := by simp [St.done, h1]
      cases fn with
      | ret v =>
        simp only [runAction, h2, hnd, captureSetResult, Bool.false_eq_true, if_false]
        have hst : (s.setAct a (some { fn := none, calls := 0 + 1 })).st a = .pending := by simpa [State.setAct, State.st] using h1
        have hp := setOutcome_pending _ a (.result v) hst
        simp only [hp.1, if_true]
        exact .done 1 none (by rw [hp.2]; simp) (by rw [setOutcome_acts]; simp [State.setAct]) (by omega)
      | raise e =>
        simp only [runAction, h2, hnd, Bool.false_eq_true, if_false]
        have hst : (s.setAct a (some { fn := none, calls := 0 + 1 })).st a = .pending := by simpa [State.setAct, State.st] using h1
        by_cases he : e.isException = true
        · simp only [he, if_true, captureSetExc]
          have hp := setOutcome_pending _ a (.exc e) hst
          simp only [hp.1, if_true]
          exact .done 1 none (by rw [hp.2]; simp) (by rw [setOutcome_acts]; simp [State.setAct]) (by omega)
        · simp only [he]
          exact .consumed hst (by simp [State.setAct])

theorem actRun_inv {fn : Call} {a : Nat} (evs : List AEv) : ∀ s, AInv fn a s → AInv fn a (actRun a s evs) := by
  induction evs with
  | nil => intro s h; exact h
  | cons ev evs ih => intro s h; exact ih _ (actStep_inv h ev)

theorem AInv.calls_le {fn a s} (h : AInv fn a s) : ∃ act, s.acts a = some act ∧ act.calls ≤ 1 := by
  cases h with
  | fresh h1 h2 => exact ⟨_, h2, by simp⟩
  | consumed h1 h2 => exact ⟨_, h2, by simp⟩
  | done c f h1 h2 h3 => exact ⟨_, h2, h3⟩

theorem fire_errs (s : State) (f : Nat) : (fire s f).errs = s.errs := by
  unfold fire; cases hk : (s.heap f).kind <;> simp [hk, State.setCell]

theorem setOutcome_errs (s : State) (f : Nat) (o : St) : (setOutcome s f o).1.errs = s.errs := by
  by_cases hp : (s.heap f).st = .pending <;> simp [setOutcome, hp, fire_errs, State.setCell]

/-- what the first `run()` of a fresh action does -/
theorem run_fresh {fn : Call} {a : Nat} {s : State} (h1 : s.st a = .pending)
    (h2 : s.acts a = some { fn := some fn, calls := 0 }) :
    match fn with
    | .ret v => (runAction s a).2 = none ∧ (runAction s a).1.st a = .result v ∧
        (runAction s a).1.acts a = some { fn := none, calls := 1 } ∧ (runAction s a).1.errs = s.errs
    | .raise e =>
        (e.isException = true → (runAction s a).2 = none ∧ (runAction s a).1.st a = .exc e ∧
          (runAction s a).1.acts a = some { fn := none, calls := 1 } ∧ (runAction s a).1.errs = s.errs) ∧
        (e.isException = false → (runAction s a).2 = some e ∧ (runAction s a).1.st a = .pending ∧
          (runAction s a).1.acts a = some { fn := none, calls := 1 } ∧ (runAction s a).1.errs = s.errs) := by
  have hnd : (s.st a).done = false := by simp [St.done, h1]
  have hst : (s.setAct a (some { fn := none, calls := 0 + 1 })).st a = .pending := by simpa [State.setAct, State.st] using h1
  cases fn with
  | ret v =>
    have hp := setOutcome_pending _ a (.result v) hst
    simp only [runAction, h2, hnd, captureSetResult, Bool.false_eq_true, if_false, hp.1, if_true]
    refine ⟨trivial, hp.2, ?_, ?_⟩
    · rw [setOutcome_acts]; simp [State.setAct]
    · rw [setOutcome_errs]; simp [State.setAct]
  | raise e =>
    simp only [runAction, h2, hnd, Bool.false_eq_true, if_false]
    refine ⟨fun he => ?_, fun he => ?_⟩
    · have hp := setOutcome_pending _ a (.exc e) hst
      simp only [he, if_true, captureSetExc, hp.1]
      refine ⟨trivial, hp.2, ?_, ?_⟩
      · rw [setOutcome_acts]; simp [State.setAct]
      · rw [setOutcome_errs]; simp [State.setAct]
    · simp only [he, Bool.false_eq_true, if_false]
      exact ⟨trivial, hst, by simp [State.setAct], by simp [State.setAct]⟩

/-- a `run()` that returns normally leaves the action done -/
theorem run_none_done {fn : Call} {a : Nat} {s : State} (h : AInv fn a s) (hn : (runAction s a).2 = none) :
    (runAction s a).1.st a ≠ .pending := by
  cases h with
  | done c f h1 h2 h3 => rw [runAction_refuses s a _ h2 h1] at hn; simp at hn
  | consumed h1 h2 =>
    have hnd : (s.st a).done = false := by simp [St.done, h1]
    have hp := setOutcome_pending s a (.exc .notCallable) h1
    simp only [runAction, h2, hnd, captureSetExc, Exc.isException, if_true, Bool.false_eq_true, if_false, hp.1, hp.2]
    simp
  | fresh h1 h2 =>
    have := run_fresh h1 h2
    cases fn with
    | ret v => simp only at this; rw [this.2.1]; simp
    | raise e =>
      simp only at this
      by_cases he : e.isException = true
      · rw [(this.1 he).2.1]; simp
      · have he' : e.isException = false := by simpa using he
        rw [(this.2 he').1] at hn; simp at hn

end Futures
