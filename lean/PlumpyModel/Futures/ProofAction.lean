import PlumpyModel.Futures.Proof
/-!
# `CancellableAction`: any history of `run()` and `cancel()` calls on one action
-/
namespace Futures

inductive AEv where
  | run
  | cancel
deriving Repr, DecidableEq

def actStep (a : FId) (s : State) : AEv → State
  | .run => (runAction s a).1
  | .cancel => cancelFut s a

def actRun (a : FId) (s : State) (evs : List AEv) : State := evs.foldl (actStep a) s

/-- the three situations of an action created with function `fn` -/
inductive AInv (fn : ActFn) (a : FId) (s : State) : Prop where
  | fresh (h1 : s.st a = .pending) (h2 : s.acts a = some { fn := some fn, calls := 0 })
  | consumed (h1 : s.st a = .pending) (h2 : s.acts a = some { fn := none, calls := 1 })   -- the function raised a BaseException
  | done (c : Nat) (f : Option ActFn) (h1 : s.st a ≠ .pending) (h2 : s.acts a = some { fn := f, calls := c }) (h3 : c ≤ 1)

theorem fire_acts (s : State) (f : Nat) : (fire s f).acts = s.acts := by
  unfold fire; cases hk : (s.heap f).kind <;> simp [hk, State.setCell]

theorem setOutcome_acts (s : State) (f : Nat) (o : St) : (setOutcome s f o).1.acts = s.acts := by
  by_cases hp : (s.heap f).st = .pending <;> simp [setOutcome, hp, fire_acts, State.setCell]

theorem cancelFut_acts (s : State) (f : Nat) : (cancelFut s f).acts = s.acts := by
  by_cases hp : (s.heap f).st = .pending <;> simp [cancelFut, hp, fire_acts, State.setCell]

theorem fire_errs (s : State) (f : Nat) : (fire s f).errs = s.errs := by
  unfold fire; cases hk : (s.heap f).kind <;> simp [hk, State.setCell]

theorem setOutcome_errs (s : State) (f : Nat) (o : St) : (setOutcome s f o).1.errs = s.errs := by
  by_cases hp : (s.heap f).st = .pending <;> simp [setOutcome, hp, fire_errs, State.setCell]

theorem cancelFut_errs (s : State) (f : Nat) : (cancelFut s f).errs = s.errs := by
  by_cases hp : (s.heap f).st = .pending <;> simp [cancelFut, hp, fire_errs, State.setCell]

theorem setOutcome_st_self (s : State) (f : Nat) (o : St) (ho : o ≠ .pending) : (setOutcome s f o).1.st f ≠ .pending := by
  unfold setOutcome
  by_cases hp : (s.heap f).st = .pending
  · simp only [hp, if_true, fire_st]; simpa [State.st, State.setCell] using ho
  · simpa [hp, State.st] using hp

theorem setOutcome_pending (s : State) (f : Nat) (o : St) (hp : s.st f = .pending) :
    (setOutcome s f o).2 = true ∧ (setOutcome s f o).1.st f = o := by
  simp only [State.st] at hp
  simp only [setOutcome, hp, if_true, fire_st]
  simp [State.st, State.setCell]

theorem cancelFut_st_self (s : State) (f : Nat) : (cancelFut s f).st f ≠ .pending := by
  unfold cancelFut
  by_cases hp : (s.heap f).st = .pending
  · simp only [hp, if_true, fire_st]; simp [State.st, State.setCell]
  · simpa [hp, State.st] using hp

theorem cancelFut_pending (s : State) (f : Nat) (hp : s.st f = .pending) : (cancelFut s f).st f = .cancelled := by
  simp only [State.st] at hp
  simp only [cancelFut, hp, if_true, fire_st]
  simp [State.st, State.setCell]

theorem newAction_inv (s : State) (fn : ActFn) : AInv fn (newAction s fn).2 (newAction s fn).1 := by
  refine .fresh ?_ ?_ <;> simp [newAction, alloc, State.setAct, State.st]

theorem done_of_ne_pending {st : St} (h : st ≠ .pending) : st.done = true := by
  cases st <;> simp_all [St.done]

/-- `run()` on an action that is done or cancelled raises `InvalidStateError` and changes nothing -/
theorem runAction_refuses (s : State) (a : Nat) (act : Act) (h : s.acts a = some act) (hd : s.st a ≠ .pending) :
    runAction s a = (s, some .actionInvalid) := by
  simp [runAction, h, done_of_ne_pending hd]

/-- the `try / except / else` block on a pending action: the outcome is stored in the action -/
theorem actFinish_pending (s : State) (a : Nat) (c : Call) (hp : s.st a = .pending) :
    match c with
    | .ret v => (actFinish s a c).2 = none ∧ (actFinish s a c).1.st a = .result v ∧
        (actFinish s a c).1.acts = s.acts ∧ (actFinish s a c).1.errs = s.errs
    | .raise e =>
        (e.isException = true → (actFinish s a c).2 = none ∧ (actFinish s a c).1.st a = .exc e ∧
          (actFinish s a c).1.acts = s.acts ∧ (actFinish s a c).1.errs = s.errs) ∧
        (e.isException = false → actFinish s a c = (s, some e)) := by
  have hnd : (s.st a).done = false := by simp [St.done, hp]
  cases c with
  | ret v =>
    simp only [actFinish, hnd, Bool.false_eq_true, if_false]
    exact ⟨trivial, (setOutcome_pending s a _ hp).2, setOutcome_acts .., setOutcome_errs ..⟩
  | raise e =>
    refine ⟨fun he => ?_, fun he => ?_⟩
    · simp only [actFinish, he, if_true, hnd, Bool.false_eq_true, if_false]
      exact ⟨trivial, (setOutcome_pending s a _ hp).2, setOutcome_acts .., setOutcome_errs ..⟩
    · simp [actFinish, he]

/-- the same block on an action that got cancelled while its function ran: nothing is stored, an `Exception` is logged and does
not propagate (only a `BaseException` does) -/
theorem actFinish_done (s : State) (a : Nat) (c : Call) (hd : s.st a ≠ .pending) :
    (actFinish s a c).1 = s ∧
    (actFinish s a c).2 = match c with | .ret _ => none | .raise e => if e.isException then none else some e := by
  have hdn := done_of_ne_pending hd
  cases c with
  | ret v => simp [actFinish, hdn]
  | raise e => by_cases he : e.isException = true <;> simp [actFinish, hdn, he]

theorem actStep_inv {fn : ActFn} {a : Nat} {s : State} (h : AInv fn a s) (ev : AEv) : AInv fn a (actStep a s ev) := by
  cases ev with
  | cancel =>
    simp only [actStep]
    cases h with
    | fresh h1 h2 => exact .done 0 _ (cancelFut_st_self s a) (by rw [cancelFut_acts]; exact h2) (by omega)
    | consumed h1 h2 => exact .done 1 _ (cancelFut_st_self s a) (by rw [cancelFut_acts]; exact h2) (by omega)
    | done c f h1 h2 h3 => exact .done c f (cancelFut_st_self s a) (by rw [cancelFut_acts]; exact h2) h3
  | run =>
    simp only [actStep]
    cases h with
    | done c f h1 h2 h3 => rw [runAction_refuses s a _ h2 h1]; exact .done c f h1 h2 h3
    | consumed h1 h2 =>
      have hnd : (s.st a).done = false := by simp [St.done, h1]
      simp only [runAction, h2, hnd, Bool.false_eq_true, if_false]
      have hp := (actFinish_pending s a (.raise .notCallable) h1)
      simp only at hp
      have hp := hp.1 rfl
      exact .done 1 none (by rw [hp.2.1]; simp) (by rw [hp.2.2.1]; exact h2) (by omega)
    | fresh h1 h2 =>
      have hnd : (s.st a).done = false := by simp [St.done, h1]
      simp only [runAction, h2, hnd, Bool.false_eq_true, if_false]
      have hst : (s.setAct a (some { fn := none, calls := 0 + 1 })).st a = .pending := by simpa [State.setAct, State.st] using h1
      have hact : (s.setAct a (some { fn := none, calls := 0 + 1 })).acts a = some { fn := none, calls := 1 } := by simp [State.setAct]
      by_cases hc : fn.cancels = true
      · simp only [hc, if_true]
        have hd := cancelFut_st_self (s.setAct a (some { fn := none, calls := 0 + 1 })) a
        have := actFinish_done _ a fn.out hd
        rw [this.1]
        exact .done 1 none hd (by rw [cancelFut_acts]; exact hact) (by omega)
      · simp only [hc, Bool.false_eq_true, if_false]
        have hp := actFinish_pending _ a fn.out hst
        cases hout : fn.out with
        | ret v =>
          rw [hout] at hp; simp only at hp
          exact .done 1 none (by rw [hp.2.1]; simp) (by rw [hp.2.2.1]; exact hact) (by omega)
        | raise e =>
          rw [hout] at hp; simp only at hp
          by_cases he : e.isException = true
          · have hp := hp.1 he
            exact .done 1 none (by rw [hp.2.1]; simp) (by rw [hp.2.2.1]; exact hact) (by omega)
          · have he' : e.isException = false := by simpa using he
            rw [hp.2 he']
            exact .consumed hst hact

theorem actRun_inv {fn : ActFn} {a : Nat} (evs : List AEv) : ∀ s, AInv fn a s → AInv fn a (actRun a s evs) := by
  induction evs with
  | nil => intro s h; exact h
  | cons ev evs ih => intro s h; exact ih _ (actStep_inv h ev)

theorem AInv.calls_le {fn a s} (h : AInv fn a s) : ∃ act, s.acts a = some act ∧ act.calls ≤ 1 := by
  cases h with
  | fresh h1 h2 => exact ⟨_, h2, by simp⟩
  | consumed h1 h2 => exact ⟨_, h2, by simp⟩
  | done c f h1 h2 h3 => exact ⟨_, h2, h3⟩

/-- what the first `run()` of a fresh action does -/
theorem run_fresh {fn : ActFn} {a : Nat} {s : State} (h1 : s.st a = .pending)
    (h2 : s.acts a = some { fn := some fn, calls := 0 }) :
    (runAction s a).1.acts a = some { fn := none, calls := 1 } ∧ (runAction s a).1.errs = s.errs ∧
    (fn.cancels = false →
      match fn.out with
      | .ret v => (runAction s a).2 = none ∧ (runAction s a).1.st a = .result v
      | .raise e => (e.isException = true → (runAction s a).2 = none ∧ (runAction s a).1.st a = .exc e) ∧
                    (e.isException = false → (runAction s a).2 = some e ∧ (runAction s a).1.st a = .pending)) ∧
    (fn.cancels = true → (runAction s a).1.st a = .cancelled ∧
      (runAction s a).2 = match fn.out with | .ret _ => none | .raise e => if e.isException then none else some e) := by
  have hnd : (s.st a).done = false := by simp [St.done, h1]
  have hst : (s.setAct a (some { fn := none, calls := 0 + 1 })).st a = .pending := by simpa [State.setAct, State.st] using h1
  have hact : (s.setAct a (some { fn := none, calls := 0 + 1 })).acts a = some { fn := none, calls := 1 } := by simp [State.setAct]
  have herr : (s.setAct a (some { fn := none, calls := 0 + 1 })).errs = s.errs := by simp [State.setAct]
  simp only [runAction, h2, hnd, Bool.false_eq_true, if_false]
  by_cases hc : fn.cancels = true
  · simp only [hc, if_true]
    have hd := cancelFut_st_self (s.setAct a (some { fn := none, calls := 0 + 1 })) a
    have hcs := cancelFut_pending _ a hst
    have := actFinish_done _ a fn.out hd
    rw [this.1, this.2]
    refine ⟨by rw [cancelFut_acts]; exact hact, by rw [cancelFut_errs]; exact herr, fun h => by simp at h, fun _ => ⟨hcs, rfl⟩⟩
  · have hc' : fn.cancels = false := by simpa using hc
    simp only [hc', Bool.false_eq_true, if_false]
    have hp := actFinish_pending _ a fn.out hst
    cases hout : fn.out with
    | ret v =>
      rw [hout] at hp; simp only at hp
      exact ⟨by rw [hp.2.2.1]; exact hact, by rw [hp.2.2.2]; exact herr, fun _ => ⟨hp.1, hp.2.1⟩, fun h => by simp at h⟩
    | raise e =>
      rw [hout] at hp; simp only at hp
      by_cases he : e.isException = true
      · have hp1 := hp.1 he
        refine ⟨by rw [hp1.2.2.1]; exact hact, by rw [hp1.2.2.2]; exact herr,
          fun _ => ⟨fun _ => ⟨hp1.1, hp1.2.1⟩, fun h => by rw [he] at h; simp at h⟩, fun h => by simp at h⟩
      · have he' : e.isException = false := by simpa using he
        have hp2 := hp.2 he'
        rw [hp2]
        refine ⟨hact, herr, fun _ => ⟨fun h => by rw [he'] at h; simp at h, fun _ => ⟨rfl, hst⟩⟩, fun h => by simp at h⟩

/-- a `run()` that returns normally leaves the action done -/
theorem run_none_done {fn : ActFn} {a : Nat} {s : State} (h : AInv fn a s) (hn : (runAction s a).2 = none) :
    (runAction s a).1.st a ≠ .pending := by
  cases h with
  | done c f h1 h2 h3 => rw [runAction_refuses s a _ h2 h1] at hn; simp at hn
  | consumed h1 h2 =>
    have hnd : (s.st a).done = false := by simp [St.done, h1]
    simp only [runAction, h2, hnd, Bool.false_eq_true, if_false]
    have hp := (actFinish_pending s a (.raise .notCallable) h1)
    simp only at hp
    rw [(hp.1 rfl).2.1]; simp
  | fresh h1 h2 =>
    obtain ⟨_, _, hnc, hcc⟩ := run_fresh h1 h2
    by_cases hc : fn.cancels = true
    · rw [(hcc hc).1]; simp
    · have hc' : fn.cancels = false := by simpa using hc
      have := hnc hc'
      cases hout : fn.out with
      | ret v => rw [hout] at this; simp only at this; rw [this.2]; simp
      | raise e =>
        rw [hout] at this; simp only at this
        by_cases he : e.isException = true
        · rw [(this.1 he).2]; simp
        · have he' : e.isException = false := by simpa using he
          rw [(this.2 he').1] at hn; simp at hn

end Futures
