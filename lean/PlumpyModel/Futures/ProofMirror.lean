import PlumpyModel.Futures.Proof
/-!
# `plum_to_kiwi_future` over a chain of loop futures `0..n`

The mirror of level `i` is the kiwi future `n+1+i` (mirrors are allocated one by one as the levels resolve to futures).
-/
namespace Futures

/-- mirrors `0..m` exist; those below `m` are resolved to the next mirror, each set once -/
structure MBase (n : Nat) (o : Outcome) (m : Nat) (s : State) : Prop where
  hm : m ≤ n
  next : s.next = n + 2 + m
  errs : s.errs = []
  fuel : s.fuelOut = false
  stack : s.stack = []
  kindp : ∀ f, f ≤ n → (s.heap f).kind = .aio
  kindk : ∀ i, i ≤ m → (s.heap (n + 1 + i)).kind = .kiwi
  sts : ∀ i, i ≤ n → s.st i = .pending ∨ s.st i = chainD n o i
  kcbs : ∀ i, i ≤ m → (s.heap (n + 1 + i)).cbs = []
  below : ∀ i, i < m → s.st (n + 1 + i) = .result (.ref (n + 2 + i)) ∧ s.sets.count (n + 1 + i) = 1 ∧
            s.st i = chainD n o i
  others : ∀ i, i ≤ n → i ≠ m → (s.heap i).cbs = []
  fresh : ∀ f, n + 1 + m < f → f ∉ s.sets

/-- the `on_done` closure of mirror `m` is registered on level `m`, which is pending -/
def MWait (n m : Nat) (s : State) : Prop :=
  s.st m = .pending ∧ (s.heap m).cbs = [.mirror (n + 1 + m)] ∧ s.ready = [] ∧
    s.st (n + 1 + m) = .pending ∧ (n + 1 + m) ∉ s.sets

/-- level `m` is done and the closure is scheduled on the loop -/
def MSched (n : Nat) (o : Outcome) (m : Nat) (s : State) : Prop :=
  s.st m = chainD n o m ∧ (s.heap m).cbs = [] ∧ s.ready = [.call (.mirror (n + 1 + m)) m] ∧
    s.st (n + 1 + m) = .pending ∧ (n + 1 + m) ∉ s.sets

/-- the innermost outcome has been delivered to the last mirror -/
def MDone (n : Nat) (o : Outcome) (m : Nat) (s : State) : Prop :=
  m = n ∧ s.st n = chainD n o n ∧ (s.heap n).cbs = [] ∧ s.ready = [] ∧
    s.st (n + 1 + n) = o.toSt ∧ s.sets.count (n + 1 + n) = 1

def MInv (n : Nat) (o : Outcome) (m : Nat) (s : State) : Prop :=
  MBase n o m s ∧ (MWait n m s ∨ MSched n o m s ∨ MDone n o m s)

def MQuiet (n : Nat) (o : Outcome) (s : State) : Prop := ∃ m, MInv n o m s

/-- applying `plum_to_kiwi_future` to level 0 -/
theorem mirror_wrap {n o s} (h : UPre .aio n o s) :
    (plumToKiwi s 0).2 = n + 1 ∧ MInv n o 0 (plumToKiwi s 0).1 := by
  have := h.next; have := h.errs; have := h.fuel; have := h.ready; have := h.kind; have := h.sts
  have := h.sets; have := h.cbs; have := h.stack
  have h0 := h.sts 0 (by omega)
  refine ⟨by simp [plumToKiwi, alloc, h.next], ?_⟩
  simp only [State.st] at *
  have hk0 := h.kind 0 (by omega)
  have e0 : (if (0:Nat) = n + 1 then ({ kind := .kiwi } : Cell) else s.heap 0) = s.heap 0 := by simp
  by_cases hp : (s.heap 0).st = .pending
  · simp only [plumToKiwi, alloc, addDone, h.next, e0, hp, if_true]
    refine ⟨⟨?_, ?_, ?_, ?_, ?_, ?_, ?_, ?_, ?_, ?_, ?_, ?_⟩, .inl ⟨?_, ?_, ?_, ?_, ?_⟩⟩ <;>
      (try simp only [State.setCell, State.st]) <;> grind
  · simp only [plumToKiwi, alloc, addDone, h.next, e0, hp, if_false, hk0]
    refine ⟨⟨?_, ?_, ?_, ?_, ?_, ?_, ?_, ?_, ?_, ?_, ?_, ?_⟩, .inr (.inl ⟨?_, ?_, ?_, ?_, ?_⟩)⟩ <;>
      (try simp only [State.setCell, State.st]) <;> grind

theorem mbase_complete {n o m s} (hb : MBase n o m s) (f : Nat) :
    MBase n o m (complete s f (chainD n o f)).1 := by
  by_cases hf : f ≤ n
  · have hkf := hb.kindp f hf
    have hne : chainD n o f ≠ .pending := chainD_ne_pending hf
    have hm := hb.hm
    by_cases hp : (s.heap f).st = .pending
    · rw [complete_pending_aio s f _ hne hp hkf]
      refine ⟨hb.hm, hb.next, hb.errs, hb.fuel, hb.stack, ?_, ?_, ?_, ?_, ?_, ?_, ?_⟩ <;> simp only [State.st]
      · have := hb.kindp; grind
      · have := hb.kindk; grind
      · have := hb.sts; simp only [State.st] at this; grind
      · have := hb.kcbs; grind
      · have := hb.below; simp only [State.st] at this; grind
      · have := hb.others; grind
      · have := hb.fresh; grind
    · rw [complete_done_eq s f _ hne hp]
      refine ⟨hb.hm, hb.next, hb.errs, hb.fuel, hb.stack, hb.kindp, hb.kindk, hb.sts, hb.kcbs, ?_, hb.others, ?_⟩
      · have := hb.below; simp only [State.st] at *; grind
      · have := hb.fresh; grind
  · simp only [chainD_gt (Nat.lt_of_not_le hf), complete]
    exact hb

theorem mirror_complete {n o m s} (h : MInv n o m s) (f : Nat) :
    MInv n o m (complete s f (chainD n o f)).1 := by
  obtain ⟨hb, hpos⟩ := h
  refine ⟨mbase_complete hb f, ?_⟩
  by_cases hf : f ≤ n
  · have hkf := hb.kindp f hf
    have hne : chainD n o f ≠ .pending := chainD_ne_pending hf
    have hm := hb.hm
    by_cases hp : (s.heap f).st = .pending
    · rw [complete_pending_aio s f _ hne hp hkf]
      simp only [State.st, MWait, MSched, MDone] at *
      rcases hpos with ⟨h1, h2, h3, h4, h5⟩ | ⟨h1, h2, h3, h4, h5⟩ | ⟨h1, h2, h3, h4, h5, h6⟩
      · by_cases hfm : f = m
        · subst hfm; right; left; simp [h2, h3, h4, h5]
        · left; have := hb.others f hf hfm; grind
      · right; left; have := hb.others f hf; grind
      · right; right; have := hb.others f hf; grind
    · rw [complete_done_eq s f _ hne hp]
      simp only [State.st, MWait, MSched, MDone] at *
      rcases hpos with ⟨h1, h2, h3, h4, h5⟩ | ⟨h1, h2, h3, h4, h5⟩ | ⟨h1, h2, h3, h4, h5, h6⟩
      · left; grind
      · right; left; grind
      · right; right; grind
  · simp only [chainD_gt (Nat.lt_of_not_le hf), complete]
    exact hpos

theorem mirror_step_lt {n o m s} (hb : MBase n o m s) (hp : MSched n o m s) (hm : m < n) (src : Src) :
    MInv n o (m + 1) (invokeMirror { s with ready := [] } src (n + 1 + m) m) := by
  obtain ⟨h1, h2, h3, h4, h5⟩ := hp
  rw [chainD_lt hm] at h1
  have hkind : (s.heap (m + 1)).kind = .aio := hb.kindp _ (by omega)
  have hkk : (s.heap (n + 1 + m)).kind = .kiwi := hb.kindk _ (by omega)
  have hkc : (s.heap (n + 1 + m)).cbs = [] := hb.kcbs _ (by omega)
  have hcb : (s.heap (m + 1)).cbs = [] := hb.others _ (by omega) (by omega)
  have hnext := hb.next
  have e1 : (if m + 1 = n + 2 + m then ({ kind := .kiwi } : Cell) else s.heap (m + 1)) = s.heap (m + 1) := by
    have : ¬ (m + 1 = n + 2 + m) := by omega
    simp [this]
  simp only [State.st] at h1 h4
  by_cases hpd : (s.heap (m + 1)).st = .pending
  · have e2 : ∀ c : Cell, (if n + 1 + m = m + 1 then c else if n + 1 + m = n + 2 + m then ({ kind := .kiwi } : Cell) else s.heap (n + 1 + m)) = s.heap (n + 1 + m) := by
      intro c
      have a : ¬ (n + 1 + m = m + 1) := by omega
      have b : ¬ (n + 1 + m = n + 2 + m) := by omega
      simp [a, b]
    simp only [invokeMirror, State.st, h1, hkind, if_true, plumToKiwi, alloc, hnext, addDone, e1, hpd, captureSetResult, setOutcome,
      State.setCell, e2, h4, fire, hkk, hkc, List.map_nil, List.nil_append]
    have hcbk : (s.heap m).cbs = [] := h2
    refine ⟨⟨by omega, by simp only []; omega, hb.errs, hb.fuel, hb.stack, ?_, ?_, ?_, ?_, ?_, ?_, ?_⟩, .inl ⟨?_, ?_, ?_, ?_, ?_⟩⟩ <;>
      simp only [State.st]
    · have := hb.kindp; grind
    · have := hb.kindk; grind
    · have := hb.sts; simp only [State.st] at this; grind
    · have := hb.kcbs; grind
    · have := hb.below; have := hb.fresh; have := @chainD_lt n o m hm; simp only [State.st] at *; grind [List.count_eq_zero]
    · have := hb.others; grind
    · have := hb.fresh; grind
    · grind
    · grind
    · grind
    · have := hb.fresh; grind
  · have e2 : ∀ c : Cell, (if n + 1 + m = n + 2 + m then c else s.heap (n + 1 + m)) = s.heap (n + 1 + m) := by
      intro c
      have b : ¬ (n + 1 + m = n + 2 + m) := by omega
      simp [b]
    have hst1 : (s.heap (m + 1)).st = chainD n o (m + 1) := by
      have := hb.sts (m + 1) (by omega); simp only [State.st] at this; grind
    simp only [invokeMirror, State.st, h1, hkind, if_true, plumToKiwi, alloc, hnext, addDone, e1, hpd, captureSetResult, setOutcome,
      State.setCell, e2, h4, fire, hkk, hkc, List.map_nil, List.nil_append, if_false]
    refine ⟨⟨by omega, by simp only []; omega, hb.errs, hb.fuel, hb.stack, ?_, ?_, ?_, ?_, ?_, ?_, ?_⟩, .inr (.inl ⟨?_, ?_, ?_, ?_, ?_⟩)⟩ <;>
      simp only [State.st]
    · have := hb.kindp; grind
    · have := hb.kindk; grind
    · have := hb.sts; simp only [State.st] at this; grind
    · have := hb.kcbs; grind
    · have := hb.below; have := hb.fresh; have := @chainD_lt n o m hm; simp only [State.st] at *; grind [List.count_eq_zero]
    · have := hb.others; grind
    · have := hb.fresh; grind
    all_goals first
      | rfl
      | grind
      | (have := hb.fresh; grind)

theorem mirror_step_last {n o s} (hb : MBase n o n s) (hp : MSched n o n s) (src : Src) :
    MInv n o n (invokeMirror { s with ready := [] } src (n + 1 + n) n) := by
  obtain ⟨h1, h2, h3, h4, h5⟩ := hp
  rw [chainD_last] at h1
  have hkk : (s.heap (n + 1 + n)).kind = .kiwi := hb.kindk _ (by omega)
  have hkc : (s.heap (n + 1 + n)).cbs = [] := hb.kcbs _ (by omega)
  simp only [State.st] at h1 h4
  cases o <;> simp only [Outcome.toSt] at h1 <;>
    simp only [invokeMirror, State.st, h1, captureSetResult, captureSetExc, setOutcome, cancelFut, Exc.isException, h4, if_true,
      fire, State.setCell, hkk, hkc, List.map_nil, List.nil_append] <;>
    refine ⟨⟨hb.hm, hb.next, hb.errs, hb.fuel, hb.stack, ?_, ?_, ?_, ?_, ?_, ?_, ?_⟩, .inr (.inr ⟨rfl, ?_, ?_, ?_, ?_, ?_⟩)⟩ <;>
    simp only [State.st, Outcome.toSt]
  all_goals first
    | (have := hb.kindp; grind)
    | (have := hb.kindk; grind)
    | (have := hb.sts; simp only [State.st] at this; grind)
    | (have := hb.kcbs; grind)
    | (have := hb.below; simp only [State.st] at this; grind)
    | (have := hb.others; grind)
    | (have := hb.fresh; grind)
    | (have := @chainD_last n o; simp only [Outcome.toSt] at this; grind [List.count_eq_zero])

theorem mirror_tick {n o m s} (h : MInv n o m s) (fuel i : Nat) : MQuiet n o (tick s fuel i) := by
  obtain ⟨hb, hpos⟩ := h
  rcases hpos with hw | hs | hd
  · rw [tick_ready_nil _ _ _ hw.2.2.1]; exact ⟨m, hb, .inl hw⟩
  · have hr := hs.2.2.1
    cases i with
    | succ i => simp only [tick, hr, List.getElem?_cons_succ, List.getElem?_nil]; exact ⟨m, hb, .inr (.inl hs)⟩
    | zero =>
      simp only [tick, hr, List.getElem?_cons_zero, List.eraseIdx_cons_zero, runReady, invoke]
      by_cases hm : m < n
      · have h' := mirror_step_lt hb hs hm .loop
        rw [runStack_nil _ _ h'.1.stack]
        exact ⟨m + 1, h'⟩
      · have hmn : m = n := by have := hb.hm; omega
        subst hmn
        have h' := mirror_step_last hb hs .loop
        rw [runStack_nil _ _ h'.1.stack]
        exact ⟨m, h'⟩
  · rw [tick_ready_nil _ _ _ hd.2.2.2.1]; exact ⟨m, hb, .inr (.inr hd)⟩

theorem mirror_envStep {n o s} (h : MQuiet n o s) (fuel : Nat) (ev : Ev) :
    MQuiet n o (envStep (chainD n o) fuel s ev) := by
  obtain ⟨m, h⟩ := h
  cases ev with
  | tick i => exact mirror_tick h fuel i
  | complete f =>
    have h' := mirror_complete h f
    simp only [envStep]
    rw [runStack_nil _ _ h'.1.stack]
    exact ⟨m, h'⟩

theorem mirror_envRun {n o} (fuel : Nat) (evs : List Ev) :
    ∀ s, MQuiet n o s → MQuiet n o (envRun (chainD n o) fuel s evs) := by
  induction evs with
  | nil => intro s h; exact h
  | cons ev evs ih => intro s h; exact ih _ (mirror_envStep h fuel ev)

theorem Outcome.toSt_ne_ref (o : Outcome) (g : FId) : o.toSt ≠ .result (.ref g) := by cases o <;> simp [Outcome.toSt]

/-- following a chain of `m` resolved futures from `b` reads the state of `b + m` -/
theorem deref_chain (s : State) (b : Nat) : ∀ (m fuel : Nat), m < fuel →
    (∀ i, i < m → s.st (b + i) = .result (.ref (b + i + 1))) →
    (∀ g, s.st (b + m) ≠ .result (.ref g)) → deref s fuel b = s.st (b + m) := by
  intro m
  induction m generalizing b with
  | zero =>
    intro fuel hf _ hlast
    obtain ⟨fuel, rfl⟩ : ∃ k, fuel = k + 1 := ⟨fuel - 1, by omega⟩
    simp only [deref, Nat.add_zero] at *
  | succ m ih =>
    intro fuel hf hch hlast
    obtain ⟨fuel, rfl⟩ : ∃ k, fuel = k + 1 := ⟨fuel - 1, by omega⟩
    have h0 := hch 0 (by omega)
    simp only [Nat.add_zero] at h0
    simp only [deref, h0]
    have := ih (b + 1) fuel (by omega) (fun i hi => by have := hch (i + 1) (by omega); grind) (by grind)
    grind

end Futures
