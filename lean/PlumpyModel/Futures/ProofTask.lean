import PlumpyModel.Futures.Proof
/-!
# `create_task`: a coroutine awaiting loop futures `0..N-1` that the environment completes in any order

The future returned by `create_task` is `N`, the helper task is task `0`.
-/
namespace Futures

/-- what `run_task` does with an exception raised by the coroutine: `Exception`s are captured, `CancelledError` cancels
the returned future, any other `BaseException` kills the helper task (the future stays pending) -/
def raiseSt (e : Exc) : St :=
  if e = .cancelledError then .cancelled else if e.isException then .exc e else .pending

/-- reference semantics: the outcome of the coroutine given the states `st` of the futures it awaits
(`pending`: it is blocked on a future that is not complete) -/
def taskRef (st : FId → St) : Coro → St
  | .ret v => .result v
  | .raise e => raiseSt e
  | .await f k =>
    match st f with
    | .pending => .pending
    | .result _ => taskRef st k
    | .exc e => raiseSt e
    | .cancelled => .cancelled
  | .retAwait f =>
    match st f with
    | .pending => .pending
    | .result v => .result v
    | .exc e => raiseSt e
    | .cancelled => .cancelled

/-- every awaited future is one of the environment's futures `0..N-1` -/
def Coro.wf (N : Nat) : Coro → Prop
  | .ret _ => True
  | .raise _ => True
  | .await f k => f < N ∧ k.wf N
  | .retAwait f => f < N

/-- the coroutine got from `c` to `k` through awaits of futures that are done with a result -/
inductive Passed (st : FId → St) : Coro → Coro → Prop where
  | refl (c : Coro) : Passed st c c
  | step {f v k k'} (h : st f = .result v) (p : Passed st k k') : Passed st (.await f k) k'

theorem Passed.taskRef_eq {st c k} (p : Passed st c k) : taskRef st c = taskRef st k := by
  induction p with
  | refl => rfl
  | step h _ ih => simp [taskRef, h, ih]

theorem Passed.trans {st a b c} (p : Passed st a b) (q : Passed st b c) : Passed st a c := by
  induction p with
  | refl => exact q
  | step h _ ih => exact .step h (ih q)

theorem Passed.wf {st c k N} (p : Passed st c k) (h : c.wf N) : k.wf N := by
  induction p with
  | refl => exact h
  | step _ _ ih => exact ih h.2

theorem Passed.mono {st st' : FId → St} {c k N} (p : Passed st c k) (hw : c.wf N)
    (hm : ∀ f, f < N → st f ≠ .pending → st' f = st f) : Passed st' c k := by
  induction p with
  | refl => exact .refl _
  | step h _ ih => exact .step (by rw [hm _ hw.1 (by rw [h]; simp), h]) (ih hw.2)

/-- is the coroutine at an `await` of `f`? -/
def Coro.awaiting (f : FId) : Coro → Prop
  | .await g _ => g = f
  | .retAwait g => g = f
  | _ => False

/-- `runCoro` against the reference semantics -/
theorem runCoro_spec (h : FId → Cell) (N : Nat) (hk : ∀ f, f < N → (h f).kind = .aio) : ∀ (c : Coro), c.wf N →
    match runCoro h c with
    | .suspend f k => Passed (fun x => (h x).st) c k ∧ k.awaiting f ∧ (h f).st = .pending ∧ f < N
    | .returned v => taskRef (fun x => (h x).st) c = .result v
    | .raised e => taskRef (fun x => (h x).st) c = raiseSt e ∧ (e = .cancelledError ∨ taskRef (fun x => (h x).st) c ≠ .cancelled) := by
  intro c
  induction c with
  | ret v => intro _; simp [runCoro, taskRef]
  | raise e =>
    intro _
    simp only [runCoro, taskRef, true_and]
    by_cases he : e = .cancelledError
    · exact .inl he
    · right; simp only [raiseSt, he, if_false]; split <;> simp
  | retAwait f =>
    intro hw
    have hkf := hk f hw
    simp only [runCoro, awaitOn, hkf, taskRef]
    cases hs : (h f).st with
    | pending => exact ⟨.refl _, rfl, hs, hw⟩
    | result v => simp
    | exc e =>
      simp only [true_and]
      by_cases he : e = .cancelledError
      · exact .inl he
      · right; simp only [raiseSt, he, if_false]; split <;> simp
    | cancelled => simp [raiseSt]
  | await f k ih =>
    intro hw
    have hkf := hk f hw.1
    simp only [runCoro, awaitOn, hkf, taskRef]
    cases hs : (h f).st with
    | pending => exact ⟨.refl _, rfl, hs, hw.1⟩
    | result v =>
      simp only
      have := ih hw.2
      cases hr : runCoro h k with
      | suspend g k' =>
        rw [hr] at this
        exact ⟨.step hs this.1, this.2⟩
      | returned v' => rw [hr] at this; exact this
      | raised e => rw [hr] at this; exact this
    | exc e =>
      simp only [true_and]
      by_cases he : e = .cancelledError
      · exact .inl he
      · right; simp only [raiseSt, he, if_false]; split <;> simp
    | cancelled => simp [raiseSt]

/-- the evaluation of `c` under `st` does not block on a pending future -/
def taskDet (st : FId → St) : Coro → Prop
  | .ret _ => True
  | .raise _ => True
  | .await f k =>
    match st f with
    | .pending => False
    | .result _ => taskDet st k
    | _ => True
  | .retAwait f => st f ≠ .pending

/-- a determined evaluation is not changed by futures completing later -/
theorem taskRef_stable {st st' : FId → St} {N : Nat} (hm : ∀ f, f < N → st f ≠ .pending → st' f = st f) :
    ∀ c : Coro, c.wf N → taskDet st c → taskRef st' c = taskRef st c ∧ taskDet st' c := by
  intro c
  induction c with
  | ret v => intro _ _; simp [taskRef, taskDet]
  | raise e => intro _ _; simp [taskRef, taskDet]
  | retAwait f =>
    intro hw hd
    simp only [taskDet] at hd
    have := hm f hw hd
    simp only [taskRef, taskDet, this]
    exact ⟨trivial, hd⟩
  | await f k ih =>
    intro hw hd
    simp only [taskDet] at hd
    cases hs : st f with
    | pending => simp [hs] at hd
    | result v =>
      have := hm f hw.1 (by rw [hs]; simp)
      simp only [hs] at hd
      simp only [taskRef, taskDet, this, hs]
      exact ih hw.2 hd
    | exc e =>
      have := hm f hw.1 (by rw [hs]; simp)
      simp [taskRef, taskDet, this, hs]
    | cancelled =>
      have := hm f hw.1 (by rw [hs]; simp)
      simp [taskRef, taskDet, this, hs]

theorem runCoro_det (h : FId → Cell) (N : Nat) (hk : ∀ f, f < N → (h f).kind = .aio) : ∀ (c : Coro), c.wf N →
    match runCoro h c with
    | .suspend _ _ => True
    | _ => taskDet (fun x => (h x).st) c := by
  intro c
  induction c with
  | ret v => intro _; simp [runCoro, taskDet]
  | raise e => intro _; simp [runCoro, taskDet]
  | retAwait f =>
    intro hw
    have hkf := hk f hw
    simp only [runCoro, awaitOn, hkf, taskDet]
    cases hs : (h f).st <;> simp
  | await f k ih =>
    intro hw
    have hkf := hk f hw.1
    simp only [runCoro, awaitOn, hkf, taskDet]
    cases hs : (h f).st with
    | pending => simp
    | result v =>
      simp only
      have := ih hw.2
      cases hr : runCoro h k <;> rw [hr] at this <;> simp_all
    | exc e => simp
    | cancelled => simp

/-- before `create_task`: `N` loop futures, some of them completed by the environment -/
structure EPre (N : Nat) (d : FId → St) (s : State) : Prop where
  next : s.next = N
  errs : s.errs = []
  fuel : s.fuelOut = false
  ready : s.ready = []
  stack : s.stack = []
  ntasks : s.ntasks = 0
  sets : ∀ f, N ≤ f → f ∉ s.sets
  kind : ∀ f, f < N → (s.heap f).kind = .aio
  sts : ∀ f, f < N → s.st f = .pending ∨ s.st f = d f
  cbs : ∀ f, (s.heap f).cbs = []

theorem epre_init (N : Nat) (d : FId → St) : EPre N d (newFutures .aio N {}) := by
  obtain ⟨h1, h2, h3, h4, h5, h6, h7, h8, h9, _⟩ := newFutures_spec .aio N {}
  refine ⟨by simpa using h1, by simpa using h5, by simpa using h7, by simpa using h4, by simpa using h3,
    by simpa using h9, ?_, ?_, ?_, ?_⟩
  · intro f _; rw [h6]; simp
  · intro f hf; rw [h2]; simp [hf]
  · intro i hi; left; simp only [State.st]; rw [h2]; split <;> rfl
  · intro f; rw [h2]; split <;> rfl

theorem epre_envStep {N d s} (hd : ∀ f, N ≤ f → d f = .pending) (h : EPre N d s) (fuel : Nat) (ev : Ev) :
    EPre N d (envStep d fuel s ev) := by
  cases ev with
  | tick i => simpa [envStep, tick_ready_nil _ _ _ h.ready] using h
  | complete f =>
    simp only [envStep]
    suffices hc : EPre N d (complete s f (d f)).1 by rw [runStack_nil _ _ hc.stack]; exact hc
    by_cases hne : d f = .pending
    · simp only [hne, complete]; exact h
    · have hf : f < N := by
        refine Nat.lt_of_not_le fun hle => hne (hd f hle)
      have hkf := h.kind f hf
      have hcb := h.cbs f
      by_cases hp : (s.heap f).st = .pending
      · rw [complete_pending_aio s f _ hne hp hkf]
        refine ⟨h.next, h.errs, h.fuel, by simp [hcb, h.ready], h.stack, h.ntasks, ?_, ?_, ?_, ?_⟩ <;> simp only [State.st]
        · have := h.sets; grind
        · have := h.kind; grind
        · have := h.sts; simp only [State.st] at this; grind
        · have := h.cbs; grind
      · rw [complete_done_eq s f _ hne hp]
        refine ⟨h.next, h.errs, h.fuel, h.ready, h.stack, h.ntasks, ?_, h.kind, h.sts, h.cbs⟩
        have := h.sets; grind

theorem epre_envRun {N d} (hd : ∀ f, N ≤ f → d f = .pending) (fuel : Nat) (evs : List Ev) :
    ∀ s, EPre N d s → EPre N d (envRun d fuel s evs) := by
  induction evs with
  | nil => intro s h; exact h
  | cons ev evs ih => intro s h; exact ih _ (epre_envStep hd h fuel ev)

theorem taskRef_congr {st st' : FId → St} {N : Nat} (h : ∀ f, f < N → st' f = st f) :
    ∀ c : Coro, c.wf N → taskRef st' c = taskRef st c ∧ (taskDet st c → taskDet st' c) := by
  intro c
  induction c with
  | ret v => intro _; simp [taskRef, taskDet]
  | raise e => intro _; simp [taskRef, taskDet]
  | retAwait f => intro hw; simp [taskRef, taskDet, h f hw]
  | await f k ih =>
    intro hw
    simp only [taskRef, taskDet, h f hw.1]
    cases hs : st f <;> simp [ih hw.2]
    exact (ih hw.2).2

theorem Passed.congr {st st' : FId → St} {c k N} (p : Passed st c k) (hw : c.wf N)
    (h : ∀ f, f < N → st' f = st f) : Passed st' c k :=
  p.mono hw (fun f hf _ => h f hf)

theorem Passed.det {st c k} (p : Passed st c k) (h : taskDet st k) : taskDet st c := by
  induction p with
  | refl => exact h
  | step hs _ ih => simp only [taskDet, hs]; exact ih h

structure TBase (N : Nat) (d : FId → St) (s : State) : Prop where
  next : s.next = N + 1
  errs : s.errs = []
  fuel : s.fuelOut = false
  stack : s.stack = []
  kind : ∀ f, f ≤ N → (s.heap f).kind = .aio
  sts : ∀ f, f < N → s.st f = .pending ∨ s.st f = d f
  futcbs : (s.heap N).cbs = []

/-- the helper task has not delivered yet; the coroutine stands at `k` -/
structure TLive (N : Nat) (c0 k : Coro) (s : State) : Prop where
  task : s.tasks 0 = .coro N k
  passed : Passed s.st c0 k
  fpend : s.st N = .pending
  unset : N ∉ s.sets

def TStart (N : Nat) (c0 : Coro) (s : State) : Prop :=
  TLive N c0 c0 s ∧ s.ready = [.start 0] ∧ ∀ g, g < N → (s.heap g).cbs = []

def TBlocked (N : Nat) (c0 : Coro) (s : State) : Prop :=
  ∃ f k, TLive N c0 k s ∧ k.awaiting f ∧ f < N ∧ s.st f = .pending ∧ (s.heap f).cbs = [.wake 0] ∧
    (∀ g, g < N → g ≠ f → (s.heap g).cbs = []) ∧ s.ready = []

def TWoken (N : Nat) (c0 : Coro) (s : State) : Prop :=
  ∃ f k, TLive N c0 k s ∧ f < N ∧ s.ready = [.call (.wake 0) f] ∧ ∀ g, g < N → (s.heap g).cbs = []

def TDone (N : Nat) (c0 : Coro) (s : State) : Prop :=
  (∃ x, s.tasks 0 = .finished x) ∧ s.ready = [] ∧ (∀ g, g < N → (s.heap g).cbs = []) ∧
    taskDet s.st c0 ∧ s.st N = taskRef s.st c0 ∧ (s.st N = .pending → N ∉ s.sets) ∧
    (s.st N ≠ .pending → s.sets.count N = 1)

theorem advanceCoro_suspend {s : State} {t fut : Nat} {c : Coro} {f k} (h : runCoro s.heap c = .suspend f k) :
    advanceCoro s t fut c = addDone (s.setTask t (.coro fut k)) f (.wake t) := by unfold advanceCoro; rw [h]

theorem advanceCoro_returned {s : State} {t fut : Nat} {c : Coro} {v} (h : runCoro s.heap c = .returned v) :
    advanceCoro s t fut c = taskSetResult s t fut v := by unfold advanceCoro; rw [h]

theorem advanceCoro_cancelled {s : State} {t fut : Nat} {c : Coro} (h : runCoro s.heap c = .raised .cancelledError) :
    advanceCoro s t fut c = (cancelFut s fut).setTask t (.finished none) := by unfold advanceCoro; rw [h]

theorem advanceCoro_raised {s : State} {t fut : Nat} {c : Coro} {e} (h : runCoro s.heap c = .raised e)
    (he : e ≠ .cancelledError) : advanceCoro s t fut c = taskSetExc s t fut e := by
  unfold advanceCoro; rw [h]; cases e <;> simp_all

/-- one run of the helper task -/
theorem advanceCoro_spec {N d c0 k s} (hb : TBase N d s) (hl : TLive N c0 k s) (hw0 : c0.wf N)
    (hcbs : ∀ g, g < N → (s.heap g).cbs = []) (hr : s.ready = []) :
    TBase N d (advanceCoro s 0 N k) ∧ (TBlocked N c0 (advanceCoro s 0 N k) ∨ TDone N c0 (advanceCoro s 0 N k)) := by
  have hwk : k.wf N := hl.passed.wf hw0
  have hkind : ∀ f, f < N → (s.heap f).kind = .aio := fun f hf => hb.kind f (by omega)
  have hspec := runCoro_spec s.heap N hkind k hwk
  have hdet := runCoro_det s.heap N hkind k hwk
  have hkN := hb.kind N (by omega)
  have hpN : (s.heap N).st = .pending := hl.fpend
  have hcN := hb.futcbs
  cases hrc : runCoro s.heap k with
  | suspend f k2 =>
    rw [advanceCoro_suspend hrc]
    rw [hrc] at hspec
    obtain ⟨hp, haw, hpf, hfN⟩ := hspec
    have hcf := hcbs f hfN
    simp only [addDone, State.setTask, hpf, if_true, hcf, List.nil_append, State.setCell]
    refine ⟨⟨hb.next, hb.errs, hb.fuel, hb.stack, ?_, ?_, ?_⟩, .inl ⟨f, k2, ⟨?_, ?_, ?_, hl.unset⟩, haw, hfN, ?_, ?_, ?_, hr⟩⟩ <;>
      (try simp only [State.st])
    · have := hb.kind; grind
    · have := hb.sts; simp only [State.st] at this; grind
    · have := hb.futcbs; grind
    · rfl
    · refine (hl.passed.trans hp).congr hw0 (fun g hg => ?_)
      simp only [State.st]; grind
    · have := hl.fpend; simp only [State.st] at this; grind
    · grind
    · grind
    · grind
  | returned v =>
    rw [advanceCoro_returned hrc]
    rw [hrc] at hspec hdet
    simp only at hspec hdet
    have hcong : ∀ s' : State, (∀ g, g < N → s'.st g = s.st g) →
        taskRef s'.st c0 = .result v ∧ taskDet s'.st c0 := by
      intro s' h
      have := taskRef_congr h c0 hw0
      exact ⟨by rw [this.1, hl.passed.taskRef_eq]; exact hspec, this.2 (hl.passed.det hdet)⟩
    simp only [taskSetResult, setOutcome_pending_aio s N _ hpN hkN, if_true, hcN, List.map_nil, List.append_nil, State.setTask]
    refine ⟨⟨hb.next, hb.errs, hb.fuel, hb.stack, ?_, ?_, ?_⟩, .inr ⟨⟨none, by simp⟩, hr, ?_,
      (hcong _ ?_).2, Eq.trans ?_ (hcong _ ?_).1.symm, ?_, ?_⟩⟩ <;>
      (try simp only [State.st])
    · have := hb.kind; grind
    · have := hb.sts; simp only [State.st] at this; grind
    · simp
    · grind
    · intro g hg; have : g ≠ N := by omega
      simp [this]
    · simp
    · intro g hg; have : g ≠ N := by omega
      simp [this]
    · simp
    · have := hl.unset; grind [List.count_eq_zero]
  | raised e =>
    rw [hrc] at hspec hdet
    simp only at hspec hdet
    have hcong : ∀ s' : State, (∀ g, g < N → s'.st g = s.st g) →
        taskRef s'.st c0 = raiseSt e ∧ taskDet s'.st c0 := by
      intro s' h
      have := taskRef_congr h c0 hw0
      exact ⟨by rw [this.1, hl.passed.taskRef_eq]; exact hspec.1, this.2 (hl.passed.det hdet)⟩
    by_cases hce : e = .cancelledError
    · subst hce
      rw [advanceCoro_cancelled hrc]
      simp only [cancelFut_pending_aio s N hpN hkN, hcN, List.map_nil, List.append_nil, State.setTask]
      refine ⟨⟨hb.next, hb.errs, hb.fuel, hb.stack, ?_, ?_, ?_⟩, .inr ⟨⟨none, by simp⟩, hr, ?_,
        (hcong _ ?_).2, Eq.trans ?_ (hcong _ ?_).1.symm, ?_, ?_⟩⟩ <;>
        (try simp only [State.st])
      · have := hb.kind; grind
      · have := hb.sts; simp only [State.st] at this; grind
      · simp
      · grind
      · intro g hg; have : g ≠ N := by omega
        simp [this]
      · simp [raiseSt]
      · intro g hg; have : g ≠ N := by omega
        simp [this]
      · simp
      · have := hl.unset; grind [List.count_eq_zero]
    · rw [advanceCoro_raised hrc hce]
      by_cases hex : e.isException = true
      · simp only [taskSetExc, hex, if_true, setOutcome_pending_aio s N _ hpN hkN, hcN, List.map_nil, List.append_nil,
          State.setTask]
        refine ⟨⟨hb.next, hb.errs, hb.fuel, hb.stack, ?_, ?_, ?_⟩, .inr ⟨⟨none, by simp⟩, hr, ?_,
          (hcong _ ?_).2, Eq.trans ?_ (hcong _ ?_).1.symm, ?_, ?_⟩⟩ <;>
          (try simp only [State.st])
        · have := hb.kind; grind
        · have := hb.sts; simp only [State.st] at this; grind
        · simp
        · grind
        · intro g hg; have : g ≠ N := by omega
          simp [this]
        · simp [raiseSt, hce, hex]
        · intro g hg; have : g ≠ N := by omega
          simp [this]
        · simp
        · have := hl.unset; grind [List.count_eq_zero]
      · simp only [taskSetExc, hex, State.setTask]
        refine ⟨⟨hb.next, hb.errs, hb.fuel, hb.stack, hb.kind, hb.sts, hb.futcbs⟩, .inr ⟨⟨some e, by simp⟩, hr, hcbs,
          (hcong _ ?_).2, Eq.trans ?_ (hcong _ ?_).1.symm, ?_, ?_⟩⟩ <;>
          (try simp only [State.st])
        · intro g hg; rfl
        · simp [raiseSt, hce, hex, hpN]
        · intro g hg; rfl
        · intro _; exact hl.unset
        · intro h; exact absurd hpN h

def TInv (N : Nat) (d : FId → St) (c0 : Coro) (s : State) : Prop :=
  TBase N d s ∧ (TStart N c0 s ∨ TBlocked N c0 s ∨ TWoken N c0 s ∨ TDone N c0 s)

theorem task_wrap {N d s} (c0 : Coro) (h : EPre N d s) :
    (createTask s c0).2 = N ∧ TInv N d c0 (createTask s c0).1 := by
  refine ⟨by simp [createTask, alloc, h.next], ?_⟩
  simp only [createTask, alloc, h.next, h.ntasks, h.ready, State.setTask, List.nil_append]
  refine ⟨⟨rfl, h.errs, h.fuel, h.stack, ?_, ?_, ?_⟩, .inl ⟨⟨?_, .refl _, ?_, ?_⟩, rfl, ?_⟩⟩ <;> (try simp only [State.st])
  · have := h.kind; grind
  · have := h.sts; simp only [State.st] at this; grind
  · simp
  · simp
  · simp
  · exact h.sets N (Nat.le_refl _)
  · have := h.cbs; grind

/-- how the heap changes when the environment completes `g < N` -/
theorem complete_frame {N d s} (hb : TBase N d s) (g : Nat) (hg : g < N) (hne : d g ≠ .pending) :
    let s' := (complete s g (d g)).1
    s'.next = s.next ∧ s'.errs = s.errs ∧ s'.fuelOut = s.fuelOut ∧ s'.stack = s.stack ∧ s'.tasks = s.tasks ∧
    s'.sets = g :: s.sets ∧ (∀ x, x ≠ g → s'.heap x = s.heap x) ∧
    (∀ x, s.st x ≠ .pending → s'.st x = s.st x) ∧ (s'.heap g).kind = .aio ∧ (s'.st g = .pending ∨ s'.st g = d g) ∧
    ((s.st g ≠ .pending ∧ s'.heap g = s.heap g ∧ s'.ready = s.ready) ∨
     (s.st g = .pending ∧ (s'.heap g).cbs = [] ∧ s'.st g = d g ∧
        s'.ready = s.ready ++ (s.heap g).cbs.map (fun cb => Ready.call cb g))) := by
  have hkg := hb.kind g (by omega)
  by_cases hp : (s.heap g).st = .pending
  · simp only [complete_pending_aio s g _ hne hp hkg, State.st]
    refine ⟨?_, ?_, ?_, ?_, ?_, ?_, ?_, ?_, ?_, ?_, .inr ⟨hp, ?_, ?_, ?_⟩⟩ <;> first | trivial | rfl | grind
  · simp only [complete_done_eq s g _ hne hp, State.st]
    have := hb.sts g hg
    simp only [State.st] at this
    refine ⟨?_, ?_, ?_, ?_, ?_, ?_, ?_, ?_, hkg, ?_, .inl ⟨hp, ?_, ?_⟩⟩ <;> first | trivial | rfl | grind

theorem task_complete {N d c0 s} (hw0 : c0.wf N) (hd : ∀ f, N ≤ f → d f = .pending) (h : TInv N d c0 s) (g : Nat) :
    TInv N d c0 (complete s g (d g)).1 := by
  by_cases hne : d g = .pending
  · simp only [hne, complete]; exact h
  have hg : g < N := Nat.lt_of_not_le fun hle => hne (hd g hle)
  obtain ⟨hb, hpos⟩ := h
  obtain ⟨f1, f2, f3, f4, f5, f6, f7, f8, f9, f10, f11⟩ := complete_frame hb g hg hne
  have hgN : N ≠ g := by omega
  have hbase : TBase N d (complete s g (d g)).1 := by
    refine ⟨by rw [f1]; exact hb.next, by rw [f2]; exact hb.errs, by rw [f3]; exact hb.fuel, by rw [f4]; exact hb.stack,
      ?_, ?_, by rw [f7 N hgN]; exact hb.futcbs⟩
    · intro x hx
      by_cases hxg : x = g
      · subst hxg; exact f9
      · rw [f7 x hxg]; exact hb.kind x hx
    · intro x hx
      by_cases hxg : x = g
      · subst hxg; exact f10
      · have := hb.sts x hx
        simp only [State.st] at this ⊢
        rw [f7 x hxg]; exact this
  have hlive : ∀ k, TLive N c0 k s → TLive N c0 k (complete s g (d g)).1 := by
    intro k hl
    refine ⟨by rw [f5]; exact hl.task, hl.passed.mono hw0 (fun x _ hx => f8 x hx), ?_, ?_⟩
    · simp only [State.st]; rw [f7 N hgN]; exact hl.fpend
    · rw [f6]; have := hl.unset; grind
  refine ⟨hbase, ?_⟩
  rcases hpos with ⟨hl, hr, hc⟩ | ⟨f, k, hl, haw, hfN, hpf, hcf, hco, hr⟩ | ⟨f, k, hl, hfN, hr, hc⟩ | ⟨ht, hr, hc, hdet, hst, hu1, hu2⟩
  · left
    refine ⟨hlive _ hl, ?_, ?_⟩
    · rcases f11 with ⟨_, _, h3⟩ | ⟨_, _, _, h4⟩
      · rw [h3]; exact hr
      · rw [h4, hc g hg]; simpa using hr
    · intro x hx
      by_cases hxg : x = g
      · subst hxg
        rcases f11 with ⟨_, h2, _⟩ | ⟨_, h2, _, _⟩
        · rw [h2]; exact hc x hx
        · exact h2
      · rw [f7 x hxg]; exact hc x hx
  · by_cases hgf : g = f
    · subst hgf
      right; right; left
      rcases f11 with ⟨h1, _, _⟩ | ⟨_, h2, _, h4⟩
      · exact absurd hpf h1
      · refine ⟨g, k, hlive _ hl, hfN, by rw [h4, hr, hcf]; rfl, ?_⟩
        intro x hx
        by_cases hxg : x = g
        · subst hxg; exact h2
        · rw [f7 x hxg]; exact hco x hx hxg
    · right; left
      have hcg := hco g hg hgf
      refine ⟨f, k, hlive _ hl, haw, hfN, ?_, ?_, ?_, ?_⟩
      · simp only [State.st]; rw [f7 f (Ne.symm hgf)]; exact hpf
      · rw [f7 f (Ne.symm hgf)]; exact hcf
      · intro x hx hxf
        by_cases hxg : x = g
        · subst hxg
          rcases f11 with ⟨_, h2, _⟩ | ⟨_, h2, _, _⟩
          · rw [h2]; exact hcg
          · exact h2
        · rw [f7 x hxg]; exact hco x hx hxf
      · rcases f11 with ⟨_, _, h3⟩ | ⟨_, _, _, h4⟩
        · rw [h3]; exact hr
        · rw [h4, hcg]; simpa using hr
  · right; right; left
    refine ⟨f, k, hlive _ hl, hfN, ?_, ?_⟩
    · rcases f11 with ⟨_, _, h3⟩ | ⟨_, _, _, h4⟩
      · rw [h3]; exact hr
      · rw [h4, hc g hg]; simpa using hr
    · intro x hx
      by_cases hxg : x = g
      · subst hxg
        rcases f11 with ⟨_, h2, _⟩ | ⟨_, h2, _, _⟩
        · rw [h2]; exact hc x hx
        · exact h2
      · rw [f7 x hxg]; exact hc x hx
  · right; right; right
    have hstab := taskRef_stable (st := s.st) (st' := (complete s g (d g)).1.st) (N := N) (fun x _ hx => f8 x hx) c0 hw0 hdet
    have hN : (complete s g (d g)).1.st N = s.st N := by simp only [State.st]; rw [f7 N hgN]
    refine ⟨by rw [f5]; exact ht, ?_, ?_, hstab.2, by rw [hN, hstab.1]; exact hst, ?_, ?_⟩
    · rcases f11 with ⟨_, _, h3⟩ | ⟨_, _, _, h4⟩
      · rw [h3]; exact hr
      · rw [h4, hc g hg]; simpa using hr
    · intro x hx
      by_cases hxg : x = g
      · subst hxg
        rcases f11 with ⟨_, h2, _⟩ | ⟨_, h2, _, _⟩
        · rw [h2]; exact hc x hx
        · exact h2
      · rw [f7 x hxg]; exact hc x hx
    · intro hp; rw [hN] at hp; rw [f6]; have := hu1 hp; grind
    · intro hp; rw [hN] at hp; rw [f6]; have := hu2 hp; grind
theorem TBase.ready_irrel {N d s} (hb : TBase N d s) (r : List Ready) : TBase N d { s with ready := r } :=
  ⟨hb.next, hb.errs, hb.fuel, hb.stack, hb.kind, hb.sts, hb.futcbs⟩

theorem TLive.ready_irrel {N c0 k s} (hl : TLive N c0 k s) (r : List Ready) : TLive N c0 k { s with ready := r } :=
  ⟨hl.task, hl.passed, hl.fpend, hl.unset⟩

theorem task_tick {N d c0 s} (hw0 : c0.wf N) (h : TInv N d c0 s) (fuel i : Nat) : TInv N d c0 (tick s fuel i) := by
  obtain ⟨hb, hpos⟩ := h
  rcases hpos with ⟨hl, hr, hc⟩ | ⟨f, k, hl, haw, hfN, hpf, hcf, hco, hr⟩ | ⟨f, k, hl, hfN, hr, hc⟩ | ⟨ht, hr, hc, hdet, hst, hu1, hu2⟩
  · cases i with
    | succ i => simp only [tick, hr, List.getElem?_cons_succ, List.getElem?_nil]; exact ⟨hb, .inl ⟨hl, hr, hc⟩⟩
    | zero =>
      simp only [tick, hr, List.getElem?_cons_zero, List.eraseIdx_cons_zero, runReady, advance]
      have hl' := hl.ready_irrel []
      rw [hl'.task]
      have hsp := advanceCoro_spec (hb.ready_irrel []) hl' hw0 hc rfl
      rw [runStack_nil _ _ hsp.1.stack]
      exact ⟨hsp.1, by rcases hsp.2 with h | h
                       · exact .inr (.inl h)
                       · exact .inr (.inr (.inr h))⟩
  · rw [tick_ready_nil _ _ _ hr]; exact ⟨hb, .inr (.inl ⟨f, k, hl, haw, hfN, hpf, hcf, hco, hr⟩)⟩
  · cases i with
    | succ i => simp only [tick, hr, List.getElem?_cons_succ, List.getElem?_nil]; exact ⟨hb, .inr (.inr (.inl ⟨f, k, hl, hfN, hr, hc⟩))⟩
    | zero =>
      simp only [tick, hr, List.getElem?_cons_zero, List.eraseIdx_cons_zero, runReady, invoke, advance]
      have hl' := hl.ready_irrel []
      rw [hl'.task]
      have hsp := advanceCoro_spec (hb.ready_irrel []) hl' hw0 hc rfl
      rw [runStack_nil _ _ hsp.1.stack]
      exact ⟨hsp.1, by rcases hsp.2 with h | h
                       · exact .inr (.inl h)
                       · exact .inr (.inr (.inr h))⟩
  · rw [tick_ready_nil _ _ _ hr]; exact ⟨hb, .inr (.inr (.inr ⟨ht, hr, hc, hdet, hst, hu1, hu2⟩))⟩

theorem task_envStep {N d c0 s} (hw0 : c0.wf N) (hd : ∀ f, N ≤ f → d f = .pending) (h : TInv N d c0 s) (fuel : Nat)
    (ev : Ev) : TInv N d c0 (envStep d fuel s ev) := by
  cases ev with
  | tick i => exact task_tick hw0 h fuel i
  | complete f =>
    have h' := task_complete hw0 hd h f
    simp only [envStep]
    rw [runStack_nil _ _ h'.1.stack]
    exact h'

theorem task_envRun {N d c0} (hw0 : c0.wf N) (hd : ∀ f, N ≤ f → d f = .pending) (fuel : Nat) (evs : List Ev) :
    ∀ s, TInv N d c0 s → TInv N d c0 (envRun d fuel s evs) := by
  induction evs with
  | nil => intro s h; exact h
  | cons ev evs ih => intro s h; exact ih _ (task_envStep hw0 hd h fuel ev)


theorem taskRef_awaiting {st : FId → St} {k : Coro} {f : Nat} (ha : k.awaiting f) (hp : st f = .pending) :
    taskRef st k = .pending := by
  cases k with
  | ret v => exact absurd ha (by simp [Coro.awaiting])
  | raise e => exact absurd ha (by simp [Coro.awaiting])
  | await g k => simp only [Coro.awaiting] at ha; subst ha; simp [taskRef, hp]
  | retAwait g => simp only [Coro.awaiting] at ha; subst ha; simp [taskRef, hp]

end Futures
