import PlumpyModel.Persister.Model
/-!
# Helper lemmas for C14: association lists, the file-name function, the three refinements
-/
namespace Persister

/-! ## Association lists -/
namespace AList
variable {κ : Type} {ν : Type} [DecidableEq κ]

theorem get?_set (l : List (κ × ν)) (k k' : κ) (v : ν) :
    get? (set l k v) k' = if k = k' then some v else get? l k' := by
  induction l with
  | nil => simp [set, get?]
  | cons e r ih =>
    obtain ⟨a, b⟩ := e
    by_cases h : a = k
    · subst h; by_cases h2 : a = k' <;> simp [set, get?, h2]
    · by_cases h2 : a = k'
      · subst h2
        have : ¬ k = a := fun e => h e.symm
        simp [set, get?, h, this]
      · simp [set, get?, h, h2, ih]

theorem get?_del (l : List (κ × ν)) (k k' : κ) :
    get? (del l k) k' = if k = k' then none else get? l k' := by
  induction l with
  | nil => simp [del, get?]
  | cons e r ih =>
    obtain ⟨a, b⟩ := e
    by_cases h : a = k
    · subst h
      by_cases h2 : a = k'
      · subst h2; simpa [del, get?] using ih
      · simp [del, get?, h2, ih]
    · by_cases h2 : a = k'
      · subst h2
        have : ¬ k = a := fun e => h e.symm
        simp [del, get?, h, this]
      · simp [del, get?, h, h2, ih]

theorem mem_keys_iff (l : List (κ × ν)) (k : κ) : k ∈ keys l ↔ (get? l k).isSome = true := by
  induction l with
  | nil => simp [keys, get?]
  | cons e r ih =>
    obtain ⟨a, b⟩ := e
    by_cases h : a = k
    · simp [keys, get?, h]
    · have h' : ¬ k = a := fun e => h e.symm
      simp only [keys, List.map_cons, List.mem_cons, get?, h, if_false, h', false_or]
      exact ih

theorem mem_of_get? {l : List (κ × ν)} {k : κ} {v : ν} (h : get? l k = some v) : (k, v) ∈ l := by
  induction l with
  | nil => simp [get?] at h
  | cons e r ih =>
    obtain ⟨a, b⟩ := e
    by_cases h2 : a = k
    · subst h2; simp [get?] at h; simp [h]
    · simp [get?, h2] at h; exact List.mem_cons_of_mem _ (ih h)

theorem get?_of_mem {l : List (κ × ν)} {k : κ} {v : ν} (hn : (keys l).Nodup) (h : (k, v) ∈ l) : get? l k = some v := by
  induction l with
  | nil => simp at h
  | cons e r ih =>
    obtain ⟨a, b⟩ := e
    simp only [keys, List.map_cons, List.nodup_cons] at hn
    rcases List.mem_cons.1 h with h | h
    · cases h; simp [get?]
    · have : a ≠ k := by
        intro e; subst e
        exact hn.1 (List.mem_map.2 ⟨(a, v), h, rfl⟩)
      simp [get?, this]; exact ih hn.2 h

theorem keys_del (l : List (κ × ν)) (k : κ) : keys (del l k) = (keys l).filter (fun a => !decide (a = k)) := by
  induction l with
  | nil => simp [del, keys]
  | cons e r ih =>
    obtain ⟨a, b⟩ := e
    simp only [keys] at ih
    by_cases h : a = k <;> simp [del, keys, h, ih]

theorem nodup_keys_del {l : List (κ × ν)} (k : κ) (h : (keys l).Nodup) : (keys (del l k)).Nodup := by
  rw [keys_del]; exact h.filter _

theorem mem_keys_set (l : List (κ × ν)) (k k' : κ) (v : ν) : k' ∈ keys (set l k v) ↔ k' = k ∨ k' ∈ keys l := by
  rw [mem_keys_iff, mem_keys_iff, get?_set]
  by_cases h : k = k'
  · simp [h]
  · have : ¬ k' = k := fun e => h e.symm
    simp [h, this]

theorem nodup_keys_set {l : List (κ × ν)} (k : κ) (v : ν) (h : (keys l).Nodup) : (keys (set l k v)).Nodup := by
  induction l with
  | nil => simp [set, keys]
  | cons e r ih =>
    obtain ⟨a, b⟩ := e
    simp only [keys, List.map_cons, List.nodup_cons] at h
    by_cases h2 : a = k
    · subst h2; simpa [set, keys] using h
    · simp only [set, h2, if_false, keys, List.map_cons, List.nodup_cons]
      refine ⟨?_, ih h.2⟩
      intro hm
      have := (mem_keys_set r k a v).1 hm
      rcases this with e | e
      · exact h2 e
      · exact h.1 e

/-- membership in a dictionary after an assignment -/
theorem mem_set {l : List (κ × ν)} {k : κ} {v : ν} {e : κ × ν} (h : e ∈ set l k v) : e = (k, v) ∨ e ∈ l := by
  induction l with
  | nil => simp [set] at h; exact Or.inl h
  | cons x r ih =>
    obtain ⟨a, b⟩ := x
    by_cases h2 : a = k
    · subst h2
      simp only [set, if_true, List.mem_cons] at h
      rcases h with h | h
      · exact Or.inl h
      · exact Or.inr (List.mem_cons_of_mem _ h)
    · simp only [set, h2, if_false, List.mem_cons] at h
      rcases h with h | h
      · exact Or.inr (by simp [h])
      · rcases ih h with h | h
        · exact Or.inl h
        · exact Or.inr (List.mem_cons_of_mem _ h)

theorem mem_del {l : List (κ × ν)} {k : κ} {e : κ × ν} (h : e ∈ del l k) : e ∈ l := by
  induction l with
  | nil => simp [del] at h
  | cons x r ih =>
    obtain ⟨a, b⟩ := x
    by_cases h2 : a = k
    · simp only [del, h2, if_true] at h; exact List.mem_cons_of_mem _ (ih h)
    · simp only [del, h2, if_false, List.mem_cons] at h
      rcases h with h | h
      · simp [h]
      · exact List.mem_cons_of_mem _ (ih h)

end AList
open AList

/-! ## The file-name function -/

theorem pickleFilename_tagged (p : Pid) (t : Ident) :
    (pickleFilename p (some t)).toList = p.repr.toList ++ '.' :: (t.repr.toList ++ '.' :: Gen.pickleSuffix.toList) := by
  simp [pickleFilename, render, Gen.pickleNameTagged, String.toList_append]

theorem pickleFilename_untagged (p : Pid) :
    (pickleFilename p none).toList = p.repr.toList ++ '.' :: Gen.pickleSuffix.toList := by
  simp [pickleFilename, render, Gen.pickleNameUntagged, String.toList_append]

theorem suffix_dotfree : '.' ∉ Gen.pickleSuffix.toList := by decide

theorem sepFree_dot {s : String} (h : sepFree s = true) : '.' ∉ s.toList := by
  intro hm
  simp only [sepFree, List.all_eq_true] at h
  have := h _ hm
  simp [separators] at this

theorem app_dot {a b c d : List Char} (ha : '.' ∉ a) (hc : '.' ∉ c) (h : a ++ '.' :: b = c ++ '.' :: d) : a = c ∧ b = d := by
  induction a generalizing c with
  | nil => cases c with
    | nil => simpa using h
    | cons x xs => simp at h hc; exact absurd h.1 hc.1
  | cons x xs ih => cases c with
    | nil => simp at h ha; exact absurd h.1.symm ha.1
    | cons y ys =>
      simp at h ha hc
      have := ih ha.2 hc.2 h.2
      simp [h.1, this]

theorem wfId_iff {K : Kind} {i : Ident} : wfId K i = true ↔ i.kind = K ∧ sepFree i.repr = true := by
  simp [wfId]

theorem ident_ext {i j : Ident} (hk : i.kind = j.kind) (hr : i.repr.toList = j.repr.toList) : i = j := by
  cases i; cases j; simp at hk hr; simp [hk, String.toList_inj.1 hr]

/-- the file name determines the key, for separator-free ids of one kind -/
theorem filename_injective {K : Kind} {k k' : Key} (h : wfKey K k = true) (h' : wfKey K k' = true)
    (e : pickleFilename k.1 k.2 = pickleFilename k'.1 k'.2) : k = k' := by
  obtain ⟨p, t⟩ := k
  obtain ⟨p', t'⟩ := k'
  simp only [wfKey, Bool.and_eq_true] at h h'
  have hp := wfId_iff.1 h.1
  have hp' := wfId_iff.1 h'.1
  have e' := congrArg String.toList e
  cases t with
  | none =>
    cases t' with
    | none =>
      simp only [pickleFilename_untagged] at e'
      have := app_dot (sepFree_dot hp.2) (sepFree_dot hp'.2) e'
      rw [ident_ext (hp.1.trans hp'.1.symm) this.1]
    | some u' =>
      exfalso
      simp only [pickleFilename_untagged, pickleFilename_tagged] at e'
      have := (app_dot (sepFree_dot hp.2) (sepFree_dot hp'.2) e').2
      exact suffix_dotfree (by rw [this]; simp)
  | some u =>
    have hu := wfId_iff.1 (by simpa [wfTag] using h.2 : wfId K u = true)
    cases t' with
    | none =>
      exfalso
      simp only [pickleFilename_untagged, pickleFilename_tagged] at e'
      have := (app_dot (sepFree_dot hp.2) (sepFree_dot hp'.2) e').2
      exact suffix_dotfree (by rw [← this]; simp)
    | some u' =>
      have hu' := wfId_iff.1 (by simpa [wfTag] using h'.2 : wfId K u' = true)
      simp only [pickleFilename_tagged] at e'
      have h1 := app_dot (sepFree_dot hp.2) (sepFree_dot hp'.2) e'
      have h2 := app_dot (sepFree_dot hu.2) (sepFree_dot hu'.2) h1.2
      rw [ident_ext (hp.1.trans hp'.1.symm) h1.1, ident_ext (hu.1.trans hu'.1.symm) h2.1]

theorem matchesPattern_filename (p : Pid) (t : Tag) : matchesPattern (pickleFilename p t) = true := by
  simp only [matchesPattern, List.isSuffixOf_iff_suffix]
  cases t with
  | none => exact ⟨p.repr.toList, by simp [pickleFilename_untagged, String.toList_append]⟩
  | some u => exact ⟨p.repr.toList ++ '.' :: u.repr.toList, by simp [pickleFilename_tagged, String.toList_append]⟩

/-! ## `InMemoryPersister` refines the specification -/

/-- abstraction function of the in-memory persister -/
def absMem (m : InMem) : Spec := fun k => (get? m k.1).bind (fun inner => get? inner k.2)

/-- the dictionaries of the in-memory persister have unique keys -/
structure Mem.Inv (m : InMem) : Prop where
  outer : (keys m).Nodup
  inner : ∀ e ∈ m, (keys e.2).Nodup

theorem Mem.inv_init : Mem.Inv [] := ⟨by simp [keys], by simp⟩

theorem Mem.abs_save (m : InMem) (p : Pid) (t : Tag) (v : Snap) :
    absMem (Mem.save m p t v) = (absMem m).save (p, t) v := by
  funext k
  obtain ⟨p', t'⟩ := k
  simp only [absMem, Mem.save, Spec.save]
  cases hm : get? m p with
  | none =>
    simp only [get?_set]
    by_cases h1 : p = p'
    · subst h1
      by_cases h2 : t = t'
      · subst h2; simp [get?_set]
      · have : ¬ ((p, t') = (p, t)) := by simp; exact fun e => h2 e.symm
        simp [get?_set, h2, this, hm, get?]
    · have : ¬ ((p', t') = (p, t)) := by simp; exact fun e _ => h1 e.symm
      simp [h1, this]
  | some inner =>
    simp only [get?_set]
    by_cases h1 : p = p'
    · subst h1
      by_cases h2 : t = t'
      · subst h2; simp [get?_set]
      · have : ¬ ((p, t') = (p, t)) := by simp; exact fun e => h2 e.symm
        simp [get?_set, h2, this, hm]
    · have : ¬ ((p', t') = (p, t)) := by simp; exact fun e _ => h1 e.symm
      simp [h1, this]

theorem Mem.load_eq (m : InMem) (p : Pid) (t : Tag) : Mem.load m p t = (absMem m).load (p, t) := by
  simp only [Mem.load, Spec.load, absMem]
  cases get? m p with
  | none => simp
  | some inner =>
    simp only [Option.bind_some]
    cases get? inner t <;> rfl

theorem Mem.abs_del (m : InMem) (p : Pid) (t : Tag) :
    absMem (Mem.deleteCheckpoint m p t) = (absMem m).del (p, t) := by
  funext k
  obtain ⟨p', t'⟩ := k
  simp only [absMem, Mem.deleteCheckpoint, Spec.del]
  cases hm : get? m p with
  | none =>
    by_cases h1 : p = p'
    · subst h1; simp [hm]
    · have : ¬ ((p', t') = (p, t)) := by simp; exact fun e _ => h1 e.symm
      simp [this]
  | some inner =>
    dsimp only
    cases hi : get? inner t with
    | none =>
      dsimp only
      by_cases h : (p', t') = (p, t)
      · cases h; simp [hm, hi]
      · simp [h]
    | some v =>
      dsimp only
      simp only [get?_set]
      by_cases h1 : p = p'
      · subst h1
        by_cases h2 : t = t'
        · subst h2; simp [get?_del]
        · have : ¬ ((p, t') = (p, t)) := by simp; exact fun e => h2 e.symm
          simp [get?_del, h2, this, hm]
      · have : ¬ ((p', t') = (p, t)) := by simp; exact fun e _ => h1 e.symm
        simp [h1, this]

theorem Mem.abs_delp (m : InMem) (p : Pid) :
    absMem (Mem.deleteProcessCheckpoints m p) = (absMem m).delp p := by
  funext k
  obtain ⟨p', t'⟩ := k
  simp only [absMem, Mem.deleteProcessCheckpoints, Spec.delp]
  cases hm : get? m p with
  | none =>
    by_cases h1 : p' = p
    · subst h1; simp [hm]
    · simp [h1]
  | some inner =>
    simp only [get?_del]
    by_cases h1 : p = p'
    · subst h1; simp
    · have : ¬ p' = p := fun e => h1 e.symm
      simp [h1, this]

theorem Mem.inv_set {m : InMem} (h : Mem.Inv m) (p : Pid) (inner : Inner) (hi : (keys inner).Nodup) :
    Mem.Inv (AList.set m p inner) := by
  refine ⟨nodup_keys_set _ _ h.outer, ?_⟩
  intro e he
  rcases mem_set he with he | he
  · subst he; exact hi
  · exact h.inner e he

theorem Mem.inv_save {m : InMem} (h : Mem.Inv m) (p : Pid) (t : Tag) (v : Snap) : Mem.Inv (Mem.save m p t v) := by
  unfold Mem.save
  cases hm : get? m p with
  | none => exact Mem.inv_set h _ _ (nodup_keys_set _ _ (by simp [keys]))
  | some inner => exact Mem.inv_set h _ _ (nodup_keys_set _ _ (h.inner _ (mem_of_get? hm)))

theorem Mem.inv_del {m : InMem} (h : Mem.Inv m) (p : Pid) (t : Tag) : Mem.Inv (Mem.deleteCheckpoint m p t) := by
  unfold Mem.deleteCheckpoint
  cases hm : get? m p with
  | none => exact h
  | some inner =>
    dsimp only
    cases hi : get? inner t with
    | none => exact h
    | some v => exact Mem.inv_set h _ _ (nodup_keys_del _ (h.inner _ (mem_of_get? hm)))

theorem Mem.inv_delp {m : InMem} (h : Mem.Inv m) (p : Pid) : Mem.Inv (Mem.deleteProcessCheckpoints m p) := by
  unfold Mem.deleteProcessCheckpoints
  cases hm : get? m p with
  | none => exact h
  | some inner => exact ⟨nodup_keys_del _ h.outer, fun e he => h.inner e (mem_del he)⟩

theorem Mem.mem_listp (m : InMem) (p : Pid) (k : Key) :
    k ∈ Mem.getProcessCheckpoints m p ↔ (k.1 = p ∧ (absMem m k).isSome = true) := by
  obtain ⟨p', t'⟩ := k
  simp only [Mem.getProcessCheckpoints, absMem]
  cases hm : get? m p with
  | none =>
    simp only [List.not_mem_nil, false_iff, not_and]
    intro e; subst e; simp [hm]
  | some inner =>
    simp only [List.mem_map, Prod.mk.injEq]
    constructor
    · rintro ⟨t, ht, rfl, rfl⟩
      simp [hm, ← mem_keys_iff, ht]
    · rintro ⟨rfl, h⟩
      simp only [hm, Option.bind_some, ← mem_keys_iff] at h
      exact ⟨t', h, rfl, rfl⟩

theorem Mem.nodup_listp {m : InMem} (h : Mem.Inv m) (p : Pid) : (Mem.getProcessCheckpoints m p).Nodup := by
  simp only [Mem.getProcessCheckpoints]
  cases hm : get? m p with
  | none => simp
  | some inner =>
    have := h.inner _ (mem_of_get? hm)
    exact List.Pairwise.map _ (fun a b hab e => hab (by simpa using e)) this

theorem nodup_flatMap_fst {α β : Type} (f : α → List (α × β)) (l : List α) (hl : l.Nodup)
    (hf : ∀ a ∈ l, (f a).Nodup) (hfst : ∀ a, ∀ k ∈ f a, k.1 = a) : (l.flatMap f).Nodup := by
  induction l with
  | nil => simp
  | cons a r ih =>
    simp only [List.nodup_cons] at hl
    simp only [List.flatMap_cons, List.nodup_append]
    refine ⟨hf a (by simp), ih hl.2 (fun b hb => hf b (List.mem_cons_of_mem _ hb)), ?_⟩
    intro x hx y hy e
    subst e
    obtain ⟨b, hb, hyb⟩ := List.mem_flatMap.1 hy
    have h1 := hfst a x hx
    have h2 := hfst b x hyb
    rw [h1] at h2; subst h2
    exact hl.1 hb

theorem Mem.lists {m : InMem} (h : Mem.Inv m) : (absMem m).Lists (Mem.getCheckpoints m) := by
  refine ⟨?_, ?_⟩
  · exact nodup_flatMap_fst _ _ h.outer (fun a _ => Mem.nodup_listp h a)
      (fun a k hk => ((Mem.mem_listp m a k).1 hk).1)
  · intro k
    simp only [Mem.getCheckpoints, List.mem_flatMap, Mem.mem_listp]
    constructor
    · rintro ⟨a, _, _, h2⟩; exact h2
    · intro h2
      refine ⟨k.1, ?_, rfl, h2⟩
      rw [mem_keys_iff]
      simp only [absMem] at h2
      cases hg : get? m k.1 with
      | none => simp [hg] at h2
      | some _ => simp

theorem Mem.listsP {m : InMem} (h : Mem.Inv m) (p : Pid) : (absMem m).ListsP p (Mem.getProcessCheckpoints m p) :=
  ⟨Mem.nodup_listp h p, Mem.mem_listp m p⟩
/-! ## `PicklePersister` refines the specification (for separator-free ids of one kind) -/

/-- abstraction function of the pickle persister: the bundle in the file named after the key -/
def absPkl (d : Dir) : Spec := fun k => (get? d (pickleFilename k.1 k.2)).map (·.2)

structure Pkl.Inv (K : Kind) (d : Dir) : Prop where
  names : (keys d).Nodup
  entry : ∀ e ∈ d, e.1 = pickleFilename e.2.1.1 e.2.1.2 ∧ wfKey K e.2.1 = true

theorem Pkl.inv_init (K : Kind) : Pkl.Inv K [] := ⟨by simp [keys], by simp⟩

theorem Pkl.load_eq (d : Dir) (p : Pid) (t : Tag) : Pkl.load d p t = (absPkl d).load (p, t) := by
  simp only [Pkl.load, Spec.load, absPkl]
  cases get? d (pickleFilename p t) <;> rfl

theorem Pkl.abs_save {K : Kind} (d : Dir) (p : Pid) (t : Tag) (v : Snap) (hk : wfKey K (p, t) = true)
    (k : Key) (hk' : wfKey K k = true) : absPkl (Pkl.save d p t v) k = (absPkl d).save (p, t) v k := by
  simp only [absPkl, Pkl.save, Spec.save, get?_set]
  by_cases h : k = (p, t)
  · subst h; simp
  · have : ¬ pickleFilename p t = pickleFilename k.1 k.2 := fun e => h (filename_injective hk hk' e).symm
    simp [h, this]

theorem Pkl.abs_del {K : Kind} (d : Dir) (p : Pid) (t : Tag) (hk : wfKey K (p, t) = true)
    (k : Key) (hk' : wfKey K k = true) : absPkl (Pkl.deleteCheckpoint d p t) k = (absPkl d).del (p, t) k := by
  simp only [absPkl, Pkl.deleteCheckpoint, Spec.del, get?_del]
  by_cases h : k = (p, t)
  · subst h; simp
  · have : ¬ pickleFilename p t = pickleFilename k.1 k.2 := fun e => h (filename_injective hk hk' e).symm
    simp [h, this]

theorem Pkl.inv_save {K : Kind} {d : Dir} (h : Pkl.Inv K d) (p : Pid) (t : Tag) (v : Snap) (hk : wfKey K (p, t) = true) :
    Pkl.Inv K (Pkl.save d p t v) := by
  refine ⟨nodup_keys_set _ _ h.names, ?_⟩
  intro e he
  rcases mem_set he with he | he
  · subst he; exact ⟨rfl, hk⟩
  · exact h.entry e he

theorem Pkl.inv_del {K : Kind} {d : Dir} (h : Pkl.Inv K d) (p : Pid) (t : Tag) : Pkl.Inv K (Pkl.deleteCheckpoint d p t) :=
  ⟨nodup_keys_del _ h.names, fun e he => h.entry e (mem_del he)⟩

/-- under the invariant a key is listed iff its file exists -/
theorem Pkl.mem_list {K : Kind} {d : Dir} (h : Pkl.Inv K d) (k : Key) :
    k ∈ Pkl.getCheckpoints d ↔ (wfKey K k = true ∧ (absPkl d k).isSome = true) := by
  simp only [Pkl.getCheckpoints, List.mem_map, List.mem_filter, absPkl]
  constructor
  · rintro ⟨e, ⟨he, _⟩, rfl⟩
    obtain ⟨name, ck, v⟩ := e
    have := h.entry _ he
    simp only at this
    refine ⟨this.2, ?_⟩
    rw [← this.1, get?_of_mem h.names he]; rfl
  · rintro ⟨hw, hs⟩
    cases hg : get? d (pickleFilename k.1 k.2) with
    | none => simp [hg] at hs
    | some f =>
      have hm := mem_of_get? hg
      have := h.entry _ hm
      simp only at this
      have hk : k = f.1 := filename_injective hw this.2 this.1
      exact ⟨_, ⟨hm, matchesPattern_filename _ _⟩, hk.symm⟩

theorem Pkl.nodup_list {K : Kind} {d : Dir} (h : Pkl.Inv K d) : (Pkl.getCheckpoints d).Nodup := by
  simp only [Pkl.getCheckpoints]
  have h1 : (d.filter (fun e => matchesPattern e.1)).Pairwise (fun a b => a.1 ≠ b.1) :=
    List.Pairwise.filter _ (List.pairwise_map.1 h.names)
  refine List.pairwise_map.2 (List.Pairwise.imp_of_mem ?_ h1)
  intro a b ha hb hab e
  have ea := (h.entry a (List.mem_filter.1 ha).1).1
  have eb := (h.entry b (List.mem_filter.1 hb).1).1
  exact hab (by rw [ea, eb, e])

theorem Pkl.mem_listp {K : Kind} {d : Dir} (h : Pkl.Inv K d) (p : Pid) (k : Key) :
    k ∈ Pkl.getProcessCheckpoints d p ↔ (k.1 = p ∧ wfKey K k = true ∧ (absPkl d k).isSome = true) := by
  simp only [Pkl.getProcessCheckpoints, List.mem_filter, Pkl.mem_list h, decide_eq_true_eq]
  constructor
  · rintro ⟨a, b⟩; exact ⟨b, a⟩
  · rintro ⟨a, b⟩; exact ⟨b, a⟩

theorem Pkl.foldl_del {K : Kind} (L : List Key) (hL : ∀ c ∈ L, wfKey K c = true) (d : Dir) (h : Pkl.Inv K d) :
    Pkl.Inv K (L.foldl (fun d c => Pkl.deleteCheckpoint d c.1 c.2) d) ∧
    ∀ k, wfKey K k = true →
      absPkl (L.foldl (fun d c => Pkl.deleteCheckpoint d c.1 c.2) d) k = if k ∈ L then none else absPkl d k := by
  induction L generalizing d with
  | nil => exact ⟨h, by simp⟩
  | cons c r ih =>
    have hc := hL c (by simp)
    obtain ⟨i1, i2⟩ := ih (fun x hx => hL x (List.mem_cons_of_mem _ hx)) (Pkl.deleteCheckpoint d c.1 c.2) (Pkl.inv_del h _ _)
    refine ⟨i1, ?_⟩
    intro k hk
    simp only [List.foldl_cons, i2 k hk, Pkl.abs_del d c.1 c.2 hc k hk, Spec.del, List.mem_cons]
    by_cases h1 : k ∈ r
    · simp [h1]
    · by_cases h2 : k = c <;> simp [h1, h2]

theorem Pkl.inv_delp {K : Kind} {d : Dir} (h : Pkl.Inv K d) (p : Pid) : Pkl.Inv K (Pkl.deleteProcessCheckpoints d p) :=
  (Pkl.foldl_del _ (fun c hc => ((Pkl.mem_listp h p c).1 hc).2.1) d h).1

theorem Pkl.abs_delp {K : Kind} {d : Dir} (h : Pkl.Inv K d) (p : Pid) (k : Key) (hk : wfKey K k = true) :
    absPkl (Pkl.deleteProcessCheckpoints d p) k = (absPkl d).delp p k := by
  have := (Pkl.foldl_del _ (fun c hc => ((Pkl.mem_listp h p c).1 hc).2.1) d h).2 k hk
  simp only [Pkl.deleteProcessCheckpoints, this, Pkl.mem_listp h, Spec.delp, hk, true_and]
  by_cases h1 : k.1 = p
  · cases hs : absPkl d k <;> simp [h1]
  · simp [h1]

/-! ## The flat dictionary presentation of the specification -/

def absFlat (f : Flat) : Spec := fun k => get? f k

theorem Flat.abs_save (f : Flat) (p : Pid) (t : Tag) (v : Snap) : absFlat (Flat.save f p t v) = (absFlat f).save (p, t) v := by
  funext k
  simp only [absFlat, Flat.save, Spec.save, get?_set]
  by_cases h : k = (p, t)
  · subst h; simp
  · have : ¬ (p, t) = k := fun e => h e.symm
    simp [h, this]

theorem Flat.load_eq (f : Flat) (p : Pid) (t : Tag) : Flat.load f p t = (absFlat f).load (p, t) := by
  simp only [Flat.load, Spec.load, absFlat]

theorem Flat.abs_del (f : Flat) (p : Pid) (t : Tag) : absFlat (Flat.deleteCheckpoint f p t) = (absFlat f).del (p, t) := by
  funext k
  simp only [absFlat, Flat.deleteCheckpoint, Spec.del, get?_del]
  by_cases h : k = (p, t)
  · subst h; simp
  · have : ¬ (p, t) = k := fun e => h e.symm
    simp [h, this]

theorem Flat.abs_delp (f : Flat) (p : Pid) : absFlat (Flat.deleteProcessCheckpoints f p) = (absFlat f).delp p := by
  funext k
  simp only [absFlat, Flat.deleteProcessCheckpoints, Spec.delp]
  induction f with
  | nil => simp [get?]
  | cons e r ih =>
    obtain ⟨a, b⟩ := e
    simp only [ne_eq, decide_not] at ih
    by_cases h1 : a.1 = p
    · by_cases h2 : a = k
      · subst h2; simp [List.filter, h1, ih]
      · simp [List.filter, h1, ih, get?, h2]
    · by_cases h2 : a = k
      · subst h2; simp [List.filter, h1, get?]
      · simp [List.filter, h1, ih, get?, h2]

theorem Flat.nodup_delp {f : Flat} (h : (keys f).Nodup) (p : Pid) : (keys (Flat.deleteProcessCheckpoints f p)).Nodup := by
  simp only [Flat.deleteProcessCheckpoints, keys] at *
  exact List.pairwise_map.2 (List.Pairwise.filter _ (List.pairwise_map.1 h))

theorem Flat.lists {f : Flat} (h : (keys f).Nodup) : (absFlat f).Lists (Flat.getCheckpoints f) :=
  ⟨h, fun k => mem_keys_iff f k⟩

theorem Flat.listsP {f : Flat} (h : (keys f).Nodup) (p : Pid) : (absFlat f).ListsP p (Flat.getProcessCheckpoints f p) := by
  refine ⟨List.Pairwise.filter _ h, fun k => ?_⟩
  simp only [Flat.getProcessCheckpoints, List.mem_filter, decide_eq_true_eq, mem_keys_iff, absFlat]
  exact ⟨fun ⟨a, b⟩ => ⟨b, a⟩, fun ⟨a, b⟩ => ⟨b, a⟩⟩

/-! ## Refinement along a history -/

/-- `I` refines the specification through the relation `R` for the operations satisfying `ok` -/
structure Refines {σ : Type} (I : Impl σ) (ok : Op → Prop) (R : σ → Spec → Prop) : Prop where
  init : R I.init Spec.empty
  step : ∀ (c : Cur) (x : σ) (s : Spec) (op : Op), ok op → R x s → R (stepSt I c x op) (specStep c s op)
  res : ∀ (x : σ) (s : Spec) (op : Op), ok op → R x s → ResOk s op (stepRes I x op)

theorem Refines.run {σ : Type} {I : Impl σ} {ok : Op → Prop} {R : σ → Spec → Prop} (h : Refines I ok R)
    (ops : List Op) (hok : ∀ op ∈ ops, ok op) (c : Cur) (x : σ) (s : Spec) (hR : R x s) :
    R (runSt I c x ops) (specRun c s ops) ∧ Conforms c s ops (runRes I c x ops) := by
  induction ops generalizing c x s with
  | nil => exact ⟨hR, trivial⟩
  | cons op ops ih =>
    have h1 := hok op (by simp)
    have := ih (fun o ho => hok o (List.mem_cons_of_mem _ ho)) (stepCur c op) _ _ (h.step c x s op h1 hR)
    exact ⟨this.1, h.res x s op h1 hR, this.2⟩

def RefM (m : InMem) (s : Spec) : Prop := Mem.Inv m ∧ absMem m = s

theorem mem_refines : Refines memImpl (fun _ => True) RefM where
  init := ⟨Mem.inv_init, by funext k; simp [absMem, memImpl, Spec.empty, get?]⟩
  step := by
    rintro c m s op - ⟨hi, rfl⟩
    cases op with
    | save p t => exact ⟨Mem.inv_save hi .., Mem.abs_save ..⟩
    | del p t => exact ⟨Mem.inv_del hi .., Mem.abs_del ..⟩
    | delp p => exact ⟨Mem.inv_delp hi .., Mem.abs_delp ..⟩
    | _ => exact ⟨hi, rfl⟩
  res := by
    rintro m s op - ⟨hi, rfl⟩
    cases op with
    | load p t => exact Mem.load_eq ..
    | list => exact Mem.lists hi
    | listp p => exact Mem.listsP hi p
    | _ => trivial

def RefF (f : Flat) (s : Spec) : Prop := (keys f).Nodup ∧ absFlat f = s

theorem flat_refines : Refines flatImpl (fun _ => True) RefF where
  init := ⟨by simp [flatImpl, keys], by funext k; simp [absFlat, flatImpl, Spec.empty, get?]⟩
  step := by
    rintro c m s op - ⟨hi, rfl⟩
    cases op with
    | save p t => exact ⟨nodup_keys_set _ _ hi, Flat.abs_save ..⟩
    | del p t => exact ⟨nodup_keys_del _ hi, Flat.abs_del ..⟩
    | delp p => exact ⟨Flat.nodup_delp hi _, Flat.abs_delp ..⟩
    | _ => exact ⟨hi, rfl⟩
  res := by
    rintro m s op - ⟨hi, rfl⟩
    cases op with
    | load p t => exact Flat.load_eq ..
    | list => exact Flat.lists hi
    | listp p => exact Flat.listsP hi p
    | _ => trivial

/-- the pickle directory represents `s`: on well-formed keys, and `s` stores nothing else -/
structure RefP (K : Kind) (d : Dir) (s : Spec) : Prop where
  inv : Pkl.Inv K d
  abs : ∀ k, wfKey K k = true → absPkl d k = s k
  dom : ∀ k, (s k).isSome = true → wfKey K k = true

theorem pkl_refines (K : Kind) : Refines pklImpl (fun op => wfOp K op = true) (RefP K) where
  init := ⟨Pkl.inv_init K, by intro k _; simp [absPkl, pklImpl, Spec.empty, get?], by simp [Spec.empty]⟩
  step := by
    intro c d s op hop h
    cases op with
    | save p t =>
      have hk : wfKey K (p, t) = true := hop
      refine ⟨Pkl.inv_save h.inv _ _ _ hk, fun k hk' => ?_, fun k hs => ?_⟩
      · show absPkl (Pkl.save d p t (c p)) k = _
        rw [Pkl.abs_save d p t _ hk k hk']
        simp only [specStep, Spec.save, h.abs k hk']
      · simp only [specStep, Spec.save] at hs
        by_cases e : k = (p, t)
        · rw [e]; exact hk
        · simp only [e, if_false] at hs; exact h.dom k hs
    | del p t =>
      have hk : wfKey K (p, t) = true := hop
      refine ⟨Pkl.inv_del h.inv _ _, fun k hk' => ?_, fun k hs => ?_⟩
      · show absPkl (Pkl.deleteCheckpoint d p t) k = _
        rw [Pkl.abs_del d p t hk k hk']
        simp only [specStep, Spec.del, h.abs k hk']
      · simp only [specStep, Spec.del] at hs
        by_cases e : k = (p, t)
        · simp [e] at hs
        · simp only [e, if_false] at hs; exact h.dom k hs
    | delp p =>
      refine ⟨Pkl.inv_delp h.inv _, fun k hk' => ?_, fun k hs => ?_⟩
      · show absPkl (Pkl.deleteProcessCheckpoints d p) k = _
        rw [Pkl.abs_delp h.inv p k hk']
        simp only [specStep, Spec.delp, h.abs k hk']
      · simp only [specStep, Spec.delp] at hs
        by_cases e : k.1 = p
        · simp [e] at hs
        · simp only [e, if_false] at hs; exact h.dom k hs
    | _ => exact h
  res := by
    intro d s op hop h
    cases op with
    | load p t =>
      have hk : wfKey K (p, t) = true := hop
      show Pkl.load d p t = s.load (p, t)
      rw [Pkl.load_eq]; simp only [Spec.load, h.abs _ hk]
    | list =>
      refine ⟨Pkl.nodup_list h.inv, fun k => ?_⟩
      show k ∈ Pkl.getCheckpoints d ↔ _
      rw [Pkl.mem_list h.inv]
      constructor
      · rintro ⟨hw, hs⟩; rwa [← h.abs k hw]
      · intro hs; have hw := h.dom k hs; exact ⟨hw, by rwa [h.abs k hw]⟩
    | listp p =>
      refine ⟨List.Pairwise.filter _ (Pkl.nodup_list h.inv), fun k => ?_⟩
      show k ∈ Pkl.getProcessCheckpoints d p ↔ _
      rw [Pkl.mem_listp h.inv]
      constructor
      · rintro ⟨hp, hw, hs⟩; exact ⟨hp, by rwa [← h.abs k hw]⟩
      · rintro ⟨hp, hs⟩; have hw := h.dom k hs; exact ⟨hp, hw, by rwa [h.abs k hw]⟩
    | _ => trivial
/-! ## Facts about the specification -/

theorem Spec.Lists.perm {s : Spec} {l l' : List Key} (h : s.Lists l) (h' : s.Lists l') : l.Perm l' :=
  (List.perm_ext_iff_of_nodup h.1 h'.1).2 (fun k => (h.2 k).trans (h'.2 k).symm)

theorem Spec.ListsP.perm {s : Spec} {p : Pid} {l l' : List Key} (h : s.ListsP p l) (h' : s.ListsP p l') : l.Perm l' :=
  (List.perm_ext_iff_of_nodup h.1 h'.1).2 (fun k => (h.2 k).trans (h'.2 k).symm)

/-- the specification determines every observation, up to the order of listings -/
theorem resOk_resEq {s : Spec} {op : Op} {r r' : Res} (h : ResOk s op r) (h' : ResOk s op r') : ResEq r r' := by
  cases op <;> cases r <;> cases r' <;> simp only [ResOk, ResEq] at * <;> first | trivial | (exact h.trans h'.symm) | (exact h.perm h')

theorem conforms_obsEq {c : Cur} {s : Spec} {ops : List Op} {rs rs' : List Res}
    (h : Conforms c s ops rs) (h' : Conforms c s ops rs') : ObsEq rs rs' := by
  induction ops generalizing c s rs rs' with
  | nil => cases rs <;> cases rs' <;> simp_all [Conforms, ObsEq]
  | cons op ops ih =>
    cases rs with
    | nil => simp [Conforms] at h
    | cons r rs =>
      cases rs' with
      | nil => simp [Conforms] at h'
      | cons r' rs' => exact ⟨resOk_resEq h.1 h'.1, ih h.2 h'.2⟩

theorem specStep_frame {k : Key} {op : Op} (h : touches k op = false) (c : Cur) (s : Spec) : specStep c s op k = s k := by
  cases op with
  | save p t => have : ¬ k = (p, t) := fun e => by simp [touches, e] at h
                simp [specStep, Spec.save, this]
  | del p t => have : ¬ k = (p, t) := fun e => by simp [touches, e] at h
               simp [specStep, Spec.del, this]
  | delp p => have : ¬ k.1 = p := fun e => by simp [touches, e] at h
              simp [specStep, Spec.delp, this]
  | _ => rfl

theorem specRun_frame {k : Key} (ops : List Op) (h : ∀ op ∈ ops, touches k op = false) (c : Cur) (s : Spec) :
    specRun c s ops k = s k := by
  induction ops generalizing c s with
  | nil => rfl
  | cons op ops ih =>
    simp only [specRun]
    rw [ih (fun o ho => h o (List.mem_cons_of_mem _ ho)), specStep_frame (h op (by simp))]

theorem runCur_append (c : Cur) (a b : List Op) : runCur c (a ++ b) = runCur (runCur c a) b := by
  induction a generalizing c with
  | nil => rfl
  | cons op a ih => simp [runCur, ih]

theorem specRun_append (c : Cur) (s : Spec) (a b : List Op) :
    specRun c s (a ++ b) = specRun (runCur c a) (specRun c s a) b := by
  induction a generalizing c s with
  | nil => rfl
  | cons op a ih => simp [specRun, runCur, ih]

theorem runSt_append {σ : Type} (I : Impl σ) (c : Cur) (x : σ) (a b : List Op) :
    runSt I c x (a ++ b) = runSt I (runCur c a) (runSt I c x a) b := by
  induction a generalizing c x with
  | nil => rfl
  | cons op a ih => simp [runSt, runCur, ih]

/-- after `pre`, a save of `(p, t)` and operations that do not touch that key, the specification holds the value
the process had when it was saved -/
theorem specRun_saved (c : Cur) (s : Spec) (pre post : List Op) (p : Pid) (t : Tag)
    (hpost : ∀ op ∈ post, touches (p, t) op = false) :
    specRun c s (pre ++ .save p t :: post) (p, t) = some (runCur c pre p) := by
  rw [specRun_append]
  simp only [specRun]
  rw [specRun_frame post hpost]
  simp [specStep, Spec.save]

theorem Spec.load_del (s : Spec) (k0 k : Key) : (s.del k0).load k = if k = k0 then .error .missing else s.load k := by
  by_cases h : k = k0 <;> simp [Spec.load, Spec.del, h]

theorem Spec.load_delp (s : Spec) (p : Pid) (k : Key) : (s.delp p).load k = if k.1 = p then .error .missing else s.load k := by
  by_cases h : k.1 = p <;> simp [Spec.load, Spec.delp, h]

theorem Spec.load_ok_iff (s : Spec) (k : Key) : (∃ v, s.load k = .ok v) ↔ (s k).isSome = true := by
  cases h : s k <;> simp [Spec.load, h]

/-! ## Consequences of a refinement, in terms of the persister's own interface -/
section
variable {σ : Type} {I : Impl σ} {ok : Op → Prop} {R : σ → Spec → Prop}

theorem Refines.load_eq (h : Refines I ok R) {x : σ} {s : Spec} (hR : R x s) {p : Pid} {t : Tag} (hk : ok (.load p t)) :
    I.load x p t = s.load (p, t) := h.res x s (.load p t) hk hR

theorem Refines.list_exact (h : Refines I ok R) {x : σ} {s : Spec} (hR : R x s) (hl : ok .list)
    (hload : ∀ k : Key, k ∈ I.list x → ok (.load k.1 k.2)) :
    (I.list x).Nodup ∧ (∀ k : Key, k ∈ I.list x → ∃ v, I.load x k.1 k.2 = .ok v) ∧
      (∀ k : Key, ok (.load k.1 k.2) → (∃ v, I.load x k.1 k.2 = .ok v) → k ∈ I.list x) := by
  have hL : s.Lists (I.list x) := h.res x s .list hl hR
  refine ⟨hL.1, fun k hk => ?_, fun k hok hv => ?_⟩
  · rw [h.load_eq hR (hload k hk)]; exact (Spec.load_ok_iff s k).2 ((hL.2 k).1 hk)
  · rw [h.load_eq hR hok] at hv; exact (hL.2 k).2 ((Spec.load_ok_iff s k).1 hv)

theorem Refines.delete_local (h : Refines I ok R) {x : σ} {s : Spec} (hR : R x s) (c : Cur) {p : Pid} {t : Tag}
    (hd : ok (.del p t)) (hl : ok .list) :
    (∀ k : Key, ok (.load k.1 k.2) →
      I.load (I.del x p t) k.1 k.2 = if k = (p, t) then .error .missing else I.load x k.1 k.2) ∧
    (∀ k : Key, k ∈ I.list (I.del x p t) ↔ (k ≠ (p, t) ∧ k ∈ I.list x)) := by
  have hR' : R (I.del x p t) (s.del (p, t)) := h.step c x s (.del p t) hd hR
  refine ⟨fun k hk => ?_, fun k => ?_⟩
  · rw [h.load_eq hR' hk, h.load_eq hR hk, Spec.load_del]
  · have h1 : (s.del (p, t)).Lists (I.list (I.del x p t)) := h.res _ _ .list hl hR'
    have h2 : s.Lists (I.list x) := h.res _ _ .list hl hR
    rw [h1.2 k, h2.2 k]
    by_cases e : k = (p, t) <;> simp [Spec.del, e]

theorem Refines.delete_process_exact (h : Refines I ok R) {x : σ} {s : Spec} (hR : R x s) (c : Cur) {p : Pid}
    (hd : ok (.delp p)) (hl : ok .list) :
    (∀ k : Key, ok (.load k.1 k.2) →
      I.load (I.delp x p) k.1 k.2 = if k.1 = p then .error .missing else I.load x k.1 k.2) ∧
    (∀ k : Key, k ∈ I.list (I.delp x p) ↔ (k.1 ≠ p ∧ k ∈ I.list x)) := by
  have hR' : R (I.delp x p) (s.delp p) := h.step c x s (.delp p) hd hR
  refine ⟨fun k hk => ?_, fun k => ?_⟩
  · rw [h.load_eq hR' hk, h.load_eq hR hk, Spec.load_delp]
  · have h1 : (s.delp p).Lists (I.list (I.delp x p)) := h.res _ _ .list hl hR'
    have h2 : s.Lists (I.list x) := h.res _ _ .list hl hR
    rw [h1.2 k, h2.2 k]
    by_cases e : k.1 = p <;> simp [Spec.delp, e]
end

theorem AList.del_eq_self {κ ν : Type} [DecidableEq κ] {l : List (κ × ν)} {k : κ} (h : get? l k = none) : del l k = l := by
  induction l with
  | nil => rfl
  | cons e r ih =>
    obtain ⟨a, b⟩ := e
    by_cases h2 : a = k
    · simp [get?, h2] at h
    · simp only [get?, h2, if_false] at h
      simp [del, h2, ih h]

theorem Mem.del_idem (m : InMem) (p : Pid) (t : Tag) :
    Mem.deleteCheckpoint (Mem.deleteCheckpoint m p t) p t = Mem.deleteCheckpoint m p t := by
  cases hm : get? m p with
  | none => simp [Mem.deleteCheckpoint, hm]
  | some inner =>
    cases hi : get? inner t with
    | none => simp [Mem.deleteCheckpoint, hm, hi]
    | some v =>
      have h1 : Mem.deleteCheckpoint m p t = AList.set m p (del inner t) := by simp [Mem.deleteCheckpoint, hm, hi]
      rw [h1]
      simp [Mem.deleteCheckpoint, get?_set, get?_del]

theorem Pkl.del_idem (d : Dir) (p : Pid) (t : Tag) :
    Pkl.deleteCheckpoint (Pkl.deleteCheckpoint d p t) p t = Pkl.deleteCheckpoint d p t := by
  simp only [Pkl.deleteCheckpoint]
  exact AList.del_eq_self (by simp [get?_del])

theorem wfHist_mem {K : Kind} {ops : List Op} (h : wfHist K ops = true) : ∀ op ∈ ops, wfOp K op = true := by
  simpa [wfHist] using h
end Persister
