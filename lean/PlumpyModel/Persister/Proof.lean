import PlumpyModel.Persister.Model
/-!
# Helper lemmas for C14: association lists, the file-name function, the three refinements
-/
namespace Persister

/-! ## Association lists -/
namespace AList
variable {κ : Type} {ν : Type} [DecidableEq κ]

theorem get?_set (l : List (κ × ν)) (k k' : κ) (v : ν) :
    get? (set l k v) k' = if k = k' then some v else get? l k' := by
  induction l with
  | nil => simp [set, get?]
  | cons e r ih =>
    obtain ⟨a, b⟩ := e
    by_cases h : a = k
    · subst h; by_cases h2 : a = k' <;> simp [set, get?, h2]
    · by_cases h2 : a = k'
      · subst h2
        have : ¬ k = a := fun e => h e.symm
        simp [set, get?, h, this]
      · simp [set, get?, h, h2, ih]

theorem get?_del (l : List (κ × ν)) (k k' : κ) :
    get? (del l k) k' = if k = k' then none else get? l k' := by
  induction l with
  | nil => simp [del, get?]
  | cons e r ih =>
    obtain ⟨a, b⟩ := e
    by_cases h : a = k
    · subst h
      by_cases h2 : a = k'
      · subst h2; simpa [del, get?] using ih
      · simp [del, get?, h2, ih]
    · by_cases h2 : a = k'
      · subst h2
        have : ¬ k = a := fun e => h e.symm
        simp [del, get?, h, this]
      · simp [del, get?, h, h2, ih]

theorem mem_keys_iff (l : List (κ × ν)) (k : κ) : k ∈ keys l ↔ (get? l k).isSome = true := by
  induction l with
  | nil => simp [keys, get?]
  | cons e r ih =>
    obtain ⟨a, b⟩ := e
    by_cases h : a = k
    · simp [keys, get?, h]
    · have h' : ¬ k = a := fun e => h e.symm
      simp only [keys, List.map_cons, List.mem_cons, get?, h, if_false, h', false_or]
      exact ih

theorem mem_of_get? {l : List (κ × ν)} {k : κ} {v : ν} (h : get? l k = some v) : (k, v) ∈ l := by
  induction l with
  | nil => simp [get?] at h
  | cons e r ih =>
    obtain ⟨a, b⟩ := e
    by_cases h2 : a = k
    · subst h2; simp [get?] at h; simp [h]
    · simp [get?, h2] at h; exact List.mem_cons_of_mem _ (ih h)

theorem get?_of_mem {l : List (κ × ν)} {k : κ} {v : ν} (hn : (keys l).Nodup) (h : (k, v) ∈ l) : get? l k = some v := by
  induction l with
  | nil => simp at h
  | cons e r ih =>
    obtain ⟨a, b⟩ := e
    simp only [keys, List.map_cons, List.nodup_cons] at hn
    rcases List.mem_cons.1 h with h | h
    · cases h; simp [get?]
    · have : a ≠ k := by
        intro e; subst e
        exact hn.1 (List.mem_map.2 ⟨(a, v), h, rfl⟩)
      simp [get?, this]; exact ih hn.2 h

theorem keys_del (l : List (κ × ν)) (k : κ) : keys (del l k) = (keys l).filter (fun a => !decide (a = k)) := by
  induction l with
  | nil => simp [del, keys]
  | cons e r ih =>
    obtain ⟨a, b⟩ := e
    simp only [keys] at ih
    by_cases h : a = k <;> simp [del, keys, h, ih]

theorem nodup_keys_del {l : List (κ × ν)} (k : κ) (h : (keys l).Nodup) : (keys (del l k)).Nodup := by
  rw [keys_del]; exact h.filter _

theorem mem_keys_set (l : List (κ × ν)) (k k' : κ) (v : ν) : k' ∈ keys (set l k v) ↔ k' = k ∨ k' ∈ keys l := by
  rw [mem_keys_iff, mem_keys_iff, get?_set]
  by_cases h : k = k'
  · simp [h]
  · have : ¬ k' = k := fun e => h e.symm
    simp [h, this]

theorem nodup_keys_set {l : List (κ × ν)} (k : κ) (v : ν) (h : (keys l).Nodup) : (keys (set l k v)).Nodup := by
  induction l with
  | nil => simp [set, keys]
  | cons e r ih =>
    obtain ⟨a, b⟩ := e
    simp only [keys, List.map_cons, List.nodup_cons] at h
    by_cases h2 : a = k
    · subst h2; simpa [set, keys] using h
    · simp only [set, h2, if_false, keys, List.map_cons, List.nodup_cons]
      refine ⟨?_, ih h.2⟩
      intro hm
      have := (mem_keys_set r k a v).1 hm
      rcases this with e | e
      · exact h2 e
      · exact h.1 e

/-- membership in a dictionary after an assignment -/
theorem mem_set {l : List (κ × ν)} {k : κ} {v : ν} {e : κ × ν} (h : e ∈ set l k v) : e = (k, v) ∨ e ∈ l := by
  induction l with
  | nil => simp [set] at h; exact Or.inl h
  | cons x r ih =>
    obtain ⟨a, b⟩ := x
    by_cases h2 : a = k
    · subst h2
      simp only [set, if_true, List.mem_cons] at h
      rcases h with h | h
      · exact Or.inl h
      · exact Or.inr (List.mem_cons_of_mem _ h)
    · simp only [set, h2, if_false, List.mem_cons] at h
      rcases h with h | h
      · exact Or.inr (by simp [h])
      · rcases ih h with h | h
        · exact Or.inl h
        · exact Or.inr (List.mem_cons_of_mem _ h)

theorem mem_del {l : List (κ × ν)} {k : κ} {e : κ × ν} (h : e ∈ del l k) : e ∈ l := by
  induction l with
  | nil => simp [del] at h
  | cons x r ih =>
    obtain ⟨a, b⟩ := x
    by_cases h2 : a = k
    · simp only [del, h2, if_true] at h; exact List.mem_cons_of_mem _ (ih h)
    · simp only [del, h2, if_false, List.mem_cons] at h
      rcases h with h | h
      · simp [h]
      · exact List.mem_cons_of_mem _ (ih h)

end AList
end Persister
