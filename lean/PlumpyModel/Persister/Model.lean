import PlumpyModel.Gen.Misc
import PlumpyModel.Gen.Pickle
/-!
# Persisters (`plumpy/persistence.py`: `InMemoryPersister`, `PicklePersister`) — executable model for C14

Core Lean only (the driver `pmodel persister` is linked natively).

Assumed contracts (modelled, not verified; exercised by the correspondence check through the real libraries):

* a **snapshot** is an abstract value `Snap := Nat` standing for "the persisted state of the process at save time"
  (`Bundle(process)`); the live processes are a function `Cur : Pid → Snap` giving the current value of each process,
  `save_checkpoint(process, tag)` stores `cur process.pid`, and *progress of a live process* (`Op.progress p v`) changes
  `cur p` to an arbitrary new value. That a stored snapshot does not change when the process moves on
  (`Bundle(..., dereference=True)` / `copy.deepcopy` for the in-memory persister, `pickle.dump` for the pickle persister,
  `Savable.save_members` / `Process.encode_input_args`) is therefore *built into* the model (values are immutable) and
  is what the correspondence check tests on the real code;
* a Python `dict` is an insertion-ordered association list with unique keys (`AList`): assigning an existing key keeps its
  position, a new key goes to the end; `del` of an absent key raises `KeyError`;
* the pickle directory is a flat map from file name to file content (`open(..., 'w+b')` creates or truncates, `'r+b'` on
  a missing file raises `FileNotFoundError`, `os.remove` on a missing file raises `OSError`, `os.walk` + `fnmatch`
  enumerate the names that end in `.<suffix>` in an unspecified order); `pickle.load (pickle.dump x) = x`;
* an id or tag is a Python value of one of three kinds (int, `uuid.UUID`, str). It is modelled by its kind together with
  its string form `str(x)` (`Ident`): two Python values are equal (as dictionary keys and under `==`) iff kind and string
  form agree (true of int, UUID and str: `str` is injective on each, and values of different kinds are never equal).
  The file name only sees the string form. The property's side condition — *separator-free, one kind per history* — is
  the decidable predicate `SideCondition`.
-/
namespace Persister

/-! ## Python dicts / directories as insertion-ordered association lists -/
namespace AList
variable {κ : Type} {ν : Type} [DecidableEq κ]

/-- `d.get(k)` / `d[k]` (`none` = `KeyError`) -/
def get? : List (κ × ν) → κ → Option ν
  | [], _ => none
  | (k', v) :: r, k => if k' = k then some v else get? r k

/-- `d[k] = v`: an existing key keeps its position, a new key is appended -/
def set : List (κ × ν) → κ → ν → List (κ × ν)
  | [], k, v => [(k, v)]
  | (k', v') :: r, k, v => if k' = k then (k, v) :: r else (k', v') :: set r k v

/-- removal of a key that may be absent (the callers decide what absence means) -/
def del : List (κ × ν) → κ → List (κ × ν)
  | [], _ => []
  | (k', v) :: r, k => if k' = k then del r k else (k', v) :: del r k

/-- iteration over a dict yields its keys in insertion order -/
def keys (l : List (κ × ν)) : List κ := l.map (·.1)

end AList

/-! ## Ids, tags, keys, snapshots -/

inductive Kind where
  | int | uuid | str
  deriving DecidableEq, Repr

/-- a Python id value: its kind and its string form `str(x)` -/
structure Ident where
  kind : Kind
  repr : String
  deriving DecidableEq, Repr

abbrev Pid := Ident
/-- `tag: Optional[...]` -/
abbrev Tag := Option Ident
/-- `PersistedCheckpoint(pid, tag)` -/
abbrev Key := Pid × Tag
abbrev Snap := Nat
/-- current persisted state of every live process -/
abbrev Cur := Pid → Snap

/-- what a failing call raises: `KeyError` (in-memory) / `FileNotFoundError` (pickle); both are observed as `missing` -/
inductive Err where
  | missing
  deriving DecidableEq, Repr

/-! ## `InMemoryPersister`: `self._checkpoints : Dict[pid, Dict[tag, Bundle]]` -/

abbrev Inner := List (Tag × Snap)
abbrev InMem := List (Pid × Inner)

namespace Mem

/-- `self._checkpoints.setdefault(process.pid, {})[tag] = Bundle(process, ..., dereference=True)` -/
def save (m : InMem) (pid : Pid) (tag : Tag) (v : Snap) : InMem :=
  match AList.get? m pid with
  | some inner => AList.set m pid (AList.set inner tag v)
  | none => AList.set m pid (AList.set ([] : Inner) tag v)      -- `setdefault` inserted `{}`

/-- `return self._checkpoints[pid][tag]` -/
def load (m : InMem) (pid : Pid) (tag : Tag) : Except Err Snap :=
  match AList.get? m pid with
  | none => .error .missing                 -- KeyError(pid)
  | some inner =>
    match AList.get? inner tag with
    | none => .error .missing               -- KeyError(tag)
    | some v => .ok v

/-- `get_process_checkpoints`: `for tag, _ in self._checkpoints[pid].items(): cps.append(PersistedCheckpoint(pid, tag))`,
`KeyError` swallowed -/
def getProcessCheckpoints (m : InMem) (pid : Pid) : List Key :=
  match AList.get? m pid with
  | none => []
  | some inner => (AList.keys inner).map (fun t => (pid, t))

/-- `get_checkpoints`: `for pid in self._checkpoints: cps.extend(self.get_process_checkpoints(pid))` -/
def getCheckpoints (m : InMem) : List Key :=
  (AList.keys m).flatMap (getProcessCheckpoints m)

/-- `try: del self._checkpoints[pid][tag] except KeyError: pass` (an emptied inner dict stays behind) -/
def deleteCheckpoint (m : InMem) (pid : Pid) (tag : Tag) : InMem :=
  match AList.get? m pid with
  | none => m                               -- KeyError(pid) swallowed
  | some inner =>
    match AList.get? inner tag with
    | none => m                             -- KeyError(tag) swallowed
    | some _ => AList.set m pid (AList.del inner tag)

/-- `if pid in self._checkpoints: del self._checkpoints[pid]` -/
def deleteProcessCheckpoints (m : InMem) (pid : Pid) : InMem :=
  match AList.get? m pid with
  | some _ => AList.del m pid
  | none => m

end Mem

/-! ## `PicklePersister`: a directory of pickles -/

/-- `PersistedPickle(checkpoint, bundle)` -/
abbrev File := Key × Snap
/-- the pickle directory: file name ↦ content -/
abbrev Dir := List (String × File)

/-- an f-string template applied to the string forms of pid and tag -/
def render (pid tag : String) : List Gen.NamePart → String
  | [] => ""
  | .pid :: r => pid ++ render pid tag r
  | .tag :: r => tag ++ render pid tag r
  | .suffix :: r => Gen.pickleSuffix ++ render pid tag r
  | .lit s :: r => s ++ render pid tag r

/-- `PicklePersister.pickle_filename(pid, tag)`; the templates are regenerated from the source -/
def pickleFilename (pid : Pid) (tag : Tag) : String :=
  match tag with
  | some t => render pid.repr t.repr Gen.pickleNameTagged        -- f'{pid}.{tag}.{_PICKLE_SUFFIX}'
  | none => render pid.repr "" Gen.pickleNameUntagged            -- f'{pid}.{_PICKLE_SUFFIX}'

/-- `fnmatch.filter(files, f'*.{_PICKLE_SUFFIX}')` -/
def matchesPattern (name : String) : Bool :=
  ("." ++ Gen.pickleSuffix).toList.isSuffixOf name.toList

namespace Pkl

/-- `pickle.dump(PersistedPickle(PersistedCheckpoint(process.pid, tag), Bundle(process)), open(path, 'w+b'))` -/
def save (d : Dir) (pid : Pid) (tag : Tag) (v : Snap) : Dir :=
  AList.set d (pickleFilename pid tag) ((pid, tag), v)

/-- `load_pickle(self._pickle_filepath(pid, tag)).bundle` (the stored checkpoint is not looked at) -/
def load (d : Dir) (pid : Pid) (tag : Tag) : Except Err Snap :=
  match AList.get? d (pickleFilename pid tag) with
  | none => .error .missing                 -- FileNotFoundError
  | some f => .ok f.2

/-- `get_checkpoints`: every file matching the pattern is unpickled and its *stored* checkpoint is returned -/
def getCheckpoints (d : Dir) : List Key :=
  (d.filter (fun e => matchesPattern e.1)).map (fun e => e.2.1)

/-- `[c for c in self.get_checkpoints() if c.pid == pid]` -/
def getProcessCheckpoints (d : Dir) (pid : Pid) : List Key :=
  (getCheckpoints d).filter (fun c => c.1 = pid)

/-- `try: os.remove(path) except OSError: pass` -/
def deleteCheckpoint (d : Dir) (pid : Pid) (tag : Tag) : Dir :=
  AList.del d (pickleFilename pid tag)

/-- `for checkpoint in self.get_process_checkpoints(pid): self.delete_checkpoint(checkpoint.pid, checkpoint.tag)` -/
def deleteProcessCheckpoints (d : Dir) (pid : Pid) : Dir :=
  (getProcessCheckpoints d pid).foldl (fun d c => deleteCheckpoint d c.1 c.2) d

end Pkl

/-! ## The specification: a map `(pid, tag) ↦ snapshot` -/

/-- the abstract store -/
abbrev Spec := Key → Option Snap

namespace Spec
def empty : Spec := fun _ => none
def save (s : Spec) (k : Key) (v : Snap) : Spec := fun k' => if k' = k then some v else s k'
def load (s : Spec) (k : Key) : Except Err Snap :=
  match s k with
  | some v => .ok v
  | none => .error .missing
def del (s : Spec) (k : Key) : Spec := fun k' => if k' = k then none else s k'
def delp (s : Spec) (p : Pid) : Spec := fun k' => if k'.1 = p then none else s k'
/-- `l` is a listing of the store: exactly the keys currently stored, each once (the order is unspecified) -/
def Lists (s : Spec) (l : List Key) : Prop := l.Nodup ∧ ∀ k, k ∈ l ↔ (s k).isSome = true
/-- `l` is a listing of the checkpoints of process `p` -/
def ListsP (s : Spec) (p : Pid) (l : List Key) : Prop := l.Nodup ∧ ∀ k, k ∈ l ↔ (k.1 = p ∧ (s k).isSome = true)
end Spec

/-- an executable presentation of the specification (one flat dictionary), used by the driver -/
abbrev Flat := List (Key × Snap)

namespace Flat
def save (f : Flat) (pid : Pid) (tag : Tag) (v : Snap) : Flat := AList.set f (pid, tag) v
def load (f : Flat) (pid : Pid) (tag : Tag) : Except Err Snap :=
  match AList.get? f (pid, tag) with
  | some v => .ok v
  | none => .error .missing
def getCheckpoints (f : Flat) : List Key := AList.keys f
def getProcessCheckpoints (f : Flat) (pid : Pid) : List Key := (AList.keys f).filter (fun k => k.1 = pid)
def deleteCheckpoint (f : Flat) (pid : Pid) (tag : Tag) : Flat := AList.del f (pid, tag)
def deleteProcessCheckpoints (f : Flat) (pid : Pid) : Flat := f.filter (fun e => e.1.1 ≠ pid)
end Flat

/-! ## Histories -/

inductive Op where
  | save (p : Pid) (t : Tag)          -- `persister.save_checkpoint(process_p, t)`
  | load (p : Pid) (t : Tag)          -- `persister.load_checkpoint(p, t)`
  | list                              -- `persister.get_checkpoints()`
  | listp (p : Pid)                   -- `persister.get_process_checkpoints(p)`
  | del (p : Pid) (t : Tag)           -- `persister.delete_checkpoint(p, t)`
  | delp (p : Pid)                    -- `persister.delete_process_checkpoints(p)`
  | progress (p : Pid) (v : Snap)     -- the live process `p` moves on: its persisted state becomes `v`
  deriving Repr

/-- what a call returns -/
inductive Res where
  | done                              -- `None`
  | loaded (r : Except Err Snap)
  | listed (l : List Key)

/-- the `Persister` interface -/
structure Impl (σ : Type) where
  init : σ
  save : σ → Pid → Tag → Snap → σ
  load : σ → Pid → Tag → Except Err Snap
  list : σ → List Key
  listp : σ → Pid → List Key
  del : σ → Pid → Tag → σ
  delp : σ → Pid → σ

def memImpl : Impl InMem :=
  { init := [], save := Mem.save, load := Mem.load, list := Mem.getCheckpoints, listp := Mem.getProcessCheckpoints,
    del := Mem.deleteCheckpoint, delp := Mem.deleteProcessCheckpoints }

def pklImpl : Impl Dir :=
  { init := [], save := Pkl.save, load := Pkl.load, list := Pkl.getCheckpoints, listp := Pkl.getProcessCheckpoints,
    del := Pkl.deleteCheckpoint, delp := Pkl.deleteProcessCheckpoints }

def flatImpl : Impl Flat :=
  { init := [], save := Flat.save, load := Flat.load, list := Flat.getCheckpoints, listp := Flat.getProcessCheckpoints,
    del := Flat.deleteCheckpoint, delp := Flat.deleteProcessCheckpoints }

/-- the live processes after an operation -/
def stepCur (c : Cur) : Op → Cur
  | .progress p v => fun q => if q = p then v else c q
  | _ => c

/-- the persister after an operation; saving stores the *current* value of the process -/
def stepSt {σ} (I : Impl σ) (c : Cur) (x : σ) : Op → σ
  | .save p t => I.save x p t (c p)
  | .del p t => I.del x p t
  | .delp p => I.delp x p
  | _ => x

/-- what the operation returns -/
def stepRes {σ} (I : Impl σ) (x : σ) : Op → Res
  | .load p t => .loaded (I.load x p t)
  | .list => .listed (I.list x)
  | .listp p => .listed (I.listp x p)
  | _ => .done

def runCur (c : Cur) : List Op → Cur
  | [] => c
  | op :: ops => runCur (stepCur c op) ops

def runSt {σ} (I : Impl σ) (c : Cur) (x : σ) : List Op → σ
  | [] => x
  | op :: ops => runSt I (stepCur c op) (stepSt I c x op) ops

/-- the observations of a history: one result per operation -/
def runRes {σ} (I : Impl σ) (c : Cur) (x : σ) : List Op → List Res
  | [] => []
  | op :: ops => stepRes I x op :: runRes I (stepCur c op) (stepSt I c x op) ops

/-- the specification's state after an operation -/
def specStep (c : Cur) (s : Spec) : Op → Spec
  | .save p t => s.save (p, t) (c p)
  | .del p t => s.del (p, t)
  | .delp p => s.delp p
  | _ => s

def specRun (c : Cur) (s : Spec) : List Op → Spec
  | [] => s
  | op :: ops => specRun (stepCur c op) (specStep c s op) ops

/-- the result the specification prescribes for an operation in state `s` -/
def ResOk (s : Spec) : Op → Res → Prop
  | .load p t, .loaded r => r = s.load (p, t)
  | .list, .listed l => s.Lists l
  | .listp p, .listed l => s.ListsP p l
  | .save _ _, .done => True
  | .del _ _, .done => True
  | .delp _, .done => True
  | .progress _ _, .done => True
  | _, _ => False

/-- a sequence of observations conforms to the specification run from `s` -/
def Conforms : Cur → Spec → List Op → List Res → Prop
  | _, _, [], [] => True
  | c, s, op :: ops, r :: rs => ResOk s op r ∧ Conforms (stepCur c op) (specStep c s op) ops rs
  | _, _, _, _ => False

/-- two observations are the same up to the (unspecified) order of a listing -/
def ResEq : Res → Res → Prop
  | .done, .done => True
  | .loaded a, .loaded b => a = b
  | .listed a, .listed b => a.Perm b
  | _, _ => False

def ObsEq : List Res → List Res → Prop
  | [], [] => True
  | a :: as, b :: bs => ResEq a b ∧ ObsEq as bs
  | _, _ => False

/-- the operation may change what is stored under key `k` (progress of the live process never does) -/
def touches (k : Key) : Op → Bool
  | .save p t => (p, t) = k
  | .del p t => (p, t) = k
  | .delp p => p = k.1
  | _ => false

/-! ## The side condition of the property -/

/-- characters that separate the pieces of a pickle path: the `.` of `pickle_filename` and the path separator -/
def separators : List Char := ['.', '/']

def sepFree (s : String) : Bool := s.toList.all (fun ch => !separators.contains ch)

/-- an id of kind `K` whose string form is separator-free -/
def wfId (K : Kind) (i : Ident) : Bool := i.kind == K && sepFree i.repr

def wfTag (K : Kind) : Tag → Bool
  | none => true
  | some t => wfId K t

def wfKey (K : Kind) (k : Key) : Bool := wfId K k.1 && wfTag K k.2

def wfOp (K : Kind) : Op → Bool
  | .save p t => wfKey K (p, t)
  | .load p t => wfKey K (p, t)
  | .list => true
  | .listp p => wfId K p
  | .del p t => wfKey K (p, t)
  | .delp p => wfId K p
  | .progress p _ => wfId K p

/-- every id and tag of the history is separator-free and of kind `K` -/
def wfHist (K : Kind) (ops : List Op) : Bool := ops.all (wfOp K)

/-- "ids and tags being integers, UUIDs or separator-free strings of one kind per history" -/
def SideCondition (ops : List Op) : Bool := [Kind.int, Kind.uuid, Kind.str].any (fun K => wfHist K ops)

end Persister
