import PlumpyModel.ProcStack.Model
/-!
# Invariants of the process-stack model (helper lemmas for C18)

`WF s sv c`: symbolic execution of the remaining coroutine `c` of a task on that task's own stack `s` (and the history
variable `sv`): every `pop p` finds `p` on top and restores the stack saved at the matching `push`, every sample taken
by in-scope code of `p` finds `p` on top.  Compiled code (`stepperOps`, `cbOps`) is `WF` from *any* stack, which is what
makes context inheritance (children, callbacks, nested executions) harmless; and `WF` is preserved by every micro
operation of every task, whatever the interleaving.
-/
namespace ProcStack
open PMF

def WF : List Pid → List (List Pid) → List Op → Prop
  | _, sv, [] => sv = []       -- when the coroutine ends no scope is open
  | s, sv, .push p :: c => WF (p :: s) (s :: sv) c
  | s, sv, .pop p _ :: c => ∃ s' sv', s = p :: s' ∧ sv = s' :: sv' ∧ WF s' sv' c
  | s, sv, .obs p k :: c => (k.inScope = true → current s = some p) ∧ WF s sv c
  | s, sv, .yield :: c => WF s sv c
  | s, sv, .park :: c => WF s sv c
  | s, sv, .callSoon _ _ :: c => WF s sv c
  | s, sv, .launch _ _ :: c => WF s sv c
  | s, sv, .execute _ _ :: c => WF s sv c
  | s, sv, .inline p _ :: c => current s = some p ∧ WF s sv c     -- the handler of the awaiting code will run in `p`'s scope
  | s, sv, .handler p s0 _ :: c => s = s0 ∧ current s = some p ∧ WF s sv c
  | s, sv, .throw :: c => WF s sv c    -- over-approximation: what follows is well-scoped whether the raise falls through or not
  | s, sv, .callSoonCreator _ _ :: c => WF s sv c
  | s, sv, .excepted _ s0 :: c => s = s0 ∧ WF s sv c   -- `callback_excepted` runs on the stack the callback's task started with

/-- operations that user code of `p` may perform inside its scope: no push/pop of its own, samples are `p`'s -/
def Op.neutral (p : Pid) : Op → Bool
  | .push _ => false
  | .pop _ _ => false
  | .obs q _ => q == p
  | .inline q _ => q == p
  | .handler _ _ _ => false
  | .excepted _ _ => false
  | _ => true

theorem wf_neutral_append {p : Pid} {s : List Pid} {sv : List (List Pid)} (c1 c2 : List Op)
    (hn : ∀ op ∈ c1, Op.neutral p op = true) (hs : current s = some p) (h2 : WF s sv c2) : WF s sv (c1 ++ c2) := by
  induction c1 with
  | nil => simpa using h2
  | cons op c1 ih =>
    have hop := hn op (by simp)
    have ih' := ih (fun o ho => hn o (by simp [ho]))
    cases op with
    | push q => simp [Op.neutral] at hop
    | pop q e => simp [Op.neutral] at hop
    | handler q s0 a => simp [Op.neutral] at hop
    | inline q k =>
      simp only [Op.neutral, beq_iff_eq] at hop
      subst hop
      simp only [List.cons_append, WF]
      exact ⟨hs, ih'⟩
    | throw => simpa [WF] using ih'
    | obs q k =>
      simp only [Op.neutral, beq_iff_eq] at hop
      subst hop
      simp only [List.cons_append, WF]
      exact ⟨fun _ => hs, ih'⟩
    | yield => simpa [WF] using ih'
    | park => simpa [WF] using ih'
    | callSoon a b => simpa [WF] using ih'
    | launch a b => simpa [WF] using ih'
    | execute a b => simpa [WF] using ih'
    | callSoonCreator a b => simpa [WF] using ih'
    | excepted q s0 => simp [Op.neutral] at hop

theorem wf_hooks_append (p : Pid) (hs : List Hook) {s : List Pid} {sv : List (List Pid)} (c2 : List Op)
    (hh : ∀ h ∈ hs, h.isOutput = false) (h2 : WF s sv c2) : WF s sv (hooksOps p hs ++ c2) := by
  induction hs with
  | nil => simpa [hooksOps] using h2
  | cons h hs ih =>
    have := ih (fun x hx => hh x (by simp [hx]))
    simp only [hooksOps, List.map_cons, List.cons_append, WF, Kind.inScope] at this ⊢
    exact ⟨fun hc => by simp [hh h (by simp)] at hc, this⟩

theorem transitionHooks_lifecycle (old : Option Label) (new : Label) :
    ∀ h ∈ transitionHooks old new, h.isOutput = false := by
  cases old with
  | none => cases new <;> decide
  | some l => cases l <;> cases new <;> decide

theorem actOps_neutral (p : Pid) (inCb : Bool) (a : Act) : ∀ op ∈ actOps p inCb a, Op.neutral p op = true := by
  cases a <;> simp [actOps, Op.neutral]

theorem codeOps_neutral (p : Pid) (inCb : Bool) (code : List Act) :
    ∀ op ∈ codeOps p inCb code, Op.neutral p op = true := by
  intro op hop
  simp only [codeOps, List.mem_cons, List.mem_flatMap] at hop
  rcases hop with rfl | ⟨a, _, ha⟩
  · simp [Op.neutral]
  · exact actOps_neutral p inCb a op ha

theorem stepBody_neutral (p : Pid) (st : Step) : ∀ op ∈ stepBody p st, Op.neutral p op = true := by
  intro op hop
  simp only [stepBody, List.mem_append] at hop
  rcases hop with h | h
  · exact codeOps_neutral p false st.code op h
  · cases hst : st.end_ <;> simp [hst] at h
    subst h
    simp [Op.neutral]

theorem wf_runTask (p : Pid) (body : List Op) {s : List Pid} {sv : List (List Pid)} (rest : List Op)
    (hn : ∀ op ∈ body, Op.neutral p op = true) (h2 : WF s sv rest) : WF s sv (runTask p body ++ rest) := by
  simp only [runTask, List.cons_append, List.append_assoc, WF]
  apply wf_neutral_append body _ hn (by simp [current])
  exact ⟨s, sv, rfl, rfl, h2⟩

theorem wf_stepsOps (p : Pid) (steps : List Step) (s : List Pid) (sv : List (List Pid)) (rest : List Op)
    (h2 : WF s sv rest) : WF s sv (stepsOps p steps ++ rest) := by
  induction steps with
  | nil => simpa [stepsOps] using h2
  | cons st steps ih =>
    simp only [stepsOps, List.append_assoc]
    apply wf_runTask p _ _ (stepBody_neutral p st)
    cases st.end_ with
    | finish => exact wf_hooks_append p _ _ (transitionHooks_lifecycle _ _) h2
    | raise => exact wf_hooks_append p _ _ (transitionHooks_lifecycle _ _) h2
    | raiseBase => simpa using h2
    | next =>
      simp only [List.append_assoc]
      exact wf_hooks_append p _ _ (transitionHooks_lifecycle _ _) ih
    | wait =>
      simp only [List.append_assoc]
      apply wf_hooks_append p _ _ (transitionHooks_lifecycle _ _)
      apply wf_runTask p _ _ (by simp [Op.neutral])
      exact wf_hooks_append p _ _ (transitionHooks_lifecycle _ _) ih

/-- the stepping coroutine of `p` is well-scoped from any stack, and leaves that stack to what follows it (a child
awaited inline: the handler and the rest of the awaiting code) -/
theorem wf_stepperOps_append (p : Pid) (steps : List Step) (s : List Pid) (sv : List (List Pid)) (rest : List Op)
    (h2 : WF s sv rest) : WF s sv (stepperOps p steps ++ rest) := by
  simp only [stepperOps, List.append_assoc]
  apply wf_runTask p _ _ (by simp)
  apply wf_hooks_append p _ _ (transitionHooks_lifecycle _ _)
  exact wf_stepsOps p steps s sv rest h2

theorem wf_stepperOps (p : Pid) (steps : List Step) (s : List Pid) :
    WF s [] (stepperOps p steps) := by
  simpa using wf_stepperOps_append p steps s [] [] (by simp [WF])

/-- **a BaseException raised anywhere in well-scoped code leaves well-scoped code**: with `d` not-yet-entered scopes
skipped so far (their entries are the top `d` elements of the symbolic stack), `unwind` keeps exactly the exits of the open
scopes, each of which finds its own process on top and restores the stack saved at its entry, and the absorbing handler
runs on the stack of the scope that contains the `try`. -/
theorem wf_unwind (how : Exit) (c : List Op) : ∀ (d : Nat) (s : List Pid) (sv : List (List Pid)),
    WF s sv c → WF (s.drop d) (sv.drop d) (unwind how d c) := by
  induction c with
  | nil => intro d s sv h; simp only [WF] at h; simp [unwind, WF, h]
  | cons op c ih =>
    intro d s sv h
    cases op with
    | push p =>
      simp only [WF] at h
      simpa [unwind] using ih (d + 1) _ _ h
    | pop p e =>
      simp only [WF] at h
      obtain ⟨s', sv', hs, hsv, hw⟩ := h
      cases d with
      | zero =>
        simp only [unwind, WF, List.drop_zero]
        exact ⟨s', sv', hs, hsv, by simpa using ih 0 _ _ hw⟩
      | succ d =>
        subst hs hsv
        simpa [unwind] using ih d _ _ hw
    | handler p s0 a =>
      simp only [WF] at h
      cases d with
      | zero => simpa [unwind, WF] using h
      | succ d => simpa [unwind] using ih (d + 1) _ _ h.2.2
    | obs p k => simp only [WF] at h; simpa [unwind] using ih d _ _ h.2
    | inline p k => simp only [WF] at h; simpa [unwind] using ih d _ _ h.2
    | yield => simp only [WF] at h; simpa [unwind] using ih d _ _ h
    | park => simp only [WF] at h; simpa [unwind] using ih d _ _ h
    | callSoon a b => simp only [WF] at h; simpa [unwind] using ih d _ _ h
    | launch a b => simp only [WF] at h; simpa [unwind] using ih d _ _ h
    | execute a b => simp only [WF] at h; simpa [unwind] using ih d _ _ h
    | throw => simp only [WF] at h; simpa [unwind] using ih d _ _ h
    | callSoonCreator a b => simp only [WF] at h; simpa [unwind] using ih d _ _ h
    | excepted p s0 => simp only [WF] at h; simpa [unwind] using ih d _ _ h.2

/-- skipping the rest of the stepping coroutine of a killed process keeps the code well-scoped -/
theorem wf_toHandler (c : List Op) : ∀ (d : Nat) (s : List Pid) (sv : List (List Pid)),
    WF s sv c → WF (s.drop d) (sv.drop d) (toHandler d c) := by
  induction c with
  | nil => intro d s sv h; simp only [WF] at h; simp [toHandler, WF, h]
  | cons op c ih =>
    intro d s sv h
    cases op with
    | push p =>
      simp only [WF] at h
      simpa [toHandler] using ih (d + 1) _ _ h
    | pop p e =>
      cases d with
      | zero => simpa [toHandler] using h
      | succ d =>
        simp only [WF] at h
        obtain ⟨s', sv', hs, hsv, hw⟩ := h
        subst hs hsv
        simpa [toHandler] using ih d _ _ hw
    | handler p s0 a =>
      cases d with
      | zero => simpa [toHandler] using h
      | succ d => simp only [WF] at h; simpa [toHandler] using ih (d + 1) _ _ h.2.2
    | obs p k => simp only [WF] at h; simpa [toHandler] using ih d _ _ h.2
    | inline p k => simp only [WF] at h; simpa [toHandler] using ih d _ _ h.2
    | yield => simp only [WF] at h; simpa [toHandler] using ih d _ _ h
    | park => simp only [WF] at h; simpa [toHandler] using ih d _ _ h
    | callSoon a b => simp only [WF] at h; simpa [toHandler] using ih d _ _ h
    | launch a b => simp only [WF] at h; simpa [toHandler] using ih d _ _ h
    | execute a b => simp only [WF] at h; simpa [toHandler] using ih d _ _ h
    | throw => simp only [WF] at h; simpa [toHandler] using ih d _ _ h
    | callSoonCreator a b => simp only [WF] at h; simpa [toHandler] using ih d _ _ h
    | excepted p s0 => simp only [WF] at h; simpa [toHandler] using ih d _ _ h.2

theorem wf_cbOps (p : Pid) (code : List Act) (s : List Pid) : WF s [] (cbOps p code) := by
  have := wf_runTask p (codeOps p true code) (s := s) (sv := []) [] (codeOps_neutral p true code) (by simp [WF])
  simpa [cbOps] using this

/-- a callback that ends by raising: well-scoped from any stack `s`, and `callback_excepted` — after the scope was left
through the exception — runs on exactly `s`, the stack of the code that scheduled it -/
theorem wf_cbOpsExc (p : Pid) (code : List Act) (s : List Pid) : WF s [] (cbOpsExc p s code) := by
  simp only [cbOpsExc, WF]
  apply wf_neutral_append _ _ (codeOps_neutral p true code) (by simp [current])
  simp only [WF]
  exact ⟨s, [], rfl, rfl, rfl, rfl⟩

theorem wf_cbCode (scn : Scenario) (p : Pid) (cb : Nat) (code : List Act) (s : List Pid) :
    WF s [] (cbCode scn p s cb code) := by
  unfold cbCode
  split
  · exact wf_cbOpsExc p code s
  · exact wf_cbOps p code s

/-! ## The invariant -/

structure Inv (σ : State) : Prop where
  tasks : ∀ T ∈ σ.tasks, WF T.stack T.saved T.code
  log : ∀ o ∈ σ.log, o.kind.inScope = true → o.cur = some o.owner
  scopes : ∀ x ∈ σ.scopes, x.after = x.before
  joins : ∀ j ∈ σ.joins, j.after = j.before ∧ current j.after = some j.pid
  cbExcs : ∀ x ∈ σ.cbExcs, x.observed = x.scheduled ∧
    (⟨x.pid, .hook .callback_excepted, current x.scheduled, x.scheduled, x.tid⟩ : Obs) ∈ σ.log
  noAssert : σ.err ≠ some .scopeAssertion

theorem forall_mem_set {α} {P : α → Prop} {l : List α} {i : Nat} {a : α}
    (hl : ∀ x ∈ l, P x) (ha : P a) : ∀ x ∈ l.set i a, P x := by
  intro x hx
  rcases List.mem_or_eq_of_mem_set hx with h | h
  · exact hl x h
  · exact h ▸ ha

/-- the `callback_excepted` records stay justified when the log only grows -/
theorem cbExcs_mono {ex : List CbExc} {log log' : List Obs} (hsub : ∀ o ∈ log, o ∈ log')
    (h : ∀ x ∈ ex, x.observed = x.scheduled ∧
      (⟨x.pid, .hook .callback_excepted, current x.scheduled, x.scheduled, x.tid⟩ : Obs) ∈ log) :
    ∀ x ∈ ex, x.observed = x.scheduled ∧
      (⟨x.pid, .hook .callback_excepted, current x.scheduled, x.scheduled, x.tid⟩ : Obs) ∈ log' :=
  fun x hx => ⟨(h x hx).1, hsub _ (h x hx).2⟩

theorem mem_logHooks_of_mem (t : Tid) (q : Pid) (stack : List Pid) (hs : List Hook) (log : List Obs) :
    ∀ o ∈ log, o ∈ logHooks t q stack hs log := by
  intro o ho
  simp only [logHooks, List.mem_append]
  exact Or.inr ho

theorem logHooks_inv (t : Tid) (q : Pid) (stack : List Pid) (hs : List Hook) (log : List Obs)
    (hh : ∀ h ∈ hs, h.isOutput = false)
    (hl : ∀ o ∈ log, o.kind.inScope = true → o.cur = some o.owner) :
    ∀ o ∈ logHooks t q stack hs log, o.kind.inScope = true → o.cur = some o.owner := by
  intro o ho hk
  simp only [logHooks, List.mem_append, List.mem_reverse, List.mem_map] at ho
  rcases ho with ⟨h, hh', rfl⟩ | ho
  · simp [Kind.inScope, hh h hh'] at hk
  · exact hl o ho hk

theorem spawnProcess_inv {σ σ' : State} {t u : Tid} {stack : List Pid} {cls : Nat} {cr : Option Pid}
    (h : Inv σ) (hs : spawnProcess σ t stack cls cr = some (σ', u)) : Inv σ' := by
  unfold spawnProcess at hs
  split at hs
  · simp at hs
  · simp only [Option.some.injEq, Prod.mk.injEq] at hs
    obtain ⟨rfl, _⟩ := hs
    refine ⟨?_, ?_, h.scopes, h.joins, cbExcs_mono (mem_logHooks_of_mem _ _ _ _ _) h.cbExcs, h.noAssert⟩
    · intro T hT
      simp only [List.mem_append, List.mem_singleton] at hT
      rcases hT with hT | rfl
      · exact h.tasks T hT
      · exact wf_stepperOps _ _ _
    · exact logHooks_inv _ _ _ _ _ (transitionHooks_lifecycle _ _) h.log

theorem spawnProcess_scn {σ σ' : State} {t u : Tid} {stack : List Pid} {cls : Nat} {cr : Option Pid}
    (hs : spawnProcess σ t stack cls cr = some (σ', u)) :
    σ'.tasks.length = σ.tasks.length + 1 ∧ u = σ.tasks.length ∧ σ'.callStack = σ.callStack ∧
    (∀ i, i < σ.tasks.length → σ'.tasks[i]? = σ.tasks[i]?) := by
  unfold spawnProcess at hs
  split at hs
  · simp at hs
  · simp only [Option.some.injEq, Prod.mk.injEq] at hs
    obtain ⟨rfl, rfl⟩ := hs
    refine ⟨by simp, rfl, rfl, ?_⟩
    intro i hi
    simp [List.getElem?_append_left hi]

/-- every micro operation of every task preserves the invariant -/
theorem exec1_inv {σ : State} (t : Tid) (h : Inv σ) : Inv (exec1 σ t).1 := by
  unfold exec1
  split
  · exact ⟨h.tasks, h.log, h.scopes, h.joins, h.cbExcs, by simp⟩
  · rename_i T hT
    have hmem : T ∈ σ.tasks := List.mem_of_getElem? hT
    have hwf := h.tasks T hmem
    split
    · exact h
    · rename_i op rest hcode
      rw [hcode] at hwf
      split
      · -- push
        simp only [WF] at hwf
        exact ⟨forall_mem_set h.tasks hwf, h.log, h.scopes, h.joins, h.cbExcs, h.noAssert⟩
      · -- pop
        simp only [WF] at hwf
        obtain ⟨s', sv', hs, hsv, hw⟩ := hwf
        split
        · refine ⟨forall_mem_set h.tasks (by simpa [hs, hsv] using hw), h.log, ?_, h.joins, h.cbExcs, h.noAssert⟩
          intro x hx
          simp only [List.mem_cons] at hx
          rcases hx with rfl | hx
          · simp [hs, hsv]
          · exact h.scopes x hx
        · rename_i hne
          simp [hs, current] at hne
      · -- obs
        simp only [WF] at hwf
        refine ⟨forall_mem_set h.tasks hwf.2, ?_, h.scopes, h.joins,
          cbExcs_mono (fun o ho => List.mem_cons_of_mem _ ho) h.cbExcs, h.noAssert⟩
        intro o ho hk
        simp only [List.mem_cons] at ho
        rcases ho with rfl | ho
        · exact hwf.1 hk
        · exact h.log o ho hk
      · simp only [WF] at hwf
        exact ⟨forall_mem_set h.tasks hwf, h.log, h.scopes, h.joins, h.cbExcs, h.noAssert⟩
      · simp only [WF] at hwf
        exact ⟨forall_mem_set h.tasks hwf, h.log, h.scopes, h.joins, h.cbExcs, h.noAssert⟩
      · -- callSoon
        simp only [WF] at hwf
        split
        · exact ⟨h.tasks, h.log, h.scopes, h.joins, h.cbExcs, by simp⟩
        · refine ⟨?_, h.log, h.scopes, h.joins, h.cbExcs, h.noAssert⟩
          intro T' hT'
          simp only [List.mem_append, List.mem_singleton] at hT'
          rcases hT' with hT' | rfl
          · exact forall_mem_set h.tasks hwf T' hT'
          · exact wf_cbCode _ _ _ _ _
      · -- launch
        simp only [WF] at hwf
        split
        · exact ⟨h.tasks, h.log, h.scopes, h.joins, h.cbExcs, by simp⟩
        · rename_i σ' u hsp
          exact spawnProcess_inv (σ := { σ with tasks := σ.tasks.set t { T with code := rest } })
            ⟨forall_mem_set h.tasks hwf, h.log, h.scopes, h.joins, h.cbExcs, h.noAssert⟩ hsp
      · -- execute
        simp only [WF] at hwf
        split
        · exact ⟨h.tasks, h.log, h.scopes, h.joins, h.cbExcs, by simp⟩
        · rename_i σ' u hsp
          have h' := spawnProcess_inv h hsp
          exact ⟨forall_mem_set h'.tasks hwf, h'.log, h'.scopes, h'.joins, h'.cbExcs, h'.noAssert⟩
      · -- inline: the child's stepping coroutine, then the handler, then the rest of the awaiting code
        simp only [WF] at hwf
        split
        · exact ⟨h.tasks, h.log, h.scopes, h.joins, h.cbExcs, by simp⟩
        · refine ⟨forall_mem_set h.tasks ?_, logHooks_inv _ _ _ _ _ (transitionHooks_lifecycle _ _) h.log, h.scopes,
            h.joins, cbExcs_mono (mem_logHooks_of_mem _ _ _ _ _) h.cbExcs, h.noAssert⟩
          apply wf_stepperOps_append
          simp only [WF]
          exact ⟨trivial, hwf⟩
      · -- handler: reached normally, or by `unwind` (then the `except` clause samples)
        simp only [WF] at hwf
        refine ⟨forall_mem_set h.tasks hwf.2.2, ?_, h.scopes, ?_,
          cbExcs_mono (fun o ho => by split <;> simp [ho]) h.cbExcs, h.noAssert⟩
        · intro o ho hk
          split at ho
          · simp only [List.mem_cons] at ho
            rcases ho with rfl | ho
            · exact hwf.2.1
            · exact h.log o ho hk
          · exact h.log o ho hk
        · intro j hj
          simp only [List.mem_cons] at hj
          rcases hj with rfl | hj
          · exact ⟨hwf.1, hwf.2.1⟩
          · exact h.joins j hj
      · -- throw
        simp only [WF] at hwf
        exact ⟨forall_mem_set h.tasks (by simpa using wf_unwind .baseException rest 0 _ _ hwf), h.log, h.scopes, h.joins, h.cbExcs, h.noAssert⟩
      · -- callSoonCreator: the new task starts on this task's stack, whatever process the callback belongs to
        simp only [WF] at hwf
        split
        · exact ⟨h.tasks, h.log, h.scopes, h.joins, h.cbExcs, by simp⟩
        · split
          · exact ⟨forall_mem_set h.tasks hwf, h.log, h.scopes, h.joins, h.cbExcs, h.noAssert⟩
          · refine ⟨?_, h.log, h.scopes, h.joins, h.cbExcs, h.noAssert⟩
            intro T' hT'
            simp only [List.mem_append, List.mem_singleton] at hT'
            rcases hT' with hT' | rfl
            · exact forall_mem_set h.tasks hwf T' hT'
            · exact wf_cbCode _ _ _ _ _
      · -- excepted: `callback_excepted` samples, on the stack the task started with
        simp only [WF] at hwf
        refine ⟨forall_mem_set h.tasks hwf.2, ?_, h.scopes, h.joins, ?_, h.noAssert⟩
        · intro o ho hk
          simp only [List.mem_cons] at ho
          rcases ho with rfl | ho
          · simp [Kind.inScope, Hook.isOutput] at hk
          · exact h.log o ho hk
        · intro x hx
          simp only [List.mem_cons] at hx
          rcases hx with rfl | hx
          · exact ⟨hwf.1, by simp [hwf.1]⟩
          · exact cbExcs_mono (fun o ho => List.mem_cons_of_mem _ ho) h.cbExcs x hx

theorem resumable_inv {σ σ' : State} {b : Tid} (h : Inv σ) (hr : resumable σ = some (b, σ')) : Inv σ' := by
  unfold resumable at hr
  split at hr
  · simp at hr
  · split at hr
    · simp at hr
    · rename_i B hB
      split at hr
      · simp at hr
      · split at hr
        · simp at hr
        · split at hr
          · simp only [Option.some.injEq, Prod.mk.injEq] at hr
            obtain ⟨_, rfl⟩ := hr
            exact ⟨forall_mem_set h.tasks (h.tasks B (List.mem_of_getElem? hB)), h.log, h.scopes, h.joins, h.cbExcs, h.noAssert⟩
          · simp at hr

theorem run_inv (n : Nat) {σ : State} (t : Tid) (h : Inv σ) : Inv (run n σ t) := by
  induction n generalizing σ t with
  | zero => exact ⟨h.tasks, h.log, h.scopes, h.joins, h.cbExcs, by simp [run]⟩
  | succ n ih =>
    have h1 := exec1_inv t h
    simp only [run]
    split
    · exact ih t h1
    · exact h1
    · exact h1
    · split
      · rename_i hr; exact ih _ (resumable_inv h1 hr)
      · exact h1
    · split
      · rename_i hr; exact ih _ (resumable_inv h1 hr)
      · exact h1

theorem deliver_inv {σ : State} (t : Tid) (h : Inv σ) : Inv (deliver σ t) := by
  unfold deliver
  split
  · exact h
  · rename_i T hT
    split
    · refine ⟨forall_mem_set h.tasks ?_, h.log, h.scopes, h.joins, h.cbExcs, h.noAssert⟩
      simpa using wf_unwind .cancelled T.code 0 _ _ (h.tasks T (List.mem_of_getElem? hT))
    · exact h

theorem step_inv {σ : State} (e : Event) (h : Inv σ) : Inv (step σ e) := by
  cases e with
  | cancel t =>
    simp only [step]
    split
    · exact h
    · split
      · exact ⟨h.tasks, h.log, h.scopes, h.joins, h.cbExcs, by simp⟩
      · rename_i T hT
        split
        · exact ⟨forall_mem_set h.tasks (h.tasks T (List.mem_of_getElem? hT)), h.log, h.scopes, h.joins, h.cbExcs, h.noAssert⟩
        · exact ⟨h.tasks, h.log, h.scopes, h.joins, h.cbExcs, by simp⟩
  | tick t =>
    simp only [step]
    split
    · exact h
    · split
      · exact run_inv _ t (deliver_inv t h)
      · exact ⟨h.tasks, h.log, h.scopes, h.joins, h.cbExcs, by simp⟩
  | resume t =>
    simp only [step]
    split
    · exact h
    · split
      · exact ⟨h.tasks, h.log, h.scopes, h.joins, h.cbExcs, by simp⟩
      · rename_i T hT
        split
        · exact ⟨forall_mem_set h.tasks (h.tasks T (List.mem_of_getElem? hT)), h.log, h.scopes, h.joins, h.cbExcs, h.noAssert⟩
        · exact ⟨h.tasks, h.log, h.scopes, h.joins, h.cbExcs, by simp⟩
  | kill t =>
    simp only [step]
    split
    · exact h
    · split
      · exact ⟨h.tasks, h.log, h.scopes, h.joins, h.cbExcs, by simp⟩
      · rename_i T hT
        split
        · split
          · rename_i p e rest hcode
            have hwf := h.tasks T (List.mem_of_getElem? hT)
            rw [hcode] at hwf
            simp only [WF] at hwf
            obtain ⟨s', sv', hs, hsv, hw⟩ := hwf
            refine ⟨forall_mem_set h.tasks ?_, h.log, h.scopes, h.joins, h.cbExcs, h.noAssert⟩
            simp only [WF]
            refine ⟨s', sv', hs, hsv, ?_⟩
            exact wf_hooks_append p _ (s := s') (sv := sv') _ (transitionHooks_lifecycle _ _)
              (by simpa using wf_toHandler _ 0 _ _ hw)
          · exact ⟨h.tasks, h.log, h.scopes, h.joins, h.cbExcs, by simp⟩
        · exact ⟨h.tasks, h.log, h.scopes, h.joins, h.cbExcs, by simp⟩
  | callSoon p cb =>
    simp only [step]
    split
    · exact h
    · split
      · exact ⟨h.tasks, h.log, h.scopes, h.joins, h.cbExcs, by simp⟩
      · split
        · refine ⟨?_, h.log, h.scopes, h.joins, h.cbExcs, h.noAssert⟩
          intro T hT
          simp only [List.mem_append, List.mem_singleton] at hT
          rcases hT with hT | rfl
          · exact h.tasks T hT
          · exact wf_cbCode _ _ _ _ _
        · exact ⟨h.tasks, h.log, h.scopes, h.joins, h.cbExcs, by simp⟩

theorem runEvents_inv {σ : State} (es : List Event) (h : Inv σ) : Inv (runEvents σ es) := by
  induction es generalizing σ with
  | nil => exact h
  | cons e es ih => exact ih (step_inv e h)

theorem initTop_inv {σ : State} (top : List Nat) (h : Inv σ) : Inv (initTop σ top) := by
  induction top generalizing σ with
  | nil => exact h
  | cons c top ih =>
    simp only [initTop]
    split
    · exact ⟨h.tasks, h.log, h.scopes, h.joins, h.cbExcs, by simp⟩
    · rename_i σ' u hsp
      exact ih (spawnProcess_inv h hsp)

theorem init_inv (scn : Scenario) (top : List Nat) : Inv (init scn top) :=
  initTop_inv top ⟨by simp, by simp, by simp, by simp, by simp, by simp⟩

/-- every reachable state satisfies the invariant, for every scenario and every order of ticks -/
theorem reachable_inv (scn : Scenario) (top : List Nat) (es : List Event) : Inv (runEvents (init scn top) es) :=
  runEvents_inv es (init_inv scn top)

/-! ## Frame: a micro operation of task `t` touches only `t`'s own context -/

structure Frame (σ σ' : State) (t : Tid) : Prop where
  len : σ.tasks.length ≤ σ'.tasks.length
  others : ∀ i, i < σ.tasks.length → i ≠ t → σ'.tasks[i]? = σ.tasks[i]?
  calls : σ'.callStack = σ.callStack ∨ σ'.callStack = t :: σ.callStack

theorem getElem?_set_append_ne {α} (l : List α) (t i : Nat) (a : α) (l2 : List α) (hi : i < l.length) (hne : i ≠ t) :
    (l.set t a ++ l2)[i]? = l[i]? := by
  rw [List.getElem?_append_left (by simpa using hi), List.getElem?_set_ne (Ne.symm hne)]

theorem exec1_frame (σ : State) (t : Tid) : Frame σ (exec1 σ t).1 t := by
  unfold exec1
  split
  · exact ⟨Nat.le_refl _, fun _ _ _ => rfl, Or.inl rfl⟩
  · rename_i T hT
    split
    · exact ⟨Nat.le_refl _, fun _ _ _ => rfl, Or.inl rfl⟩
    · rename_i op rest hcode
      split
      · exact ⟨by simp, fun i _ hne => by simp [List.getElem?_set_ne (Ne.symm hne)], Or.inl rfl⟩
      · split
        · exact ⟨by simp, fun i _ hne => by simp [List.getElem?_set_ne (Ne.symm hne)], Or.inl rfl⟩
        · exact ⟨Nat.le_refl _, fun _ _ _ => rfl, Or.inl rfl⟩
      · exact ⟨by simp, fun i _ hne => by simp [List.getElem?_set_ne (Ne.symm hne)], Or.inl rfl⟩
      · exact ⟨by simp, fun i _ hne => by simp [List.getElem?_set_ne (Ne.symm hne)], Or.inl rfl⟩
      · exact ⟨by simp, fun i _ hne => by simp [List.getElem?_set_ne (Ne.symm hne)], Or.inl rfl⟩
      · split
        · exact ⟨Nat.le_refl _, fun _ _ _ => rfl, Or.inl rfl⟩
        · exact ⟨by simp, fun i hi hne => getElem?_set_append_ne _ _ _ _ _ hi hne, Or.inl rfl⟩
      · split
        · exact ⟨Nat.le_refl _, fun _ _ _ => rfl, Or.inl rfl⟩
        · rename_i σ' u hsp
          obtain ⟨hl, _, hc, ho⟩ := spawnProcess_scn hsp
          simp only [List.length_set] at hl ho
          refine ⟨by show σ.tasks.length ≤ σ'.tasks.length; omega, fun i hi hne => ?_, Or.inl hc⟩
          show σ'.tasks[i]? = σ.tasks[i]?
          rw [ho i hi, List.getElem?_set_ne (Ne.symm hne)]
      · split
        · exact ⟨Nat.le_refl _, fun _ _ _ => rfl, Or.inl rfl⟩
        · rename_i σ' u hsp
          obtain ⟨hl, _, hc, ho⟩ := spawnProcess_scn hsp
          refine ⟨by simp only [List.length_set]; omega, fun i hi hne => ?_, Or.inr (by simp [hc])⟩
          simp only
          rw [List.getElem?_set_ne (Ne.symm hne), ho i hi]
      · split
        · exact ⟨Nat.le_refl _, fun _ _ _ => rfl, Or.inl rfl⟩
        · exact ⟨by simp, fun i _ hne => by simp [List.getElem?_set_ne (Ne.symm hne)], Or.inl rfl⟩
      · exact ⟨by simp, fun i _ hne => by simp [List.getElem?_set_ne (Ne.symm hne)], Or.inl rfl⟩
      · exact ⟨by simp, fun i _ hne => by simp [List.getElem?_set_ne (Ne.symm hne)], Or.inl rfl⟩
      · split
        · exact ⟨Nat.le_refl _, fun _ _ _ => rfl, Or.inl rfl⟩
        · split
          · exact ⟨by simp, fun i _ hne => by simp [List.getElem?_set_ne (Ne.symm hne)], Or.inl rfl⟩
          · exact ⟨by simp, fun i hi hne => getElem?_set_append_ne _ _ _ _ _ hi hne, Or.inl rfl⟩
      · exact ⟨by simp, fun i _ hne => by simp [List.getElem?_set_ne (Ne.symm hne)], Or.inl rfl⟩

theorem resumable_frame {σ σ' : State} {b : Tid} (hr : resumable σ = some (b, σ')) :
    σ.callStack = b :: σ'.callStack ∧ σ'.tasks.length = σ.tasks.length ∧
    (∀ i, i ≠ b → σ'.tasks[i]? = σ.tasks[i]?) ∧
    (∀ B, σ.tasks[b]? = some B → σ'.tasks[b]? = some { B with waitingOn := none }) := by
  unfold resumable at hr
  split at hr
  · simp at hr
  · rename_i b' rest hcs
    split at hr
    · simp at hr
    · rename_i B hB
      split at hr
      · simp at hr
      · split at hr
        · simp at hr
        · split at hr
          · simp only [Option.some.injEq, Prod.mk.injEq] at hr
            obtain ⟨rfl, rfl⟩ := hr
            refine ⟨hcs, by simp, fun i hne => by simp [List.getElem?_set_ne (Ne.symm hne)], ?_⟩
            intro B' hB'
            rw [hB] at hB'
            cases hB'
            have : b' < σ.tasks.length := by
              rcases Nat.lt_or_ge b' σ.tasks.length with h | h
              · exact h
              · simp [List.getElem?_eq_none h] at hB
            simp [List.getElem?_set_self this]
          · simp at hr

/-- **frame of a whole tick**: a task that is neither the one ticked nor inside a nested `run_until_complete` (those may
be resumed when their inner future completes) keeps its whole record — stack, remaining code, flags -/
theorem run_frame (n : Nat) (σ : State) (t u : Tid) (hu : u < σ.tasks.length) (hne : u ≠ t) (hcs : u ∉ σ.callStack) :
    (run n σ t).tasks[u]? = σ.tasks[u]? := by
  induction n generalizing σ t with
  | zero => simp [run]
  | succ n ih =>
    have hf := exec1_frame σ t
    have hu1 : u < (exec1 σ t).1.tasks.length := Nat.lt_of_lt_of_le hu hf.len
    have hcs1 : u ∉ (exec1 σ t).1.callStack := by
      rcases hf.calls with h | h <;> rw [h] <;> simp [hcs, hne]
    have hres : ∀ b σ'', resumable (exec1 σ t).1 = some (b, σ'') → (run n σ'' b).tasks[u]? = σ.tasks[u]? := by
      intro b σ'' hr
      obtain ⟨h1, h2, h3, _⟩ := resumable_frame hr
      have hub : u ≠ b := by
        intro hb; apply hcs1; rw [h1, hb]; simp
      rw [ih σ'' b (by rw [h2]; exact hu1) hub (by intro hm; apply hcs1; rw [h1]; simp [hm]), h3 u hub, hf.others u hu hne]
    simp only [run]
    split
    · rw [ih _ t hu1 hne hcs1, hf.others u hu hne]
    · exact hf.others u hu hne
    · exact hf.others u hu hne
    · split
      · rename_i hr; exact hres _ _ hr
      · exact hf.others u hu hne
    · split
      · rename_i hr; exact hres _ _ hr
      · exact hf.others u hu hne

/-- throwing the pending `CancelledError` into task `t` touches only `t`'s record -/
theorem deliver_frame (σ : State) (t : Tid) :
    (deliver σ t).tasks.length = σ.tasks.length ∧ (deliver σ t).callStack = σ.callStack ∧
    (∀ u, u ≠ t → (deliver σ t).tasks[u]? = σ.tasks[u]?) ∧
    ((deliver σ t).tasks[t]?.map (·.stack) = σ.tasks[t]?.map (·.stack)) := by
  unfold deliver
  split
  · exact ⟨rfl, rfl, fun _ _ => rfl, rfl⟩
  · rename_i T hT
    split
    · have ht : t < σ.tasks.length := by
        rcases Nat.lt_or_ge t σ.tasks.length with h | h
        · exact h
        · simp [List.getElem?_eq_none h] at hT
      exact ⟨by simp, rfl, fun u hne => by simp [List.getElem?_set_ne (Ne.symm hne)],
        by simp [List.getElem?_set_self ht, hT]⟩
    · exact ⟨rfl, rfl, fun _ _ => rfl, rfl⟩

theorem step_frame (σ : State) (t u : Tid) (hu : u < σ.tasks.length) (hne : u ≠ t) (hcs : u ∉ σ.callStack) :
    (step σ (.tick t)).tasks[u]? = σ.tasks[u]? := by
  simp only [step]
  split
  · rfl
  · split
    · obtain ⟨hl, hc, ho, _⟩ := deliver_frame σ t
      rw [run_frame _ (deliver σ t) t u (by rw [hl]; exact hu) hne (by rw [hc]; exact hcs), ho u hne]
    · rfl

/-- requesting the cancellation of a task changes no stack at all (the scopes are left by the task itself, when it runs) -/
theorem cancel_frame (σ : State) (t u : Tid) :
    (step σ (.cancel t)).tasks[u]?.map (·.stack) = σ.tasks[u]?.map (·.stack) := by
  simp only [step]
  split
  · rfl
  · split
    · rfl
    · rename_i T hT
      split
      · by_cases h : u = t
        · subst h
          have : u < σ.tasks.length := by
            rcases Nat.lt_or_ge u σ.tasks.length with h | h
            · exact h
            · simp [List.getElem?_eq_none h] at hT
          simp [List.getElem?_set_self this, hT]
        · simp [List.getElem?_set_ne (Ne.symm h)]
      · rfl

theorem resume_frame (σ : State) (t u : Tid) :
    (step σ (.resume t)).tasks[u]?.map (·.stack) = σ.tasks[u]?.map (·.stack) := by
  simp only [step]
  split
  · rfl
  · split
    · rfl
    · rename_i T hT
      split
      · by_cases h : u = t
        · subst h
          have : u < σ.tasks.length := by
            rcases Nat.lt_or_ge u σ.tasks.length with h | h
            · exact h
            · simp [List.getElem?_eq_none h] at hT
          simp [List.getElem?_set_self this, hT]
        · simp [List.getElem?_set_ne (Ne.symm h)]
      · rfl

theorem kill_frame (σ : State) (t u : Tid) :
    (step σ (.kill t)).tasks[u]?.map (·.stack) = σ.tasks[u]?.map (·.stack) := by
  simp only [step]
  split
  · rfl
  · split
    · rfl
    · rename_i T hT
      split
      · split
        · by_cases h : u = t
          · subst h
            have : u < σ.tasks.length := by
              rcases Nat.lt_or_ge u σ.tasks.length with h | h
              · exact h
              · simp [List.getElem?_eq_none h] at hT
            simp [List.getElem?_set_self this, hT]
          · simp [List.getElem?_set_ne (Ne.symm h)]
        · rfl
      · rfl

theorem callSoon_frame (σ : State) (p : Pid) (cb : Nat) (u : Tid) (hu : u < σ.tasks.length) :
    (step σ (.callSoon p cb)).tasks[u]? = σ.tasks[u]? := by
  simp only [step]
  split
  · rfl
  · split
    · rfl
    · split
      · simp [List.getElem?_append_left hu]
      · rfl

end ProcStack
