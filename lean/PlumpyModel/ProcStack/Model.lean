import PlumpyModel.Gen.Lifecycle
/-!
# The process stack (`PROCESS_STACK`, `Process.current`, `_process_scope`, `_run_task`)  — model for C18

Assumed contracts of what is *not* plumpy (trusted base, exercised through the real libraries by the correspondence check):

* `contextvars` + asyncio tasks: a task runs all its steps in its own context, which is a *copy* of the context of the
  code that created the task (`loop.create_task`, `asyncio.ensure_future`); `ContextVar.set` inside a task is seen only
  by that task.  Model: every task owns a `stack`; creating a task copies the creator's stack.
* plumpy never mutates the list stored in `PROCESS_STACK` (`_process_scope` copies, then appends / pops), so the copy of a
  context is a copy of the stack: a `List Pid` value.
* the event loop runs one ready callback at a time, in *any* order (`tick t` names the task; FIFO asyncio is one instance).
* nest_asyncio: `loop.run_until_complete(f)` called from inside a running callback creates the task of `f` (context
  copy) and runs ready callbacks of the same loop — of any task except those whose callback is still on the Python call
  stack — until `f` is done; it tests `f.done()` after every callback and then returns into the calling code.

* `await coro()` runs the awaited coroutine inside the awaiting task: same task, same context, same stack variable.
* asyncio cancellation: `Task.cancel()` on a task that is suspended (or has not started) makes it ready; the
  `CancelledError` is thrown into the coroutine, at the point where it is suspended (at its very start if it never ran),
  when the task runs next; a coroutine that catches it carries on as after any exception.  `CancelledError` is a
  `BaseException` that is not an `Exception`.  A task whose coroutine ends with an exception is done.

plumpy side, mirrored function by function:

* `Process._process_scope`  → `Op.push p` / `Op.pop p` (the `assert Process.current() is self` is `Err.scopeAssertion`)
* `Process._run_task(fn)`   → `runTask p body`  (`with self._process_scope(): await fn()`; the `with` also pops when `fn` raises)
* `Process.call_soon(cb)`   → `Op.callSoon p cb`: a new task running `ProcessCallback.run` = `_run_task(cb)`; called on
  **another** process — the creator of the process whose code is running, `creator.call_soon(cb)` → `Op.callSoonCreator p cb`:
  the new task copies the context of the *calling* code (stack: …, creator, …, p), its scope pushes the creator again
* `ProcessCallback.run`     → `cbOps` / `cbOpsExc`: `try: await process._run_task(cb)` / `except Exception:
  process.callback_excepted(..)`: when the callback raises, the scope is left through the exception (`Exit.exception`) and
  the public hook `callback_excepted` runs **after** the scope, in the callback's task (`Op.excepted`).  The generated
  classes override that hook to take a sample and nothing else (the default implementation calls `fail()`: C03's subject).
* `Process.launch(cls)`     → `Op.launch p cls`: construct (hooks of the constructor run inline), new task `step_until_terminated`
* `Process.execute()`       → `Op.execute p cls`: construct, new task, nested `run_until_complete`
* `Process.step`/`step_until_terminated` → `stepperOps`: `_run_task(self._state.execute)` and **after it returned**
  `transition_to(next_state)`, which fires the lifecycle hooks (`transitionHooks`) — outside the scope, as in the code.
* a child awaited **inline** (`child = Cls(..)`, then `await child.step_until_terminated()` inside a step or callback of `p`,
  in a `try` whose `except BaseException` absorbs whatever comes out) → `Op.inline p cls`: no new task, no new context;
  the child's coroutine runs inside the awaiting task (`stepperOps` of the child spliced in front of `Op.handler p`), so the
  scope stack while the child steps is the parent's plus the child.
* a step left through a **BaseException** — `raise BaseBoom()` in user code (`Op.throw`), or `task.cancel()` from outside
  (`Event.cancel`, `CancelledError` thrown at the await point the task is suspended at when it next runs) → `unwind`:
  neither `Running.execute`, `Waiting.execute` nor `step` catch it (`except Exception`); the only code that runs while it
  propagates is the `finally` of every open `_process_scope` (assert + pop, innermost first), up to the innermost
  absorbing handler; without one the coroutine, hence the task, ends.  No transition, no hook: the process stays in the
  state it was in.

The stack is kept newest first (`head` = top = `PROCESS_STACK.get()[-1]`); the driver prints it bottom first.
-/
namespace ProcStack
open PMF

abbrev Pid := Nat
abbrev Tid := Nat

/-- the overridable event methods of `Process` that the generated classes instrument -/
inductive Hook
  | on_create | on_entering | on_entered | on_exiting | on_run | on_running | on_exit_running
  | on_wait | on_waiting | on_exit_waiting | on_finish | on_finished | on_except | on_excepted
  | on_kill | on_killed | on_terminated | on_close
  | on_output_emitting | on_output_emitted
  | callback_excepted   -- called by `ProcessCallback.run` when a scheduled callback raised, after `_run_task` was left
deriving DecidableEq, Repr, Inhabited

/-- hooks called by `Process.out()`, i.e. from user code running inside a step; all others are fired by
`transition_to` / the constructor / `close()`, or (`callback_excepted`) by `ProcessCallback.run` — outside the scope -/
def Hook.isOutput : Hook → Bool
  | .on_output_emitting | .on_output_emitted => true
  | _ => false

/-- the kind of a code point that samples `Process.current()` -/
inductive Kind
  | seg      -- entry of a step function / continuation
  | aw       -- after an `await` inside a step function
  | o        -- explicit sample in user code
  | cbseg    -- entry of a callback scheduled with `call_soon`
  | cbaw     -- after an `await` inside a callback
  | lret     -- after `self.launch(..)` returned
  | xret     -- after `Other(..).execute()` returned
  | csret    -- after `self.call_soon(..)` returned
  | pcret    -- after `if creator is not None: creator.call_soon(..)` (a callback scheduled on the creator of this process)
  | uret     -- after `self.out(..)` returned
  | iret     -- after the `try: await child.step_until_terminated() except BaseException: ..` statement (child awaited inline)
  | absorbed -- inside that `except BaseException` clause: a BaseException / cancellation came out of the inline child
  | hook (h : Hook)
deriving DecidableEq, Repr, Inhabited

/-- code that is run through `_run_task` of its process: step functions, continuations, scheduled callbacks and what
they call synchronously (output hooks). Lifecycle hooks (and `callback_excepted`) are the complement. -/
def Kind.inScope : Kind → Bool
  | .hook h => h.isOutput
  | _ => true

def Kind.isLifecycleHook : Kind → Bool
  | .hook h => !h.isOutput
  | _ => false

/-! ## User programs (oracle: any scenario) -/

inductive Act
  | obs | await | out
  | callSoon (cb : Nat) | launch (cls : Nat) | execute (cls : Nat)
  | inline (cls : Nat)     -- `c = Cls(..)`; `try: await c.step_until_terminated()` / `except BaseException:` sample, carry on
  | callSoonCreator (cb : Nat)   -- `if creator is not None: creator.call_soon(cb)`; creator = the process whose code
                                 -- launched / executed / inline-awaited the process whose code is running
deriving DecidableEq, Repr, Inhabited

/-- how a step function ends: `Continue(next)`, `Wait(next)`, plain return, an `Exception`, or a `BaseException`
that is not an `Exception` (`raiseBase`) -/
inductive End | next | wait | finish | raise | raiseBase
deriving DecidableEq, Repr, Inhabited

/-- how a `_process_scope` was left: the awaited code returned; an `Interruption` (kill of a waiting process) was raised
through it; a BaseException raised by user code propagated through it; the task was cancelled while suspended inside it;
a scheduled callback raised an `Exception` through `_run_task` (caught by `ProcessCallback.run`) -/
inductive Exit | returned | interrupted | baseException | cancelled | exception
deriving DecidableEq, Repr, Inhabited

structure Step where
  code : List Act
  end_ : End
deriving Repr, Inhabited

structure Scenario where
  classes : List (List Step)
  cbs : List (List Act)
  cbRaise : List Nat := []   -- the callbacks (indices into `cbs`) that end with `raise Boom()` (an `Exception`)
deriving Repr, Inhabited

/-! ## Micro operations of a task (what its coroutine still has to do) -/

inductive Op
  | push (p : Pid)
  | pop (p : Pid) (how : Exit)     -- the `finally:` of `_process_scope` (assert + pop); `how` only labels the record
  | obs (p : Pid) (k : Kind)
  | yield
  | park
  | callSoon (p : Pid) (cb : Nat)
  | launch (p : Pid) (cls : Nat)
  | execute (p : Pid) (cls : Nat)
  | inline (p : Pid) (cls : Nat)   -- construct the child, enter the `try`, start awaiting its `step_until_terminated()`
  | handler (p : Pid) (atTry : List Pid) (absorbing : Bool)
      -- end of that `try` block; `absorbing` = reached by `unwind` (the `except` clause runs: the `absorbed` sample), else
      -- reached because the awaited coroutine returned (nothing to do).  `atTry` = the task's stack when the `try` was
      -- entered: a history variable, only copied into the `Join` record
  | throw                          -- `raise BaseBoom()`
  | callSoonCreator (p : Pid) (cb : Nat)   -- `creator_of_p.call_soon(cb)` from code of `p` (nothing if `p` has no creator)
  | excepted (p : Pid) (sched : List Pid)
      -- `p.callback_excepted(..)`, called by `ProcessCallback.run` after the callback raised out of `_run_task`: the sample
      -- taken by that hook.  `sched` = the stack of the code that called `call_soon`, at that moment (= the stack the task
      -- started with): a history variable, only copied into the `CbExc` record
deriving DecidableEq, Repr, Inhabited

def actOps (p : Pid) (inCb : Bool) : Act → List Op
  | .obs => [.obs p .o]
  | .await => [.yield, .obs p (if inCb then .cbaw else .aw)]
  | .out => [.obs p (.hook .on_output_emitting), .obs p (.hook .on_output_emitted), .obs p .uret]
  | .callSoon cb => [.callSoon p cb, .obs p .csret]
  | .launch c => [.launch p c, .obs p .lret]
  | .execute c => [.execute p c, .obs p .xret]
  | .inline c => [.inline p c, .obs p .iret]
  | .callSoonCreator cb => [.callSoonCreator p cb, .obs p .pcret]

/-- the body of a user function of process `p` -/
def codeOps (p : Pid) (inCb : Bool) (code : List Act) : List Op :=
  .obs p (if inCb then .cbseg else .seg) :: code.flatMap (actOps p inCb)

/-- `Process._run_task`: `with self._process_scope(): result = await coro()` -/
def runTask (p : Pid) (body : List Op) : List Op := .push p :: (body ++ [.pop p .returned])

/-- a BaseException is raised at the head of the remaining coroutine `c` of a task (`d` = number of scopes of the skipped
code that were not entered yet): everything is skipped except the `finally` of the scopes that are open — in order,
innermost first — up to the innermost absorbing handler, which takes its sample and carries on; if there is none the
coroutine ends.  (A handler never lies inside a scope that has not been entered: handlers are only created by `Op.inline`
when it executes; that case skips.) -/
def unwind (how : Exit) : Nat → List Op → List Op
  | _, [] => []
  | d, .push _ :: c => unwind how (d + 1) c
  | 0, .pop p _ :: c => .pop p how :: unwind how 0 c
  | d + 1, .pop _ _ :: c => unwind how d c
  | 0, .handler p s0 _ :: c => .handler p s0 true :: c
  | d, _ :: c => unwind how d c

/-- what remains of a coroutine once the process whose stepping coroutine is at its head has terminated (`d` = number of
its scopes skipped so far that were not entered): the code from the end of the inline await of that process on; `[]` for a
process that steps in a task of its own.  (The exit of a scope that is open is not code of that process: skipping stops.) -/
def toHandler : Nat → List Op → List Op
  | _, [] => []
  | d, .push _ :: c => toHandler (d + 1) c
  | 0, .pop p how :: c => .pop p how :: c
  | d + 1, .pop _ _ :: c => toHandler d c
  | 0, .handler p s0 a :: c => .handler p s0 a :: c
  | d, _ :: c => toHandler d c

/-- `Process.on_exiting` -/
def onExiting : Label → List Hook
  | .waiting => [.on_exit_waiting]
  | .running => [.on_exit_running]
  | _ => []

/-- `Process.on_entering` -/
def onEntering : Label → List Hook
  | .created => [.on_create]
  | .running => [.on_run]
  | .waiting => [.on_wait]
  | .finished => [.on_finish]
  | .killed => [.on_kill]
  | .excepted => [.on_except]

/-- `Process.on_entered` -/
def onEntered : Label → List Hook
  | .running => [.on_running]
  | .waiting => [.on_waiting]
  | .finished => [.on_finished]
  | .excepted => [.on_excepted]
  | .killed => [.on_killed]
  | .created => []

/-- `StateMachine.transition_to`: `_exit_current_state` (EXITING_STATE event), `_enter_next_state` (ENTERING_STATE,
ENTERED_STATE events), `on_terminated` (which closes the process) when the new state is terminal -/
def transitionHooks (old : Option Label) (new : Label) : List Hook :=
  (match old with | none => [] | some l => .on_exiting :: onExiting l)
  ++ (.on_entering :: onEntering new) ++ (.on_entered :: onEntered new)
  ++ (if isTerminalDecl new then [.on_terminated, .on_close] else [])

def hooksOps (p : Pid) (hs : List Hook) : List Op := hs.map (fun h => .obs p (.hook h))

/-- the constructor: `StateMachineMeta.__call__` enters the initial state -/
def constructorHooks : List Hook := transitionHooks none initialLabel

/-- the body of a step function: its code, then `raise BaseBoom()` if that is how it ends (the other endings are return
values, or an `Exception` that `Running.execute` turns into the EXCEPTED state: `_run_task` returns normally) -/
def stepBody (p : Pid) (s : Step) : List Op :=
  codeOps p false s.code ++ (match s.end_ with | .raiseBase => [.throw] | _ => [])

/-- `step_until_terminated` from the RUNNING state on: one `step()` per user step function.
`step()` = `_run_task(self._state.execute)`, then `transition_to(next_state)`. -/
def stepsOps (p : Pid) : List Step → List Op
  | [] => []
  | s :: rest =>
    runTask p (stepBody p s) ++
    match s.end_ with
    | .finish => hooksOps p (transitionHooks (some .running) .finished)
    | .raise => hooksOps p (transitionHooks (some .running) .excepted)
    | .raiseBase => []             -- unreachable: the body ended with `throw`; nothing of this process follows
    | .next => hooksOps p (transitionHooks (some .running) .running) ++ stepsOps p rest
    | .wait => hooksOps p (transitionHooks (some .running) .waiting)
               ++ runTask p [.park]      -- `_run_task(Waiting.execute)`: `await self._waiting_future`
               ++ hooksOps p (transitionHooks (some .waiting) .running) ++ stepsOps p rest

/-- the coroutine `step_until_terminated` of a fresh process: the CREATED step, then the user steps -/
def stepperOps (p : Pid) (steps : List Step) : List Op :=
  runTask p [] ++ hooksOps p (transitionHooks (some .created) .running) ++ stepsOps p steps

/-- the coroutine `ProcessCallback.run` -/
def cbOps (p : Pid) (code : List Act) : List Op := runTask p (codeOps p true code)

/-- the coroutine `ProcessCallback.run` of a callback that ends with `raise Boom()`: the `with self._process_scope()` of
`_run_task` is left through the exception, `run` catches it (`except Exception`) and calls `callback_excepted`, which
samples; `sched` = the stack of the code that called `call_soon` -/
def cbOpsExc (p : Pid) (sched : List Pid) (code : List Act) : List Op :=
  .push p :: (codeOps p true code ++ [.pop p .exception, .excepted p sched])

/-- the coroutine of the task that `p.call_soon(cb)` creates, called by code whose stack is `sched` -/
def cbCode (scn : Scenario) (p : Pid) (sched : List Pid) (cb : Nat) (code : List Act) : List Op :=
  if scn.cbRaise.contains cb then cbOpsExc p sched code else cbOps p code

/-! ## State -/

structure Task where
  stack : List Pid                 -- `PROCESS_STACK` in this task's context, newest first
  code : List Op
  parked : Bool := false           -- suspended on a WAITING future until `resume`
  waitingOn : Option Tid := none   -- inside a nested `run_until_complete` on that task
  saved : List (List Pid) := []    -- history variable: the stack at the entry of every open scope
  cancelReq : Bool := false        -- `task.cancel()` was called; the `CancelledError` is thrown when the task next runs
deriving Repr, Inhabited

structure Obs where
  owner : Pid
  kind : Kind
  cur : Option Pid       -- `Process.current()`
  stack : List Pid       -- `PROCESS_STACK.get()` (newest first)
  tid : Tid
deriving Repr, Inhabited, DecidableEq

/-- record of a completed `_process_scope`: the task's stack when the scope was entered and after it was left -/
structure ScopeExit where
  tid : Tid
  pid : Pid
  before : List Pid
  after : List Pid
  how : Exit := .returned
deriving Repr, Inhabited, DecidableEq

/-- record of a completed inline await (`try: await child.step_until_terminated()` / `except BaseException`): the
awaiting task's stack when the `try` was entered and when the awaiting code carries on -/
structure Join where
  tid : Tid
  pid : Pid              -- the awaiting process
  before : List Pid
  after : List Pid
  absorbed : Bool        -- a BaseException / cancellation came out of the child and was absorbed
deriving Repr, Inhabited, DecidableEq

/-- record of a call of `callback_excepted`: the stack of the code that scheduled the callback (when it called
`call_soon`) and the stack that the hook finds, after the callback's scope was left through the exception -/
structure CbExc where
  tid : Tid
  pid : Pid              -- the process the callback was scheduled on
  scheduled : List Pid
  observed : List Pid
deriving Repr, Inhabited, DecidableEq

inductive Err
  | scopeAssertion   -- the `assert Process.current() is self` of `_process_scope` failed
  | badRef           -- a class / callback index outside the scenario (input rejected)
  | notReady         -- the event names a task that cannot run (input rejected)
  | fuel
deriving DecidableEq, Repr, Inhabited

structure State where
  scn : Scenario
  tasks : List Task := []
  nextPid : Nat := 0
  callStack : List Tid := []     -- tasks inside a nested `run_until_complete`, innermost first
  log : List Obs := []           -- newest first
  scopes : List ScopeExit := []  -- newest first
  joins : List Join := []        -- newest first
  creators : List (Option Pid) := []   -- index = pid: the process whose code instantiated it (none: harness code at top level)
  cbExcs : List CbExc := []      -- newest first
  err : Option Err := none
deriving Repr, Inhabited

/-- `Process.current()` for a context whose stack is `s` -/
def current (s : List Pid) : Option Pid := s.head?

/-- the process whose code (step or callback) launched / executed / inline-awaited `p` -/
def creatorOf (σ : State) (p : Pid) : Option Pid :=
  match σ.creators[p]? with
  | some (some q) => some q
  | _ => none

def Task.done (T : Task) : Bool := T.code.isEmpty

def ready (σ : State) (t : Tid) : Bool :=
  match σ.tasks[t]? with
  | none => false
  | some T => !T.done && !T.parked && T.waitingOn.isNone

def logHooks (t : Tid) (q : Pid) (stack : List Pid) (hs : List Hook) (log : List Obs) : List Obs :=
  (hs.map (fun h => (⟨q, .hook h, current stack, stack, t⟩ : Obs))).reverse ++ log

/-- construct a process of class `cls` from code running in task `t` with stack `stack` and create its stepping task
(context copy): the common part of `launch` and `execute` -/
def spawnProcess (σ : State) (t : Tid) (stack : List Pid) (cls : Nat) (creator : Option Pid := none) : Option (State × Tid) :=
  match σ.scn.classes[cls]? with
  | none => none
  | some steps =>
    let q := σ.nextPid
    some ({ σ with
      nextPid := q + 1,
      creators := σ.creators ++ [creator],
      log := logHooks t q stack constructorHooks σ.log,
      tasks := σ.tasks ++ [{ stack := stack, code := stepperOps q steps }] }, σ.tasks.length)

inductive Ctl | cont | suspend | blocked | done | error
deriving DecidableEq, Repr

/-- one micro operation of task `t` -/
def exec1 (σ : State) (t : Tid) : State × Ctl :=
  match σ.tasks[t]? with
  | none => ({ σ with err := some .notReady }, .error)
  | some T =>
    match T.code with
    | [] => (σ, .done)
    | op :: rest =>
      match op with
      | .push p =>
        ({ σ with tasks := σ.tasks.set t { T with code := rest, stack := p :: T.stack, saved := T.stack :: T.saved } }, .cont)
      | .pop p how =>
        if current T.stack = some p then
          ({ σ with
              tasks := σ.tasks.set t { T with code := rest, stack := T.stack.tail, saved := T.saved.tail },
              scopes := ⟨t, p, T.saved.headD [], T.stack.tail, how⟩ :: σ.scopes }, .cont)
        else ({ σ with err := some .scopeAssertion }, .error)
      | .obs p k =>
        ({ σ with tasks := σ.tasks.set t { T with code := rest },
                  log := ⟨p, k, current T.stack, T.stack, t⟩ :: σ.log }, .cont)
      | .yield => ({ σ with tasks := σ.tasks.set t { T with code := rest } }, .suspend)
      | .park => ({ σ with tasks := σ.tasks.set t { T with code := rest, parked := true } }, .suspend)
      | .callSoon p cb =>
        match σ.scn.cbs[cb]? with
        | none => ({ σ with err := some .badRef }, .error)
        | some code =>
          ({ σ with tasks := σ.tasks.set t { T with code := rest } ++ [{ stack := T.stack, code := cbCode σ.scn p T.stack cb code }] }, .cont)
      | .launch p cls =>
        match spawnProcess { σ with tasks := σ.tasks.set t { T with code := rest } } t T.stack cls (some p) with
        | none => ({ σ with err := some .badRef }, .error)
        | some (σ', _) => (σ', .cont)
      | .execute p cls =>
        match spawnProcess σ t T.stack cls (some p) with
        | none => ({ σ with err := some .badRef }, .error)
        | some (σ', u) =>
          ({ σ' with tasks := σ'.tasks.set t { T with code := rest, waitingOn := some u },
                     callStack := t :: σ'.callStack }, .blocked)
      | .inline p cls =>
        -- the constructor runs here (its hooks see this task's stack); the child's coroutine is awaited in this very task
        match σ.scn.classes[cls]? with
        | none => ({ σ with err := some .badRef }, .error)
        | some steps =>
          let q := σ.nextPid
          ({ σ with
              nextPid := q + 1,
              creators := σ.creators ++ [some p],
              log := logHooks t q T.stack constructorHooks σ.log,
              tasks := σ.tasks.set t { T with code := stepperOps q steps ++ .handler p T.stack false :: rest } }, .cont)
      | .handler p s0 absorbing =>
        ({ σ with tasks := σ.tasks.set t { T with code := rest },
                  joins := ⟨t, p, s0, T.stack, absorbing⟩ :: σ.joins,
                  log := if absorbing then ⟨p, .absorbed, current T.stack, T.stack, t⟩ :: σ.log else σ.log }, .cont)
      | .throw => ({ σ with tasks := σ.tasks.set t { T with code := unwind .baseException 0 rest } }, .cont)
      | .callSoonCreator p cb =>
        -- the new task copies the context of THIS code: its stack is this task's stack, whoever the callback belongs to
        match σ.scn.cbs[cb]? with
        | none => ({ σ with err := some .badRef }, .error)
        | some code =>
          match creatorOf σ p with
          | none => ({ σ with tasks := σ.tasks.set t { T with code := rest } }, .cont)
          | some q =>
            ({ σ with tasks := σ.tasks.set t { T with code := rest } ++ [{ stack := T.stack, code := cbCode σ.scn q T.stack cb code }] }, .cont)
      | .excepted p s0 =>
        ({ σ with tasks := σ.tasks.set t { T with code := rest },
                  cbExcs := ⟨t, p, s0, T.stack⟩ :: σ.cbExcs,
                  log := ⟨p, .hook .callback_excepted, current T.stack, T.stack, t⟩ :: σ.log }, .cont)

/-- the test `while not f.done()` of the innermost nested `run_until_complete`: if its future is done the call returns
into the task that made it -/
def resumable (σ : State) : Option (Tid × State) :=
  match σ.callStack with
  | [] => none
  | b :: rest =>
    match σ.tasks[b]? with
    | none => none
    | some B =>
      match B.waitingOn with
      | none => none
      | some u =>
        match σ.tasks[u]? with
        | none => none
        | some U =>
          if U.done then some (b, { σ with callStack := rest, tasks := σ.tasks.set b { B with waitingOn := none } })
          else none

/-- run task `t` until control is back in an event loop that has to choose the next callback -/
def run : Nat → State → Tid → State
  | 0, σ, _ => { σ with err := some .fuel }
  | n+1, σ, t =>
    let r := exec1 σ t
    match r.2 with
    | .cont => run n r.1 t
    | .blocked => r.1
    | .error => r.1
    | .suspend | .done =>
      match resumable r.1 with
      | some (b, σ'') => run n σ'' b
      | none => r.1

def totalCode (σ : State) : Nat := (σ.tasks.map (fun T => T.code.length)).sum

def Act.isInline : Act → Bool
  | .inline _ => true
  | _ => false

/-- `Op.inline` splices the coroutine of the awaited child into the running task, so a tick may execute more operations
than the tasks hold when it starts: at most `(M+1)^k` times as many, `M` = the longest stepping coroutine (plus its handler),
`k` = the number of classes that await a child inline (= the deepest chain of inline awaits when no class awaits itself,
directly or not; a class that does never finishes its step, in the code as here).  1 without inline awaits. -/
def inlineFactor (scn : Scenario) : Nat :=
  let m := (scn.classes.map (fun steps => (stepperOps 0 steps).length + 1)).foldl max 0
  let k := (scn.classes.filter (fun steps => steps.any (fun s => s.code.any Act.isInline))).length
  let kc := if scn.cbs.any (fun c => c.any Act.isInline) then 1 else 0
  (m + 1) ^ (k + kc)

def fuelOf (σ : State) : Nat := (totalCode σ + 2 * σ.tasks.length + 4) * inlineFactor σ.scn

inductive Event
  | tick (t : Tid)
  | resume (t : Tid)
  | callSoon (p : Pid) (cb : Nat)   -- `p.call_soon(cb)` from code outside any task (RPC handler, harness), between two callbacks
  | kill (t : Tid)                  -- `kill()` of the process parked in task `t`, from code outside any task
  | cancel (t : Tid)                -- `task.cancel()` of a task that is suspended (or not started), from code outside any task
deriving DecidableEq, Repr, Inhabited

/-- the context of code that runs between two callbacks: empty at top level, the context of the code that called
`execute()` inside a nested loop -/
def loopStack (σ : State) : List Pid :=
  match σ.callStack with
  | [] => []
  | b :: _ => (σ.tasks[b]?.map (·.stack)).getD []

/-- asyncio's `Task.__step` of a task whose cancellation was requested: the `CancelledError` is thrown into the
coroutine at the point where it is suspended (at its very start if it never ran) -/
def deliver (σ : State) (t : Tid) : State :=
  match σ.tasks[t]? with
  | none => σ
  | some T =>
    if T.cancelReq then
      { σ with tasks := σ.tasks.set t { T with cancelReq := false, code := unwind .cancelled 0 T.code } }
    else σ

def step (σ : State) : Event → State
  | .tick t =>
    if σ.err.isSome then σ
    else if ready σ t then run (fuelOf σ) (deliver σ t) t
    else { σ with err := some .notReady }
  | .resume t =>
    if σ.err.isSome then σ else
    match σ.tasks[t]? with
    | none => { σ with err := some .notReady }
    | some T =>
      if T.parked then { σ with tasks := σ.tasks.set t { T with parked := false } }
      else { σ with err := some .notReady }
  | .kill t =>
    -- `Waiting.interrupt` completes the waiting future with a `KillInterruption`: `Waiting.execute` raises it through
    -- `_run_task` (the `with` statement pops), `step()` catches it and runs the kill action: `transition_to(KILLED)`
    if σ.err.isSome then σ else
    match σ.tasks[t]? with
    | none => { σ with err := some .notReady }
    | some T =>
      if T.parked then
        match T.code with
        | .pop p _ :: rest =>
          -- `step_until_terminated` of the killed process returns; if it was awaited inline the awaiting code carries on
          let code' := .pop p .interrupted :: (hooksOps p (transitionHooks (some .waiting) .killed) ++ toHandler 0 rest)
          let T' : Task := { T with parked := false, code := code' }
          { σ with tasks := σ.tasks.set t T' }
        | _ => { σ with err := some .notReady }
      else { σ with err := some .notReady }
  | .cancel t =>
    -- `Task.cancel()`: a task suspended on a future (a parked process) cancels that future and is woken up; a task
    -- suspended at a bare yield (or not started) is flagged; either way it is ready and the error is thrown at its next
    -- run.  Not for a finished task (no effect) nor for one inside a nested `run_until_complete` (it is running).
    if σ.err.isSome then σ else
    match σ.tasks[t]? with
    | none => { σ with err := some .notReady }
    | some T =>
      if !T.done && T.waitingOn.isNone then
        { σ with tasks := σ.tasks.set t { T with cancelReq := true, parked := false } }
      else { σ with err := some .notReady }
  | .callSoon p cb =>
    if σ.err.isSome then σ else
    match σ.scn.cbs[cb]? with
    | none => { σ with err := some .badRef }
    | some code =>
      if p < σ.nextPid then { σ with tasks := σ.tasks ++ [{ stack := loopStack σ, code := cbCode σ.scn p (loopStack σ) cb code }] }
      else { σ with err := some .badRef }

def runEvents (σ : State) (es : List Event) : State := es.foldl step σ

/-- harness code at top level instantiates the classes `top` (empty stack) and creates their stepping tasks -/
def initTop : State → List Nat → State
  | σ, [] => σ
  | σ, cls :: rest =>
    match spawnProcess σ 0 [] cls with
    | none => { σ with err := some .badRef }
    | some (σ', _) => initTop σ' rest

def init (scn : Scenario) (top : List Nat) : State := initTop { scn := scn } top

/-- what harness code running between two callbacks observes: nothing at top level, the process whose step called
`execute()` inside a nested loop -/
def loopCurrent (σ : State) : Option Pid := current (loopStack σ)

def stepEndsOk : List Step → Bool
  | [] => false
  | [s] => s.end_ == .finish || s.end_ == .raise || s.end_ == .raiseBase
  | _ :: rest => stepEndsOk rest

/-- scenarios the generated Python classes can express: every class ends with `finish`/`raise`, references resolve -/
def Scenario.wf (scn : Scenario) (top : List Nat) : Bool :=
  let okAct : Act → Bool := fun a => match a with
    | .callSoon cb => cb < scn.cbs.length
    | .launch c => c < scn.classes.length
    | .execute c => c < scn.classes.length
    | .inline c => c < scn.classes.length
    | .callSoonCreator cb => cb < scn.cbs.length
    | _ => true
  scn.classes.all (fun steps => stepEndsOk steps && steps.all (fun s => s.code.all okAct))
  && scn.cbs.all (fun c => c.all okAct) && top.all (· < scn.classes.length)
  && scn.cbRaise.all (· < scn.cbs.length)

end ProcStack
