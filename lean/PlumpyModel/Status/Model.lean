/-!
# Status message across pause / play

Hand-written mirror of the three places of `plumpy/processes.py` that touch the status message:

* `Process.set_status(status)`                      — `_status = status`
* `Process.on_paused(msg)`                          — `_pre_paused_status = status; if msg is not None: set_status(msg)`
* `Process.on_playing()`                            — `set_status(_pre_paused_status); _pre_paused_status = None`

`Option String` is Python's `Optional[str]` (`none` = `None`, the default status of a fresh process).
The driver (`pmodel status`) replays the hook calls recorded on the real process and prints the status after each.
-/
namespace StatusM

structure St where
  status : Option String := none
  pre : Option String := none
deriving Repr, DecidableEq, Inhabited

inductive Op
  | setStatus (s : Option String)
  | onPaused (msg : Option String)
  | onPlaying
deriving Repr, DecidableEq, Inhabited

def step (s : St) : Op → St
  | .setStatus v => { s with status := v }
  | .onPaused msg =>
    let s1 := { s with pre := s.status }
    match msg with
    | some m => { s1 with status := some m }
    | none => s1
  | .onPlaying => { status := s.pre, pre := none }

def run (s : St) (ops : List Op) : St := ops.foldl step s

end StatusM
