import PlumpyModel.Comms.Model
import PlumpyModel.Comms.ProofPM
/-!
Helper lemmas for `Props/C16.lean`: the broadcast log as a function of the entered log (`Ann`), the reachable-state
invariant (`Good`), and the simulation between runs under two oracles that never let an exception escape (`Sim`).
-/
namespace Comms
open PMF

/-! ### lists -/

theorem newSince_append (old new : List Label) : newSince old (new ++ old) = new.reverse := by
  simp [newSince]

/-! ### `on_entered` and the announcements owed -/

def okAt (O : Oracle) (b : Bc) : Bool := isOk (O b.idx)

/-- the channel has announced exactly the entered log `cur` (newest first) -/
structure Ann (O : Oracle) (ch : Chan) (cur : List Label) : Prop where
  blog : ch.blog = (owed ch.pid cur).filter (okAt O)
  count : ch.announced = cur.length

/-- fields of the channel that announcing never touches -/
def Frame (ch ch' : Chan) : Prop :=
  ch'.pid = ch.pid ∧ ch'.subRpc = ch.subRpc ∧ ch'.subBc = ch.subBc ∧ ch'.cleanups = ch.cleanups

theorem Frame.rfl' (ch : Chan) : Frame ch ch := ⟨rfl, rfl, rfl, rfl⟩
theorem Frame.trans {a b c : Chan} (h1 : Frame a b) (h2 : Frame b c) : Frame a c :=
  ⟨h2.1.trans h1.1, h2.2.1.trans h1.2.1, h2.2.2.1.trans h1.2.2.1, h2.2.2.2.trans h1.2.2.2⟩

theorem onEntered_frame (O : Oracle) (ch : Chan) (frm : Option Label) (to : Label) : Frame ch (onEntered O ch frm to) := by
  unfold onEntered
  dsimp only
  split
  · exact ⟨rfl, rfl, rfl, rfl⟩
  · split <;> exact ⟨rfl, rfl, rfl, rfl⟩

theorem onEntered_ann (O : Oracle) (ch : Chan) (cur : List Label) (to : Label) (h : Ann O ch cur)
    (hf : (onEntered O ch cur.head? to).failed = none) (_h0 : ch.failed = none) :
    Ann O (onEntered O ch cur.head? to) (to :: cur) ∧ (onEntered O ch cur.head? to).failed = none := by
  refine ⟨?_, hf⟩
  unfold onEntered at hf ⊢
  dsimp only at hf ⊢
  split at hf <;> rename_i hO
  · refine ⟨?_, by simp [h.count]⟩
    simp [owed, okAt, ← h.count, hO, isOk, h.blog]
  · split at hf <;> rename_i ht
    · rw [if_pos ht]
      refine ⟨?_, by simp [h.count]⟩
      simp [owed, okAt, ← h.count, hO, isOk, h.blog]
    · simp at hf

theorem announce_frame (O : Oracle) (news : List Label) : ∀ (ch : Chan) (cur : List Label),
    Frame ch (announce O ch cur news) := by
  induction news with
  | nil => intro ch cur; exact Frame.rfl' ch
  | cons to rest ih =>
    intro ch cur
    simp only [announce]
    split
    · exact onEntered_frame ..
    · exact Frame.trans (onEntered_frame ..) (ih _ _)

/-- once an exception has escaped, nothing more is announced, so `failed = none` afterwards means it never happened -/
theorem announce_ann (O : Oracle) (news : List Label) : ∀ (ch : Chan) (cur : List Label), Ann O ch cur → ch.failed = none →
    (announce O ch cur news).failed = none → Ann O (announce O ch cur news) (news.reverse ++ cur) := by
  induction news with
  | nil => intro ch cur h _ _; simpa [announce] using h
  | cons to rest ih =>
    intro ch cur h h0 hf
    simp only [announce] at hf ⊢
    split at hf
    · rename_i hs; simp [hf] at hs
    · rename_i hs
      have hn : (onEntered O ch cur.head? to).failed = none := by
        cases hx : (onEntered O ch cur.head? to).failed with
        | none => rfl
        | some v => simp [hx] at hs
      simp only [hs]
      have := ih _ (to :: cur) (onEntered_ann O ch cur to h hn h0).1 hn hf
      simpa using this

/-! ### cleanups -/

theorem foldl_runCleanup (l : List Cleanup) : ∀ ch : Chan,
    (l.foldl runCleanup ch).subRpc = (ch.subRpc && !l.contains .removeRpc) ∧
    (l.foldl runCleanup ch).subBc = (ch.subBc && !l.contains .removeBc) ∧
    (l.foldl runCleanup ch).pid = ch.pid ∧ (l.foldl runCleanup ch).blog = ch.blog ∧
    (l.foldl runCleanup ch).announced = ch.announced ∧ (l.foldl runCleanup ch).failed = ch.failed := by
  induction l with
  | nil => intro ch; simp
  | cons a l ih =>
    intro ch
    have := ih (runCleanup ch a)
    cases a <;> simp [runCleanup] at this ⊢ <;> simp [this]

theorem runCleanups_facts (ch : Chan) :
    (runCleanups ch).subRpc = (ch.subRpc && !ch.cleanups.contains .removeRpc) ∧
    (runCleanups ch).subBc = (ch.subBc && !ch.cleanups.contains .removeBc) ∧
    (runCleanups ch).pid = ch.pid ∧ (runCleanups ch).blog = ch.blog ∧
    (runCleanups ch).announced = ch.announced ∧ (runCleanups ch).failed = ch.failed ∧ (runCleanups ch).cleanups = [] := by
  have := foldl_runCleanup ch.cleanups ch
  simp [runCleanups, this]

/-! ### the reachable-state invariant -/

/-- what holds of every configuration reached from `create` in which no exception has escaped `on_entered` -/
structure Good (O : Oracle) (c : Cfg) : Prop where
  ann : Ann O c.ch c.p.entered
  regRpc : c.ch.subRpc = true → Cleanup.removeRpc ∈ c.ch.cleanups
  regBc : c.ch.subBc = true → Cleanup.removeBc ∈ c.ch.cleanups
  closed : c.p.closed = true → c.ch.subRpc = false ∧ c.ch.subBc = false
  tc : TC c.p

theorem settle_good (O : Oracle) (c : Cfg) (p' : PMF.Cfg) (g : Good O c) (hg : Grow c.p p') (h0 : c.ch.failed = none)
    (hf : (settle O c.p.entered c.ch p').failed = none) :
    Good O { c with p := p', ch := settle O c.p.entered c.ch p' } := by
  obtain ⟨new, hnew⟩ := hg.ext
  have hns : newSince c.p.entered p'.entered = new.reverse := by rw [hnew]; exact newSince_append _ _
  unfold settle at hf ⊢
  simp only [hns] at hf ⊢
  have hfr := announce_frame O new.reverse c.ch c.p.entered
  by_cases hfa : (announce O c.ch c.p.entered new.reverse).failed.isSome = true
  · simp [hfa] at hf
    simp [hf] at hfa
  · have hfn : (announce O c.ch c.p.entered new.reverse).failed = none := by
      cases hx : (announce O c.ch c.p.entered new.reverse).failed with
      | none => rfl
      | some v => simp [hx] at hfa
    have ha := announce_ann O new.reverse c.ch c.p.entered g.ann h0 hfn
    simp only [List.reverse_reverse, ← hnew] at ha
    simp only [hfa]
    by_cases hc : p'.closed = true
    · have rc := runCleanups_facts (announce O c.ch c.p.entered new.reverse)
      simp only [hc, if_true, Bool.false_eq_true, if_false]
      refine ⟨⟨?_, ?_⟩, ?_, ?_, ?_, hg.tc g.tc⟩
      · rw [rc.2.2.2.1, rc.2.2.1]; exact ha.blog
      · rw [rc.2.2.2.2.1]; exact ha.count
      · intro h; rw [rc.1] at h
        have := g.regRpc (by rw [← hfr.2.1]; simp at h; exact h.1)
        rw [← hfr.2.2.2] at this; simp [this] at h
      · intro h; rw [rc.2.1] at h
        have := g.regBc (by rw [← hfr.2.2.1]; simp at h; exact h.1)
        rw [← hfr.2.2.2] at this; simp [this] at h
      · intro _
        constructor
        · rw [rc.1]
          cases hs : (announce O c.ch c.p.entered new.reverse).subRpc with
          | false => simp
          | true =>
            have := g.regRpc (by rw [← hfr.2.1]; exact hs)
            rw [← hfr.2.2.2] at this; simp [this]
        · rw [rc.2.1]
          cases hs : (announce O c.ch c.p.entered new.reverse).subBc with
          | false => simp
          | true =>
            have := g.regBc (by rw [← hfr.2.2.1]; exact hs)
            rw [← hfr.2.2.2] at this; simp [this]
    · simp only [hc, Bool.false_eq_true, if_false]
      refine ⟨ha, ?_, ?_, fun h => absurd h hc, hg.tc g.tc⟩
      · intro h; rw [hfr.2.1] at h; rw [hfr.2.2.2]; exact g.regRpc h
      · intro h; rw [hfr.2.2.1] at h; rw [hfr.2.2.2]; exact g.regBc h

theorem Good.of_eq {O : Oracle} {c c' : Cfg} (g : Good O c) (h1 : c'.p = c.p) (h2 : c'.ch = c.ch) : Good O c' :=
  ⟨by rw [h1, h2]; exact g.ann, by rw [h2]; exact g.regRpc, by rw [h2]; exact g.regBc, by rw [h1, h2]; exact g.closed,
   by rw [h1]; exact g.tc⟩

theorem direct_grow (k : Call) (p : PMF.Cfg) : Grow p (direct k p).1 := by
  cases k <;> simp only [direct]
  · exact play_grow p
  · exact pause_grow p
  · exact kill_grow p
  · exact Grow.rfl' p

theorem step_of_failed (O : Oracle) (P : Prog) (c : Cfg) (ev : Ev) (h : c.ch.failed.isSome = true) :
    step O P c ev = (c, .disabled) := by
  simp [step, h]

theorem run_of_failed (O : Oracle) (P : Prog) (evs : List Ev) : ∀ c : Cfg, c.ch.failed.isSome = true → run O P c evs = c := by
  induction evs with
  | nil => intro c _; rfl
  | cons e es ih =>
    intro c h
    simp only [run, List.foldl] at ih ⊢
    rw [step_of_failed O P c e h]
    exact ih c h

theorem setReply_p (c : Cfg) (id : Nat) (r : Reply) : (setReply c id r).p = c.p ∧ (setReply c id r).ch = c.ch ∧
    (setReply c id r).inbox = c.inbox ∧ (setReply c id r).calls = c.calls ∧ (setReply c id r).nextId = c.nextId :=
  ⟨rfl, rfl, rfl, rfl, rfl⟩

theorem messageReceive_frame (c : Cfg) (m : Pend) : (messageReceive c m).1.p = c.p ∧ (messageReceive c m).1.ch = c.ch := by
  unfold messageReceive
  split <;> exact ⟨rfl, rfl⟩

theorem broadcastReceive_frame (c : Cfg) (m : Pend) : (broadcastReceive c m).1.p = c.p ∧ (broadcastReceive c m).1.ch = c.ch := by
  unfold broadcastReceive
  split <;> exact ⟨rfl, rfl⟩

/-- every event keeps the invariant, as long as no exception escapes `on_entered` -/
theorem step_good (O : Oracle) (P : Prog) (c : Cfg) (ev : Ev) (g : Good O c)
    (hf : (step O P c ev).1.ch.failed = none) : Good O (step O P c ev).1 := by
  by_cases hfail : c.ch.failed.isSome = true
  · rw [step_of_failed O P c ev hfail]; exact g
  · have h0 : c.ch.failed = none := by
      cases hx : c.ch.failed with
      | none => rfl
      | some v => simp [hx] at hfail
    unfold step at hf ⊢
    simp only [hfail, Bool.false_eq_true, if_false] at hf ⊢
    cases ev with
    | pm e => exact settle_good O c _ g (step_grow P c.p e) h0 hf
    | status => exact g
    | rpc w =>
      dsimp only at hf ⊢
      split
      · exact g.of_eq rfl rfl
      · exact g
    | bcast s =>
      dsimp only at hf ⊢
      split
      · exact g
      · split
        · exact g
        · exact g.of_eq rfl rfl
    | recv id =>
      dsimp only at hf ⊢
      split
      · exact g
      · split
        · exact (g.of_eq (c' := { c with inbox := c.inbox.filter (·.id ≠ id) }) rfl rfl).of_eq
            (broadcastReceive_frame _ _).1 (broadcastReceive_frame _ _).2
        · exact (g.of_eq (c' := { c with inbox := c.inbox.filter (·.id ≠ id) }) rfl rfl).of_eq
            (messageReceive_frame _ _).1 (messageReceive_frame _ _).2
    | call id =>
      dsimp only at hf ⊢
      cases hfind : c.calls.find? (·.id = id) with
      | none => simp only [hfind] at hf ⊢; exact g
      | some s =>
        simp only [hfind] at hf ⊢
        have g1 : Good O { c with calls := c.calls.filter (·.id ≠ id) } := g.of_eq rfl rfl
        have hg := direct_grow s.callee c.p
        have hX : (settle O c.p.entered c.ch (direct s.callee c.p).1).failed = none := by
          cases hb : s.bcast <;> simpa [hb, runPM, setReply] using hf
        have := settle_good O { c with calls := c.calls.filter (·.id ≠ id) } _ g1 hg h0 hX
        cases hb : s.bcast
        · simp only [Bool.false_eq_true, if_false]; exact this.of_eq rfl rfl
        · simp only [if_true]; exact this

theorem run_good (O : Oracle) (P : Prog) (evs : List Ev) : ∀ c : Cfg, Good O c → (run O P c evs).ch.failed = none →
    Good O (run O P c evs) := by
  induction evs with
  | nil => intro c g _; exact g
  | cons e es ih =>
    intro c g hf
    simp only [run, List.foldl] at ih hf ⊢
    have hmid : (step O P c e).1.ch.failed = none := by
      cases hx : (step O P c e).1.ch.failed with
      | none => rfl
      | some v =>
        have := run_of_failed O P es (step O P c e).1 (by simp [hx])
        simp only [run] at this
        rw [this, hx] at hf; cases hf
    exact ih _ (step_good O P c e g hmid) hf

theorem init_closed (nfut : Nat) : (PMF.init nfut).closed = false := rfl

theorem create_good (O : Oracle) (nfut : Nat) (pid : String) (hf : (create O nfut pid).ch.failed = none) :
    Good O (create O nfut pid) := by
  unfold create at hf ⊢
  dsimp only at hf ⊢
  have hfr := announce_frame O (PMF.init nfut).entered.reverse { pid := pid } []
  split at hf
  · rename_i hs; simp [hf] at hs
  · rename_i hs
    have hn : (announce O { pid := pid } [] (PMF.init nfut).entered.reverse).failed = none := by
      cases hx : (announce O { pid := pid } [] (PMF.init nfut).entered.reverse).failed with
      | none => rfl
      | some v => simp [hx] at hs
    have ha := announce_ann O (PMF.init nfut).entered.reverse { pid := pid } [] ⟨by simp [owed], rfl⟩ rfl hn
    simp only [List.reverse_reverse, List.append_nil] at ha
    simp only [hs]
    refine ⟨⟨?_, ?_⟩, ?_, ?_, ?_, tc_init nfut⟩
    · simpa [subscribe] using ha.blog
    · simpa [subscribe] using ha.count
    · intro _; simp [subscribe]
    · intro _; simp [subscribe]
    · intro h; rw [init_closed] at h; cases h

/-! ### two oracles that never let an exception escape `on_entered` -/

def Quiet (O : Oracle) : Prop := ∀ i, O i = .ok ∨ ∃ cls, O i = .raises cls ∧ tolerated cls = true

/-- the channel without its broadcast log -/
def erase (ch : Chan) : Chan := { ch with blog := [] }

theorem onEntered_quiet (O : Oracle) (hq : Quiet O) (ch : Chan) (frm : Option Label) (to : Label) (h0 : ch.failed = none) :
    (onEntered O ch frm to).failed = none ∧
    erase (onEntered O ch frm to) = { erase ch with announced := ch.announced + 1 } := by
  unfold onEntered
  dsimp only
  rcases hq ch.announced with h | ⟨cls, h, ht⟩
  · simp [h, erase, h0]
  · simp [h, ht, erase, h0]

theorem announce_quiet (O : Oracle) (hq : Quiet O) (news : List Label) : ∀ (ch : Chan) (cur : List Label), ch.failed = none →
    (announce O ch cur news).failed = none ∧
    erase (announce O ch cur news) = { erase ch with announced := ch.announced + news.length } := by
  induction news with
  | nil => intro ch cur h0; exact ⟨h0, rfl⟩
  | cons to rest ih =>
    intro ch cur h0
    have h1 := onEntered_quiet O hq ch cur.head? to h0
    have ha : (onEntered O ch cur.head? to).announced = ch.announced + 1 := by
      have := congrArg Chan.announced h1.2; simpa [erase] using this
    simp only [announce, h1.1, Option.isSome_none, Bool.false_eq_true, if_false]
    have h2 := ih (onEntered O ch cur.head? to) (to :: cur) h1.1
    refine ⟨h2.1, ?_⟩
    rw [h2.2, h1.2, ha]
    simp [Nat.add_assoc, Nat.add_comm 1]

theorem erase_foldl (l : List Cleanup) : ∀ ch : Chan, erase (l.foldl runCleanup ch) = l.foldl runCleanup (erase ch) := by
  induction l with
  | nil => intro ch; rfl
  | cons a l ih => intro ch; simp only [List.foldl]; rw [ih]; cases a <;> rfl

theorem erase_runCleanups (ch : Chan) : erase (runCleanups ch) = runCleanups (erase ch) := by
  have h : erase (runCleanups ch) = { erase (ch.cleanups.foldl runCleanup ch) with cleanups := [] } := rfl
  rw [h, erase_foldl]; rfl

theorem settle_quiet (O1 O2 : Oracle) (q1 : Quiet O1) (q2 : Quiet O2) (old : List Label) (ch1 ch2 : Chan) (p' : PMF.Cfg)
    (he : erase ch1 = erase ch2) (h1 : ch1.failed = none) :
    (settle O1 old ch1 p').failed = none ∧ erase (settle O1 old ch1 p') = erase (settle O2 old ch2 p') := by
  have h2 : ch2.failed = none := by
    have := congrArg Chan.failed he; simp only [erase] at this; rw [← this]; exact h1
  have ha : ch1.announced = ch2.announced := by
    have := congrArg Chan.announced he; simpa [erase] using this
  have a1 := announce_quiet O1 q1 (newSince old p'.entered) ch1 old h1
  have a2 := announce_quiet O2 q2 (newSince old p'.entered) ch2 old h2
  unfold settle
  simp only [a1.1, a2.1, Option.isSome_none, Bool.false_eq_true, if_false]
  by_cases hc : p'.closed = true
  · simp only [hc, if_true]
    refine ⟨by rw [(runCleanups_facts _).2.2.2.2.2.1]; exact a1.1, ?_⟩
    rw [erase_runCleanups, erase_runCleanups, a1.2, a2.2, he, ha]
  · simp only [hc, Bool.false_eq_true, if_false]
    exact ⟨a1.1, by rw [a1.2, a2.2, he, ha]⟩

/-- the two configurations agree on everything but the broadcast log -/
structure Sim (c1 c2 : Cfg) : Prop where
  p : c1.p = c2.p
  ch : erase c1.ch = erase c2.ch
  inbox : c1.inbox = c2.inbox
  calls : c1.calls = c2.calls
  replies : c1.replies = c2.replies
  nextId : c1.nextId = c2.nextId
  ok : c1.ch.failed = none

theorem step_sim (O1 O2 : Oracle) (q1 : Quiet O1) (q2 : Quiet O2) (P : Prog) (c1 c2 : Cfg) (ev : Ev) (s : Sim c1 c2) :
    Sim (step O1 P c1 ev).1 (step O2 P c2 ev).1 ∧ (step O1 P c1 ev).2 = (step O2 P c2 ev).2 := by
  obtain ⟨hp, he, hi, hc, hr, hn, h1⟩ := s
  cases c1 with
  | mk p1 ch1 in1 ca1 re1 n1 =>
  cases c2 with
  | mk p2 ch2 in2 ca2 re2 n2 =>
  simp only at hp he hi hc hr hn h1
  subst hp hi hc hr hn
  have h2 : ch2.failed = none := by
    have := congrArg Chan.failed he; simp only [erase] at this; rw [← this]; exact h1
  have hsr : ch1.subRpc = ch2.subRpc := by have := congrArg Chan.subRpc he; simpa [erase] using this
  have hsb : ch1.subBc = ch2.subBc := by have := congrArg Chan.subBc he; simpa [erase] using this
  unfold step
  simp only [h1, h2, Option.isSome_none, Bool.false_eq_true, if_false]
  cases ev with
  | pm e =>
    have := settle_quiet O1 O2 q1 q2 p1.entered ch1 ch2 (PMF.step P p1 e).1 he h1
    exact ⟨⟨rfl, this.2, rfl, rfl, rfl, rfl, this.1⟩, rfl⟩
  | status => exact ⟨⟨rfl, he, rfl, rfl, rfl, rfl, h1⟩, rfl⟩
  | rpc w =>
    dsimp only
    rw [hsr]
    split
    · exact ⟨⟨rfl, he, rfl, rfl, rfl, rfl, h1⟩, rfl⟩
    · exact ⟨⟨rfl, he, rfl, rfl, rfl, rfl, h1⟩, rfl⟩
  | bcast sub =>
    dsimp only
    rw [hsb]
    split
    · exact ⟨⟨rfl, he, rfl, rfl, rfl, rfl, h1⟩, rfl⟩
    · split
      · exact ⟨⟨rfl, he, rfl, rfl, rfl, rfl, h1⟩, rfl⟩
      · exact ⟨⟨rfl, he, rfl, rfl, rfl, rfl, h1⟩, rfl⟩
  | recv id =>
    dsimp only
    split
    · exact ⟨⟨rfl, he, rfl, rfl, rfl, rfl, h1⟩, rfl⟩
    · split
      · unfold broadcastReceive
        dsimp only
        split <;> exact ⟨⟨rfl, he, rfl, rfl, rfl, rfl, h1⟩, rfl⟩
      · unfold messageReceive
        dsimp only
        split <;> exact ⟨⟨rfl, he, rfl, rfl, rfl, rfl, h1⟩, rfl⟩
  | call id =>
    dsimp only
    split
    · exact ⟨⟨rfl, he, rfl, rfl, rfl, rfl, h1⟩, rfl⟩
    · rename_i sc _
      have := settle_quiet O1 O2 q1 q2 p1.entered ch1 ch2 (direct sc.callee p1).1 he h1
      split
      · exact ⟨⟨rfl, this.2, rfl, rfl, rfl, rfl, this.1⟩, rfl⟩
      · exact ⟨⟨rfl, this.2, rfl, rfl, rfl, rfl, this.1⟩, rfl⟩

/-- observations of a run, oldest first -/
def trace (O : Oracle) (P : Prog) : Cfg → List Ev → List Obs
  | _, [] => []
  | c, e :: es => (step O P c e).2 :: trace O P (step O P c e).1 es

theorem run_sim (O1 O2 : Oracle) (q1 : Quiet O1) (q2 : Quiet O2) (P : Prog) (evs : List Ev) : ∀ c1 c2 : Cfg, Sim c1 c2 →
    Sim (run O1 P c1 evs) (run O2 P c2 evs) ∧ trace O1 P c1 evs = trace O2 P c2 evs := by
  induction evs with
  | nil => intro c1 c2 s; exact ⟨s, rfl⟩
  | cons e es ih =>
    intro c1 c2 s
    have h := step_sim O1 O2 q1 q2 P c1 c2 e s
    have h' := ih _ _ h.1
    simp only [run, List.foldl, trace] at h' ⊢
    exact ⟨h'.1, by rw [h.2, h'.2]⟩

theorem create_sim (O1 O2 : Oracle) (q1 : Quiet O1) (q2 : Quiet O2) (nfut : Nat) (pid : String) :
    Sim (create O1 nfut pid) (create O2 nfut pid) := by
  have a1 := announce_quiet O1 q1 (PMF.init nfut).entered.reverse { pid := pid } [] rfl
  have a2 := announce_quiet O2 q2 (PMF.init nfut).entered.reverse { pid := pid } [] rfl
  unfold create
  simp only [a1.1, a2.1, Option.isSome_none, Bool.false_eq_true, if_false]
  refine ⟨rfl, ?_, rfl, rfl, rfl, rfl, ?_⟩
  · have e1 : erase (subscribe (announce O1 { pid := pid } [] (PMF.init nfut).entered.reverse)) =
        subscribe (erase (announce O1 { pid := pid } [] (PMF.init nfut).entered.reverse)) := rfl
    have e2 : erase (subscribe (announce O2 { pid := pid } [] (PMF.init nfut).entered.reverse)) =
        subscribe (erase (announce O2 { pid := pid } [] (PMF.init nfut).entered.reverse)) := rfl
    rw [e1, e2, a1.2, a2.2]
  · simpa [subscribe] using a1.1

/-! ### the process id never changes -/

theorem settle_pid (O : Oracle) (old : List Label) (ch : Chan) (p' : PMF.Cfg) : (settle O old ch p').pid = ch.pid := by
  have hfr := announce_frame O (newSince old p'.entered) ch old
  unfold settle
  dsimp only
  split
  · exact hfr.1
  · split
    · rw [(runCleanups_facts _).2.2.1]; exact hfr.1
    · exact hfr.1

theorem step_pid (O : Oracle) (P : Prog) (c : Cfg) (ev : Ev) : (step O P c ev).1.ch.pid = c.ch.pid := by
  unfold step
  split
  · rfl
  · cases ev with
    | pm e => exact settle_pid ..
    | status => rfl
    | rpc w => dsimp only; split <;> rfl
    | bcast s =>
      dsimp only
      split
      · rfl
      · split <;> rfl
    | recv id =>
      dsimp only
      split
      · rfl
      · split
        · rw [(broadcastReceive_frame _ _).2]
        · rw [(messageReceive_frame _ _).2]
    | call id =>
      dsimp only
      split
      · rfl
      · split <;> exact settle_pid ..

theorem run_pid (O : Oracle) (P : Prog) (evs : List Ev) : ∀ c : Cfg, (run O P c evs).ch.pid = c.ch.pid := by
  induction evs with
  | nil => intro c; rfl
  | cons e es ih =>
    intro c
    simp only [run, List.foldl] at ih ⊢
    rw [ih, step_pid]

theorem create_pid (O : Oracle) (nfut : Nat) (pid : String) : (create O nfut pid).ch.pid = pid := by
  have hfr := announce_frame O (PMF.init nfut).entered.reverse { pid := pid } []
  unfold create
  dsimp only
  split
  · exact hfr.1
  · simp only [subscribe]; exact hfr.1

theorem quiet_failAt (i : Nat) (cls : String) (hc : cls ∈ Gen.toleratedBroadcastFailures) : Quiet (failAt i cls) := by
  intro j
  by_cases h : j = i
  · exact Or.inr ⟨cls, by simp [failAt, h], by simpa [tolerated] using hc⟩
  · exact Or.inl (by simp [failAt, h])

end Comms
