import PlumpyModel.PM.Model
import PlumpyModel.Gen.Misc
import PlumpyModel.Gen.Comms
/-!
# Remote control of a process through a communicator (C16)

Hand-written executable model of `Process.init` (subscriptions + their removal registered as cleanups),
`Process.message_receive`, `Process.broadcast_receive`, `Process._schedule_rpc`, the communicator part of
`Process.on_entered` and of `Process.close`, layered on the process-control model `PMF` (which is imported, not
re-modelled).  Core Lean only.

Tables taken from the source (regenerated on every check): `Gen.intents`, `Gen.rpcDispatch`, `Gen.broadcastDispatch`
(the `if` chains of the two handlers, in branch order, with the method each branch runs), `Gen.rpcUnknownIntentRaises`,
`Gen.toleratedBroadcastFailures` (the `except` clauses of `on_entered`), `Gen.stateChangedSubject` (the f-string of the
subject), `Gen.broadcastSubjectFilter`, `Label.name`.

Assumed contracts of what is *not* plumpy (DESIGN.md section 3), exercised through the real libraries by the correspondence check:

* communicator (`kiwipy.LocalCommunicator` behind plumpy's `LoopCommunicator`): `rpc_send` to an identifier without
  subscriber raises `UnroutableError` and does nothing else; otherwise the subscriber is *scheduled* on the process's loop
  (`convert_to_comm` → `create_task`), i.e. it runs as a later callback (`Ev.recv`); `broadcast_send` reaches every broadcast
  subscriber the same way, except that a `BroadcastFilter` match is evaluated at once and schedules nothing;
* asyncio: `run_coroutine_threadsafe` runs the coroutine as a later callback (`Ev.call` for `_schedule_rpc`'s `run_callback`);
  hops that only copy results between futures are not events (they touch nothing of the process);
* the reply future of `_schedule_rpc` resolves to the *unwrapped* result of the callback: a plain value at once, a
  `CancellableAction` by its eventual outcome (`True` when run, cancelled when superseded); `resolve` below.

How `on_entered` is attached to `PMF`: `PMF` logs every entered state in `Cfg.entered` (newest first) exactly where
`transition_to` fires the ENTERED hook, and fires no hook once the process is closed.  After each piece of process-control
code (`PMF.step`, or a direct call) `settle` runs the communicator part of `on_entered` once for every entry the piece added,
oldest first, with `from` = the entry before it, and then the cleanups if the piece closed the process.  A broadcast that
succeeds or fails in a tolerated way does not feed back into process control, which is what makes this layering exact;
a non-tolerated exception *does* (it propagates into `transition_to` as a failing hook, C03's territory): the model then
stops with `failed := some index` and every later event is `disabled`.
-/
namespace Comms
open PMF

/-! ### dispatch tables -/

/-- the methods a control message can be dispatched to -/
inductive Call | play | pause | kill | status
deriving DecidableEq, Repr, Inhabited

/-- method names as they appear in the generated dispatch tables -/
def callOfName : String → Option Call
  | "play" => some .play
  | "pause" => some .pause
  | "kill" => some .kill
  | "get_status_info" => some .status
  | _ => none

/-- wire value of an `Intent` constant -/
def wireOf (const : String) : Option String := (Gen.intents.find? (·.1 = const)).map (·.2)

/-- an `if x == Intent.A: … if x == Intent.B: …` chain: the first branch whose constant equals `x` -/
def dispatch (table : List (String × String)) (x : String) : Option Call :=
  match table.find? (fun row => wireOf row.1 = some x) with
  | some row => callOfName row.2
  | none => none

/-! ### broadcasts of state changes -/

/-- what `communicator.broadcast_send` does at a given transition index -/
inductive BOut | ok | raises (cls : String)
deriving DecidableEq, Repr, Inhabited

abbrev Oracle := Nat → BOut

/-- the `except` clauses of `on_entered` -/
def tolerated (cls : String) : Bool := Gen.toleratedBroadcastFailures.contains cls

def labelStr : Option Label → String
  | none => "None"
  | some l => l.name

/-- `f'state_changed.{from_label}.{self.state.value}'`, assembled from the pieces found in the source -/
def subject (frm : Option Label) (to : Label) : String :=
  String.join (Gen.stateChangedSubject.map fun piece =>
    if piece = "<from>" then labelStr frm else if piece = "<to>" then to.name else piece)

/-- a recorded broadcast: transition index, subject, sender -/
structure Bc where
  idx : Nat
  subject : String
  sender : String
deriving DecidableEq, Repr, Inhabited

inductive Cleanup | removeRpc | removeBc
deriving DecidableEq, Repr, Inhabited

/-- the process's side of the communicator -/
structure Chan where
  pid : String := "pid"
  subRpc : Bool := false              -- RPC subscriber registered under str(pid)
  subBc : Bool := false               -- broadcast subscriber registered under str(pid)
  cleanups : List Cleanup := []       -- registered with add_cleanup, run by close()
  blog : List Bc := []                -- broadcasts that went out, newest first
  announced : Nat := 0                -- number of `on_entered` calls so far = next transition index
  failed : Option Nat := none         -- a non-tolerated exception left `on_entered` at this index
deriving DecidableEq, Repr, Inhabited

/-- communicator part of `Process.on_entered(from_state)` for the transition `cur.head? → to` -/
def onEntered (O : Oracle) (ch : Chan) (frm : Option Label) (to : Label) : Chan :=
  let i := ch.announced
  let ch := { ch with announced := i + 1 }
  match O i with
  | .ok => { ch with blog := ⟨i, subject frm to, ch.pid⟩ :: ch.blog }
  | .raises cls => if tolerated cls then ch else { ch with failed := some i }

/-- `on_entered` for each newly entered state (`news`, oldest first); `cur` is the entered log so far (newest first).
    A propagating exception aborts the transition, so nothing further is announced. -/
def announce (O : Oracle) : Chan → List Label → List Label → Chan
  | ch, _, [] => ch
  | ch, cur, to :: rest =>
      let ch' := onEntered O ch cur.head? to
      if ch'.failed.isSome then ch' else announce O ch' (to :: cur) rest

def runCleanup (ch : Chan) : Cleanup → Chan
  | .removeRpc => { ch with subRpc := false }
  | .removeBc => { ch with subBc := false }

/-- `Process.on_close`: run the cleanups, then `self._cleanups = None` -/
def runCleanups (ch : Chan) : Chan := { ch.cleanups.foldl runCleanup ch with cleanups := [] }

/-- entries of `new` that are not in `old` (both newest first), oldest first -/
def newSince (old new : List Label) : List Label := (new.take (new.length - old.length)).reverse

/-- the communicator side effects of a piece of process-control code that took the process from entered log `old` to `p'` -/
def settle (O : Oracle) (old : List Label) (ch : Chan) (p' : PMF.Cfg) : Chan :=
  let ch := announce O ch old (newSince old p'.entered)
  if ch.failed.isSome then ch else if p'.closed then runCleanups ch else ch

/-! ### messages in flight and replies -/

/-- a routed message whose subscriber callback has not run yet -/
structure Pend where
  id : Nat
  bcast : Bool
  wire : String          -- the message's intent (RPC) or the broadcast's subject
deriving DecidableEq, Repr, Inhabited

/-- a callback scheduled by `_schedule_rpc` that has not run yet -/
structure Sched where
  id : Nat
  bcast : Bool
  callee : Call
deriving DecidableEq, Repr, Inhabited

inductive Reply
  | none                                   -- handler not run yet
  | ret (r : RetV)                         -- `_schedule_rpc`: the return value of the direct call (resolved lazily)
  | status (l : Label) (paused : Bool)     -- the dictionary of `get_status_info`
  | exc (cls : String)                     -- the handler raised
deriving DecidableEq, Repr, Inhabited

structure Cfg where
  p : PMF.Cfg := {}
  ch : Chan := {}
  inbox : List Pend := []                  -- FIFO, oldest first
  calls : List Sched := []                 -- FIFO, oldest first
  replies : List (Nat × Reply) := []       -- one entry per RPC sent, newest first
  nextId : Nat := 0
deriving Repr, Inhabited

/-- what the sender of an RPC eventually reads from the reply future -/
inductive RVal | pending | bool (b : Bool) | cancelled | exc (cls : String) | status (l : Label) (paused : Bool) | none
deriving DecidableEq, Repr, Inhabited

/-- `while isfuture(result): result = await result` of `_schedule_rpc`, evaluated against the action table of `p`:
    `_do_pause` and `do_kill` return `True`; a cancelled action cancels the reply; an exception of the callback is
    wrapped in a `RuntimeError` -/
def resolve (p : PMF.Cfg) : RetV → RVal
  | .bool b => .bool b
  | .action i =>
      match actionStatus p i with
      | .pending => .pending
      | .cancelled => .cancelled
      | .done => .bool true
      | .failed _ => .exc "Exception"
  | .raised _ => .exc "RuntimeError"
  | .none => .none

def replyVal (p : PMF.Cfg) : Reply → RVal
  | .none => .pending
  | .ret r => resolve p r
  | .status l b => .status l b
  | .exc cls => .exc cls

def setReply (c : Cfg) (id : Nat) (r : Reply) : Cfg :=
  { c with replies := c.replies.map fun e => if e.1 = id then (id, r) else e }

def replyOf (c : Cfg) (id : Nat) : Option Reply := (c.replies.find? (·.1 = id)).map (·.2)

/-! ### construction: `__init__`, the initial transition, `init` -/

/-- `Process.init`: subscribe under `str(pid)` and register the removal of both subscriptions as cleanups -/
def subscribe (ch : Chan) : Chan :=
  { ch with subRpc := true, subBc := true, cleanups := ch.cleanups ++ [.removeRpc, .removeBc] }

/-- `StateMachineMeta.__call__`: enter the initial state (announced as `state_changed.None.created`), then `init()`.
    `nfut` is the number of external awaitables of the process-control model's initial configuration.
    When the first broadcast raises a non-tolerated exception the constructor raises (`failed = some 0`). -/
def create (O : Oracle) (nfut : Nat) (pid : String := "pid") : Cfg :=
  let p := PMF.init nfut
  let ch := announce O { pid := pid } [] p.entered.reverse
  { p := p, ch := if ch.failed.isSome then ch else subscribe ch }

/-! ### the handlers -/

/-- the direct call a dispatched message stands for -/
def direct (k : Call) (p : PMF.Cfg) : PMF.Cfg × RetV :=
  match k with
  | .play => PMF.play p
  | .pause => PMF.pause p
  | .kill => PMF.kill p
  | .status => (p, .none)

/-- the same call as an event of the process-control model -/
def evOf : Call → Option PMF.Ev
  | .play => some .play
  | .pause => some .pause
  | .kill => some .kill
  | .status => none

inductive Obs
  | ret (r : RetV)                       -- a process event / direct call returned
  | status (l : Label) (paused : Bool)   -- `get_status_info`
  | sent (id : Nat)                      -- routed, subscriber scheduled
  | unroutable                           -- `UnroutableError`
  | nosub                                -- broadcast with nobody subscribed
  | filtered                             -- broadcast stopped by the subject filter
  | scheduled (k : Call)                 -- handler ran: `_schedule_rpc(k)`
  | ignored                              -- `broadcast_receive` did not recognise the subject
  | rejected (cls : String)              -- `message_receive` raised
  | called (k : Call) (r : RetV)         -- the scheduled callback ran the direct call `k`
  | disabled
deriving DecidableEq, Repr, Inhabited

def statusObs (p : PMF.Cfg) : Obs := .status p.st.label p.paused.isSome

/-- `Process.message_receive(msg)` -/
def messageReceive (c : Cfg) (m : Pend) : Cfg × Obs :=
  match dispatch Gen.rpcDispatch m.wire with
  | some .status => (setReply c m.id (.status c.p.st.label c.p.paused.isSome), statusObs c.p)
  | some k => ({ c with calls := c.calls ++ [⟨m.id, false, k⟩] }, .scheduled k)
  | none => (setReply c m.id (.exc Gen.rpcUnknownIntentRaises), .rejected Gen.rpcUnknownIntentRaises)

/-- `Process.broadcast_receive(msg, sender, subject, correlation_id)`; no reply goes anywhere -/
def broadcastReceive (c : Cfg) (m : Pend) : Cfg × Obs :=
  match dispatch Gen.broadcastDispatch m.wire with
  | some .status => (c, .ignored)
  | some k => ({ c with calls := c.calls ++ [⟨m.id, true, k⟩] }, .scheduled k)
  | none => (c, .ignored)

/-- the one filter the model interprets: a negative look-ahead on a literal prefix, `^(?!<prefix>).*` -/
def filterPrefix : Option String :=
  let f := Gen.broadcastSubjectFilter
  if f.startsWith "^(?!" && f.endsWith ").*" then some ((f.drop 4).dropEnd 3).toString else none

def filteredOut (subject : String) : Bool :=
  match filterPrefix with
  | some pre => subject.startsWith pre
  | none => false

/-! ### events -/

inductive Ev
  | pm (e : PMF.Ev)            -- a callback of the process or a direct call (`PMF.Ev`: tick, pause, play, kill, resume, …)
  | status                     -- direct `get_status_info`
  | rpc (wire : String)        -- `communicator.rpc_send(str(pid), {intent: wire, …})`
  | bcast (subject : String)   -- `communicator.broadcast_send(body, subject=subject)` by somebody else
  | recv (id : Nat)            -- the scheduled subscriber callback of message `id` runs
  | call (id : Nat)            -- the callback scheduled by `_schedule_rpc` for message `id` runs
deriving Repr, Inhabited, DecidableEq

def enqueue (c : Cfg) (bcast : Bool) (wire : String) : Cfg × Obs :=
  ({ c with inbox := c.inbox ++ [⟨c.nextId, bcast, wire⟩], nextId := c.nextId + 1,
            replies := if bcast then c.replies else (c.nextId, .none) :: c.replies }, .sent c.nextId)

/-- run process-control code `f` and let the communicator see its consequences -/
def runPM (O : Oracle) (c : Cfg) (r : PMF.Cfg × RetV) : Cfg :=
  { c with p := r.1, ch := settle O c.p.entered c.ch r.1 }

def step (O : Oracle) (P : Prog) (c : Cfg) (ev : Ev) : Cfg × Obs :=
  if c.ch.failed.isSome then (c, .disabled) else
  match ev with
  | .pm e => let r := PMF.step P c.p e; (runPM O c r, .ret r.2)
  | .status => (c, statusObs c.p)
  | .rpc wire => if c.ch.subRpc then enqueue c false wire else (c, .unroutable)
  | .bcast subject =>
      if !c.ch.subBc then (c, .nosub)
      else if filteredOut subject then (c, .filtered)
      else enqueue c true subject
  | .recv id =>
      match c.inbox.find? (·.id = id) with
      | none => (c, .disabled)
      | some m =>
          let c := { c with inbox := c.inbox.filter (·.id ≠ id) }
          if m.bcast then broadcastReceive c m else messageReceive c m
  | .call id =>
      match c.calls.find? (·.id = id) with
      | none => (c, .disabled)
      | some s =>
          let c := { c with calls := c.calls.filter (·.id ≠ id) }
          let r := direct s.callee c.p
          let c := runPM O c r
          (if s.bcast then c else setReply c id (.ret r.2), .called s.callee r.2)

def run (O : Oracle) (P : Prog) (c0 : Cfg) (evs : List Ev) : Cfg := evs.foldl (fun c e => (step O P c e).1) c0

/-! ### oracles used by the theorems and the driver -/

def allOk : Oracle := fun _ => .ok
/-- `broadcast_send` raises `cls` at transition index `i` and works otherwise -/
def failAt (i : Nat) (cls : String) : Oracle := fun j => if j = i then .raises cls else .ok

/-- the announcements owed for an entered log (newest first): one per entry, `from` = the entry before it -/
def owed (pid : String) : List Label → List Bc
  | [] => []
  | b :: rest => ⟨rest.length, subject rest.head? b, pid⟩ :: owed pid rest

def isOk : BOut → Bool
  | .ok => true
  | _ => false

/-! ### the program corpus of this component (sync chains, async steps, wait/resume, failing steps) -/
def progOf : String → Prog
  | "Sync2" => fun fn _ _ _ => if fn = 0 then ⟨0, .ret (.cont 1 [1] [(0, 2)])⟩ else ⟨0, .ret (.stop (some 3) true)⟩
  | "Sync4" => fun fn _ _ _ => if fn < 3 then ⟨0, .ret (.cont (fn + 1) [] [])⟩ else ⟨0, .ret (.stop (some 3) true)⟩
  | "Async2" => fun fn _ _ _ => if fn = 0 then ⟨2, .ret (.cont 1 [] [])⟩ else ⟨1, .ret (.stop (some 3) true)⟩
  | "Async6" => fun fn _ _ _ => if fn = 0 then ⟨5, .ret (.cont 1 [] [])⟩ else ⟨4, .ret (.stop (some 3) true)⟩
  | "Waiter" => fun fn _ _ _ => if fn = 0 then ⟨0, .ret (.wait 1)⟩ else ⟨0, .ret (.stop (some 7) true)⟩
  | "WaitAsync" => fun fn _ _ _ => if fn = 0 then ⟨1, .ret (.wait 1)⟩ else ⟨1, .ret (.stop (some 7) true)⟩
  | "WaitAsync4" => fun fn _ _ _ => if fn = 0 then ⟨4, .ret (.wait 1)⟩ else ⟨4, .ret (.stop (some 7) true)⟩
  | "Failing" => fun _ _ _ _ => ⟨1, .raise (.user 0)⟩
  | "Failing5" => fun _ _ _ _ => ⟨5, .raise (.user 0)⟩
  | _ => fun _ _ _ _ => ⟨0, .ret (.stop none true)⟩

end Comms
