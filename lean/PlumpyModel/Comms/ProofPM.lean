import PlumpyModel.PM.Proof1
/-!
Two facts about the process-control model `PMF` that the communication layer rests on, proved for every event by one
pass over the model's functions (same shape as the lifecycle invariant of `PM/Proof1.lean`, whose frame lemmas are reused):

* the entered log only ever grows at its head (`Grow.ext`) — so "the entries a piece of code added" is well defined;
* a process that has reached a terminal state has been closed (`TC`), hence has run its cleanups.
-/
namespace PMF

/-- terminated ⇒ closed -/
def TC (c : Cfg) : Prop := terminal c.st.label = true → c.closed = true

/-- `c'` extends the entered log of `c` at its head and keeps "terminated ⇒ closed" -/
structure Grow (c c' : Cfg) : Prop where
  ext : ∃ new, c'.entered = new ++ c.entered
  tc : TC c → TC c'

theorem Grow.rfl' (c : Cfg) : Grow c c := ⟨⟨[], rfl⟩, id⟩
theorem Grow.trans {a b c : Cfg} (h1 : Grow a b) (h2 : Grow b c) : Grow a c := by
  obtain ⟨n1, e1⟩ := h1.ext
  obtain ⟨n2, e2⟩ := h2.ext
  exact ⟨⟨n2 ++ n1, by rw [e2, e1, List.append_assoc]⟩, fun h => h2.tc (h1.tc h)⟩
theorem gs {c c' : Cfg} (s : Same c c') : Grow c c' :=
  ⟨⟨[], by rw [s.2.1]; rfl⟩, fun h => by unfold TC at *; rw [s.1, s.2.2]; exact h⟩
theorem gfr {c c' : Cfg} (h1 : c'.st.label = c.st.label) (h2 : c'.entered = c.entered) (h3 : c'.closed = c.closed) :
    Grow c c' := gs ⟨h1, h2, h3⟩
/-- a step that establishes "terminated ⇒ closed" outright -/
theorem Grow.mk' {c c' : Cfg} (new : List Label) (h : c'.entered = new ++ c.entered) (t : TC c') : Grow c c' :=
  ⟨⟨new, h⟩, fun _ => t⟩

theorem onTerminated_facts (d : Cfg) :
    (onTerminated d).closed = true ∧ (onTerminated d).entered = d.entered ∧ (onTerminated d).st.label = d.st.label := by
  have hs := releasePause_same d
  unfold onTerminated onClose
  split
  · rename_i h; exact ⟨h, hs.2.1, hs.1⟩
  · exact ⟨rfl, hs.2.1, hs.1⟩

theorem forceExcepted_grow (c : Cfg) (e : Exc) : Grow c (forceExcepted c e) := by
  unfold forceExcepted
  split
  · rename_i hc; exact Grow.mk' [] rfl (fun _ => hc)
  · have hf := onTerminated_facts (enteredHooks (setState (setFutExc c e) (.excepted e)) (.excepted e))
    have hh := enteredHooks_same (setState (setFutExc c e) (.excepted e)) (.excepted e)
    refine Grow.mk' [Label.excepted] ?_ (fun _ => hf.1)
    rw [hf.2.1, hh.2.1]; simp [setState, (setFutExc_same c e).2.1, SObj.label]

theorem enterNext_grow (c : Cfg) (s : SObj) : Grow c (enterNext c s) := by
  unfold enterNext
  have he := enterState_same c s
  have hh := enteredHooks_same (setState (enterState c s) s) s
  have hent : (enteredHooks (setState (enterState c s) s) s).entered = [s.label] ++ c.entered := by
    rw [hh.2.1]; simp [setState, he.2.1]
  dsimp only
  split
  · have hf := onTerminated_facts (enteredHooks (setState (enterState c s) s) s)
    exact Grow.mk' [s.label] (by rw [hf.2.1, hent]) (fun _ => hf.1)
  · rename_i hnt
    refine Grow.mk' [s.label] hent (fun ht => ?_)
    rw [hh.1] at ht; simp [setState] at ht; simp [ht] at hnt

theorem transitionTo_grow (c : Cfg) (s : SObj) : Grow c (transitionTo c s) := by
  unfold transitionTo
  have hex := exitState_same c
  split
  · split
    · rename_i hc
      exact Grow.mk' [] (by simp [hex.2.1]) (fun _ => by simp [hex.2.2, hc])
    · dsimp only
      split
      · exact Grow.trans (gs hex) (forceExcepted_grow _ _)
      · rename_i c2 hok
        exact Grow.trans (gs (Same.trans hex (enteringHooks_same _ _ _ hok))) (enterNext_grow c2 s)
  · exact forceExcepted_grow _ _

theorem runAction_grow (c : Cfg) (i : Nat) (next : Option SObj) : Grow c (runAction c i next) := by
  unfold runAction
  split
  · exact Grow.rfl' c
  · split
    · exact gfr rfl rfl rfl
    · split
      · cases next with
        | none => exact gs (Same.trans (doPauseHooks_same c) (setActionStatus_same ..))
        | some s =>
          exact Grow.trans (transitionTo_grow c s) (gs (Same.trans (doPauseHooks_same _) (setActionStatus_same ..)))
      · exact Grow.trans (transitionTo_grow c .killed)
          (gs (Same.trans (⟨rfl, rfl, rfl⟩ : Same (transitionTo c .killed) { transitionTo c .killed with killing := none })
            (setActionStatus_same ..)))

theorem dispatch_grow (c : Cfg) (next : Option SObj) : Grow c (dispatch c next) := by
  unfold dispatch
  split
  · exact Grow.rfl' c
  · split
    · split
      · exact runAction_grow c _ next
      · cases next with
        | none => exact Grow.rfl' c
        | some s => exact transitionTo_grow c s
    · cases next with
      | none => exact Grow.rfl' c
      | some s => exact transitionTo_grow c s

theorem endOfStep_grow (c : Cfg) (r : StepEnd) : Grow c (endOfStep c r) := by
  unfold endOfStep
  exact Grow.trans (Grow.trans (gs (prepare_same c r)) (dispatch_grow _ _)) (gs (finally_same _))

theorem finishUser_grow (c : Cfg) (o : Outcome) : Grow c (finishUser c o) := by
  unfold finishUser
  split
  · exact Grow.trans (gs (cmdToState_same ..)) (endOfStep_grow _ _)
  · exact endOfStep_grow _ _

theorem wake_grow (c : Cfg) (fn wf : Nat) (w : WF) : Grow c (wake c fn wf w) := by
  unfold wake
  split
  · exact endOfStep_grow _ _
  · refine Grow.trans ?_ (endOfStep_grow _ _)
    split
    · rename_i f wf' wakeup aw hst
      split
      · exact gfr (by simp [hst, SObj.label]) rfl rfl
      · exact Grow.rfl' c
    · exact Grow.rfl' c
  · exact endOfStep_grow _ _
  · exact Grow.rfl' c

theorem stepBody_grow_of (P : Prog) (n : Nat) (hL : ∀ c, Grow c (loopHead P n c)) : ∀ c, Grow c (stepBody P n c) := by
  intro c
  unfold stepBody stepBodyK
  have hs : Grow c { c with stepping := true } := gfr rfl rfl rfl
  dsimp only
  split
  · exact Grow.trans hs (Grow.trans (endOfStep_grow _ _) (hL _))
  · split
    · refine Grow.trans hs (Grow.trans ?_ (hL _))
      refine Grow.trans ?_ (finishUser_grow _ _)
      exact gfr rfl rfl rfl
    · exact Grow.trans hs (gfr rfl rfl rfl)
  · split
    · exact Grow.trans hs (gfr rfl rfl rfl)
    · exact Grow.trans hs (Grow.trans (wake_grow _ _ _ _) (hL _))
    · exact hs
  · exact Grow.trans hs (Grow.trans (endOfStep_grow _ _) (hL _))

theorem loopHead_grow (P : Prog) : ∀ (fuel : Nat) (c : Cfg), Grow c (loopHead P fuel c) := by
  intro fuel
  induction fuel with
  | zero => intro c; simpa [loopHead] using Grow.rfl' c
  | succ n ih =>
    intro c
    have hb := stepBody_grow_of P n ih
    unfold loopHead
    split
    · exact Grow.rfl' c
    · split
      · exact gfr rfl rfl rfl
      · split
        · exact gfr rfl rfl rfl
        · split
          · split
            · exact gfr rfl rfl rfl
            · exact hb c
          · exact hb c

theorem stepBody_grow (P : Prog) (fuel : Nat) (c : Cfg) : Grow c (stepBody P fuel c) :=
  stepBody_grow_of P fuel (loopHead_grow P fuel) c

theorem tickStepper_grow (P : Prog) (c : Cfg) : Grow c (tickStepper P c) := by
  unfold tickStepper
  split
  · exact loopHead_grow P _ c
  · split
    · split
      · split
        · exact gfr rfl rfl rfl
        · exact stepBody_grow P _ c
      · exact stepBody_grow P _ c
    · exact Grow.rfl' c
  · split
    · exact Grow.trans (finishUser_grow _ _) (loopHead_grow P _ _)
    · exact gfr rfl rfl rfl
  · split
    · exact Grow.rfl' c
    · exact Grow.trans (wake_grow _ _ _ _) (loopHead_grow P _ _)
    · exact Grow.rfl' c
  · exact Grow.rfl' c

theorem pause_grow (c : Cfg) : Grow c (pause c).1 := by
  unfold pause
  split
  · exact Grow.rfl' c
  · split
    · exact Grow.rfl' c
    · split
      · exact gs (hand_same ..)
      · split
        · exact Grow.rfl' c
        · split
          · dsimp only
            have hs : Same c { requestInterrupt c .pause with pausing := (requestInterrupt c .pause).interrupt } :=
              Same.trans (requestInterrupt_same c .pause) ⟨rfl, rfl, rfl⟩
            split
            · exact gs (Same.trans hs (hand_same ..))
            · exact (gs hs)
          · exact gs (doPauseHooks_same c)

theorem play_grow (c : Cfg) : Grow c (play c).1 := by
  unfold play
  split
  · split
    · exact gs (Same.trans (cancelAction_same ..) ⟨rfl, rfl, rfl⟩)
    · exact Grow.rfl' c
  · dsimp only
    split <;> exact gfr rfl rfl rfl

theorem kill_grow (c : Cfg) : Grow c (kill c).1 := by
  unfold kill
  split
  · exact Grow.rfl' c
  · split
    · exact Grow.rfl' c
    · split
      · exact gs (hand_same ..)
      · split
        · dsimp only
          have hs : Same c { requestInterrupt c .kill with killing := (requestInterrupt c .kill).interrupt } :=
            Same.trans (requestInterrupt_same c .kill) ⟨rfl, rfl, rfl⟩
          split
          · exact gs (Same.trans hs (hand_same ..))
          · exact (gs hs)
        · exact transitionTo_grow c .killed

theorem resume_grow (c : Cfg) (v) : Grow c (resume c v).1 := by
  unfold resume; split
  · exact gs (deliver_same ..)
  · exact Grow.rfl' c

theorem fail_grow (c : Cfg) (e) : Grow c (fail c e).1 := by
  unfold fail; split
  · exact Grow.rfl' c
  · exact transitionTo_grow c _

theorem cancelFut_grow (c : Cfg) : Grow c (cancelFut c).1 := by
  unfold cancelFut; split
  · exact gfr rfl rfl rfl
  · exact Grow.rfl' c

theorem complete_grow (c : Cfg) (f o) : Grow c (complete c f o) := by
  unfold complete; split
  · dsimp only; split <;> exact gfr rfl rfl rfl
  · exact Grow.rfl' c

theorem awaitableDone_grow (c : Cfg) (f) : Grow c (awaitableDone c f) := by
  unfold awaitableDone
  have hold : ∀ d : Cfg, Grow d (match d.efKeys.find? (·.1 = f), d.efs[f]? with
      | some (_, key), some (EFut.result v) => { d with ctx := (key, v) :: d.ctx.filter (·.1 ≠ key) }
      | _, _ => d) := by
    intro d; split
    · exact gfr rfl rfl rfl
    · exact Grow.rfl' d
  dsimp only
  split
  · rename_i fn wf wakeup aw hst
    split
    · exact hold c
    · have h1 : Same c { c with st := .waiting fn wf wakeup (aw.filter (·.1 ≠ f)) } :=
        ⟨by simp [hst, SObj.label], rfl, rfl⟩
      split
      · split
        · exact gs (Same.trans (Same.trans h1 ⟨rfl, rfl, rfl⟩) (deliver_same ..))
        · exact gs (Same.trans h1 ⟨rfl, rfl, rfl⟩)
      · exact gs (Same.trans h1 (deliver_same ..))
      · exact (gs h1)
  · exact hold c

theorem tickCb_grow (c : Cfg) (cb) : Grow c (tickCb c cb) := by
  unfold tickCb; split
  · have h1 : Grow c { c with ready := c.ready.erase cb } := gfr rfl rfl rfl
    split
    · exact Grow.trans h1 (awaitableDone_grow _ _)
    · exact Grow.trans h1 (Grow.trans (kill_grow _) (gfr rfl rfl rfl))
    · split
      · exact Grow.trans h1 (fail_grow _ _)
      · exact h1
  · exact Grow.rfl' c

/-- every event of the process-control model extends the entered log at its head and keeps "terminated ⇒ closed" -/
theorem step_grow (P : Prog) (c : Cfg) (ev : Ev) : Grow c (step P c ev).1 := by
  cases ev <;> simp only [step]
  · exact tickStepper_grow P c
  · exact tickCb_grow c _
  · exact pause_grow c
  · exact play_grow c
  · exact kill_grow c
  · exact resume_grow c _
  · exact fail_grow c _
  · exact cancelFut_grow c
  · exact complete_grow c _ _
  · exact gfr rfl rfl rfl

theorem tc_init (nfut : Nat) : TC (init nfut) := by
  unfold TC init; simp [terminal, allowed, SObj.label]

end PMF
