import PlumpyModel.Expose.Full
import PlumpyModel.Expose.Proof
/-!
Helper lemmas for the full expose model (C15), part 1: the port dict (`lookup` / `setPort`), identities, and the
decomposition of the `absorb` loop into "make the copies" and "assign them into the dict".
-/
namespace Expose
namespace Full

/-! ## the port dict -/

theorem lookup_setPort_same (n : Name) (v : Obj) : ∀ ps : Ports, lookup n (setPort n v ps) = some v
  | [] => by simp [setPort, lookup]
  | (m, o) :: rest => by
    by_cases h : m = n
    · simp [setPort, lookup, h]
    · simp [setPort, lookup, h, lookup_setPort_same n v rest]

theorem lookup_setPort_ne {m n : Name} (v : Obj) (h : m ≠ n) : ∀ ps : Ports, lookup m (setPort n v ps) = lookup m ps
  | [] => by simp [setPort, lookup, Ne.symm h]
  | (k, o) :: rest => by
    by_cases hk : k = n
    · subst hk; simp [setPort, lookup, Ne.symm h]
    · by_cases hm : k = m
      · subst hm; simp [setPort, lookup, hk]
      · simp [setPort, lookup, hk, hm, lookup_setPort_ne v h rest]

theorem lookup_isSome_iff {n : Name} : ∀ {ps : Ports}, (lookup n ps).isSome = true ↔ n ∈ keys ps
  | [] => by simp [lookup, keys]
  | (m, o) :: rest => by
    by_cases h : m = n
    · simp [lookup, keys, h]
    · have := @lookup_isSome_iff n rest
      simp only [keys] at this
      simp [lookup, keys, h, this, Ne.symm h]

theorem lookup_none_iff {n : Name} {ps : Ports} : lookup n ps = none ↔ n ∉ keys ps := by
  rw [← lookup_isSome_iff]; cases lookup n ps <;> simp

/-- position: a dict assignment keeps every existing key where it is; a new key goes to the end -/
theorem keys_setPort (n : Name) (v : Obj) : ∀ ps : Ports,
    keys (setPort n v ps) = if n ∈ keys ps then keys ps else keys ps ++ [n]
  | [] => by simp [setPort, keys]
  | (m, o) :: rest => by
    have ih := keys_setPort n v rest
    simp only [keys] at ih
    by_cases h : m = n
    · simp [setPort, keys, h]
    · simp only [setPort, h, if_false, keys, List.map_cons, ih, List.mem_cons, Ne.symm h, false_or]
      split <;> simp [*]

theorem keys_setPort_prefix (n : Name) (v : Obj) (ps : Ports) : ∃ extra, keys (setPort n v ps) = keys ps ++ extra := by
  rw [keys_setPort]; split
  · exact ⟨[], by simp⟩
  · exact ⟨[n], rfl⟩

theorem setPort_append_new {n : Name} (v : Obj) : ∀ {ps : Ports}, n ∉ keys ps → setPort n v ps = ps ++ [(n, v)]
  | [], _ => by simp [setPort]
  | (m, o) :: rest, h => by
    simp only [keys, List.map_cons, List.mem_cons, not_or] at h
    have := @setPort_append_new n v rest (by simpa [keys] using h.2)
    simp [setPort, Ne.symm h.1, this]

/-! ## identities -/

/-- the identities of one object and everything below it -/
def oids : Obj → List Nat
  | .leaf i _ => [i]
  | .ns i _ sub => i :: ids sub

theorem ids_cons (n : Name) (o : Obj) (rest : Ports) : ids ((n, o) :: rest) = oids o ++ ids rest := by
  cases o <;> simp [ids, oids]

theorem oids_toObj (r : Ns) : oids r.toObj = r.ids := rfl

theorem ids_append : ∀ (a b : Ports), ids (a ++ b) = ids a ++ ids b
  | [], b => by simp [ids]
  | (n, o) :: rest, b => by
    have := ids_append rest b
    simp [ids_cons, this]

theorem ids_setPort {n : Name} {v : Obj} {i : Nat} : ∀ {ps : Ports}, i ∈ ids (setPort n v ps) → i ∈ ids ps ∨ i ∈ oids v
  | [], h => by simpa [setPort, ids_cons, ids] using h
  | (m, o) :: rest, h => by
    by_cases hm : m = n
    · simp only [setPort, hm, if_true, ids_cons, List.mem_append] at h
      rcases h with h | h
      · exact Or.inr h
      · exact Or.inl (by simp [ids_cons, h])
    · simp only [setPort, hm, if_false, ids_cons, List.mem_append] at h
      rcases h with h | h
      · exact Or.inl (by simp [ids_cons, h])
      · rcases @ids_setPort n v i rest h with h' | h'
        · exact Or.inl (by simp [ids_cons, h'])
        · exact Or.inr h'

theorem ids_of_lookup {n : Name} {o : Obj} {i : Nat} : ∀ {ps : Ports}, lookup n ps = some o → i ∈ oids o → i ∈ ids ps
  | [], h, _ => by simp [lookup] at h
  | (m, p) :: rest, h, hi => by
    by_cases hm : m = n
    · simp only [lookup, hm, if_true, Option.some.injEq] at h
      subst h; simp [ids_cons, hi]
    · simp only [lookup, hm, if_false] at h
      have := @ids_of_lookup n o i rest h hi
      simp [ids_cons, this]

/-! ## the `absorb` loop = make the copies, then assign them -/

/-- `for (name, v) in l: self[name] = v` -/
def assignAll (sp : Ports) (l : Ports) : Ports := l.foldl (fun acc e => setPort e.1 e.2 acc) sp

@[simp] theorem assignAll_nil (sp : Ports) : assignAll sp [] = sp := rfl
@[simp] theorem assignAll_cons (sp : Ports) (e : Name × Obj) (l : Ports) :
    assignAll sp (e :: l) = assignAll (setPort e.1 e.2 sp) l := rfl

/-- the copies that the loop of `absorb` makes of the selected source ports, in iteration order, and the counter afterwards
(the ports below a copied namespace are the result of the recursive `absorb` into its emptied dict) -/
def copies (ex inc : Option (List Rule)) : Ports → Nat → Ports × Nat
  | [], c => ([], c)
  | (name, p) :: rest, c =>
      if truthy ex && mentions ex name then copies ex inc rest c
      else match p with
        | .leaf _ a =>
            if truthy inc && !mentions inc name then copies ex inc rest c
            else ((name, .leaf c a) :: (copies ex inc rest (c + 1)).1, (copies ex inc rest (c + 1)).2)
        | .ns _ pr sub =>
            if truthy inc && !touches inc name then copies ex inc rest c
            else
              let inner := absorbLoop (strip name ex) (strip name inc) sub [] (c + 1)
              ((name, .ns c (overload pr [] pr).1 inner.1) :: (copies ex inc rest inner.2.1).1, (copies ex inc rest inner.2.1).2)

theorem absorbLoop_eq (ex inc : Option (List Rule)) : ∀ (src sp : Ports) (c : Nat),
    absorbLoop ex inc src sp c
      = (assignAll sp (copies ex inc src c).1, (copies ex inc src c).2, keys (copies ex inc src c).1)
  | [], sp, c => by simp [absorbLoop, copies, keys]
  | (name, .leaf i a) :: rest, sp, c => by
    simp only [absorbLoop, copies]
    split
    · exact absorbLoop_eq ex inc rest sp c
    · split
      · exact absorbLoop_eq ex inc rest sp c
      · simp [absorbLoop_eq ex inc rest _ (c + 1), keys]
  | (name, .ns i pr sub) :: rest, sp, c => by
    simp only [absorbLoop, copies]
    split
    · exact absorbLoop_eq ex inc rest sp c
    · split
      · exact absorbLoop_eq ex inc rest sp c
      · simp [absorbLoop_eq ex inc rest _ _, keys]

/-! ### assigning -/

theorem lookup_assignAll_not_mem {n : Name} : ∀ (l sp : Ports), n ∉ keys l → lookup n (assignAll sp l) = lookup n sp
  | [], _, _ => rfl
  | (m, v) :: l, sp, h => by
    simp only [keys, List.map_cons, List.mem_cons, not_or] at h
    rw [assignAll_cons, lookup_assignAll_not_mem l _ (by simpa [keys] using h.2)]
    exact lookup_setPort_ne v h.1 sp

/-- with distinct keys in `l`, a key of `l` reads back the value `l` gives it -/
theorem lookup_assignAll_mem {n : Name} : ∀ (l sp : Ports), (keys l).Nodup → n ∈ keys l →
    lookup n (assignAll sp l) = lookup n l
  | [], _, _, h => by simp [keys] at h
  | (m, v) :: l, sp, hd, h => by
    simp only [keys, List.map_cons, List.nodup_cons] at hd
    rw [assignAll_cons]
    by_cases hm : m = n
    · subst hm
      rw [lookup_assignAll_not_mem l _ (by simpa [keys] using hd.1)]
      simp [lookup, lookup_setPort_same]
    · have hin : n ∈ keys l := by
        simp only [keys, List.map_cons, List.mem_cons] at h
        rcases h with h | h
        · exact absurd h.symm hm
        · simpa [keys] using h
      rw [lookup_assignAll_mem l _ (by simpa [keys] using hd.2) hin]
      simp [lookup, hm]

theorem keys_assignAll_prefix : ∀ (l sp : Ports), ∃ extra, keys (assignAll sp l) = keys sp ++ extra
  | [], sp => ⟨[], by simp⟩
  | (m, v) :: l, sp => by
    obtain ⟨e1, h1⟩ := keys_assignAll_prefix l (setPort m v sp)
    obtain ⟨e2, h2⟩ := keys_setPort_prefix m v sp
    exact ⟨e2 ++ e1, by rw [assignAll_cons, h1, h2, List.append_assoc]⟩

theorem ids_assignAll {i : Nat} : ∀ (l sp : Ports), i ∈ ids (assignAll sp l) → i ∈ ids sp ∨ i ∈ ids l
  | [], _, h => Or.inl h
  | (m, v) :: l, sp, h => by
    rw [assignAll_cons] at h
    rcases ids_assignAll l _ h with h | h
    · rcases ids_setPort h with h | h
      · exact Or.inl h
      · exact Or.inr (by simp [ids_cons, h])
    · exact Or.inr (by simp [ids_cons, h])

/-- assigning distinct new keys into a dict that has none of them appends them -/
theorem assignAll_append : ∀ (l sp : Ports), (keys l).Nodup → (∀ n ∈ keys l, n ∉ keys sp) → assignAll sp l = sp ++ l
  | [], sp, _, _ => by simp
  | (m, v) :: l, sp, hd, hdis => by
    simp only [keys, List.map_cons, List.nodup_cons] at hd
    have hm : m ∉ keys sp := hdis m (by simp [keys])
    rw [assignAll_cons, setPort_append_new v hm,
      assignAll_append l _ (by simpa [keys] using hd.2) (by
        intro n hn
        have h1 := hdis n (by simp only [keys, List.map_cons, List.mem_cons]; exact Or.inr (by simpa [keys] using hn))
        intro hc
        simp only [keys, List.map_append, List.map_cons, List.map_nil, List.mem_append, List.mem_singleton] at hc
        rcases hc with hc | hc
        · exact h1 (by simpa [keys] using hc)
        · subst hc; exact hd.1 (by simpa [keys] using hn))]
    simp

end Full
end Expose
