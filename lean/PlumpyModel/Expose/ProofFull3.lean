import PlumpyModel.Expose.ProofFull2
/-!
Helper lemmas for the full expose model (C15), part 3: the target namespace of the walk, what a raising call keeps, the
copies as a selection (link to `selection_exact`), and the overloaded properties.
-/
namespace Expose
namespace Full

/-! ## the target of the walk -/

/-- the walk ends in the call on the namespace `create_port_namespace` returns; afterwards that namespace sits at the path -/
theorem exposeAt_target {k : Ns → Nat → Res} : ∀ (t : List Name) (self : Ns) (c : Nat) (tgt0 : Ns) (c0 : Nat),
    targetOf t self c = some (tgt0, c0) →
      (exposeAt k t self c).2 = (k tgt0 c0).2 ∧ nsAt t (exposeAt k t self c).1 = some (k tgt0 c0).1
  | [], self, c, tgt0, c0, h => by
    simp only [targetOf, Option.some.injEq, Prod.mk.injEq] at h
    obtain ⟨rfl, rfl⟩ := h
    simp [exposeAt, nsAt]
  | n :: rest, self, c, tgt0, c0, h => by
    simp only [targetOf] at h
    simp only [exposeAt]
    split at h
    · exact absurd h (by simp)
    · rename_i hne
      simp only [hne, if_false]
      split at h
      · exact absurd h (by simp)
      · rename_i i p sub hl
        have ih := exposeAt_target (k := k) rest ⟨i, p, sub⟩ c tgt0 c0 h
        simp only [hl]
        refine ⟨ih.1, ?_⟩
        simp only [nsAt, lookup_setPort_same, Ns.toObj]
        exact ih.2
      · rename_i hl
        have ih := exposeAt_target (k := k) rest ⟨c, defaultProps, []⟩ (c + 1) tgt0 c0 h
        simp only [hl]
        refine ⟨ih.1, ?_⟩
        simp only [nsAt, lookup_setPort_same, Ns.toObj]
        exact ih.2

/-- where `create_port_namespace` raises, the whole call raises -/
theorem exposeAt_no_target {k : Ns → Nat → Res} : ∀ (t : List Name) (self : Ns) (c : Nat),
    targetOf t self c = none →
      (exposeAt k t self c).2.2 = .error .occupied ∨ (exposeAt k t self c).2.2 = .error .emptyName
  | [], self, c, h => by simp [targetOf] at h
  | n :: rest, self, c, h => by
    simp only [targetOf] at h
    simp only [exposeAt]
    split at h
    · rename_i hc; simp [hc]
    · rename_i hne
      simp only [hne, if_false]
      split at h
      · rename_i hl; simp [hl]
      · rename_i i p sub hl
        simp only [hl]
        exact exposeAt_no_target rest ⟨i, p, sub⟩ c h
      · rename_i hl
        simp only [hl]
        exact exposeAt_no_target rest ⟨c, defaultProps, []⟩ (c + 1) h

/-- a namespace created by the walk below a new namespace: new, empty, default properties -/
theorem targetOf_fresh : ∀ (t : List Name) (c : Nat) (tgt0 : Ns) (c0 : Nat),
    targetOf t ⟨c, defaultProps, []⟩ (c + 1) = some (tgt0, c0) →
      tgt0.props = defaultProps ∧ tgt0.ports = [] ∧ c ≤ tgt0.id ∧ tgt0.id < c0
  | [], c, tgt0, c0, h => by
    simp only [targetOf, Option.some.injEq, Prod.mk.injEq] at h
    obtain ⟨rfl, rfl⟩ := h
    simp
  | n :: rest, c, tgt0, c0, h => by
    simp only [targetOf, lookup] at h
    split at h
    · exact absurd h (by simp)
    · have := targetOf_fresh rest (c + 1) tgt0 c0 h
      exact ⟨this.1, this.2.1, by omega, this.2.2.2⟩

/-- the namespace `create_port_namespace` returns is the one that was at the path, untouched — or, if there was none, a new
empty namespace with default properties and a fresh identity -/
theorem targetOf_spec : ∀ (t : List Name) (self : Ns) (c : Nat) (tgt0 : Ns) (c0 : Nat),
    targetOf t self c = some (tgt0, c0) →
      (nsAt t self = some tgt0 ∧ c0 = c) ∨
      (nsAt t self = none ∧ tgt0.props = defaultProps ∧ tgt0.ports = [] ∧ c ≤ tgt0.id ∧ tgt0.id < c0)
  | [], self, c, tgt0, c0, h => by
    simp only [targetOf, Option.some.injEq, Prod.mk.injEq] at h
    obtain ⟨rfl, rfl⟩ := h
    simp [nsAt]
  | n :: rest, self, c, tgt0, c0, h => by
    simp only [targetOf] at h
    split at h
    · exact absurd h (by simp)
    · split at h
      · exact absurd h (by simp)
      · rename_i i p sub hl
        have := targetOf_spec rest ⟨i, p, sub⟩ c tgt0 c0 h
        simpa [nsAt, hl] using this
      · rename_i hl
        have := targetOf_fresh rest c tgt0 c0 h
        exact Or.inr ⟨by simp [nsAt, hl], this⟩

/-- the root of the walk keeps its identity and the position of every key; its properties too unless it is the target -/
theorem exposeAt_root {k : Ns → Nat → Res}
    (hk : ∀ self c, (k self c).1.id = self.id ∧ ∃ extra, keys (k self c).1.ports = keys self.ports ++ extra) :
    ∀ (t : List Name) (self : Ns) (c : Nat),
      (exposeAt k t self c).1.id = self.id ∧ (∃ extra, keys (exposeAt k t self c).1.ports = keys self.ports ++ extra) ∧
      (t ≠ [] → (exposeAt k t self c).1.props = self.props)
  | [], self, c => ⟨(hk self c).1, (hk self c).2, fun h => absurd rfl h⟩
  | n :: rest, self, c => by
    unfold exposeAt
    split
    · exact ⟨rfl, ⟨[], by simp⟩, fun _ => rfl⟩
    · split
      · exact ⟨rfl, ⟨[], by simp⟩, fun _ => rfl⟩
      · exact ⟨rfl, keys_setPort_prefix _ _ _, fun _ => rfl⟩
      · exact ⟨rfl, keys_setPort_prefix _ _ _, fun _ => rfl⟩

theorem absorbTop_root (src : Ns) (ex inc : Option (List Rule)) (opts : Opts) (self : Ns) (c : Nat) :
    (absorbTop src ex inc opts self c).1.id = self.id ∧
    ∃ extra, keys (absorbTop src ex inc opts self c).1.ports = keys self.ports ++ extra := by
  cases h1 : (ex.isSome && inc.isSome) with
  | true => rw [absorbTop_exclusive h1]; exact ⟨rfl, [], by simp⟩
  | false =>
    by_cases h2 : (overload src.props opts self.props).2 = []
    · rw [absorbTop_ok h1 h2]
      refine ⟨rfl, ?_⟩
      simp only [absorbLoop_eq]
      exact keys_assignAll_prefix _ _
    · rw [absorbTop_unknown h1 h2]; exact ⟨rfl, [], by simp⟩

/-! ## what a raising call keeps -/

theorem toPT_append : ∀ (a b : Ports), toPT (a ++ b) = toPT a ++ toPT b
  | [], b => by simp [toPT]
  | (n, .leaf i x) :: rest, b => by simp [toPT, toPT_append rest b]
  | (n, .ns i p sub) :: rest, b => by simp [toPT, toPT_append rest b]

theorem leafPaths_append : ∀ (a b : List (Name × PT)), leafPaths (a ++ b) = leafPaths a ++ leafPaths b
  | [], b => by simp [leafPaths]
  | (n, .leaf x) :: rest, b => by simp [leafPaths, leafPaths_append rest b]
  | (n, .ns x sub) :: rest, b => by simp [leafPaths, leafPaths_append rest b]

theorem leafPathsF_setPort_ns {n : Name} {i i' : Nat} {p p' : Props} {sub sub' : Ports}
    (hs : leafPathsF sub' = leafPathsF sub) : ∀ ps : Ports, lookup n ps = some (.ns i p sub) →
      leafPathsF (setPort n (.ns i' p' sub') ps) = leafPathsF ps
  | [], h => by simp [lookup] at h
  | (m, o) :: rest, h => by
    by_cases hm : m = n
    · simp only [lookup, hm, if_true, Option.some.injEq] at h
      subst h
      simp only [leafPathsF] at hs
      simp [setPort, hm, leafPathsF, toPT, leafPaths, hs]
    · simp only [lookup, hm, if_false] at h
      have ih := leafPathsF_setPort_ns (i' := i') (p' := p') hs rest h
      simp only [leafPathsF] at ih
      cases o <;> simp [setPort, hm, leafPathsF, toPT, leafPaths, ih]

theorem leafPathsF_append_empty_ns {n : Name} {i : Nat} {p : Props} {sub' : Ports} (hs : leafPathsF sub' = [])
    (ps : Ports) : leafPathsF (ps ++ [(n, .ns i p sub')]) = leafPathsF ps := by
  simp only [leafPathsF] at hs
  simp [leafPathsF, toPT_append, leafPaths_append, toPT, leafPaths, hs]

/-- a raising call at the end of the walk that adds no port: the whole walk adds no port (it may have created empty
namespaces) -/
theorem exposeAt_error_leafPaths {k : Ns → Nat → Res}
    (hk : ∀ self c e, (k self c).2.2 = .error e → leafPathsF (k self c).1.ports = leafPathsF self.ports) :
    ∀ (t : List Name) (self : Ns) (c : Nat) (e : Err), (exposeAt k t self c).2.2 = .error e →
      leafPathsF (exposeAt k t self c).1.ports = leafPathsF self.ports
  | [], self, c, e, h => hk self c e h
  | n :: rest, self, c, e, h => by
    simp only [exposeAt] at h ⊢
    split
    · rfl
    · rename_i hne
      simp only [hne, if_false] at h
      split
      · rfl
      · rename_i i p sub hl
        simp only [hl] at h
        have ih := exposeAt_error_leafPaths hk rest ⟨i, p, sub⟩ c e h
        exact leafPathsF_setPort_ns ih _ hl
      · rename_i hl
        simp only [hl] at h
        have ih := exposeAt_error_leafPaths hk rest ⟨c, defaultProps, []⟩ (c + 1) e h
        rw [setPort_append_new _ (lookup_none_iff.mp hl)]
        exact leafPathsF_append_empty_ns (by simpa [leafPathsF, toPT, leafPaths] using ih) _

theorem absorbTop_error_ports (src : Ns) (ex inc : Option (List Rule)) (opts : Opts) (self : Ns) (c : Nat) (e : Err)
    (h : (absorbTop src ex inc opts self c).2.2 = .error e) : (absorbTop src ex inc opts self c).1.ports = self.ports := by
  cases h1 : (ex.isSome && inc.isSome) with
  | true => rw [absorbTop_exclusive h1]
  | false =>
    by_cases h2 : (overload src.props opts self.props).2 = []
    · rw [absorbTop_ok h1 h2] at h; simp at h
    · rw [absorbTop_unknown h1 h2]

/-! ## the copies are the selection -/

/-- the representation invariant of a port tree: `_ports` is a dict, so the keys of every namespace are distinct -/
def DK : Ports → Prop
  | [] => True
  | (n, .leaf _ _) :: rest => n ∉ keys rest ∧ DK rest
  | (n, .ns _ _ sub) :: rest => n ∉ keys rest ∧ DK sub ∧ DK rest

theorem absorbedNames_cons (ex inc : Option (List Rule)) (name : Name) (p : Obj) (rest : Ports) :
    absorbedNames ex inc ((name, p) :: rest) = absorbedNames ex inc rest ∨
    absorbedNames ex inc ((name, p) :: rest) = name :: absorbedNames ex inc rest := by
  cases p <;> simp only [absorbedNames, toPT, absorbPorts] <;> split <;> simp <;> split <;> simp

theorem mem_absorbedNames {ex inc : Option (List Rule)} {n : Name} : ∀ {src : Ports},
    n ∈ absorbedNames ex inc src → n ∈ keys src
  | [], h => by simp [absorbedNames, toPT, absorbPorts] at h
  | (name, p) :: rest, h => by
    rcases absorbedNames_cons ex inc name p rest with h' | h' <;> rw [h'] at h
    · simp only [keys, List.map_cons, List.mem_cons]; exact Or.inr (by simpa [keys] using mem_absorbedNames h)
    · simp only [List.mem_cons] at h
      simp only [keys, List.map_cons, List.mem_cons]
      rcases h with h | h
      · exact Or.inl h
      · exact Or.inr (by simpa [keys] using mem_absorbedNames h)

theorem nodup_absorbedNames (ex inc : Option (List Rule)) : ∀ {src : Ports}, (keys src).Nodup →
    (absorbedNames ex inc src).Nodup
  | [], _ => by simp [absorbedNames, toPT, absorbPorts]
  | (name, p) :: rest, h => by
    simp only [keys, List.map_cons, List.nodup_cons] at h
    have ih := nodup_absorbedNames ex inc (src := rest) (by simpa [keys] using h.2)
    rcases absorbedNames_cons ex inc name p rest with h' | h' <;> rw [h']
    · exact ih
    · exact List.nodup_cons.mpr ⟨fun hm => h.1 (by simpa [keys] using mem_absorbedNames hm), ih⟩

theorem DK_nodup : ∀ {src : Ports}, DK src → (keys src).Nodup
  | [], _ => by simp [keys]
  | (n, .leaf _ _) :: rest, h => by
    simp only [DK] at h
    simp only [keys, List.map_cons, List.nodup_cons]
    exact ⟨by simpa [keys] using h.1, by simpa [keys] using DK_nodup h.2⟩
  | (n, .ns _ _ sub) :: rest, h => by
    simp only [DK] at h
    simp only [keys, List.map_cons, List.nodup_cons]
    exact ⟨by simpa [keys] using h.1, by simpa [keys] using DK_nodup h.2.2⟩

/-- the recursive `absorb` into the emptied dict of a copied namespace yields just the copies -/
theorem absorbLoop_empty (ex inc : Option (List Rule)) (src : Ports) (c : Nat) (h : (keys src).Nodup) :
    (absorbLoop ex inc src [] c).1 = (copies ex inc src c).1 := by
  rw [absorbLoop_eq]
  simp only
  rw [assignAll_append _ _ (by rw [keys_copies]; exact nodup_absorbedNames ex inc h) (by simp [keys])]
  simp

/-- forgetting identities and properties, the copies are the selection of `Expose/Model.lean` -/
theorem toPT_copies : ∀ (src : Ports) (ex inc : Option (List Rule)) (c : Nat), DK src →
    toPT (copies ex inc src c).1 = absorbPorts ex inc (toPT src)
  | [], ex, inc, c, _ => by simp [copies, toPT, absorbPorts]
  | (name, .leaf j a) :: rest, ex, inc, c, h => by
    simp only [DK] at h
    have ih0 := toPT_copies rest ex inc c h.2
    have ih1 := toPT_copies rest ex inc (c + 1) h.2
    simp only [copies, toPT, absorbPorts]
    split
    · exact ih0
    · split
      · exact ih0
      · simp [toPT, ih1]
  | (name, .ns j pr sub) :: rest, ex, inc, c, h => by
    simp only [DK] at h
    have ih0 := toPT_copies rest ex inc c h.2.2
    have ihs := toPT_copies sub (strip name ex) (strip name inc) (c + 1) h.2.1
    have ih1 := fun c' => toPT_copies rest ex inc c' h.2.2
    simp only [copies, toPT, absorbPorts]
    split
    · exact ih0
    · split
      · exact ih0
      · simp [toPT, ih1, absorbLoop_empty _ _ _ _ (DK_nodup h.2.1), ihs]

/-! ## the overloaded properties -/

theorem optGet_optDel_ne {i j : Nat} (h : i ≠ j) : ∀ o : Opts, optGet i (optDel j o) = optGet i o
  | [] => rfl
  | (k, v) :: rest => by
    by_cases hk : k = j
    · subst hk
      simp [optDel, optGet, Ne.symm h, optGet_optDel_ne h rest]
    · by_cases hi : k = i
      · subst hi; simp [optDel, optGet, hk]
      · simp [optDel, optGet, hk, hi, optGet_optDel_ne h rest]

/-- the value a property gets from the overload loop when setters have no side effect: the override, else the source's -/
def effProp (src : Props) (opts : Opts) (j : Nat) : Nat := (optGet j opts).getD (src.getD j 0)

/-- the properties after the overload loop: override or source's value; `dynamic` is `True` whenever the `valid_type` that
is set (later in the enumeration) is not `None` -/
def expectedProps (src : Props) (opts : Opts) : Props :=
  (List.range nProps).map fun j =>
    if j = dynIdx ∧ effProp src opts vtIdx ≠ noneAtom then trueAtom else effProp src opts j

theorem overload_props (src self : Props) (opts : Opts) (hs : src.length = nProps) (hd : self.length = nProps) :
    (overload src opts self).1 = expectedProps src opts := by
  match src, hs with
  | [s0, s1, s2, s3, s4, s5, s6], _ =>
  match self, hd with
  | [d0, d1, d2, d3, d4, d5, d6], _ =>
    simp only [overload, overloadFrom, setProp, vtIdx, dynIdx, noneAtom, trueAtom]
    simp (config := { decide := true }) only [optGet_optDel_ne, ne_eq, not_false_eq_true, List.set_cons_zero, List.set_cons_succ,
      and_false, false_and, if_false, true_and, Nat.reduceAdd, Nat.reduceEqDiff]
    simp [expectedProps, effProp, nProps, List.range, List.range.loop, vtIdx, dynIdx, noneAtom, trueAtom]
    split <;> simp [*]

end Full
end Expose
