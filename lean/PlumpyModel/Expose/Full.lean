import PlumpyModel.Expose.Model
/-!
# `ProcessSpec._expose_ports` on port objects with identities (C15, full model)

`Expose/Model.lean` models only WHICH source ports `PortNamespace.absorb` selects, with value semantics.  This file models the
whole call `ProcessSpec.expose_inputs / expose_outputs` = `_expose_ports` (src/plumpy/process_spec.py) =
`create_port_namespace` + `absorb` (src/plumpy/ports.py) on port OBJECTS:

* every port object carries an identity (`id`); a fresh object (`copy.copy`, `copy.deepcopy`, `self.__class__(name)`) takes its
  identity from an allocation counter that is threaded through every function;
* a namespace carries its mutable `PortNamespace` properties as opaque atoms (`props`), in the order in which
  `for attr in dir(port_namespace): if is_mutable_property(PortNamespace, attr)` enumerates them (`default`, `dynamic`, `help`,
  `populate_defaults`, `required`, `valid_type`, `validator`); the one setter with a side effect is modelled
  (`PortNamespace.valid_type.setter`: a value other than `None` also sets `dynamic = True`);
* a leaf port carries one opaque atom for all its attributes (`copy.deepcopy` reproduces it);
* `_ports` is a Python dict: an association list in insertion order, `self[name] = v` replaces the value of an existing key
  in place and appends a new key (`setPort`);
* every place where the real code raises returns the error TOGETHER WITH the destination as it is at that moment (the real
  code has already mutated it: `create_port_namespace` runs before `absorb` raises, and `absorb` overloads the properties
  before it looks at the left-over options).

Assumed contracts (exercised by the correspondence, not proved): `copy.copy` of a namespace yields a new object with the same
property values; `copy.deepcopy` of a leaf port yields a new object with equal attributes that shares nothing mutable with
the original; `dir()` enumerates in sorted order.  Property VALUES are atoms: that `copy.copy` / `setattr(self, attr,
getattr(source, attr))` make the destination namespace share the very same value object (e.g. a dict used as `default`) with
the source is outside this model (and outside what the Python monitors probe for namespaces).

The source and the destination are given as two trees: the model has value semantics, so a source object that is ALSO reachable
from the destination (aliasing before the call) is not expressible; the identities of the two trees are assumed disjoint
before the first call, and `Props/C15.lean` proves that every expose keeps them disjoint.
-/
namespace Expose
namespace Full

/-- the values of the mutable `PortNamespace` properties, as atoms, in enumeration order -/
abbrev Props := List Nat

/-- a port object: a leaf port (`InputPort` / `OutputPort`) or a `PortNamespace` with its ports in dict order -/
inductive Obj where
  | leaf (id : Nat) (attr : Nat)
  | ns (id : Nat) (props : Props) (ports : List (Name × Obj))
deriving Repr, Inhabited

/-- the `_ports` dict of a namespace -/
abbrev Ports := List (Name × Obj)

/-- a `PortNamespace` object (the same three fields as `Obj.ns`) -/
structure Ns where
  id : Nat
  props : Props
  ports : Ports
deriving Repr, Inhabited

def Ns.toObj (n : Ns) : Obj := .ns n.id n.props n.ports
def Obj.id : Obj → Nat
  | .leaf i _ => i
  | .ns i _ _ => i

/-- `self[name]` / `name in self` -/
def lookup (n : Name) : Ports → Option Obj
  | [] => none
  | (m, o) :: rest => if m = n then some o else lookup n rest

/-- `self[name] = v` (dict assignment): the value of an existing key is replaced in place, a new key is appended -/
def setPort (n : Name) (v : Obj) : Ports → Ports
  | [] => [(n, v)]
  | (m, o) :: rest => if m = n then (m, v) :: rest else (m, o) :: setPort n v rest

/-! ## properties -/

/-- atoms with a meaning for the model (the harness interns `repr(None)`, `repr(True)` to these) -/
def noneAtom : Nat := 0
def trueAtom : Nat := 1
/-- positions of `dynamic` and `valid_type` in the enumeration (checked against the real class by the harness) -/
def dynIdx : Nat := 1
def vtIdx : Nat := 5
/-- the properties of `PortNamespace(name)`: default=() dynamic=False help=None populate_defaults=True required=True
valid_type=None validator=None, with the harness's atoms `None`=0 `True`=1 `False`=2 `()`=3 -/
def defaultProps : Props := [3, 2, 0, 1, 1, 0, 0]
def nProps : Nat := 7

/-- `setattr(self, <i-th property>, v)`; `PortNamespace.valid_type.setter` first sets `dynamic = True` if `v is not None` -/
def setProp (i v : Nat) (ps : Props) : Props :=
  if i = vtIdx ∧ v ≠ noneAtom then (ps.set dynIdx trueAtom).set i v else ps.set i v

/-- `namespace_options`: property index ↦ atom; names that are no mutable property get indices `≥ 100` from the harness -/
abbrev Opts := List (Nat × Nat)

def optGet (i : Nat) : Opts → Option Nat
  | [] => none
  | (k, v) :: rest => if k = i then some v else optGet i rest

def optDel (i : Nat) : Opts → Opts
  | [] => []
  | (k, v) :: rest => if k = i then optDel i rest else (k, v) :: optDel i rest

/-- the overload loop of `absorb`, from the `i`-th property on:
`setattr(self, attr, namespace_options.pop(attr, getattr(port_namespace, attr)))` -/
def overloadFrom (i : Nat) : Props → Opts → Props → Props × Opts
  | [], opts, self => (self, opts)
  | s :: rest, opts, self =>
      overloadFrom (i + 1) rest (optDel i opts) (setProp i ((optGet i opts).getD s) self)

/-- the whole loop: the new properties of `self` and the options that are left over -/
def overload (src : Props) (opts : Opts) (self : Props) : Props × Opts := overloadFrom 0 src opts self

/-! ## `absorb` -/

inductive Err where
  | exclusive      -- 'exclude and include are mutually exclusive'
  | unknownOption  -- 'the namespace_options […], is not a supported PortNamespace property'
  | occupied       -- "the name '…' in '…' already contains a Port"
  | emptyName      -- 'name cannot be an empty string'
deriving Repr, DecidableEq, Inhabited

/-- the loop `for port_name, port in port_namespace.items()` of `absorb`: arguments are the source's ports still to visit,
`self._ports` and the allocation counter; result: `self._ports`, the counter and `absorbed_ports`.
A nested namespace: `self[port_name] = copy.copy(port)` (fresh identity, the source namespace's property values),
`_ports = {}`, then `portnamespace.absorb(port, sub_exclude, sub_include)` — a recursive `absorb` WITHOUT namespace options,
which overloads the copy's properties with the source's once more (setter side effects included) and cannot raise (the
stripped rule sets are not both given, there are no options).  A leaf: `self[port_name] = copy.deepcopy(port)`. -/
def absorbLoop (ex inc : Option (List Rule)) : Ports → Ports → Nat → Ports × Nat × List Name
  | [], self, c => (self, c, [])
  | (name, p) :: rest, self, c =>
      if truthy ex && mentions ex name then absorbLoop ex inc rest self c
      else match p with
        | .leaf _ a =>
            if truthy inc && !mentions inc name then absorbLoop ex inc rest self c
            else
              let r := absorbLoop ex inc rest (setPort name (.leaf c a) self) (c + 1)
              (r.1, r.2.1, name :: r.2.2)
        | .ns _ pr sub =>
            if truthy inc && !touches inc name then absorbLoop ex inc rest self c
            else
              let inner := absorbLoop (strip name ex) (strip name inc) sub [] (c + 1)
              let r := absorbLoop ex inc rest (setPort name (.ns c (overload pr [] pr).1 inner.1) self) inner.2.1
              (r.1, r.2.1, name :: r.2.2)

/-- the result of a call that may raise: the object as the call leaves it, the counter, and the return value or the error -/
abbrev Res := Ns × Nat × Except Err (List Name)

/-- `self.absorb(port_namespace, exclude, include, namespace_options)` as called by `_expose_ports` -/
def absorbTop (src : Ns) (ex inc : Option (List Rule)) (opts : Opts) (self : Ns) (c : Nat) : Res :=
  if ex.isSome && inc.isSome then (self, c, .error .exclusive)
  else
    let o := overload src.props opts self.props
    if o.2 ≠ [] then ({ self with props := o.1 }, c, .error .unknownOption)      -- the properties ARE already overloaded
    else
      let r := absorbLoop ex inc src.ports self.ports c
      ({ self with props := o.1, ports := r.1 }, r.2.1, .ok r.2.2)

/-! ## `create_port_namespace` + the call on the namespace it returns -/

/-- `destination.create_port_namespace(path)` followed by `k` on the namespace it returns.  The real code walks (and
creates) the whole path first and then calls `absorb` through the returned reference; with value semantics the call is made
where the reference points, at the end of the same walk — every creation still precedes it.  An existing namespace is
re-used (identity, properties, ports and position kept); a missing one is `self.__class__(port_name)`: fresh identity, default
properties, appended.  Errors: a component occupied by a leaf port; the remaining name being the empty string (`'a.'`: raised
by the recursive call, i.e. AFTER `a` has been created). -/
def exposeAt (k : Ns → Nat → Res) : List Name → Ns → Nat → Res
  | [], self, c => k self c
  | n :: rest, self, c =>
      if n = "" ∧ rest = [] then (self, c, .error .emptyName)
      else match lookup n self.ports with
        | some (.leaf _ _) => (self, c, .error .occupied)
        | some (.ns i p sub) =>
            let r := exposeAt k rest ⟨i, p, sub⟩ c
            ({ self with ports := setPort n r.1.toObj self.ports }, r.2.1, r.2.2)
        | none =>
            let r := exposeAt k rest ⟨c, defaultProps, []⟩ (c + 1)
            ({ self with ports := setPort n r.1.toObj self.ports }, r.2.1, r.2.2)

/-- `if namespace:` — `None` and `''` mean the destination itself; otherwise the name is split at the separator -/
def nsPath : Option (List Name) → List Name
  | none => []
  | some [""] => []
  | some p => p

/-- `ProcessSpec._expose_ports(process_class, source, destination, expose_memory, namespace, exclude, include,
namespace_options)`: the destination afterwards, the counter, and the list stored in `expose_memory` (or the error) -/
def exposePorts (src : Ns) (nsp : Option (List Name)) (ex inc : Option (List Rule)) (opts : Option Opts)
    (dst : Ns) (c : Nat) : Res :=
  if truthy ex && inc.isSome then (dst, c, .error .exclusive)
  else exposeAt (absorbTop src ex inc (opts.getD [])) (nsPath nsp) dst c

/-- one `expose_inputs` / `expose_outputs` call -/
structure Call where
  src : Ns
  nsp : Option (List Name)
  ex : Option (List Rule)
  inc : Option (List Rule)
  opts : Option Opts
deriving Inhabited

/-- a sequence of expose calls on one destination (a raising call leaves the destination as it is at the raise) -/
def exposeSeq : List Call → Ns → Nat → Ns × Nat
  | [], dst, c => (dst, c)
  | k :: rest, dst, c =>
      let r := exposePorts k.src k.nsp k.ex k.inc k.opts dst c
      exposeSeq rest r.1 r.2.1

/-! ## observations used by the theorems and the driver -/

/-- every identity in a port dict, pre-order -/
def ids : Ports → List Nat
  | [] => []
  | (_, .leaf i _) :: rest => i :: ids rest
  | (_, .ns i _ sub) :: rest => i :: (ids sub ++ ids rest)

def Ns.ids (n : Ns) : List Nat := n.id :: Full.ids n.ports

/-- the keys of a port dict, in order -/
def keys (ps : Ports) : List Name := ps.map (·.1)

/-- the port object at a dotted path below a port dict -/
def getAt : List Name → Ports → Option Obj
  | [], _ => none
  | n :: rest, ps =>
      match lookup n ps with
      | none => none
      | some o =>
          if rest = [] then some o
          else match o with
            | .ns _ _ sub => getAt rest sub
            | .leaf _ _ => none

/-- the namespace that `create_port_namespace(path)` returns (an existing one, or a new empty one with default properties and
a fresh identity) and the counter at that moment; `none` where it raises -/
def targetOf : List Name → Ns → Nat → Option (Ns × Nat)
  | [], self, c => some (self, c)
  | n :: rest, self, c =>
      if n = "" ∧ rest = [] then none
      else match lookup n self.ports with
        | some (.leaf _ _) => none
        | some (.ns i p sub) => targetOf rest ⟨i, p, sub⟩ c
        | none => targetOf rest ⟨c, defaultProps, []⟩ (c + 1)

/-- the namespace at a dotted path, starting from (and including) a namespace -/
def nsAt : List Name → Ns → Option Ns
  | [], self => some self
  | n :: rest, self =>
      match lookup n self.ports with
      | some (.ns i p sub) => nsAt rest ⟨i, p, sub⟩
      | _ => none

/-- forget identities and properties: the tree of `Expose/Model.lean` -/
def toPT : Ports → List (Name × PT)
  | [] => []
  | (n, .leaf _ a) :: rest => (n, .leaf a) :: toPT rest
  | (n, .ns _ _ sub) :: rest => (n, .ns 0 (toPT sub)) :: toPT rest

/-- all leaf paths of a port dict, in order -/
def leafPathsF (ps : Ports) : List (List Name) := leafPaths (toPT ps)

end Full
end Expose
