import PlumpyModel.Expose.Model
namespace Expose

def rulesOf (rs : Option (List Rule)) : List Rule := rs.getD []

/-- rules come from splitting non-empty strings: no rule is the empty list -/
def WF (rs : Option (List Rule)) : Prop := ∀ r ∈ rulesOf rs, r ≠ []
/-- the property's side condition: no rule is an ancestor of another rule of the same set -/
def NoAnc (rs : Option (List Rule)) : Prop := ∀ r1 ∈ rulesOf rs, ∀ r2 ∈ rulesOf rs, isPrefix r1 r2 = true → r1 = r2

theorem mem_strip {name : Name} {rs : Option (List Rule)} {q : Rule} :
    q ∈ rulesOf (strip name rs) ↔ q ≠ [] ∧ (name :: q) ∈ rulesOf rs := by
  cases rs with
  | none => simp [strip, rulesOf]
  | some l =>
    simp only [strip, rulesOf, Option.getD_some, List.mem_filterMap]
    constructor
    · rintro ⟨r, hr, hq⟩
      cases r with
      | nil => simp at hq
      | cons n rest =>
        simp only at hq
        split at hq
        · rename_i hc; cases hq; exact ⟨hc.2, by rw [← hc.1]; exact hr⟩
        · simp at hq
    · rintro ⟨hne, hm⟩
      exact ⟨name :: q, hm, by simp [hne]⟩

theorem WF_strip {name : Name} {rs} (_h : WF rs) : WF (strip name rs) := by
  intro r hr; exact (mem_strip.mp hr).1

theorem NoAnc_strip {name : Name} {rs} (h : NoAnc rs) : NoAnc (strip name rs) := by
  intro r1 h1 r2 h2 hp
  have := h (name :: r1) (mem_strip.mp h1).2 (name :: r2) (mem_strip.mp h2).2 (by simp [isPrefix, hp])
  simpa using this

theorem anyPrefix_iff {rs : Option (List Rule)} {path : List Name} :
    anyPrefix rs path = true ↔ ∃ r ∈ rulesOf rs, r ≠ [] ∧ isPrefix r path = true := by
  cases rs with
  | none => simp [anyPrefix, rulesOf]
  | some l => simp [anyPrefix, rulesOf, List.any_eq_true]

theorem truthy_iff {rs : Option (List Rule)} : truthy rs = true ↔ rulesOf rs ≠ [] := by
  cases rs with
  | none => simp [truthy, rulesOf]
  | some l => cases l <;> simp [truthy, rulesOf]

theorem mentions_iff {rs : Option (List Rule)} {name : Name} : mentions rs name = true ↔ [name] ∈ rulesOf rs := by
  cases rs with
  | none => simp [mentions, rulesOf]
  | some l => simp [mentions, rulesOf]

theorem touches_iff {rs : Option (List Rule)} {name : Name} :
    touches rs name = true ↔ ∃ r ∈ rulesOf rs, r.head? = some name := by
  cases rs with
  | none => simp [touches, rulesOf]
  | some l => simp [touches, rulesOf, List.any_eq_true]

/-- below a namespace that is not itself mentioned, prefix matching continues on the stripped rules -/
theorem anyPrefix_cons {rs : Option (List Rule)} {name : Name} {q : List Name} (hwf : WF rs) :
    anyPrefix rs (name :: q) = (mentions rs name || anyPrefix (strip name rs) q) := by
  apply Bool.eq_iff_iff.mpr
  simp only [Bool.or_eq_true, anyPrefix_iff, mentions_iff]
  constructor
  · rintro ⟨r, hr, hne, hp⟩
    cases r with
    | nil => exact absurd rfl hne
    | cons n rest =>
      simp [isPrefix] at hp
      obtain ⟨rfl, hp⟩ := hp
      cases rest with
      | nil => exact Or.inl hr
      | cons a as => exact Or.inr ⟨a :: as, mem_strip.mpr ⟨by simp, hr⟩, by simp, hp⟩
  · rintro (hm | ⟨r, hr, hne, hp⟩)
    · exact ⟨[name], hm, by simp, by simp [isPrefix]⟩
    · exact ⟨name :: r, (mem_strip.mp hr).2, by simp, by simp [isPrefix, hp]⟩

end Expose

namespace Expose

theorem selected_leaf {ex inc : Option (List Rule)} {name : Name} (hex : WF ex) (hinc : WF inc) :
    selected ex inc [name] = (!(mentions ex name) && (!(truthy inc) || mentions inc name)) := by
  have h1 : ∀ rs, WF rs → anyPrefix rs [name] = mentions rs name := by
    intro rs hwf
    rw [anyPrefix_cons hwf]
    have : anyPrefix (strip name rs) [] = false := by
      apply Bool.eq_false_iff.mpr
      intro h
      obtain ⟨r, _, hne, hp⟩ := anyPrefix_iff.mp h
      cases r with
      | nil => exact hne rfl
      | cons a as => simp [isPrefix] at hp
    simp [this]
  simp [selected, h1 ex hex, h1 inc hinc]

/-- below an absorbed namespace the reference rule continues with the stripped rule sets -/
theorem selected_cons {ex inc : Option (List Rule)} {name : Name} {q : List Name}
    (hex : WF ex) (hinc : WF inc) (hna : NoAnc inc)
    (hnm : mentions ex name = false) (ht : (truthy inc && !touches inc name) = false) :
    selected ex inc (name :: q) = selected (strip name ex) (strip name inc) q := by
  unfold selected
  rw [anyPrefix_cons hex, hnm, Bool.false_or, anyPrefix_cons hinc]
  congr 1
  -- include side
  by_cases htr : truthy inc = true
  · have htouch : touches inc name = true := by simpa [htr] using ht
    simp only [htr, Bool.not_true, Bool.false_or]
    by_cases hm : mentions inc name = true
    · -- the rule `name` itself is present: by NoAnc nothing deeper starts with it, so everything below is selected
      have hempty : rulesOf (strip name inc) = [] := by
        apply List.eq_nil_iff_forall_not_mem.mpr
        intro r hr
        have hmem := mem_strip.mp hr
        have := hna [name] (mentions_iff.mp hm) (name :: r) hmem.2 (by simp [isPrefix])
        simp at this
        exact hmem.1 this
      have : truthy (strip name inc) = false := by
        apply Bool.eq_false_iff.mpr; intro h; exact (truthy_iff.mp h) hempty
      simp [hm, this]
    · have hm' : mentions inc name = false := by simpa using hm
      -- some rule goes deeper below `name`, so the stripped set is non-empty
      obtain ⟨r, hr, hhead⟩ := touches_iff.mp htouch
      have : truthy (strip name inc) = true := by
        apply truthy_iff.mpr
        cases r with
        | nil => simp at hhead
        | cons n rest =>
          simp at hhead; subst hhead
          cases rest with
          | nil => exact absurd (mentions_iff.mpr hr) hm
          | cons a as =>
            intro hnil
            have : (a :: as) ∈ rulesOf (strip n inc) := mem_strip.mpr ⟨by simp, hr⟩
            rw [hnil] at this; simp at this
      simp [hm', this]
  · have htr' : truthy inc = false := by simpa using htr
    have hnil : rulesOf inc = [] := by
      apply Classical.byContradiction; intro h; exact htr (truthy_iff.mpr h)
    have : truthy (strip name inc) = false := by
      apply Bool.eq_false_iff.mpr; intro h
      apply truthy_iff.mp h
      apply List.eq_nil_iff_forall_not_mem.mpr
      intro r hr; have := (mem_strip.mp hr).2; rw [hnil] at this; simp at this
    simp [htr', this]

/-- **C15 (model level), selection**: the leaf ports that `absorb` copies are exactly the source leaves selected
by the rules under component-wise path matching, in source order, for every port tree and every rule sets
(exclude arbitrary; include without a rule that is an ancestor of another). -/
theorem selection_exact : ∀ (ports : List (Name × PT)) (ex inc : Option (List Rule)),
    WF ex → WF inc → NoAnc inc →
    leafPaths (absorbPorts ex inc ports) = (leafPaths ports).filter (selected ex inc)
  | [], _, _, _, _, _ => by simp [absorbPorts, leafPaths]
  | (name, .leaf a) :: rest, ex, inc, hex, hinc, hna => by
    have ih := selection_exact rest ex inc hex hinc hna
    have hte : (truthy ex && mentions ex name) = mentions ex name := by
      cases hm : mentions ex name with
      | false => simp
      | true =>
        have : truthy ex = true := truthy_iff.mpr (by
          intro h; have := mentions_iff.mp hm; rw [h] at this; simp at this)
        simp [this]
    simp only [absorbPorts, leafPaths, List.filter_cons, selected_leaf hex hinc, hte]
    cases hm : mentions ex name <;> cases ht : truthy inc <;> cases hi : mentions inc name <;>
      simp [leafPaths, ih]
  | (name, .ns a ps) :: rest, ex, inc, hex, hinc, hna => by
    have ih1 := selection_exact rest ex inc hex hinc hna
    have ih2 := selection_exact ps (strip name ex) (strip name inc) (WF_strip hex) (WF_strip hinc) (NoAnc_strip hna)
    have hte : (truthy ex && mentions ex name) = mentions ex name := by
      cases hm : mentions ex name with
      | false => simp
      | true =>
        have : truthy ex = true := truthy_iff.mpr (by
          intro h; have := mentions_iff.mp hm; rw [h] at this; simp at this)
        simp [this]
    simp only [absorbPorts, leafPaths, List.filter_append, List.filter_map, hte]
    cases hm : mentions ex name with
    | true =>
      -- the whole namespace is excluded: no path below it is selected
      have : ∀ q, selected ex inc (name :: q) = false := by
        intro q; simp [selected, anyPrefix_cons hex, hm]
      simp [ih1, Function.comp_def, this]
    | false =>
      cases ht : (truthy inc && !touches inc name) with
      | true =>
        -- include rules are given and none touches this namespace
        have : ∀ q, selected ex inc (name :: q) = false := by
          intro q
          have htr : truthy inc = true := by simp at ht; exact ht.1
          have hto : touches inc name = false := by simp at ht; exact ht.2
          have hap : anyPrefix inc (name :: q) = false := by
            apply Bool.eq_false_iff.mpr; intro h
            obtain ⟨r, hr, hne, hp⟩ := anyPrefix_iff.mp h
            cases r with
            | nil => exact hne rfl
            | cons n rest' =>
              simp [isPrefix] at hp
              have : touches inc name = true := touches_iff.mpr ⟨n :: rest', hr, by simp [hp.1]⟩
              simp [hto] at this
          simp [selected, htr, hap]
        simp [ih1, Function.comp_def, this]
      | false =>
        have hs : ∀ q, selected ex inc (name :: q) = selected (strip name ex) (strip name inc) q :=
          fun q => selected_cons hex hinc hna hm ht
        simp [leafPaths, ih1, ih2, Function.comp_def, hs, List.filter_map]

end Expose

#print axioms Expose.selection_exact
