import PlumpyModel.Expose.ProofFull3
/-!
Helper lemmas for the full expose model (C15), part 4: identities over a whole call and over sequences of calls.
-/
namespace Expose
namespace Full

/-- every object of the destination after a call was there before or has been allocated by the call -/
theorem exposePorts_ids_all (src : Ns) (nsp : Option (List Name)) (ex inc : Option (List Rule)) (opts : Option Opts)
    (dst : Ns) (c : Nat) :
    c ≤ (exposePorts src nsp ex inc opts dst c).2.1 ∧
    ∀ i ∈ (exposePorts src nsp ex inc opts dst c).1.ids,
      i ∈ dst.ids ∨ (c ≤ i ∧ i < (exposePorts src nsp ex inc opts dst c).2.1) := by
  have h := exposePorts_idsOK src nsp ex inc opts dst c
  refine ⟨h.1, ?_⟩
  intro i hi
  simp only [Ns.ids, List.mem_cons] at hi ⊢
  rcases hi with hi | hi
  · exact Or.inl (Or.inl (by rw [hi, h.2.1]))
  · rcases h.2.2 i hi with h' | h'
    · exact Or.inl (Or.inr h')
    · exact Or.inr h'

/-- the same over a sequence of calls -/
theorem exposeSeq_ids_all : ∀ (calls : List Call) (dst : Ns) (c : Nat),
    c ≤ (exposeSeq calls dst c).2 ∧
    ∀ i ∈ (exposeSeq calls dst c).1.ids, i ∈ dst.ids ∨ (c ≤ i ∧ i < (exposeSeq calls dst c).2)
  | [], dst, c => ⟨Nat.le_refl _, fun i hi => Or.inl hi⟩
  | k :: rest, dst, c => by
    have h1 := exposePorts_ids_all k.src k.nsp k.ex k.inc k.opts dst c
    have ih := exposeSeq_ids_all rest (exposePorts k.src k.nsp k.ex k.inc k.opts dst c).1
      (exposePorts k.src k.nsp k.ex k.inc k.opts dst c).2.1
    simp only [exposeSeq]
    refine ⟨Nat.le_trans h1.1 ih.1, ?_⟩
    intro i hi
    rcases ih.2 i hi with h' | h'
    · rcases h1.2 i h' with h'' | h''
      · exact Or.inl h''
      · exact Or.inr ⟨h''.1, Nat.lt_of_lt_of_le h''.2 ih.1⟩
    · exact Or.inr ⟨Nat.le_trans h1.1 h'.1, h'.2⟩

end Full
end Expose

namespace Expose
namespace Full

/-! ## left-over options -/

theorem mem_optDel {i : Nat} {kv : Nat × Nat} : ∀ {o : Opts}, kv ∈ optDel i o ↔ kv ∈ o ∧ kv.1 ≠ i
  | [] => by simp [optDel]
  | (k, v) :: rest => by
    have ih := @mem_optDel i kv rest
    by_cases hk : k = i
    · subst hk
      simp only [optDel, if_true, ih, List.mem_cons]
      constructor
      · rintro ⟨h1, h2⟩; exact ⟨Or.inr h1, h2⟩
      · rintro ⟨h1 | h1, h2⟩
        · subst h1; exact absurd rfl h2
        · exact ⟨h1, h2⟩
    · simp only [optDel, hk, if_false, List.mem_cons, ih]
      constructor
      · rintro (h | ⟨h1, h2⟩)
        · subst h; exact ⟨Or.inl rfl, hk⟩
        · exact ⟨Or.inr h1, h2⟩
      · rintro ⟨h1 | h1, h2⟩
        · exact Or.inl h1
        · exact Or.inr ⟨h1, h2⟩

theorem mem_overloadFrom_left {kv : Nat × Nat} : ∀ (src : Props) (i : Nat) (opts : Opts) (self : Props),
    kv ∈ (overloadFrom i src opts self).2 ↔ kv ∈ opts ∧ ¬ (i ≤ kv.1 ∧ kv.1 < i + src.length)
  | [], i, opts, self => by simp [overloadFrom]
  | s :: rest, i, opts, self => by
    simp only [overloadFrom, mem_overloadFrom_left rest (i + 1), mem_optDel, List.length_cons]
    constructor
    · rintro ⟨⟨h1, h2⟩, h3⟩; exact ⟨h1, by omega⟩
    · rintro ⟨h1, h2⟩; exact ⟨⟨h1, by omega⟩, by omega⟩

/-- no option is left over iff every option names one of the properties -/
theorem overload_left_nil (src self : Props) (opts : Opts) :
    (overload src opts self).2 = [] ↔ ∀ kv ∈ opts, kv.1 < src.length := by
  rw [List.eq_nil_iff_forall_not_mem]
  simp only [overload, mem_overloadFrom_left]
  constructor
  · intro h kv hkv
    have := h kv
    simp only [hkv, true_and, Nat.zero_le, Nat.zero_add] at this
    exact Classical.not_not.mp this
  · intro h kv ⟨h1, h2⟩
    exact h2 ⟨Nat.zero_le _, by simpa using h kv h1⟩

end Full
end Expose

namespace Expose
namespace Full

/-! ## what a copy is, one level down -/

theorem copies_entry (ex inc : Option (List Rule)) : ∀ (src : Ports) (c : Nat) (n : Name) (o : Obj),
    (n, o) ∈ (copies ex inc src c).1 →
    ∃ p c1, (n, p) ∈ src ∧
      ((∃ j a, p = .leaf j a ∧ o = .leaf c1 a) ∨
       (∃ j pr sub, p = .ns j pr sub ∧
          o = .ns c1 (overload pr [] pr).1 (absorbLoop (strip n ex) (strip n inc) sub [] (c1 + 1)).1))
  | [], c, n, o, h => by simp [copies] at h
  | (name, .leaf j a) :: rest, c, n, o, h => by
    simp only [copies] at h
    split at h
    · (obtain ⟨p, c1, hm, hr⟩ := copies_entry ex inc rest c n o h; exact ⟨p, c1, List.mem_cons_of_mem _ hm, hr⟩)
    · split at h
      · (obtain ⟨p, c1, hm, hr⟩ := copies_entry ex inc rest c n o h; exact ⟨p, c1, List.mem_cons_of_mem _ hm, hr⟩)
      · simp only [List.mem_cons, Prod.mk.injEq] at h
        rcases h with ⟨rfl, rfl⟩ | h
        · exact ⟨_, c, List.mem_cons_self, Or.inl ⟨j, a, rfl, rfl⟩⟩
        · (obtain ⟨p, c1, hm, hr⟩ := copies_entry ex inc rest (c + 1) n o h; exact ⟨p, c1, List.mem_cons_of_mem _ hm, hr⟩)
  | (name, .ns j pr sub) :: rest, c, n, o, h => by
    simp only [copies] at h
    split at h
    · (obtain ⟨p, c1, hm, hr⟩ := copies_entry ex inc rest c n o h; exact ⟨p, c1, List.mem_cons_of_mem _ hm, hr⟩)
    · split at h
      · (obtain ⟨p, c1, hm, hr⟩ := copies_entry ex inc rest c n o h; exact ⟨p, c1, List.mem_cons_of_mem _ hm, hr⟩)
      · simp only [List.mem_cons, Prod.mk.injEq] at h
        rcases h with ⟨rfl, rfl⟩ | h
        · exact ⟨_, c, List.mem_cons_self, Or.inr ⟨j, pr, sub, rfl, rfl⟩⟩
        · (obtain ⟨p, c1, hm, hr⟩ := copies_entry ex inc rest _ n o h; exact ⟨p, c1, List.mem_cons_of_mem _ hm, hr⟩)

theorem mem_of_lookup {n : Name} {o : Obj} : ∀ {ps : Ports}, lookup n ps = some o → (n, o) ∈ ps
  | [], h => by simp [lookup] at h
  | (m, p) :: rest, h => by
    by_cases hm : m = n
    · simp only [lookup, hm, if_true, Option.some.injEq] at h
      subst h; subst hm; exact List.mem_cons_self
    · simp only [lookup, hm, if_false] at h
      exact List.mem_cons_of_mem _ (mem_of_lookup h)

theorem lookup_of_mem {n : Name} {o : Obj} : ∀ {ps : Ports}, (keys ps).Nodup → (n, o) ∈ ps → lookup n ps = some o
  | [], _, h => by simp at h
  | (m, p) :: rest, hd, h => by
    simp only [keys, List.map_cons, List.nodup_cons] at hd
    simp only [List.mem_cons, Prod.mk.injEq] at h
    rcases h with ⟨rfl, rfl⟩ | h
    · simp [lookup]
    · have hne : m ≠ n := by
        intro he; subst he
        exact hd.1 (List.mem_map.mpr ⟨(m, o), h, rfl⟩)
      simp only [lookup, hne, if_false]
      exact lookup_of_mem (by simpa [keys] using hd.2) h

end Full
end Expose
