import PlumpyModel.Expose.ProofFull3
/-!
Helper lemmas for the full expose model (C15), part 4: identities over a whole call and over sequences of calls.
-/
namespace Expose
namespace Full

/-- every object of the destination after a call was there before or has been allocated by the call -/
theorem exposePorts_ids_all (src : Ns) (nsp : Option (List Name)) (ex inc : Option (List Rule)) (opts : Option Opts)
    (dst : Ns) (c : Nat) :
    c ≤ (exposePorts src nsp ex inc opts dst c).2.1 ∧
    ∀ i ∈ (exposePorts src nsp ex inc opts dst c).1.ids,
      i ∈ dst.ids ∨ (c ≤ i ∧ i < (exposePorts src nsp ex inc opts dst c).2.1) := by
  have h := exposePorts_idsOK src nsp ex inc opts dst c
  refine ⟨h.1, ?_⟩
  intro i hi
  simp only [Ns.ids, List.mem_cons] at hi ⊢
  rcases hi with hi | hi
  · exact Or.inl (Or.inl (by rw [hi, h.2.1]))
  · rcases h.2.2 i hi with h' | h'
    · exact Or.inl (Or.inr h')
    · exact Or.inr h'

/-- the same over a sequence of calls -/
theorem exposeSeq_ids_all : ∀ (calls : List Call) (dst : Ns) (c : Nat),
    c ≤ (exposeSeq calls dst c).2 ∧
    ∀ i ∈ (exposeSeq calls dst c).1.ids, i ∈ dst.ids ∨ (c ≤ i ∧ i < (exposeSeq calls dst c).2)
  | [], dst, c => ⟨Nat.le_refl _, fun i hi => Or.inl hi⟩
  | k :: rest, dst, c => by
    have h1 := exposePorts_ids_all k.src k.nsp k.ex k.inc k.opts dst c
    have ih := exposeSeq_ids_all rest (exposePorts k.src k.nsp k.ex k.inc k.opts dst c).1
      (exposePorts k.src k.nsp k.ex k.inc k.opts dst c).2.1
    simp only [exposeSeq]
    refine ⟨Nat.le_trans h1.1 ih.1, ?_⟩
    intro i hi
    rcases ih.2 i hi with h' | h'
    · rcases h1.2 i h' with h'' | h''
      · exact Or.inl h''
      · exact Or.inr ⟨h''.1, Nat.lt_of_lt_of_le h''.2 ih.1⟩
    · exact Or.inr ⟨Nat.le_trans h1.1 h'.1, h'.2⟩

end Full
end Expose
