/-
Scratch prototype (design phase): `PortNamespace.absorb` selection logic (C15), value semantics,
mirroring the repaired code (component-wise include match).  Core Lean only.
-/
namespace Expose

abbrev Name := String
abbrev Rule := List Name          -- a dotted rule, split at the namespace separator

/-- a port tree: leaf ports carry an opaque attribute id, namespaces an attribute id and their ports in dict order -/
inductive PT where
  | leaf (attr : Nat)
  | ns (attr : Nat) (ports : List (Name × PT))
deriving Repr, Inhabited

/-- Python truthiness of `exclude` / `include`: `None` and the empty sequence both mean "no rule" -/
def truthy (r : Option (List Rule)) : Bool := match r with | some (_ :: _) => true | _ => false

/-- `strip_namespace`: keep the rules that start with `name.` and drop that first component -/
def strip (name : Name) : Option (List Rule) → Option (List Rule)
  | none => none
  | some rules => some (rules.filterMap fun r => match r with
      | n :: rest => if n = name ∧ rest ≠ [] then some rest else none
      | [] => none)

/-- `port_name in rules` for a rule list: a rule that is exactly this one component -/
def mentions (rules : Option (List Rule)) (name : Name) : Bool :=
  match rules with | some rs => rs.contains [name] | none => false

/-- repaired namespace test: some include rule is `name` itself or starts with `name.` -/
def touches (rules : Option (List Rule)) (name : Name) : Bool :=
  match rules with | some rs => rs.any (fun r => r.head? = some name) | none => false

/-- the ports that `absorb` puts into the destination, in iteration order -/
def absorbPorts (ex inc : Option (List Rule)) : List (Name × PT) → List (Name × PT)
  | [] => []
  | (name, p) :: rest =>
      let tail := absorbPorts ex inc rest
      if truthy ex && mentions ex name then tail
      else match p with
        | .leaf a =>
            if truthy inc && !mentions inc name then tail else (name, .leaf a) :: tail
        | .ns a ports =>
            if truthy inc && !touches inc name then tail
            else (name, .ns a (absorbPorts (strip name ex) (strip name inc) ports)) :: tail

/-- all leaf paths of a port list, in order -/
def leafPaths : List (Name × PT) → List (List Name)
  | [] => []
  | (name, .leaf _) :: rest => [name] :: leafPaths rest
  | (name, .ns _ ports) :: rest => (leafPaths ports).map (name :: ·) ++ leafPaths rest

/-- component-wise prefix -/
def isPrefix : List Name → List Name → Bool
  | [], _ => true
  | _ :: _, [] => false
  | a :: as, b :: bs => a = b && isPrefix as bs

/-- some (non-empty) rule is a component-wise prefix of the path -/
def anyPrefix (rs : Option (List Rule)) (path : List Name) : Bool :=
  match rs with | some rs => rs.any (fun r => r ≠ [] && isPrefix r path) | none => false

/-- the reference rule: a source leaf is exposed iff no exclude rule is a prefix of its path and, when include
rules are given, some include rule is a prefix of its path (prefix = component-wise, never string prefix) -/
def selected (ex inc : Option (List Rule)) (path : List Name) : Bool :=
  !(anyPrefix ex path) && (!(truthy inc) || anyPrefix inc path)

end Expose
