import PlumpyModel.Expose.ProofFull1
/-!
Helper lemmas for the full expose model (C15), part 2: fresh identities, and what the walk `exposeAt`
(`create_port_namespace` + the call on the namespace it returns) keeps.
-/
namespace Expose
namespace Full

/-! ## the three outcomes of `absorb` -/

theorem absorbTop_exclusive {src : Ns} {ex inc : Option (List Rule)} {opts : Opts} {self : Ns} {c : Nat}
    (h : (ex.isSome && inc.isSome) = true) : absorbTop src ex inc opts self c = (self, c, .error .exclusive) := by
  simp [absorbTop, h]

theorem absorbTop_unknown {src : Ns} {ex inc : Option (List Rule)} {opts : Opts} {self : Ns} {c : Nat}
    (h1 : (ex.isSome && inc.isSome) = false) (h2 : (overload src.props opts self.props).2 ≠ []) :
    absorbTop src ex inc opts self c
      = ({ self with props := (overload src.props opts self.props).1 }, c, .error .unknownOption) := by
  simp [absorbTop, h1, h2]

theorem absorbTop_ok {src : Ns} {ex inc : Option (List Rule)} {opts : Opts} {self : Ns} {c : Nat}
    (h1 : (ex.isSome && inc.isSome) = false) (h2 : (overload src.props opts self.props).2 = []) :
    absorbTop src ex inc opts self c
      = ({ self with props := (overload src.props opts self.props).1, ports := (absorbLoop ex inc src.ports self.ports c).1 },
         (absorbLoop ex inc src.ports self.ports c).2.1, .ok (absorbLoop ex inc src.ports self.ports c).2.2) := by
  simp [absorbTop, h1, h2]

/-! ## fresh identities -/

/-- every identity in the copies is allocated by this call -/
theorem copies_fresh : ∀ (src : Ports) (ex inc : Option (List Rule)) (c : Nat),
    c ≤ (copies ex inc src c).2 ∧ ∀ i ∈ ids (copies ex inc src c).1, c ≤ i ∧ i < (copies ex inc src c).2
  | [], ex, inc, c => by simp [copies, ids]
  | (name, .leaf j a) :: rest, ex, inc, c => by
    have ih0 := copies_fresh rest ex inc c
    have ih1 := copies_fresh rest ex inc (c + 1)
    simp only [copies]
    split
    · exact ih0
    · split
      · exact ih0
      · refine ⟨by have := ih1.1; simp only; omega, ?_⟩
        intro i hi
        simp only [ids_cons, oids, List.mem_append, List.mem_singleton] at hi
        rcases hi with hi | hi
        · subst hi; have := ih1.1; simp only; omega
        · have := ih1.2 i hi; simp only; omega
  | (name, .ns j pr sub) :: rest, ex, inc, c => by
    have ih0 := copies_fresh rest ex inc c
    have ihs := copies_fresh sub (strip name ex) (strip name inc) (c + 1)
    have ih1 := copies_fresh rest ex inc (copies (strip name ex) (strip name inc) sub (c + 1)).2
    simp only [copies]
    split
    · exact ih0
    · split
      · exact ih0
      · simp only [absorbLoop_eq]
        refine ⟨by have := ih1.1; have := ihs.1; omega, ?_⟩
        intro i hi
        simp only [ids_cons, oids, List.mem_append, List.mem_cons] at hi
        rcases hi with (hi | hi) | hi
        · subst hi; have := ih1.1; have := ihs.1; omega
        · rcases ids_assignAll _ _ hi with h | h
          · simp [ids] at h
          · have := ihs.2 i h; have := ih1.1; omega
        · have := ih1.2 i hi; have := ihs.1; omega

/-- what a call keeps as far as identities go: the counter only grows, the namespace keeps its identity, and every identity
below it afterwards was there before or has been allocated by this call -/
def IdsOK (self : Ns) (c : Nat) (r : Res) : Prop :=
  c ≤ r.2.1 ∧ r.1.id = self.id ∧ ∀ i ∈ ids r.1.ports, i ∈ ids self.ports ∨ (c ≤ i ∧ i < r.2.1)

theorem absorbLoop_fresh (ex inc : Option (List Rule)) (src sp : Ports) (c : Nat) :
    c ≤ (absorbLoop ex inc src sp c).2.1 ∧
    ∀ i ∈ ids (absorbLoop ex inc src sp c).1, i ∈ ids sp ∨ (c ≤ i ∧ i < (absorbLoop ex inc src sp c).2.1) := by
  rw [absorbLoop_eq]
  refine ⟨(copies_fresh src ex inc c).1, ?_⟩
  intro i hi
  rcases ids_assignAll _ _ hi with h | h
  · exact Or.inl h
  · exact Or.inr ((copies_fresh src ex inc c).2 i h)

theorem absorbTop_idsOK (src : Ns) (ex inc : Option (List Rule)) (opts : Opts) (self : Ns) (c : Nat) :
    IdsOK self c (absorbTop src ex inc opts self c) := by
  unfold IdsOK
  cases h1 : (ex.isSome && inc.isSome) with
  | true => rw [absorbTop_exclusive h1]; exact ⟨Nat.le_refl _, rfl, fun i hi => Or.inl hi⟩
  | false =>
    by_cases h2 : (overload src.props opts self.props).2 = []
    · rw [absorbTop_ok h1 h2]
      exact ⟨(absorbLoop_fresh ex inc src.ports self.ports c).1, rfl, (absorbLoop_fresh ex inc src.ports self.ports c).2⟩
    · rw [absorbTop_unknown h1 h2]; exact ⟨Nat.le_refl _, rfl, fun i hi => Or.inl hi⟩

theorem exposeAt_idsOK {k : Ns → Nat → Res} (hk : ∀ self c, IdsOK self c (k self c)) :
    ∀ (t : List Name) (self : Ns) (c : Nat), IdsOK self c (exposeAt k t self c)
  | [], self, c => hk self c
  | n :: rest, self, c => by
    simp only [exposeAt]
    split
    · exact ⟨Nat.le_refl _, rfl, fun i hi => Or.inl hi⟩
    · split
      · exact ⟨Nat.le_refl _, rfl, fun i hi => Or.inl hi⟩
      · rename_i i p sub hl
        have ih := exposeAt_idsOK hk rest ⟨i, p, sub⟩ c
        refine ⟨ih.1, rfl, ?_⟩
        intro j hj
        rcases ids_setPort hj with h | h
        · exact Or.inl h
        · rw [oids_toObj] at h
          simp only [Ns.ids, List.mem_cons] at h
          rcases h with h | h
          · rw [h, ih.2.1]; exact Or.inl (ids_of_lookup hl (by simp [oids]))
          · rcases ih.2.2 j h with h' | h'
            · exact Or.inl (ids_of_lookup hl (by simp [oids, h']))
            · exact Or.inr h'
      · have ih := exposeAt_idsOK hk rest ⟨c, defaultProps, []⟩ (c + 1)
        refine ⟨Nat.le_of_succ_le ih.1, rfl, ?_⟩
        intro j hj
        rcases ids_setPort hj with h | h
        · exact Or.inl h
        · rw [oids_toObj] at h
          simp only [Ns.ids, List.mem_cons] at h
          rcases h with h | h
          · rw [h, ih.2.1]; have := ih.1; exact Or.inr ⟨Nat.le_refl _, ih.1⟩
          · rcases ih.2.2 j h with h' | h'
            · simp [ids] at h'
            · exact Or.inr ⟨Nat.le_of_succ_le h'.1, h'.2⟩

theorem exposePorts_idsOK (src : Ns) (nsp : Option (List Name)) (ex inc : Option (List Rule)) (opts : Option Opts)
    (dst : Ns) (c : Nat) : IdsOK dst c (exposePorts src nsp ex inc opts dst c) := by
  unfold exposePorts
  split
  · exact ⟨Nat.le_refl _, rfl, fun i hi => Or.inl hi⟩
  · exact exposeAt_idsOK (absorbTop_idsOK src ex inc _) _ dst c

/-! ## the frame of the walk -/

/-- `q` (a path below the destination) is NOT affected by an expose into the namespace at `t` that absorbs `names`: it
leaves the path to the target at some component, or it lies inside the target below a name that is not absorbed -/
def untouched (names : List Name) : List Name → List Name → Bool
  | _, [] => false
  | [], n :: _ => !names.contains n
  | m :: t, n :: r => if n = m then untouched names t r else true

theorem getAt_congr {n : Name} {r : List Name} {ps ps' : Ports} (h : lookup n ps = lookup n ps') :
    getAt (n :: r) ps = getAt (n :: r) ps' := by
  simp only [getAt, h]

/-- what the frame needs from the call at the end of the walk: ports under other names than `names` are not assigned -/
def KFrame (names : List Name) (k : Ns → Nat → Res) : Prop :=
  ∀ self c n, n ∉ names → lookup n (k self c).1.ports = lookup n self.ports

theorem exposeAt_frame {names : List Name} {k : Ns → Nat → Res} (hk : KFrame names k) :
    ∀ (t q : List Name) (self : Ns) (c : Nat), untouched names t q = true →
      getAt q (exposeAt k t self c).1.ports = getAt q self.ports
  | _, [], _, _, h => by simp [untouched] at h
  | [], n :: r, self, c, h => by
    simp only [untouched, Bool.not_eq_true', List.contains_eq_mem, decide_eq_false_iff_not] at h
    exact getAt_congr (hk self c n h)
  | m :: t, n :: r, self, c, h => by
    simp only [untouched] at h
    simp only [exposeAt]
    split
    · rfl
    · by_cases hnm : n = m
      · subst hnm
        simp only [if_true] at h
        have hr : r ≠ [] := by intro hr; subst hr; cases t <;> simp [untouched] at h
        split
        · rfl
        · rename_i i p sub hl
          have ih := exposeAt_frame hk t r ⟨i, p, sub⟩ c h
          simp only [getAt, lookup_setPort_same, hl, hr, if_false, Ns.toObj]
          exact ih
        · rename_i hl
          have ih := exposeAt_frame hk t r ⟨c, defaultProps, []⟩ (c + 1) h
          simp only [getAt, lookup_setPort_same, hl, hr, if_false, Ns.toObj]
          rw [ih]
          cases r with
          | nil => exact absurd rfl hr
          | cons a as => simp [getAt, lookup]
      · split
        · rfl
        · exact getAt_congr (lookup_setPort_ne _ hnm _)
        · exact getAt_congr (lookup_setPort_ne _ hnm _)

/-- the names that `absorb` returns (`expose_memory`): the top-level names of the selection of `Expose/Model.lean` -/
def absorbedNames (ex inc : Option (List Rule)) (src : Ports) : List Name := (absorbPorts ex inc (toPT src)).map (·.1)

theorem keys_copies (ex inc : Option (List Rule)) : ∀ (src : Ports) (c : Nat),
    keys (copies ex inc src c).1 = absorbedNames ex inc src
  | [], c => by simp [copies, keys, absorbedNames, toPT, absorbPorts]
  | (name, .leaf j a) :: rest, c => by
    have ih0 := keys_copies ex inc rest c
    have ih1 := keys_copies ex inc rest (c + 1)
    simp only [absorbedNames, keys] at ih0 ih1 ⊢
    simp only [copies, toPT, absorbPorts]
    split
    · exact ih0
    · split
      · exact ih0
      · simp [ih1]
  | (name, .ns j pr sub) :: rest, c => by
    have ih0 := keys_copies ex inc rest c
    have ih1 := fun c' => keys_copies ex inc rest c'
    simp only [absorbedNames, keys] at ih0 ih1 ⊢
    simp only [copies, toPT, absorbPorts]
    split
    · exact ih0
    · split
      · exact ih0
      · simp [ih1]

theorem absorbTop_kframe (src : Ns) (ex inc : Option (List Rule)) (opts : Opts) :
    KFrame (absorbedNames ex inc src.ports) (absorbTop src ex inc opts) := by
  intro self c n hn
  cases h1 : (ex.isSome && inc.isSome) with
  | true => rw [absorbTop_exclusive h1]
  | false =>
    by_cases h2 : (overload src.props opts self.props).2 = []
    · rw [absorbTop_ok h1 h2]
      simp only [absorbLoop_eq]
      apply lookup_assignAll_not_mem
      rw [keys_copies]; exact hn
    · rw [absorbTop_unknown h1 h2]

end Full
end Expose
