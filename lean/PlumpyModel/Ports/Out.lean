import PlumpyModel.Ports.Model
/-
# Ports, output side (C12): `Process.out`, the finish-time check of `Process.on_finish`

Mirrors `Process.out` (processes.py), `PortNamespace.get_port(..., create_dynamically=True)` (ports.py) and the
`StateEntryFailed` path of `StateMachine.transition_to` (base/state_machine.py) for the FINISHED state.

The output spec is class-level state that `out` changes: walking a dotted port name through a dynamic namespace
*creates* the missing namespaces inside the spec (with the attributes of the dynamic parent), also when the call then
fails.  The created namespaces take part in the finish-time validation.  So the spec is part of the model state.

Errors by class: a rejected value is `Err.validation` (`ValueError` in the code); a name that does not resolve is
`Err.valueError` (`ValueError` of `get_port`); walking *through* a leaf port is `Err.attributeError` (an `OutputPort`
has no `get_port`) when segments remain and `Err.typeError` when the leaf is the last namespace segment (`port[name]`
on an `OutputPort`); storing directly below an emitted value that is not a `dict` is `Err.typeError` (item assignment), deeper below it
`Err.attributeError` (`setdefault` on it).  An emitted immutable mapping (`AttributesFrozendict`, `V.dict true _`) is such a value: it
supports neither item assignment nor `setdefault`, wherever it sits (at the top of the outputs or inside an emitted plain dict) and
whatever it contains — it is a leaf, as it is for the recursion of `validate_dynamic_ports`.
-/
namespace Ports

/-- the second half of `get_port`, once the port `p` called `seg` is there (`ports1` are the ports of `self`):
return it when the name ends here, otherwise recurse into it (`rec` is the recursive call on the remaining name) -/
def getPortStep (seg : String) (p : Port) (ports1 : PortList) (rest : List String)
    (rec : NsA → PortList → PortList × Except Err Port) : PortList × Except Err Port :=
  match rest with
  | [] => (ports1, .ok p)                                     -- `return self[port_name]`
  | _ :: _ =>
      match p with
      | .leaf _ => (ports1, .error .attributeError)           -- an `OutputPort` has no `get_port`
      | .ns a' sub =>
          let r := rec a' sub
          (setKey seg (.ns a' r.1) ports1, r.2)

/-- `get_port(name, create_dynamically=True)` on the namespace with attributes `a` and ports `ports`, `segs` being
`name.split('.')`.  Returns the ports after the dynamic creations (kept also when the walk fails) and the port found. -/
def getPort (a : NsA) : PortList → List String → PortList × Except Err Port
  | ports, [] => (ports, .error .valueError)                -- unreachable: `split` never returns an empty list
  | ports, seg :: rest =>
      if seg = "" ∧ rest = [] then (ports, .error .valueError)        -- `if not name`: 'name cannot be an empty string'
      else
        match lookup seg ports with
        | some p => getPortStep seg p ports rest (fun a' sub => getPort a' sub rest)
        | none =>
            if !a.dynamic then (ports, .error .valueError)   -- 'port does not exist in port namespace'
            else                                             -- `self[port_name] = self.__class__(...)`: attributes of `self`
              getPortStep seg (.ns a []) (setKey seg (.ns a []) ports) rest (fun a' sub => getPort a' sub rest)

/-- the storage loop of `out`: `for sub_space in namespace: output_namespace = output_namespace.setdefault(sub_space, {})`
then `output_namespace[port_name] = value` -/
def store (outputs : Items) : List String → String → V → Except Err Items
  | [], name, v => .ok (setKey name v outputs)
  | s :: rest, name, v =>
      match lookup s outputs with
      | none =>
          match store [] rest name v with
          | .ok sub => .ok (setKey s (.dict false sub) outputs)
          | .error e => .error e
      | some (.dict false sub) =>                              -- a plain dict (created by `setdefault` or emitted): entered
          match store sub rest name v with
          | .ok sub' => .ok (setKey s (.dict false sub') outputs)
          | .error e => .error e
      | some (.dict true _) =>                                 -- an emitted immutable mapping: a value, not a place to store below
          match rest with
          | [] => .error .typeError                            -- `frozen['b'] = v`: no item assignment
          | _ :: _ => .error .attributeError                   -- `frozen.setdefault('b', {})`: a `Mapping` has no `setdefault`
      | some (.atom _ _) =>
          match rest with
          | [] => .error .typeError                            -- `5['b'] = v`
          | _ :: _ => .error .attributeError                   -- `5.setdefault('b', {})`

/-- state of the output side of one process (and of its class: `top`, `ports`) -/
structure OutSt where
  top : NsA                     -- attributes of `spec.outputs`
  ports : PortList              -- its ports, including the dynamically created namespaces
  outputs : Items               -- `Process._outputs`
  emitted : List (List String × V × Bool)   -- `on_output_emitted` notifications, newest first
deriving Inhabited

/-- the namespace `out` validates against: `spec.outputs` itself or what `get_port` returns -/
def resolveNs (st : OutSt) (nsSegs : List String) : PortList × Except Err Port :=
  match nsSegs with
  | [] => (st.ports, .ok (.ns st.top st.ports))
  | _ :: _ => getPort st.top st.ports nsSegs

/-- validation part of `out`: `(dynamic, error)` for a value emitted at `name` inside namespace `(a, sub)` called `nsName` -/
def outValidate (vd : Nat → V → Bool) (nsName : String) (a : NsA) (sub : PortList) (name : String) (v : V) : Bool × Option Err :=
  match lookup name sub with
  | some p => (false, validatePort vd name [] p (some v))                 -- `port.validate(value)`
  | none => (true, validateDynamic a nsName [] [(name, v)])               -- `validate_dynamic_ports({port_name: value})`

/-- `Process.out(output_port, value)` with `path = output_port.split('.')`; `.ok dynamic` when the value was stored -/
def out (vd : Nat → V → Bool) (st : OutSt) (path : List String) (v : V) : OutSt × Except Err Bool :=
  let nsSegs := path.dropLast
  let name := path.getLastD ""
  let r := resolveNs st nsSegs
  let st1 := { st with ports := r.1 }
  match r.2 with
  | .error e => (st1, .error e)
  | .ok (.leaf _) => (st1, .error .typeError)                -- `port_namespace[port_name]` on an `OutputPort`
  | .ok (.ns a sub) =>
      let dv := outValidate vd (nsSegs.getLastD "outputs") a sub name v
      match dv.2 with
      | some e => (st1, .error e)                             -- `raise ValueError(msg)`
      | none =>
          match store st.outputs nsSegs name v with
          | .error e => (st1, .error e)
          | .ok outs => ({ st1 with outputs := outs, emitted := (path, v, dv.1) :: st.emitted }, .ok dv.1)

/-- a sequence of `out` calls made by the step function, errors caught by the caller; results in call order -/
def outs (vd : Nat → V → Bool) (st : OutSt) : List (List String × V) → OutSt × List (Except Err Bool)
  | [] => (st, [])
  | (path, v) :: rest =>
      let r := out vd st path v
      let rr := outs vd r.1 rest
      (rr.1, r.2 :: rr.2)

inductive Label | finished | excepted
deriving Repr, DecidableEq, Inhabited

/-- what is visible after the transition into FINISHED -/
structure Final where
  label : Label
  result : Nat                  -- `Finished.result` (opaque)
  successful : Bool             -- `Finished.successful`
  future : Option Items         -- `future().result()`
  listener : Option Items       -- argument of `ProcessListener.on_process_finished`
deriving Repr, DecidableEq, Inhabited

/-- `on_finish(result, successful)`: either the future is resolved with the outputs, or `StateEntryFailed(state)` with
the same result and `successful = False` -/
inductive Entry | entered (future : Items) | entryFailed (result : Nat) (successful : Bool)

def onFinish (vd : Nat → V → Bool) (st : OutSt) (result : Nat) (successful : Bool) : Entry :=
  if successful then
    match validatePort vd "outputs" [] (.ns st.top st.ports) (some (.dict false st.outputs)) with
    | some _ => .entryFailed result false
    | none => .entered st.outputs
  else .entered st.outputs

/-- `transition_to(Finished(result, successful))`: enter; on `StateEntryFailed` enter the state carried by the
exception instead; a second failure would go to `transition_failed` (EXCEPTED) -/
def toFinished (vd : Nat → V → Bool) (st : OutSt) (result : Nat) (successful : Bool) : Final :=
  match onFinish vd st result successful with
  | .entered fut => { label := .finished, result, successful, future := some fut, listener := some fut }
  | .entryFailed r s =>
      match onFinish vd st r s with
      | .entered fut => { label := .finished, result := r, successful := s, future := some fut, listener := some fut }
      | .entryFailed _ _ => { label := .excepted, result := r, successful := false, future := none, listener := none }

end Ports
