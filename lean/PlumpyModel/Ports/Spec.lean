import PlumpyModel.Ports.Model
/-!
# Ports: the declarative side of C11 / C12

Predicates written from the property text, independent of the code-shaped functions of `Model.lean`: they use lookups
and quantification over entries, no popping, no cloning, no breadcrumbs, no early returns.

* `Conforms…` — a (completed) value satisfies a port / namespace.
* `Defaults…` — a mapping is the completion of a supplied mapping by exactly the declared defaults.
* `Frozen…`   — every declared namespace level of a parsed tree is a read-only mapping.
-/
namespace Ports

/-- port names are distinct within every namespace (the ports of a namespace are a Python dict) -/
def hasKey {α} (k : String) (l : List (String × α)) : Bool := (lookup k l).isSome

mutual
def wfPort : Port → Bool
  | .leaf _ => true
  | .ns _ ports => wfPorts ports
def wfPorts : PortList → Bool
  | [] => true
  | (k, p) :: rest => !hasKey k rest && wfPort p && wfPorts rest
end

/-- the value found at a path of keys -/
def getPath : Option V → List String → Option V
  | v, [] => v
  | some (.dict _ items), k :: rest => getPath (lookup k items) rest
  | _, _ :: _ => none

/-! ## acceptance -/

/-- the mapping a namespace is checked against: nothing supplied and any falsy value count as the empty mapping;
a truthy non-mapping is not acceptable -/
def mappingOf : Option V → Option Items
  | none => some []
  | some (.dict _ items) => some items
  | some (.atom 0 0) => some []
  | some (.atom 3 _) => some []
  | some (.atom _ _) => none

mutual
/-- a dynamic value is of the namespace's type: an atom of that type, or a plain dict all of whose values are, at any depth -/
def DynOk (ty : Nat) : V → Prop
  | .atom t _ => t = ty
  | .dict true _ => False
  | .dict false items => DynOkL ty items
def DynOkL (ty : Nat) : Items → Prop
  | [] => True
  | (_, v) :: rest => DynOk ty v ∧ DynOkL ty rest
end

mutual
/-- the value (`none`: nothing there, after defaults) is acceptable for the port -/
def ConformsPort (vd : Nat → V → Bool) : Port → Option V → Prop
  | .leaf a, none => a.required = false ∨ a.default.isSome          -- a port with a default is never required
  | .leaf a, some v =>
      (∀ ty, a.validType = some ty → isInstance v ty = true)         -- declared type
      ∧ rejects vd a.validator v = false                              -- port validator
  | .ns a ports, val =>
      ∃ items, mappingOf val = some items ∧
        ((items = [] ∧ a.required = false)                            -- optional and absent / empty
         ∨ (ConformsPorts vd ports items                              -- every declared port
            ∧ (∀ k v, (k, v) ∈ items → lookup k ports = none →       -- every undeclared key:
                 a.dynamic = true ∧ ∀ ty, a.validType = some ty → DynOk ty v)   -- dynamic namespace, values of its type
            ∧ rejects vd a.validator (.dict false items) = false))    -- namespace validator
def ConformsPorts (vd : Nat → V → Bool) : PortList → Items → Prop
  | [], _ => True
  | (k, p) :: rest, items => ConformsPort vd p (lookup k items) ∧ ConformsPorts vd rest items
end

/-! ## completion by defaults -/

/-- the keys that are not declared ports are exactly as supplied: same lookups, same entries -/
def Undeclared (ports : PortList) (vals out : Items) : Prop :=
  (∀ k, lookup k ports = none → lookup k out = lookup k vals) ∧
  (∀ kv : String × V, lookup kv.1 ports = none → (kv ∈ out ↔ kv ∈ vals))

mutual
/-- `res` is what the completed parent mapping holds for a declared port, given what was supplied for it (`sup`) -/
def DefaultsPort : Port → Option V → Option V → Prop
  | .leaf a, sup, res =>
      res = (match sup with
        | some v => some v                  -- a supplied value is kept
        | none => a.default)                -- otherwise the (evaluated) default, if there is one
  | .ns a ports, sup, res =>
      match sup with
      | some (.atom _ _) => False           -- a namespace cannot be completed from a non-mapping
      | some (.dict _ items) =>             -- supplied: completed recursively, read-only
          ∃ items', res = some (.dict true items') ∧ DefaultsPorts ports items items' ∧ Undeclared ports items items'
      | none =>
          if a.populate = false then res = none                -- populate_defaults=False and not supplied: left out
          else match a.default with
            | some (.atom _ _) => False
            | some (.dict _ d) =>           -- the namespace's own default is the starting point
                ∃ items', res = some (.dict true items') ∧ DefaultsPorts ports d items' ∧ Undeclared ports d items'
            | none =>
                if ports = [] then res = none
                else ∃ items', res = some (.dict true items') ∧ DefaultsPorts ports [] items' ∧ Undeclared ports [] items'
def DefaultsPorts : PortList → Items → Items → Prop
  | [], _, _ => True
  | (k, p) :: rest, vals, out => DefaultsPort p (lookup k vals) (lookup k out) ∧ DefaultsPorts rest vals out
end

/-- `out` is `vals` completed with exactly the declared defaults: every declared port as `DefaultsPort` says, and every
other key exactly as supplied (nothing else appears, nothing supplied is lost) -/
def DefaultsExact (ports : PortList) (vals out : Items) : Prop :=
  DefaultsPorts ports vals out ∧ Undeclared ports vals out

/-! ## read-only levels -/

mutual
def FrozenPort : Port → Option V → Prop
  | .leaf _, _ => True
  | .ns _ _, none => True
  | .ns _ _, some (.atom _ _) => False
  | .ns _ ports, some (.dict fr items) => fr = true ∧ FrozenPorts ports items
def FrozenPorts : PortList → Items → Prop
  | [], _ => True
  | (k, p) :: rest, items => FrozenPort p (lookup k items) ∧ FrozenPorts rest items
end

end Ports
