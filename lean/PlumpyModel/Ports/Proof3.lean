import PlumpyModel.Ports.Proof2
/-! `pre_process` completes the supplied mapping with exactly the declared defaults; the declared namespace levels of
the result are read-only. -/
namespace Ports

theorem hasKey_cons_true {α} (k k' : String) (v : α) (l : List (String × α)) :
    hasKey k ((k', v) :: l) = true ↔ k = k' ∨ hasKey k l = true := by
  unfold hasKey; simp only [lookup_cons]; by_cases h : k = k' <;> simp [h]

theorem DefaultsPorts_congr : ∀ (rest : PortList) (vals vals' out : Items),
    (∀ k, hasKey k rest = true → lookup k vals' = lookup k vals) →
    (DefaultsPorts rest vals' out ↔ DefaultsPorts rest vals out)
  | [], _, _, _, _ => by simp [DefaultsPorts]
  | (k, p) :: rest, vals, vals', out, h => by
      simp only [DefaultsPorts]
      rw [h k ((hasKey_cons_true k k p rest).2 (Or.inl rfl)),
        DefaultsPorts_congr rest vals vals' out (fun k' hk' => h k' ((hasKey_cons_true k' k p rest).2 (Or.inr hk')))]

mutual
theorem preProcessPort_spec : ∀ (p : Port), wfPort p = true → ∀ (name : String) (vals vals' : Items),
    preProcessPort name p vals = .ok vals' →
    (∀ k, k ≠ name → lookup k vals' = lookup k vals) ∧ (∀ kv : String × V, kv.1 ≠ name → (kv ∈ vals' ↔ kv ∈ vals)) ∧
    DefaultsPort p (lookup name vals) (lookup name vals')
  | .leaf a, _, name, vals, vals', h => by
      simp only [preProcessPort] at h
      cases hl : lookup name vals with
      | some v =>
        rw [hl] at h; cases h
        exact ⟨fun _ _ => rfl, fun _ _ => Iff.rfl, by simp [DefaultsPort, hl]⟩
      | none =>
        rw [hl] at h
        cases hd : a.default with
        | some d =>
          rw [hd] at h; cases h
          exact ⟨fun k hk => lookup_setKey_ne hk _ _, fun kv hk => mem_setKey_ne _ _ kv hk _,
            by simp [DefaultsPort, lookup_setKey_self, hd]⟩
        | none =>
          rw [hd] at h; cases h
          exact ⟨fun _ _ => rfl, fun _ _ => Iff.rfl, by simp [DefaultsPort, hl, hd]⟩
  | .ns a ports, hwf, name, vals, vals', h => by
      have hwf' : wfPorts ports = true := by simpa [wfPort] using hwf
      simp only [preProcessPort] at h
      -- the common tail: completing `items`
      have go : ∀ items, (match preProcess ports items with
            | .ok items' => (Except.ok (setKey name (V.dict true items') vals) : Except Err Items)
            | .error e => .error e) = .ok vals' →
          (∀ k, k ≠ name → lookup k vals' = lookup k vals) ∧ (∀ kv : String × V, kv.1 ≠ name → (kv ∈ vals' ↔ kv ∈ vals)) ∧
          ∃ items', lookup name vals' = some (.dict true items') ∧ DefaultsPorts ports items items'
            ∧ Undeclared ports items items' := by
        intro items h
        cases hp : preProcess ports items with
        | error e => rw [hp] at h; cases h
        | ok items' =>
          rw [hp] at h; cases h
          have ih := preProcess_spec ports hwf' items items' hp
          exact ⟨fun k hk => lookup_setKey_ne hk _ _, fun kv hk => mem_setKey_ne _ _ kv hk _,
            items', lookup_setKey_self _ _ _, ih.1, ih.2⟩
      cases hl : lookup name vals with
      | some v =>
        cases v with
        | atom t i => rw [hl] at h; simp [nsStart] at h
        | dict fr items =>
          rw [hl] at h; simp only [nsStart] at h
          obtain ⟨h1, h1', items', h2, h3, h4⟩ := go items h
          exact ⟨h1, h1', by simp only [DefaultsPort]; exact ⟨items', h2, h3, h4⟩⟩
      | none =>
        rw [hl] at h; simp only [nsStart] at h
        cases hpop : a.populate with
        | false =>
          simp only [hpop, Bool.not_false, if_true] at h; cases h
          exact ⟨fun _ _ => rfl, fun _ _ => Iff.rfl, by simp [DefaultsPort, hpop, hl]⟩
        | true =>
          simp only [hpop, Bool.not_true, Bool.false_eq_true, if_false] at h
          cases hd : a.default with
          | some d =>
            cases d with
            | atom t i => simp [hd] at h
            | dict fr items =>
              simp only [hd] at h
              obtain ⟨h1, h1', items', h2, h3, h4⟩ := go items h
              exact ⟨h1, h1', by simp only [DefaultsPort, hpop, hd, Bool.true_eq_false, if_false]; exact ⟨items', h2, h3, h4⟩⟩
          | none =>
            simp only [hd] at h
            cases ports with
            | nil =>
              simp only [List.isEmpty_nil, Bool.not_true, Bool.false_eq_true, if_false] at h; cases h
              exact ⟨fun _ _ => rfl, fun _ _ => Iff.rfl, by simp [DefaultsPort, hpop, hd, hl]⟩
            | cons hd' tl =>
              simp only [List.isEmpty_cons, Bool.not_false, if_true] at h
              obtain ⟨h1, h1', items', h2, h3, h4⟩ := go [] h
              refine ⟨h1, h1', ?_⟩
              simp only [DefaultsPort, hpop, hd, Bool.true_eq_false, if_false, reduceCtorEq]
              exact ⟨items', h2, h3, h4⟩
theorem preProcess_spec : ∀ (ps : PortList), wfPorts ps = true → ∀ (vals out : Items),
    preProcess ps vals = .ok out →
    DefaultsPorts ps vals out ∧ Undeclared ps vals out
  | [], _, vals, out, h => by
      simp only [preProcess] at h; cases h; simp [DefaultsPorts, Undeclared]
  | (name, p) :: rest, hwf, vals, out, h => by
      simp only [wfPorts, Bool.and_eq_true, Bool.not_eq_true'] at hwf
      obtain ⟨⟨h1, h2⟩, h3⟩ := hwf
      simp only [preProcess] at h
      cases hp : preProcessPort name p vals with
      | error e => rw [hp] at h; cases h
      | ok vals' =>
        rw [hp] at h
        obtain ⟨hA1, hA1', hA2⟩ := preProcessPort_spec p h2 name vals vals' hp
        obtain ⟨hB1, hB2, hB3⟩ := preProcess_spec rest h3 vals' out h
        have hne : ∀ k, hasKey k rest = true → k ≠ name := by
          intro k hk e; subst e; rw [h1] at hk; cases hk
        have hsplit : ∀ k, lookup k ((name, p) :: rest) = none → k ≠ name ∧ lookup k rest = none := by
          intro k hk
          simp only [lookup_cons] at hk
          by_cases hkn : k = name
          · simp [hkn] at hk
          · simp only [hkn, if_false] at hk; exact ⟨hkn, hk⟩
        refine ⟨?_, ?_, ?_⟩
        · simp only [DefaultsPorts]
          refine ⟨?_, (DefaultsPorts_congr rest vals vals' out (fun k hk => hA1 k (hne k hk))).1 hB1⟩
          rw [hB2 name (lookup_none_of_hasKey_false h1)]; exact hA2
        · intro k hk
          obtain ⟨hkn, hkr⟩ := hsplit k hk
          rw [hB2 k hkr, hA1 k hkn]
        · intro kv hk
          obtain ⟨hkn, hkr⟩ := hsplit kv.1 hk
          rw [hB3 kv hkr, hA1' kv hkn]
end

theorem DefaultsPorts_lookup : ∀ (ps : PortList) (vals out : Items) (k : String) (p : Port),
    DefaultsPorts ps vals out → lookup k ps = some p → DefaultsPort p (lookup k vals) (lookup k out)
  | [], _, _, _, _, _, h => by cases h
  | (k', p') :: rest, vals, out, k, p, hd, h => by
      simp only [DefaultsPorts] at hd
      simp only [lookup_cons] at h
      by_cases hk : k = k'
      · subst hk; simp only [if_true, Option.some.injEq] at h; subst h; exact hd.1
      · simp only [hk, if_false] at h; exact DefaultsPorts_lookup rest vals out k p hd.2 h

mutual
theorem FrozenPort_of_DefaultsPort : ∀ (p : Port) (sup res : Option V), DefaultsPort p sup res → FrozenPort p res
  | .leaf _, _, _, _ => by simp [FrozenPort]
  | .ns a ports, sup, res, h => by
      have key : ∀ items items', res = some (.dict true items') → DefaultsPorts ports items items' → FrozenPort (.ns a ports) res := by
        intro items items' hr hd; subst hr
        simp only [FrozenPort, true_and]; exact FrozenPorts_of_DefaultsPorts ports items items' hd
      simp only [DefaultsPort] at h
      match sup, h with
      | some (.atom _ _), h => exact h.elim
      | some (.dict _ items), ⟨items', h1, h2, _⟩ => exact key items items' h1 h2
      | none, h =>
        simp only at h
        split at h
        · subst h; simp [FrozenPort]
        · split at h
          · exact h.elim
          · obtain ⟨items', h1, h2, _⟩ := h; exact key _ items' h1 h2
          · split at h
            · subst h; simp [FrozenPort]
            · obtain ⟨items', h1, h2, _⟩ := h; exact key _ items' h1 h2
theorem FrozenPorts_of_DefaultsPorts : ∀ (ps : PortList) (vals out : Items), DefaultsPorts ps vals out → FrozenPorts ps out
  | [], _, _, _ => by simp [FrozenPorts]
  | (k, p) :: rest, vals, out, h => by
      simp only [DefaultsPorts] at h
      simp only [FrozenPorts]
      exact ⟨FrozenPort_of_DefaultsPort p _ _ h.1, FrozenPorts_of_DefaultsPorts rest vals out h.2⟩
end

end Ports
