import PlumpyModel.Ports.Spec
/-! Helper lemmas for C11: association lists, the dynamic check, `validate = none ↔ Conforms`. -/
namespace Ports

/-! ### association lists -/

@[simp] theorem lookup_nil {α} (k : String) : lookup k ([] : List (String × α)) = none := rfl

theorem lookup_cons {α} (k k' : String) (v : α) (l : List (String × α)) :
    lookup k ((k', v) :: l) = if k = k' then some v else lookup k l := rfl

theorem lookup_setKey {α} (k k' : String) (v : α) (l : List (String × α)) :
    lookup k (setKey k' v l) = if k = k' then some v else lookup k l := by
  induction l with
  | nil => simp [setKey, lookup_cons]
  | cons hd tl ih =>
    obtain ⟨k'', v''⟩ := hd
    by_cases h : k' = k''
    · subst h; simp only [setKey, if_true, lookup_cons]; split <;> rfl
    · simp only [setKey, h, if_false, lookup_cons, ih]
      by_cases h1 : k = k'' <;> by_cases h2 : k = k' <;> simp_all

theorem lookup_setKey_self {α} (k : String) (v : α) (l : List (String × α)) : lookup k (setKey k v l) = some v := by
  simp [lookup_setKey]

theorem lookup_setKey_ne {α} {k k' : String} (h : k ≠ k') (v : α) (l : List (String × α)) :
    lookup k (setKey k' v l) = lookup k l := by simp [lookup_setKey, h]

theorem mem_setKey_ne {α} (k : String) (v : α) (kv : String × α) (hne : kv.1 ≠ k) : ∀ (l : List (String × α)),
    kv ∈ setKey k v l ↔ kv ∈ l
  | [] => by
      simp only [setKey, List.mem_singleton, List.not_mem_nil, iff_false]
      intro e; subst e; exact hne rfl
  | (k', v') :: tl => by
      by_cases h : k = k'
      · subst h
        simp only [setKey, if_true, List.mem_cons]
        constructor
        · rintro (e | e)
          · subst e; exact absurd rfl hne
          · exact Or.inr e
        · rintro (e | e)
          · subst e; exact absurd rfl hne
          · exact Or.inr e
      · simp only [setKey, h, if_false, List.mem_cons, mem_setKey_ne k v kv hne tl]

theorem mem_eraseKey {α} (k : String) (kv : String × α) (l : List (String × α)) :
    kv ∈ eraseKey k l ↔ kv ∈ l ∧ kv.1 ≠ k := by
  induction l with
  | nil => simp [eraseKey]
  | cons hd tl ih =>
    obtain ⟨k', v'⟩ := hd
    by_cases h : k = k'
    · subst h
      simp only [eraseKey, if_true, ih, List.mem_cons]
      constructor
      · rintro ⟨h1, h2⟩; exact ⟨Or.inr h1, h2⟩
      · rintro ⟨h1 | h1, h2⟩
        · subst h1; exact absurd rfl h2
        · exact ⟨h1, h2⟩
    · simp only [eraseKey, h, if_false, List.mem_cons, ih]
      constructor
      · rintro (h1 | ⟨h1, h2⟩)
        · subst h1; exact ⟨Or.inl rfl, fun e => h e.symm⟩
        · exact ⟨Or.inr h1, h2⟩
      · rintro ⟨h1 | h1, h2⟩
        · exact Or.inl h1
        · exact Or.inr ⟨h1, h2⟩

theorem lookup_eraseKey_ne {α} {k k' : String} (h : k ≠ k') (l : List (String × α)) :
    lookup k (eraseKey k' l) = lookup k l := by
  induction l with
  | nil => rfl
  | cons hd tl ih =>
    obtain ⟨k'', v''⟩ := hd
    by_cases h1 : k' = k''
    · subst h1; simp [eraseKey, lookup_cons, h, ih]
    · simp [eraseKey, h1, lookup_cons, ih]

theorem lookup_none_of_hasKey_false {α} {k : String} {l : List (String × α)} (h : hasKey k l = false) : lookup k l = none := by
  unfold hasKey at h; cases hl : lookup k l <;> simp_all

theorem lookup_isSome_of_mem {α} {k : String} {v : α} {l : List (String × α)} (h : (k, v) ∈ l) : (lookup k l).isSome = true := by
  induction l with
  | nil => cases h
  | cons hd tl ih =>
    obtain ⟨k', v'⟩ := hd
    by_cases hk : k = k'
    · simp [lookup_cons, hk]
    · simp only [lookup_cons, hk, if_false]
      rcases List.mem_cons.1 h with h | h
      · cases h; exact absurd rfl hk
      · exact ih h

/-! ### the dynamic check -/

mutual
theorem validateDynamicV_none_iff (ty : Nat) (name : String) : ∀ (v : V) (bc : List String),
    validateDynamicV ty name bc v = none ↔ DynOk ty v
  | .atom t i, bc => by
      by_cases h : t = ty <;> simp [validateDynamicV, DynOk, h]
  | .dict true items, bc => by simp [validateDynamicV, DynOk]
  | .dict false items, bc => by
      simp only [validateDynamicV, DynOk]; exact validateDynamicL_none_iff ty name items bc
theorem validateDynamicL_none_iff (ty : Nat) (name : String) : ∀ (items : Items) (bc : List String),
    validateDynamicL ty name bc items = none ↔ DynOkL ty items
  | [], bc => by simp [validateDynamicL, DynOkL]
  | (k, v) :: rest, bc => by
      simp only [validateDynamicL, DynOkL]
      have h1 := validateDynamicV_none_iff ty name v (bc ++ [name, k])
      have h2 := validateDynamicL_none_iff ty name rest bc
      cases hv : validateDynamicV ty name (bc ++ [name, k]) v with
      | some e => simp only [hv] at h1; simp only [reduceCtorEq, false_iff] at h1 ⊢; exact fun h => h1 h.1
      | none => simp only [hv, true_iff] at h1; simp only [h2]; exact ⟨fun h => ⟨h1, h⟩, fun h => h.2⟩
end

theorem DynOkL_iff (ty : Nat) (items : Items) : DynOkL ty items ↔ ∀ k v, (k, v) ∈ items → DynOk ty v := by
  induction items with
  | nil => simp [DynOkL]
  | cons hd tl ih =>
    obtain ⟨k, v⟩ := hd
    simp only [DynOkL, ih, List.mem_cons]
    constructor
    · rintro ⟨h1, h2⟩ k' v' (h | h)
      · cases h; exact h1
      · exact h2 k' v' h
    · intro h; exact ⟨h k v (Or.inl rfl), fun k' v' hm => h k' v' (Or.inr hm)⟩

end Ports
