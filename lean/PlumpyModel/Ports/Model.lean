/-
Scratch prototype (design phase): PortNamespace.pre_process / validate (C11), mirroring ports.py.
Values carry a type tag; validators are "reject if the value contains atom n".
-/
namespace Ports

inductive V where
  | atom (ty : Nat) (id : Nat)
  | dict (items : List (String × V))
deriving Repr, Inhabited, BEq

/-- does the value mention atom `n` anywhere -/
def V.mentions (n : Nat) : V → Bool
  | .atom _ id => id == n
  | .dict items => mentionsL n items
where
  mentionsL (n : Nat) : List (String × V) → Bool
    | [] => false
    | (_, v) :: rest => V.mentions n v || mentionsL n rest

structure LeafA where
  required : Bool
  validType : Option Nat
  default : Option V          -- plain or callable default: same value once evaluated
  validator : Option Nat
deriving Repr, Inhabited

structure NsA where
  required : Bool
  validType : Option Nat
  default : Option V
  dynamic : Bool
  populate : Bool
  validator : Option Nat
deriving Repr, Inhabited

inductive Port where
  | leaf (a : LeafA)
  | ns (a : NsA) (ports : List (String × Port))
deriving Repr, Inhabited

inductive Err | typeError | validation (path : String)
deriving Repr, Inhabited, BEq

def lookup (k : String) : List (String × V) → Option V
  | [] => none
  | (k', v) :: rest => if k = k' then some v else lookup k rest
def setKey (k : String) (v : V) : List (String × V) → List (String × V)
  | [] => [(k, v)]
  | (k', v') :: rest => if k = k' then (k, v) :: rest else (k', v') :: setKey k v rest
def popKey (k : String) : List (String × V) → List (String × V)
  | [] => []
  | (k', v') :: rest => if k = k' then rest else (k', v') :: popKey k rest

/-- `pre_process`: complete `vals` with the declared defaults (in place in the code; functional here) -/
def preProcess : List (String × Port) → List (String × V) → Except Err (List (String × V))
  | [], vals => .ok vals
  | (name, .leaf a) :: rest, vals =>
      match lookup name vals with
      | some _ => preProcess rest vals
      | none =>
        match a.default with
        | some d => preProcess rest (setKey name d vals)
        | none => preProcess rest vals
  | (name, .ns a ports) :: rest, vals =>
      match lookup name vals with
      | none =>
        if !a.populate then preProcess rest vals else
        let start : Option V := match a.default with
          | some d => some d
          | none => if ports.isEmpty then none else some (.dict [])
        match start with
        | none => preProcess rest vals
        | some (.dict items) =>
            match preProcess ports items with
            | .ok items' => preProcess rest (setKey name (.dict items') vals)
            | .error e => .error e
        | some (.atom _ _) => .error .typeError
      | some (.dict items) =>
          match preProcess ports items with
          | .ok items' => preProcess rest (setKey name (.dict items') vals)
          | .error e => .error e
      | some (.atom _ _) => .error .typeError

def isInstance (v : V) (ty : Nat) : Bool := match v with | .atom t _ => t == ty | .dict _ => ty == 99

def runValidator (vd : Option Nat) (v : V) : Bool := match vd with | some n => v.mentions n | none => false

def join (bc : List String) : String := ".".intercalate bc

/-- `validate_dynamic_ports` on the values left after the explicit ports were popped -/
def validateDynamicV (ty : Nat) (bc : List String) : V → Option Err
  | .atom t _ => if t == ty then none else some (.validation (join bc))
  | .dict items => validateDynamicL ty bc items
where
  validateDynamicL (ty : Nat) (bc : List String) : List (String × V) → Option Err
    | [] => none
    | (k, v) :: rest =>
        match validateDynamicV ty (bc ++ [k]) v with
        | some e => some e
        | none => validateDynamicL ty bc rest

mutual
/-- `Port.validate` / `PortNamespace.validate` on an optional value (none = UNSPECIFIED) -/
def validatePort (name : String) (bc : List String) : Port → Option V → Option Err
  | .leaf a, none => if a.required then some (.validation (join (bc ++ [name]))) else none
  | .leaf a, some v =>
      let tyBad := match a.validType with | some ty => !isInstance v ty | none => false
      if tyBad then some (.validation (join (bc ++ [name])))
      else if runValidator a.validator v then some (.validation (join (bc ++ [name]))) else none
  | .ns a ports, val =>
      let bcl := bc ++ [name]
      match val with
      | some (.atom _ _) => some (.validation (join bcl))      -- not a Mapping
      | _ =>
        let items := match val with | some (.dict items) => items | _ => []
        if items.isEmpty && !a.required then none else
        match validatePorts bcl ports items with
        | .error e => some e
        | .ok remaining =>
          if !remaining.isEmpty && !a.dynamic then some (.validation (join bcl)) else
          let dynErr := match a.validType with
            | none => none
            | some ty => validateDynamicV.validateDynamicL ty bcl remaining
          match dynErr with
          | some e => some e
          | none => if runValidator a.validator (.dict items) then some (.validation (join bcl)) else none

/-- `validate_ports`: pop and validate every explicit port, in declaration order -/
def validatePorts (bc : List String) : List (String × Port) → List (String × V) → Except Err (List (String × V))
  | [], vals => .ok vals
  | (name, p) :: rest, vals =>
      match validatePort name bc p (lookup name vals) with
      | some e => .error e
      | none => validatePorts bc rest (popKey name vals)
end

/-- `Process.on_create`: parse then validate; the top-level namespace is called `inputs` -/
def construct (top : NsA) (ports : List (String × Port)) (raw : List (String × V)) : Except Err (List (String × V)) :=
  match preProcess ports raw with
  | .error e => .error e
  | .ok parsed =>
    match validatePort "inputs" [] (.ns top ports) (some (.dict parsed)) with
    | some e => .error e
    | none => .ok parsed

end Ports
