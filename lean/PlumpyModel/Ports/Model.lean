/-
# Ports: parsing and validation of port values (C11; reused by C12)

Executable mirror of `plumpy/ports.py` (`Port.validate`, `InputPort.required_override`, `InputPort.__init__`'s check of a
plain default, `PortNamespace.pre_process`, `.validate`, `.validate_ports`, `.validate_dynamic_ports`) and of
`Process.on_create` (`construct`).  Core Lean only.

Conventions
* A value is an atom with a type tag (`isinstance` is equality of tags; the harness uses 0 = `int`, 1 = `float`,
  2 = `dict`) or a mapping, an association list in insertion order with a tag saying whether it is an immutable
  `AttributesFrozendict` (`frozen = true`) or a plain `dict`.  `atom 0 0` is Python's `0`; atoms of type 3 stand for Python's `None` (an instance of no declared type);
  these are the falsy atoms.
* Python dictionaries have unique keys.  `lookup` reads the first entry of a key, `setKey` writes it (appending a new
  key at the end, as `d[k] = v` does), `eraseKey` (`dict.pop`) removes every entry of the key.
* User code is an oracle: `vd n v = true` means "validator `n` returns an error message for `v`"; callable defaults
  are represented by the value they return.
* Every place where the code raises is an explicit error: `Err.typeError` (a non-mapping where `pre_process` needs a
  mapping), `Err.validation path` (a `PortValidationError`, raised as `ValueError` by `on_create` and `out`).
* A mapping supplied for a declared namespace may be a plain dict or a frozen one (another process's `inputs.ns`
  passed on): since the repair 7c12fde `pre_process` completes a copy of every declared level, so both are treated alike
  (before it, a frozen one raised `TypeError` on the first item assignment and a dict *default* was completed in place).
  A frozen mapping is not a `dict` for `isinstance` nor for the recursion of `validate_dynamic_ports`.
-/
namespace Ports

inductive V where
  | atom (ty : Nat) (id : Nat)
  | dict (frozen : Bool) (items : List (String × V))
deriving Repr, Inhabited, BEq

abbrev Items := List (String × V)

mutual
def V.decEq : (a b : V) → Decidable (a = b)
  | .atom t i, .atom t' i' =>
      if h : t = t' ∧ i = i' then isTrue (by rw [h.1, h.2]) else isFalse (by intro e; cases e; exact h ⟨rfl, rfl⟩)
  | .atom _ _, .dict _ _ => isFalse (by intro e; cases e)
  | .dict _ _, .atom _ _ => isFalse (by intro e; cases e)
  | .dict f xs, .dict f' ys =>
      if hf : f = f' then
        match V.decEqL xs ys with
        | isTrue h => isTrue (by rw [hf, h])
        | isFalse h => isFalse (by intro e; cases e; exact h rfl)
      else isFalse (by intro e; cases e; exact hf rfl)
def V.decEqL : (a b : List (String × V)) → Decidable (a = b)
  | [], [] => isTrue rfl
  | [], _ :: _ => isFalse (by intro e; cases e)
  | _ :: _, [] => isFalse (by intro e; cases e)
  | (k, v) :: xs, (k', v') :: ys =>
      if hk : k = k' then
        match V.decEq v v', V.decEqL xs ys with
        | isTrue h1, isTrue h2 => isTrue (by rw [hk, h1, h2])
        | isFalse h1, _ => isFalse (by intro e; cases e; exact h1 rfl)
        | _, isFalse h2 => isFalse (by intro e; cases e; exact h2 rfl)
      else isFalse (by intro e; cases e; exact hk rfl)
end
instance : DecidableEq V := V.decEq

deriving instance DecidableEq for Except

/-- Python truthiness, negated: `not value` -/
def V.falsy : V → Bool
  | .atom ty id => (ty == 0 && id == 0) || ty == 3
  | .dict _ items => items.isEmpty

/-- does the value mention atom `n` anywhere (the validators used by the driver and the harness) -/
def V.mentions (n : Nat) : V → Bool
  | .atom _ id => id == n
  | .dict _ items => mentionsL n items
where
  mentionsL (n : Nat) : List (String × V) → Bool
    | [] => false
    | (_, v) :: rest => V.mentions n v || mentionsL n rest

structure LeafA where
  required : Bool                 -- as declared; see `LeafA.req`
  validType : Option Nat
  default : Option V              -- plain or callable default: the value once evaluated
  callable : Bool                 -- the default is a callable (then `InputPort.__init__` does not validate it)
  validator : Option Nat
deriving Repr, Inhabited

structure NsA where
  required : Bool
  validType : Option Nat
  default : Option V
  dynamic : Bool
  populate : Bool
  validator : Option Nat
deriving Repr, Inhabited

inductive Port where
  | leaf (a : LeafA)
  | ns (a : NsA) (ports : List (String × Port))
deriving Repr, Inhabited

abbrev PortList := List (String × Port)

inductive Err
  | typeError
  | valueError
  | attributeError
  | validation (path : String)
deriving Repr, Inhabited, BEq, DecidableEq

/-- `InputPort.required_override`: a port with a default is never required -/
def LeafA.req (a : LeafA) : Bool := a.required && a.default.isNone

def lookup {α} (k : String) : List (String × α) → Option α
  | [] => none
  | (k', v) :: rest => if k = k' then some v else lookup k rest
def setKey {α} (k : String) (v : α) : List (String × α) → List (String × α)
  | [] => [(k, v)]
  | (k', v') :: rest => if k = k' then (k, v) :: rest else (k', v') :: setKey k v rest
def eraseKey {α} (k : String) : List (String × α) → List (String × α)
  | [] => []
  | (k', v') :: rest => if k = k' then eraseKey k rest else (k', v') :: eraseKey k rest

/-- what `pre_process` does for a namespace port given the entry of the parent mapping -/
inductive Start | skip | bad | go (items : Items)

/-- the first half of the loop body of `pre_process` for a namespace port: which mapping is completed -/
def nsStart (a : NsA) (hasPorts : Bool) : Option V → Start
  | some (.dict _ items) => .go items            -- `port_value = port_values[name]`
  | some (.atom _ _) => .bad                     -- `name not in 5` / `dict(5)`: TypeError
  | none =>
      if !a.populate then .skip                  -- `populate_defaults=False`: skipped entirely
      else match a.default with
        | some (.dict _ d) => .go d              -- the namespace's own default
        | some (.atom _ _) => .bad
        | none => if hasPorts then .go [] else .skip

mutual
/-- the loop body of `pre_process` for one declared port: the parent mapping after the assignment (if any) -/
def preProcessPort (name : String) : Port → Items → Except Err Items
  | .leaf a, vals =>
      match lookup name vals with
      | some _ => .ok vals                           -- `port_values[name] = port_values[name]`
      | none =>
        match a.default with
        | some d => .ok (setKey name d vals)         -- plain default, or the value the callable returns
        | none => .ok vals
  | .ns a ports, vals =>
      match nsStart a (!ports.isEmpty) (lookup name vals) with
      | .skip => .ok vals
      | .bad => .error .typeError
      | .go items =>
          match preProcess ports items with          -- the nested result is an `AttributesFrozendict`
          | .ok items' => .ok (setKey name (.dict true items') vals)
          | .error e => .error e

/-- `PortNamespace.pre_process`: complete `vals` with the declared defaults, port by port in declaration order
(in place in the code, functional here) -/
def preProcess : PortList → Items → Except Err Items
  | [], vals => .ok vals
  | (name, p) :: rest, vals =>
      match preProcessPort name p vals with
      | .ok vals' => preProcess rest vals'
      | .error e => .error e
end

/-- `isinstance(value, valid_type)`; a plain dict is an instance of type 2 (`dict`), a frozen mapping of none -/
def isInstance (v : V) (ty : Nat) : Bool :=
  match v with
  | .atom t _ => t == ty
  | .dict frozen _ => !frozen && ty == 2

def rejects (vd : Nat → V → Bool) (validator : Option Nat) (v : V) : Bool :=
  match validator with | some n => vd n v | none => false

def join (bc : List String) : String := ".".intercalate bc

/-- `if not port_values: port_values = {}` followed by the `Mapping` test of `PortNamespace.validate`;
`none` = not a mapping -/
def nsItems : Option V → Option Items
  | none => some []
  | some (.dict _ items) => some items
  | some (.atom ty id) => if (V.atom ty id).falsy then some [] else none

mutual
/-- the recursive part of `validate_dynamic_ports` for one value: `bc` are the breadcrumbs passed to the call -/
def validateDynamicV (ty : Nat) (name : String) (bc : List String) : V → Option Err
  | .atom t _ => if t == ty then none else some (.validation (join bc))
  | .dict true _ => some (.validation (join bc))       -- not a `dict`, not of the valid type either
  | .dict false items => validateDynamicL ty name bc items
/-- `for key, value in port_values.items(): self.validate_dynamic_ports(value, (*breadcrumbs, self.name, key))` -/
def validateDynamicL (ty : Nat) (name : String) (bc : List String) : Items → Option Err
  | [] => none
  | (k, v) :: rest =>
      match validateDynamicV ty name (bc ++ [name, k]) v with
      | some e => some e
      | none => validateDynamicL ty name bc rest
end

/-- `validate_dynamic_ports(port_values, breadcrumbs)` called with a dictionary (the values left after the explicit
ports were popped, or `{port_name: value}` in `out`).  In the recursive calls `self.dynamic` is true whenever the
first test passed on a non-empty dictionary, so the test is not repeated there. -/
def validateDynamic (a : NsA) (name : String) (bc : List String) (remaining : Items) : Option Err :=
  if !remaining.isEmpty && !a.dynamic then some (.validation (join (bc ++ [name])))
  else match a.validType with
    | none => none
    | some ty => validateDynamicL ty name bc remaining

mutual
/-- `Port.validate` / `PortNamespace.validate` on an optional value (`none` = `UNSPECIFIED`) -/
def validatePort (vd : Nat → V → Bool) (name : String) (bc : List String) : Port → Option V → Option Err
  | .leaf a, none => if a.req then some (.validation (join (bc ++ [name]))) else none
  | .leaf a, some v =>
      let tyBad := match a.validType with | some ty => !isInstance v ty | none => false
      if tyBad then some (.validation (join (bc ++ [name])))
      else if rejects vd a.validator v then some (.validation (join (bc ++ [name]))) else none
  | .ns a ports, val =>
      let bcl := bc ++ [name]
      match nsItems val with
      | none => some (.validation (join bcl))                -- not a `Mapping`
      | some items =>
        if items.isEmpty && !a.required then none else       -- optional and empty: valid
        match validatePorts vd bcl ports items with
        | .error e => some e
        | .ok remaining =>
          match validateDynamic a name bc remaining with
          | some e => some e
          | none =>                                          -- the validator sees the clone made before the pops
            if rejects vd a.validator (.dict false items) then some (.validation (join bcl)) else none

/-- `validate_ports`: pop and validate every explicit port, in declaration order; returns what is left -/
def validatePorts (vd : Nat → V → Bool) (bc : List String) : PortList → Items → Except Err Items
  | [], vals => .ok vals
  | (name, p) :: rest, vals =>
      match validatePort vd name bc p (lookup name vals) with
      | some e => .error e
      | none => validatePorts vd bc rest (eraseKey name vals)
end

/-- `Process.on_create`: parse, then validate against the top-level namespace `inputs`; the parsed inputs -/
def construct (vd : Nat → V → Bool) (top : NsA) (ports : PortList) (raw : Items) : Except Err V :=
  match preProcess ports raw with
  | .error e => .error e
  | .ok parsed =>
    match validatePort vd "inputs" [] (.ns top ports) (some (.dict true parsed)) with
    | some e => .error e
    | none => .ok (.dict true parsed)

mutual
/-- `InputPort.__init__`: a default that is not callable is validated when the port is declared
(`ValueError('Invalid default value')` out of `define`) -/
def defineOkPort (vd : Nat → V → Bool) (name : String) : Port → Bool
  | .leaf a =>
      match a.default with
      | some d => a.callable || (validatePort vd name [] (.leaf a) (some d)).isNone
      | none => true
  | .ns _ ports => defineOk vd ports
def defineOk (vd : Nat → V → Bool) : PortList → Bool
  | [] => true
  | (name, p) :: rest => defineOkPort vd name p && defineOk vd rest
end

end Ports
