import PlumpyModel.Ports.SpecOut
import PlumpyModel.Ports.Proof3
/-! Helper lemmas for C12: `get_port` with dynamic creation resolves exactly the names of `resolveRef` and keeps the
spec well formed; the validation step of `out` accepts exactly the conforming values; `store` is nested insertion. -/
namespace Ports

/-! ### well-formedness of the (mutable) output spec -/

theorem hasKey_setKey {α} (k k' : String) (v : α) (l : List (String × α)) :
    hasKey k (setKey k' v l) = (decide (k = k') || hasKey k l) := by
  unfold hasKey; rw [lookup_setKey]; by_cases h : k = k' <;> simp [h]

theorem wfPorts_setKey (k : String) (p : Port) (hp : wfPort p = true) : ∀ (l : PortList), wfPorts l = true →
    wfPorts (setKey k p l) = true
  | [], _ => by simp [setKey, wfPorts, hp, hasKey]
  | (k', p') :: tl, h => by
      simp only [wfPorts, Bool.and_eq_true, Bool.not_eq_true'] at h
      obtain ⟨⟨h1, h2⟩, h3⟩ := h
      by_cases hk : k = k'
      · subst hk; simp [setKey, wfPorts, h1, hp, h3]
      · simp only [setKey, hk, if_false, wfPorts, Bool.and_eq_true, Bool.not_eq_true', hasKey_setKey, h1, h2,
          wfPorts_setKey k p hp tl h3, Bool.or_false, decide_eq_false_iff_not, and_true]
        exact fun e => hk e.symm

theorem wfPort_of_lookup : ∀ (ps : PortList) (k : String) (p : Port), wfPorts ps = true → lookup k ps = some p → wfPort p = true
  | [], _, _, _, h => by cases h
  | (k', p') :: tl, k, p, hwf, h => by
      simp only [wfPorts, Bool.and_eq_true, Bool.not_eq_true'] at hwf
      simp only [lookup_cons] at h
      by_cases hk : k = k'
      · simp only [hk, if_true, Option.some.injEq] at h; subst h; exact hwf.1.2
      · simp only [hk, if_false] at h; exact wfPort_of_lookup tl k p hwf.2 h

theorem wfPorts_of_resolveRef : ∀ (segs : List String) (a : NsA) (ps : PortList) (b : NsA) (qs : PortList),
    wfPorts ps = true → resolveRef a ps segs = some (b, qs) → wfPorts qs = true
  | [], a, ps, b, qs, hwf, h => by simp only [resolveRef, Option.some.injEq, Prod.mk.injEq] at h; rw [← h.2]; exact hwf
  | seg :: rest, a, ps, b, qs, hwf, h => by
      simp only [resolveRef] at h
      split at h
      · cases h
      · split at h
        · rename_i a' sub hl
          have := wfPort_of_lookup ps seg _ hwf hl
          exact wfPorts_of_resolveRef rest a' sub b qs (by simpa [wfPort] using this) h
        · cases h
        · split at h
          · exact wfPorts_of_resolveRef rest a [] b qs (by simp [wfPorts]) h
          · cases h

/-! ### `get_port(create_dynamically=True)` -/

theorem getPort_spec : ∀ (segs : List String) (a : NsA) (ps : PortList), segs ≠ [] → wfPorts ps = true →
    wfPorts (getPort a ps segs).1 = true ∧
    ∀ b qs, (getPort a ps segs).2 = .ok (.ns b qs) ↔ resolveRef a ps segs = some (b, qs)
  | [], _, _, h, _ => absurd rfl h
  | seg :: rest, a, ps, _, hwf => by
      simp only [getPort, resolveRef]
      by_cases hc : seg = "" ∧ rest = []
      · simp [hc, hwf]
      · simp only [hc, if_false]
        -- the common second half, for a port `p` that is (now) there, `ports1` well formed
        have step : ∀ (p : Port) (ports1 : PortList), wfPorts ports1 = true → wfPort p = true →
            wfPorts (getPortStep seg p ports1 rest (fun a' sub => getPort a' sub rest)).1 = true ∧
            ∀ b qs, (getPortStep seg p ports1 rest (fun a' sub => getPort a' sub rest)).2 = .ok (.ns b qs) ↔
              (match p with | .ns a' sub => resolveRef a' sub rest | .leaf _ => none) = some (b, qs) := by
          intro p ports1 hw1 hwp
          cases rest with
          | nil =>
            cases p with
            | leaf l => simp [getPortStep, hw1]
            | ns a' sub => simp [getPortStep, hw1, resolveRef]
          | cons r rs =>
            cases p with
            | leaf l => simp [getPortStep, hw1]
            | ns a' sub =>
              have hws : wfPorts sub = true := by simpa [wfPort] using hwp
              have ih := getPort_spec (r :: rs) a' sub (by simp) hws
              simp only [getPortStep]
              exact ⟨wfPorts_setKey seg _ (by simpa [wfPort] using ih.1) ports1 hw1, ih.2⟩
        cases hl : lookup seg ps with
        | some p =>
          have hwp := wfPort_of_lookup ps seg p hwf hl
          have := step p ps hwf hwp
          cases p with
          | leaf l => simpa using this
          | ns a' sub => simpa using this
        | none =>
          cases hd : a.dynamic with
          | false => simp [hwf]
          | true =>
            simp only [Bool.not_true, Bool.false_eq_true, if_false, if_true]
            have := step (.ns a []) (setKey seg (.ns a []) ps) (wfPorts_setKey seg _ (by simp [wfPort, wfPorts]) ps hwf)
              (by simp [wfPort, wfPorts])
            simpa using this

/-! ### every error of validation is a `PortValidationError` -/

mutual
theorem validateDynamicV_error_class (ty : Nat) (name : String) : ∀ (v : V) (bc : List String) (e : Err),
    validateDynamicV ty name bc v = some e → ∃ p, e = .validation p
  | .atom t i, bc, e, h => by
      simp only [validateDynamicV] at h; split at h
      · cases h
      · cases h; exact ⟨_, rfl⟩
  | .dict true items, bc, e, h => by simp only [validateDynamicV, Option.some.injEq] at h; exact ⟨_, h.symm⟩
  | .dict false items, bc, e, h => by
      simp only [validateDynamicV] at h; exact validateDynamicL_error_class ty name items bc e h
theorem validateDynamicL_error_class (ty : Nat) (name : String) : ∀ (items : Items) (bc : List String) (e : Err),
    validateDynamicL ty name bc items = some e → ∃ p, e = .validation p
  | [], bc, e, h => by simp [validateDynamicL] at h
  | (k, v) :: rest, bc, e, h => by
      simp only [validateDynamicL] at h
      cases hv : validateDynamicV ty name (bc ++ [name, k]) v with
      | some e' => rw [hv] at h; cases h; exact validateDynamicV_error_class ty name v _ e hv
      | none => rw [hv] at h; exact validateDynamicL_error_class ty name rest bc e h
end

theorem validateDynamic_error_class (a : NsA) (name : String) (bc : List String) (rem : Items) (e : Err)
    (h : validateDynamic a name bc rem = some e) : ∃ p, e = .validation p := by
  unfold validateDynamic at h
  split at h
  · cases h; exact ⟨_, rfl⟩
  · split at h
    · cases h
    · exact validateDynamicL_error_class _ _ _ _ _ h

mutual
theorem validatePort_error_class (vd : Nat → V → Bool) : ∀ (p : Port) (name : String) (bc : List String) (val : Option V) (e : Err),
    validatePort vd name bc p val = some e → ∃ q, e = .validation q
  | .leaf a, name, bc, none, e, h => by
      simp only [validatePort] at h; split at h
      · cases h; exact ⟨_, rfl⟩
      · cases h
  | .leaf a, name, bc, some v, e, h => by
      simp only [validatePort] at h
      cases hty : a.validType with
      | none =>
        rw [hty] at h; simp only [Bool.false_eq_true, if_false] at h
        split at h
        · cases h; exact ⟨_, rfl⟩
        · cases h
      | some ty =>
        rw [hty] at h; simp only at h
        split at h
        · cases h; exact ⟨_, rfl⟩
        · split at h
          · cases h; exact ⟨_, rfl⟩
          · cases h
  | .ns a ports, name, bc, val, e, h => by
      simp only [validatePort] at h
      split at h
      · cases h; exact ⟨_, rfl⟩
      · split at h
        · cases h
        · split at h
          · rename_i e' he'; cases h; exact validatePorts_error_class vd ports _ _ e he'
          · split at h
            · rename_i e' he'; cases h; exact validateDynamic_error_class _ _ _ _ e he'
            · split at h
              · cases h; exact ⟨_, rfl⟩
              · cases h
theorem validatePorts_error_class (vd : Nat → V → Bool) : ∀ (ps : PortList) (bc : List String) (vals : Items) (e : Err),
    validatePorts vd bc ps vals = .error e → ∃ q, e = .validation q
  | [], bc, vals, e, h => by simp [validatePorts] at h
  | (name, p) :: rest, bc, vals, e, h => by
      simp only [validatePorts] at h
      cases hp : validatePort vd name bc p (lookup name vals) with
      | some e' => rw [hp] at h; cases h; exact validatePort_error_class vd p name bc _ e hp
      | none => rw [hp] at h; exact validatePorts_error_class vd rest bc _ e h
end

/-! ### the validation step of `out` -/

theorem outValidate_none_iff (vd : Nat → V → Bool) (nsName : String) (b : NsA) (qs : PortList) (hwf : wfPorts qs = true)
    (name : String) (v : V) :
    (outValidate vd nsName b qs name v).2 = none ↔
      (match lookup name qs with
       | some p => ConformsPort vd p (some v)
       | none => b.dynamic = true ∧ ∀ ty, b.validType = some ty → DynOk ty v) := by
  unfold outValidate
  cases hl : lookup name qs with
  | some p => simp only; exact validatePort_none_iff vd p (wfPort_of_lookup qs name p hwf hl) name [] (some v)
  | none =>
    simp only [validateDynamic_none_iff, List.mem_singleton, Prod.mk.injEq]
    constructor
    · intro h; exact h name v ⟨rfl, rfl⟩
    · rintro h k v' ⟨rfl, rfl⟩; exact h

theorem outValidate_dyn (vd : Nat → V → Bool) (nsName : String) (b : NsA) (qs : PortList) (name : String) (v : V) :
    (outValidate vd nsName b qs name v).1 = (lookup name qs).isNone := by
  unfold outValidate; cases lookup name qs <;> rfl

/-! ### storing -/

theorem store_ok_iff (name : String) (v : V) : ∀ (segs : List String) (outputs : Items),
    (∃ o, store outputs segs name v = .ok o) ↔ Storable outputs segs
  | [], outputs => by simp [store, Storable]
  | s :: rest, outputs => by
      simp only [store, Storable]
      cases hl : lookup s outputs with
      | none =>
        have := (store_ok_iff name v rest []).2
        cases hs : store [] rest name v with
        | ok sub => simp
        | error e =>
          simp only [reduceCtorEq, exists_false, iff_true]
          -- storing into the empty mapping always succeeds
          have h0 : ∀ (segs : List String), Storable [] segs := by
            intro segs; cases segs <;> simp [Storable]
          obtain ⟨o, ho⟩ := this (h0 rest); rw [hs] at ho; cases ho
      | some w =>
        cases w with
        | atom t i => cases rest <;> simp
        | dict fr sub =>
          cases fr with
          | true => cases rest <;> simp
          | false =>
            simp only
            rw [← store_ok_iff name v rest sub]
            cases store sub rest name v <;> simp

theorem getPath_none : ∀ (q : List String), getPath none q = none
  | [] => rfl
  | _ :: _ => rfl

theorem getPath_empty (f : Bool) : ∀ (q : List String), q ≠ [] → getPath (some (.dict f [])) q = none
  | [], h => absurd rfl h
  | k :: r, _ => by simp [getPath, getPath_none]

/-- after a successful `store` the value is found at its path -/
theorem store_getPath_self (name : String) (v : V) : ∀ (segs : List String) (outputs o : Items) (f : Bool),
    store outputs segs name v = .ok o → getPath (some (.dict f o)) (segs ++ [name]) = some v
  | [], outputs, o, f, h => by
      simp only [store, Except.ok.injEq] at h; subst h
      simp [getPath, lookup_setKey_self]
  | s :: rest, outputs, o, f, h => by
      simp only [store] at h
      simp only [List.cons_append, getPath]
      cases hl : lookup s outputs with
      | none =>
        rw [hl] at h
        cases hs : store [] rest name v with
        | error e => simp [hs] at h
        | ok sub =>
          simp only [hs, Except.ok.injEq] at h; subst h
          rw [lookup_setKey_self]; exact store_getPath_self name v rest [] sub false hs
      | some w =>
        rw [hl] at h
        cases w with
        | atom t i => cases rest <;> simp at h
        | dict fr sub =>
          cases fr with
          | true => cases rest <;> simp at h
          | false =>
          cases hs : store sub rest name v with
          | error e => simp [hs] at h
          | ok sub' =>
            simp only [hs, Except.ok.injEq] at h; subst h
            rw [lookup_setKey_self]; exact store_getPath_self name v rest sub sub' false hs

/-- a successful `store` changes nothing at any path that is neither above nor below the place it writes -/
theorem store_getPath_other (name : String) (v : V) : ∀ (segs : List String) (outputs o : Items) (f : Bool) (q : List String),
    store outputs segs name v = .ok o → ¬ q <+: segs ++ [name] → ¬ (segs ++ [name]) <+: q →
    getPath (some (.dict f o)) q = getPath (some (.dict f outputs)) q
  | _, _, _, _, [], _, h1, _ => absurd List.nil_prefix h1
  | [], outputs, o, f, k :: q', h, _, h2 => by
      simp only [store, Except.ok.injEq] at h; subst h
      simp only [getPath]
      by_cases hk : k = name
      · subst hk; exact absurd (by simp) h2
      · rw [lookup_setKey_ne hk]
  | s :: rest, outputs, o, f, k :: q', h, h1, h2 => by
      simp only [store] at h
      simp only [getPath]
      by_cases hk : k = s
      · subst hk
        have h1' : ¬ q' <+: rest ++ [name] := fun e => h1 (by simpa using e)
        have h2' : ¬ (rest ++ [name]) <+: q' := fun e => h2 (by simpa using e)
        have hq : q' ≠ [] := fun e => h1' (by simp [e])
        cases hl : lookup k outputs with
        | none =>
          rw [hl] at h
          cases hs : store [] rest name v with
          | error e => simp [hs] at h
          | ok sub =>
            simp only [hs, Except.ok.injEq] at h; subst h
            rw [lookup_setKey_self, getPath_none, store_getPath_other name v rest [] sub false q' hs h1' h2', getPath_empty _ _ hq]
        | some w =>
          rw [hl] at h
          cases w with
          | atom t i => cases rest <;> simp at h
          | dict fr sub =>
            cases fr with
            | true => cases rest <;> simp at h
            | false =>
            cases hs : store sub rest name v with
            | error e => simp [hs] at h
            | ok sub' =>
              simp only [hs, Except.ok.injEq] at h; subst h
              rw [lookup_setKey_self]; exact store_getPath_other name v rest sub sub' false q' hs h1' h2'
      · have : lookup k o = lookup k outputs := by
          cases hl : lookup s outputs with
          | none =>
            rw [hl] at h
            cases hs : store [] rest name v with
            | error e => simp [hs] at h
            | ok sub => simp only [hs, Except.ok.injEq] at h; subst h; exact lookup_setKey_ne hk _ _
          | some w =>
            rw [hl] at h
            cases w with
            | atom t i => cases rest <;> simp at h
            | dict fr sub =>
              cases fr with
              | true => cases rest <;> simp at h
              | false =>
              cases hs : store sub rest name v with
              | error e => simp [hs] at h
              | ok sub' => simp only [hs, Except.ok.injEq] at h; subst h; exact lookup_setKey_ne hk _ _
        rw [this]

end Ports

namespace Ports

/-! ### `out`, by cases -/

theorem resolveNs_spec (st : OutSt) (hwf : wfPorts st.ports = true) (segs : List String) :
    wfPorts (resolveNs st segs).1 = true ∧
    ∀ b qs, (resolveNs st segs).2 = .ok (.ns b qs) ↔ resolveRef st.top st.ports segs = some (b, qs) := by
  cases segs with
  | nil => simp [resolveNs, resolveRef, hwf, eq_comm]
  | cons s rest => simpa [resolveNs] using getPort_spec (s :: rest) st.top st.ports (by simp) hwf

/-- what the spec says about the last name of the path inside the resolved namespace `(b, qs)` -/
def LastOk (vd : Nat → V → Bool) (b : NsA) (qs : PortList) (name : String) (v : V) : Prop :=
  match lookup name qs with
  | some p => ConformsPort vd p (some v)
  | none => b.dynamic = true ∧ ∀ ty, b.validType = some ty → DynOk ty v

theorem store_error_class (name : String) (v : V) : ∀ (segs : List String) (outputs : Items) (e : Err),
    store outputs segs name v = .error e → e = .typeError ∨ e = .attributeError
  | [], outputs, e, h => by simp [store] at h
  | s :: rest, outputs, e, h => by
      simp only [store] at h
      cases hl : lookup s outputs with
      | none =>
        rw [hl] at h
        cases hs : store [] rest name v with
        | ok sub => simp [hs] at h
        | error e' => simp only [hs, Except.error.injEq] at h; subst h; exact store_error_class name v rest [] e' hs
      | some w =>
        rw [hl] at h
        cases w with
        | atom t i => cases rest <;> simp at h <;> simp [← h]
        | dict fr sub =>
          cases fr with
          | true => cases rest <;> simp at h <;> simp [← h]
          | false =>
          cases hs : store sub rest name v with
          | ok sub' => simp [hs] at h
          | error e' => simp only [hs, Except.error.injEq] at h; subst h; exact store_error_class name v rest sub e' hs

/-- why `store` fails, exactly: walking the namespace part of the path it meets, at a non-empty prefix `q`, a value `w` that
is not a plain dict (an atom or an immutable mapping); `TypeError` when `w` sits exactly where the entry is to be assigned
(`w[name] = value`), `AttributeError` when path segments remain below it (`w.setdefault(...)`) -/
theorem store_error_exact (name : String) (v : V) : ∀ (segs : List String) (outputs : Items) (e : Err),
    store outputs segs name v = .error e →
    ∃ q w rest, segs = q ++ rest ∧ q ≠ [] ∧ getPath (some (.dict false outputs)) q = some w ∧ w.isDict = false ∧
      e = (if rest = [] then .typeError else .attributeError)
  | [], outputs, e, h => by simp [store] at h
  | s :: rest, outputs, e, h => by
      simp only [store] at h
      cases hl : lookup s outputs with
      | none =>
        rw [hl] at h
        cases hs : store [] rest name v with
        | ok sub => simp [hs] at h
        | error e' =>
          obtain ⟨q, w, r, _, hq, hg, _⟩ := store_error_exact name v rest [] e' hs
          rw [getPath_empty false q hq] at hg; cases hg
      | some w =>
        rw [hl] at h
        have here : ∀ e', (match rest with | [] => Except.error Err.typeError | _ :: _ => Except.error Err.attributeError : Except Err Items) = .error e' →
            w.isDict = false → ∃ q w' r, s :: rest = q ++ r ∧ q ≠ [] ∧ getPath (some (.dict false outputs)) q = some w' ∧ w'.isDict = false ∧
              e' = (if r = [] then .typeError else .attributeError) := by
          intro e' he hw
          refine ⟨[s], w, rest, rfl, by simp, by simp [getPath, hl], hw, ?_⟩
          cases rest <;> simp at he <;> simp [← he]
        cases w with
        | atom t i => exact here e h rfl
        | dict fr sub =>
          cases fr with
          | true => exact here e h rfl
          | false =>
            cases hs : store sub rest name v with
            | ok sub' => simp [hs] at h
            | error e' =>
              simp only [hs, Except.error.injEq] at h; subst h
              obtain ⟨q, w, r, h1, _, h3, h4, h5⟩ := store_error_exact name v rest sub e' hs
              exact ⟨s :: q, w, r, by rw [h1]; rfl, by simp, by simpa [getPath, hl] using h3, h4, h5⟩

/-- a value that is not a plain dict, found on the way (at a prefix of the namespace part of the path), makes `store` fail -/
theorem store_blocked (name : String) (v : V) : ∀ (segs : List String) (outputs : Items) (q : List String) (w : V),
    q <+: segs → getPath (some (.dict false outputs)) q = some w → w.isDict = false → ∃ e, store outputs segs name v = .error e
  | segs, outputs, [], w, _, hg, hw => by simp only [getPath, Option.some.injEq] at hg; subst hg; simp [V.isDict] at hw
  | [], outputs, k :: q', w, hp, _, _ => by simp at hp
  | s :: rest, outputs, k :: q', w, hp, hg, hw => by
      have hks : k = s ∧ q' <+: rest := by simpa using hp
      obtain ⟨rfl, hp'⟩ := hks
      simp only [getPath] at hg
      simp only [store]
      cases hl : lookup k outputs with
      | none => rw [hl, getPath_none] at hg; cases hg
      | some u =>
        rw [hl] at hg
        cases u with
        | atom t i => cases rest <;> simp
        | dict fr sub =>
          cases fr with
          | true => cases rest <;> simp
          | false =>
            obtain ⟨e, he⟩ := store_blocked name v rest sub q' w hp' hg hw
            simp [he]

/-- complete description of one `out` call -/
theorem out_master (vd : Nat → V → Bool) (st : OutSt) (hwf : wfPorts st.ports = true) (path : List String) (v : V) :
    wfPorts (out vd st path v).1.ports = true ∧ (out vd st path v).1.top = st.top ∧
    (match (out vd st path v).2 with
     | .ok d => ∃ b qs, resolveRef st.top st.ports path.dropLast = some (b, qs) ∧ LastOk vd b qs (path.getLastD "") v ∧
          d = (lookup (path.getLastD "") qs).isNone ∧
          store st.outputs path.dropLast (path.getLastD "") v = .ok (out vd st path v).1.outputs ∧
          (out vd st path v).1.emitted = (path, v, d) :: st.emitted
     | .error e => (out vd st path v).1.outputs = st.outputs ∧ (out vd st path v).1.emitted = st.emitted ∧
          ∀ b qs, resolveRef st.top st.ports path.dropLast = some (b, qs) →
            (¬ LastOk vd b qs (path.getLastD "") v ∧ ∃ p, e = .validation p) ∨
            (LastOk vd b qs (path.getLastD "") v ∧ ¬ Storable st.outputs path.dropLast ∧ (e = .typeError ∨ e = .attributeError) ∧
              store st.outputs path.dropLast (path.getLastD "") v = .error e)) := by
  obtain ⟨hw1, hres⟩ := resolveNs_spec st hwf path.dropLast
  unfold out
  simp only
  cases hr : (resolveNs st path.dropLast).2 with
  | error e =>
    refine ⟨hw1, rfl, rfl, rfl, ?_⟩
    intro b qs hq; have := (hres b qs).2 hq; rw [hr] at this; cases this
  | ok p =>
    cases p with
    | leaf l =>
      refine ⟨hw1, rfl, rfl, rfl, ?_⟩
      intro b qs hq; have := (hres b qs).2 hq; rw [hr] at this; cases this
    | ns a sub =>
      have hq : resolveRef st.top st.ports path.dropLast = some (a, sub) := (hres a sub).1 hr
      have hwsub := wfPorts_of_resolveRef _ _ _ _ _ hwf hq
      have hval := outValidate_none_iff vd (path.dropLast.getLastD "outputs") a sub hwsub (path.getLastD "") v
      have hdyn := outValidate_dyn vd (path.dropLast.getLastD "outputs") a sub (path.getLastD "") v
      simp only
      cases hv : (outValidate vd (path.dropLast.getLastD "outputs") a sub (path.getLastD "") v).2 with
      | some e =>
        refine ⟨hw1, rfl, rfl, rfl, ?_⟩
        intro b qs hq'; rw [hq] at hq'; cases hq'
        left
        refine ⟨fun h => ?_, ?_⟩
        · have := hval.2 h; rw [hv] at this; cases this
        · -- every error of the validation step is a validation error
          unfold outValidate at hv
          cases hl : lookup (path.getLastD "") sub with
          | some p' =>
            rw [hl] at hv; simp only at hv
            exact validatePort_error_class vd p' _ _ _ e hv
          | none =>
            rw [hl] at hv; simp only at hv
            exact validateDynamic_error_class a _ _ _ e hv
      | none =>
        have hlast : LastOk vd a sub (path.getLastD "") v := hval.1 hv
        cases hs : store st.outputs path.dropLast (path.getLastD "") v with
        | error e =>
          refine ⟨hw1, rfl, rfl, rfl, ?_⟩
          intro b qs hq'; rw [hq] at hq'; cases hq'
          right
          refine ⟨hlast, fun hst => ?_, store_error_class _ _ _ _ _ hs, rfl⟩
          obtain ⟨o, ho⟩ := (store_ok_iff (path.getLastD "") v path.dropLast st.outputs).2 hst
          rw [hs] at ho; cases ho
        | ok o =>
          exact ⟨hw1, rfl, a, sub, hq, hlast, hdyn, rfl, rfl⟩

/-! ### whole runs -/

theorem dropLast_append_getLastD : ∀ (l : List String), l ≠ [] → l.dropLast ++ [l.getLastD ""] = l
  | [], h => absurd rfl h
  | [a], _ => rfl
  | a :: b :: t, _ => by
      have := dropLast_append_getLastD (b :: t) (by simp)
      simp only [List.dropLast_cons_cons, List.cons_append, List.getLastD_cons] at this ⊢
      rw [this]

theorem replay_append (o : Items) : ∀ (l l' : List (List String × V × Bool)), replay o (l ++ l') = replay (replay o l) l'
  | [], l' => rfl
  | (path, v, d) :: l, l' => by
      simp only [List.cons_append, replay]
      cases store o path.dropLast (path.getLastD "") v <;> exact replay_append _ l l'

theorem outs_master (vd : Nat → V → Bool) : ∀ (ems : List (List String × V)) (st : OutSt), wfPorts st.ports = true →
    wfPorts (outs vd st ems).1.ports = true ∧ (outs vd st ems).1.top = st.top ∧
    (outs vd st ems).1.emitted.reverse = st.emitted.reverse ++ accepted ems (outs vd st ems).2 ∧
    (st.outputs = replay [] st.emitted.reverse →
      (outs vd st ems).1.outputs = replay [] (outs vd st ems).1.emitted.reverse)
  | [], st, hwf => by simp [outs, accepted, hwf]
  | (path, v) :: rest, st, hwf => by
      obtain ⟨hw1, ht1, hm⟩ := out_master vd st hwf path v
      obtain ⟨ihw, iht, ihe, iho⟩ := outs_master vd rest (out vd st path v).1 hw1
      simp only [outs]
      refine ⟨ihw, iht.trans ht1, ?_, ?_⟩
      · rw [ihe]
        cases hr : (out vd st path v).2 with
        | ok d =>
          rw [hr] at hm; obtain ⟨_, _, _, _, _, _, h5⟩ := hm
          simp [accepted, h5]
        | error e =>
          rw [hr] at hm
          simp [accepted, hm.2.1]
      · intro hinv
        apply iho
        cases hr : (out vd st path v).2 with
        | ok d =>
          rw [hr] at hm; obtain ⟨_, _, _, _, _, h4, h5⟩ := hm
          rw [h5, List.reverse_cons, replay_append, ← hinv]
          simp only [replay, h4]
        | error e =>
          rw [hr] at hm
          rw [hm.1, hm.2.1]; exact hinv

end Ports
