import PlumpyModel.Ports.Out
import PlumpyModel.Ports.Spec
/-!
# Ports, output side: the declarative side of C12

* `resolveRef` — the namespace a dotted name denotes in the output spec *as it is* (no creation): declared
  namespaces are entered; a name that is not declared inside a dynamic namespace denotes an empty namespace with the
  attributes of that dynamic namespace; nothing else resolves (through a leaf port, undeclared in a non-dynamic
  namespace, an empty last name).
* `AcceptsOut` — the output spec accepts `(path, value)`.
* `Storable` — no emitted value that is not a plain `dict` (an atom, or an immutable mapping such as an
  `AttributesFrozendict`) sits on the way to the place where the value is to be stored.
-/
namespace Ports

def resolveRef (a : NsA) (ps : PortList) : List String → Option (NsA × PortList)
  | [] => some (a, ps)
  | seg :: rest =>
      if seg = "" ∧ rest = [] then none
      else match lookup seg ps with
        | some (.ns a' sub) => resolveRef a' sub rest
        | some (.leaf _) => none
        | none => if a.dynamic then resolveRef a [] rest else none

/-- the output spec `(top, ports)` accepts the value for the dotted port name `path`: the namespace part resolves, and
either the last name is a declared port there and the value conforms to it, or it is not declared, the namespace is
dynamic and the value is of its type (at any depth) -/
def AcceptsOut (vd : Nat → V → Bool) (top : NsA) (ports : PortList) (path : List String) (v : V) : Prop :=
  ∃ b qs, resolveRef top ports path.dropLast = some (b, qs) ∧
    match lookup (path.getLastD "") qs with
    | some p => ConformsPort vd p (some v)
    | none => b.dynamic = true ∧ ∀ ty, b.validType = some ty → DynOk ty v

/-- whether the accepted emission is reported as dynamic: the last name is not a declared port of the resolved namespace -/
def IsDynamicOut (top : NsA) (ports : PortList) (path : List String) (d : Bool) : Prop :=
  ∃ b qs, resolveRef top ports path.dropLast = some (b, qs) ∧ d = (lookup (path.getLastD "") qs).isNone

def Storable (outputs : Items) : List String → Prop
  | [] => True
  | s :: rest =>
      match lookup s outputs with
      | none => True
      | some (.dict false sub) => Storable sub rest
      | some (.dict true _) => False           -- an immutable mapping is a value: nothing can be stored below it
      | some (.atom _ _) => False

/-- a plain `dict` — the only kind of value the storage loop of `out` enters (`setdefault` / item assignment) -/
def V.isDict : V → Bool
  | .dict false _ => true
  | _ => false

/-- re-insert a list of listener notifications `(path, value, dynamic)`, oldest first -/
def replay (outputs : Items) : List (List String × V × Bool) → Items
  | [] => outputs
  | (path, v, _) :: rest =>
      match store outputs path.dropLast (path.getLastD "") v with
      | .ok o => replay o rest
      | .error _ => replay outputs rest

/-- the emissions whose `out` call returned, with the flag it returned, in call order -/
def accepted : List (List String × V) → List (Except Err Bool) → List (List String × V × Bool)
  | (path, v) :: ems, .ok d :: rs => (path, v, d) :: accepted ems rs
  | _ :: ems, .error _ :: rs => accepted ems rs
  | _, _ => []

end Ports
