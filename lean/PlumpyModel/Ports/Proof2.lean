import PlumpyModel.Ports.Proof1
/-! `validate` accepts exactly the conforming values (the popping / cloning / early-return discipline of
`PortNamespace.validate` implements the declarative rule). -/
namespace Ports

theorem nsItems_eq_mappingOf (val : Option V) : nsItems val = mappingOf val := by
  match val with
  | none => rfl
  | some (.dict _ _) => rfl
  | some (.atom 0 0) => rfl
  | some (.atom 3 _) => rfl
  | some (.atom 0 (i+1)) => simp [nsItems, mappingOf, V.falsy]
  | some (.atom 1 i) => simp [nsItems, mappingOf, V.falsy]
  | some (.atom 2 i) => simp [nsItems, mappingOf, V.falsy]
  | some (.atom (t+4) i) => simp [nsItems, mappingOf, V.falsy]

theorem hasKey_cons {α} (k k' : String) (v : α) (l : List (String × α)) :
    hasKey k ((k', v) :: l) = false ↔ k ≠ k' ∧ hasKey k l = false := by
  unfold hasKey; simp only [lookup_cons]; by_cases h : k = k' <;> simp [h]

/-- what `validate_ports` leaves: the entries whose key is not a declared port -/
theorem validatePorts_rem (vd : Nat → V → Bool) (bc : List String) : ∀ (ps : PortList) (vals rem : Items),
    validatePorts vd bc ps vals = .ok rem → ∀ kv, kv ∈ rem ↔ kv ∈ vals ∧ lookup kv.1 ps = none
  | [], vals, rem, h => by
      simp only [validatePorts] at h; cases h; intro kv; simp
  | (name, p) :: rest, vals, rem, h => by
      simp only [validatePorts] at h
      cases hp : validatePort vd name bc p (lookup name vals) with
      | some e => rw [hp] at h; cases h
      | none =>
        rw [hp] at h
        intro kv
        rw [validatePorts_rem vd bc rest _ rem h kv, mem_eraseKey, lookup_cons]
        by_cases hk : kv.1 = name <;> simp [hk]

theorem ConformsPorts_eraseKey (vd : Nat → V → Bool) (k : String) : ∀ (rest : PortList) (items : Items),
    hasKey k rest = false → (ConformsPorts vd rest (eraseKey k items) ↔ ConformsPorts vd rest items)
  | [], items, _ => by simp [ConformsPorts]
  | (k', p) :: rest, items, h => by
      obtain ⟨h1, h2⟩ := (hasKey_cons k k' p rest).1 h
      simp only [ConformsPorts, lookup_eraseKey_ne (Ne.symm h1), ConformsPorts_eraseKey vd k rest items h2]

theorem validateDynamic_none_iff (a : NsA) (name : String) (bc : List String) (rem : Items) :
    validateDynamic a name bc rem = none ↔
      (∀ k v, (k, v) ∈ rem → a.dynamic = true ∧ ∀ ty, a.validType = some ty → DynOk ty v) := by
  unfold validateDynamic
  by_cases h : (!rem.isEmpty && !a.dynamic) = true
  · simp only [h, if_true, reduceCtorEq, false_iff]
    intro hall
    simp only [Bool.and_eq_true, Bool.not_eq_true', List.isEmpty_eq_false_iff] at h
    obtain ⟨hne, hd⟩ := h
    match rem, hne with
    | (k, v) :: _, _ => have := (hall k v (List.mem_cons_self)).1; simp_all
  · simp only [h]
    have hd : rem = [] ∨ a.dynamic = true := by
      cases rem with
      | nil => exact Or.inl rfl
      | cons hd tl => right; simpa using h
    cases hty : a.validType with
    | none =>
      simp only [true_iff, Bool.false_eq_true, if_false]
      intro k v hm
      refine ⟨?_, fun ty h => by cases h⟩
      rcases hd with hd | hd
      · subst hd; cases hm
      · exact hd
    | some ty =>
      simp only [Bool.false_eq_true, if_false, validateDynamicL_none_iff, DynOkL_iff]
      constructor
      · intro hall k v hm
        refine ⟨?_, fun ty' h => by cases h; exact hall k v hm⟩
        rcases hd with hd | hd
        · subst hd; cases hm
        · exact hd
      · intro hall k v hm; exact (hall k v hm).2 ty rfl

mutual
theorem validatePort_none_iff (vd : Nat → V → Bool) : ∀ (p : Port), wfPort p = true → ∀ (name : String) (bc : List String)
    (val : Option V), validatePort vd name bc p val = none ↔ ConformsPort vd p val
  | .leaf a, _, name, bc, none => by
      obtain ⟨req, ty, d, c, vdn⟩ := a
      simp only [validatePort, ConformsPort, LeafA.req]
      cases req <;> cases d <;> simp
  | .leaf a, _, name, bc, some v => by
      simp only [validatePort, ConformsPort]
      cases hty : a.validType with
      | none => cases hr : rejects vd a.validator v <;> simp
      | some ty => cases hi : isInstance v ty <;> cases hr : rejects vd a.validator v <;> simp
  | .ns a ports, hwf, name, bc, val => by
      have hwf' : wfPorts ports = true := by simpa [wfPort] using hwf
      simp only [validatePort, ConformsPort, nsItems_eq_mappingOf]
      cases hm : mappingOf val with
      | none => simp
      | some items =>
        simp only [Option.some.injEq, exists_eq_left']
        by_cases hc : (items.isEmpty && !a.required) = true
        · simp only [hc, if_true, true_iff]
          left
          simp only [Bool.and_eq_true, List.isEmpty_iff, Bool.not_eq_true'] at hc
          exact hc
        · simp only [hc, Bool.false_eq_true, if_false]
          have hleft : ¬ (items = [] ∧ a.required = false) := by
            intro ⟨h1, h2⟩; apply hc; simp [h1, h2]
          have hB := validatePorts_ok_iff vd ports hwf' (bc ++ [name]) items
          cases hvp : validatePorts vd (bc ++ [name]) ports items with
          | error e =>
            simp only [reduceCtorEq, false_iff]
            rintro (h | ⟨h, _⟩)
            · exact hleft h
            · have := hB.2 h; rw [hvp] at this; obtain ⟨_, h'⟩ := this; cases h'
          | ok rem =>
            have hC : ConformsPorts vd ports items := hB.1 ⟨rem, hvp⟩
            have hrem := validatePorts_rem vd (bc ++ [name]) ports items rem hvp
            have hdyn := validateDynamic_none_iff a name bc rem
            have hund : (∀ k v, (k, v) ∈ rem → a.dynamic = true ∧ ∀ ty, a.validType = some ty → DynOk ty v) ↔
                (∀ k v, (k, v) ∈ items → lookup k ports = none → a.dynamic = true ∧ ∀ ty, a.validType = some ty → DynOk ty v) := by
              constructor
              · intro h k v hm hl; exact h k v ((hrem (k, v)).2 ⟨hm, hl⟩)
              · intro h k v hm; have := (hrem (k, v)).1 hm; exact h k v this.1 this.2
            simp only
            cases hd : validateDynamic a name bc rem with
            | some e =>
              simp only [reduceCtorEq, false_iff]
              rintro (h | ⟨_, h, _⟩)
              · exact hleft h
              · have := hdyn.2 (hund.2 h); rw [hd] at this; cases this
            | none =>
              have hU := hund.1 (hdyn.1 hd)
              cases hr : rejects vd a.validator (.dict false items) with
              | true =>
                simp only [if_true, reduceCtorEq, false_iff]
                rintro (h | ⟨_, _, h⟩)
                · exact hleft h
                · cases h
              | false =>
                simp only [Bool.false_eq_true, if_false, true_iff]
                exact Or.inr ⟨hC, hU, trivial⟩
theorem validatePorts_ok_iff (vd : Nat → V → Bool) : ∀ (ps : PortList), wfPorts ps = true → ∀ (bc : List String) (vals : Items),
    (∃ rem, validatePorts vd bc ps vals = .ok rem) ↔ ConformsPorts vd ps vals
  | [], _, bc, vals => by simp [validatePorts, ConformsPorts]
  | (name, p) :: rest, hwf, bc, vals => by
      simp only [wfPorts, Bool.and_eq_true, Bool.not_eq_true'] at hwf
      obtain ⟨⟨h1, h2⟩, h3⟩ := hwf
      have hA := validatePort_none_iff vd p h2 name bc (lookup name vals)
      have hB := validatePorts_ok_iff vd rest h3 bc (eraseKey name vals)
      simp only [validatePorts, ConformsPorts]
      cases hp : validatePort vd name bc p (lookup name vals) with
      | some e =>
        simp only [reduceCtorEq, exists_false, false_iff]
        intro ⟨h, _⟩; have := hA.2 h; rw [hp] at this; cases this
      | none =>
        simp only [hB, ConformsPorts_eraseKey vd name rest vals h1]
        exact ⟨fun h => ⟨hA.1 hp, h⟩, fun h => h.2⟩
end

end Ports
