import PlumpyModel.Ports.Proof3
/-! Acceptance does not depend on which completion is looked at (given validators that cannot tell two completions of
the same inputs apart), and a completion exists exactly when `pre_process` does not raise. -/
namespace Ports

/-- validators cannot tell two completions of the same supplied mapping apart (they may differ in the order of keys only) -/
def VdStable (vd : Nat → V → Bool) : Prop :=
  ∀ n ports sup items1 items2, DefaultsExact ports sup items1 → DefaultsExact ports sup items2 →
    vd n (.dict false items1) = vd n (.dict false items2)

theorem DefaultsPort_none : ∀ (p : Port) (sup r2 : Option V), DefaultsPort p sup none → DefaultsPort p sup r2 → r2 = none
  | .leaf a, sup, r2, h1, h2 => by simp only [DefaultsPort] at h1 h2; rw [h2, ← h1]
  | .ns a ports, sup, r2, h1, h2 => by
      simp only [DefaultsPort] at h1 h2
      match sup, h1, h2 with
      | some (.atom _ _), h1, _ => exact h1.elim
      | some (.dict _ _), ⟨_, h, _⟩, _ => cases h
      | none, h1, h2 =>
        simp only at h1 h2
        cases hpop : a.populate with
        | false => simp only [hpop, if_true] at h2; exact h2
        | true =>
          simp only [hpop, Bool.true_eq_false, if_false] at h1 h2
          cases hd : a.default with
          | some d =>
            cases d with
            | atom t i => simp [hd] at h1
            | dict fr dd => simp only [hd] at h1; obtain ⟨_, h, _⟩ := h1; cases h
          | none =>
            simp only [hd] at h1 h2
            by_cases hq : ports = []
            · rw [if_pos hq] at h2; exact h2
            · rw [if_neg hq] at h1; obtain ⟨_, h, _⟩ := h1; cases h

/-- two completions of the same mapping are empty together -/
theorem completion_nil (ports : PortList) (items i1 i2 : Items) (h1 : DefaultsExact ports items i1)
    (h2 : DefaultsExact ports items i2) (he : i1 = []) : i2 = [] := by
  subst he
  apply List.eq_nil_iff_forall_not_mem.2
  rintro ⟨k, v⟩ hm
  cases hp : lookup k ports with
  | none =>
    have := (h1.2.2 (k, v) hp).2 ((h2.2.2 (k, v) hp).1 hm); cases this
  | some p =>
    have d1 := DefaultsPorts_lookup ports items [] k p h1.1 hp
    have d2 := DefaultsPorts_lookup ports items i2 k p h2.1 hp
    have := DefaultsPort_none p _ _ d1 d2
    have hs := lookup_isSome_of_mem hm
    rw [this] at hs; cases hs

mutual
theorem ConformsPort_transfer (vd : Nat → V → Bool) (H : VdStable vd) : ∀ (p : Port) (sup r1 r2 : Option V),
    DefaultsPort p sup r1 → DefaultsPort p sup r2 → ConformsPort vd p r1 → ConformsPort vd p r2
  | .leaf a, sup, r1, r2, h1, h2, hc => by
      simp only [DefaultsPort] at h1 h2; rw [h2, ← h1]; exact hc
  | .ns a ports, sup, r1, r2, h1, h2, hc => by
      -- the common part: both results are completions of the same mapping `items`
      have key : ∀ items i1 i2, r1 = some (.dict true i1) → r2 = some (.dict true i2) →
          DefaultsExact ports items i1 → DefaultsExact ports items i2 → ConformsPort vd (.ns a ports) r2 := by
        intro items i1 i2 e1 e2 d1 d2
        subst e1 e2
        simp only [ConformsPort, mappingOf, Option.some.injEq, exists_eq_left'] at hc ⊢
        rcases hc with ⟨he, hr⟩ | ⟨hp, hu, hv⟩
        · exact Or.inl ⟨completion_nil ports items i1 i2 d1 d2 he, hr⟩
        · refine Or.inr ⟨ConformsPorts_transfer vd H ports items i1 i2 d1.1 d2.1 hp, ?_, ?_⟩
          · intro k v hm hl
            exact hu k v ((d1.2.2 (k, v) hl).2 ((d2.2.2 (k, v) hl).1 hm)) hl
          · unfold rejects at hv ⊢
            cases hval : a.validator with
            | none => rfl
            | some n => rw [hval] at hv; simp only at hv ⊢; rw [← H n ports items i1 i2 d1 d2]; exact hv
      simp only [DefaultsPort] at h1 h2
      match sup, h1, h2 with
      | some (.atom _ _), h1, _ => exact h1.elim
      | some (.dict _ items), ⟨i1, e1, d1, u1⟩, ⟨i2, e2, d2, u2⟩ => exact key items i1 i2 e1 e2 ⟨d1, u1⟩ ⟨d2, u2⟩
      | none, h1, h2 =>
        simp only at h1 h2
        cases hpop : a.populate with
        | false => simp only [hpop, if_true] at h1 h2; rw [h2, ← h1]; exact hc
        | true =>
          simp only [hpop, Bool.true_eq_false, if_false] at h1 h2
          cases hd : a.default with
          | some d =>
            cases d with
            | atom t i => simp [hd] at h1
            | dict fr dd =>
              simp only [hd] at h1 h2
              obtain ⟨i1, e1, d1, u1⟩ := h1; obtain ⟨i2, e2, d2, u2⟩ := h2
              exact key _ i1 i2 e1 e2 ⟨d1, u1⟩ ⟨d2, u2⟩
          | none =>
            simp only [hd] at h1 h2
            by_cases hq : ports = []
            · rw [if_pos hq] at h1 h2; rw [h2, ← h1]; exact hc
            · rw [if_neg hq] at h1 h2
              obtain ⟨i1, e1, d1, u1⟩ := h1; obtain ⟨i2, e2, d2, u2⟩ := h2
              exact key _ i1 i2 e1 e2 ⟨d1, u1⟩ ⟨d2, u2⟩
theorem ConformsPorts_transfer (vd : Nat → V → Bool) (H : VdStable vd) : ∀ (ps : PortList) (vals o1 o2 : Items),
    DefaultsPorts ps vals o1 → DefaultsPorts ps vals o2 → ConformsPorts vd ps o1 → ConformsPorts vd ps o2
  | [], _, _, _, _, _, _ => by simp [ConformsPorts]
  | (k, p) :: rest, vals, o1, o2, h1, h2, hc => by
      simp only [DefaultsPorts] at h1 h2
      simp only [ConformsPorts] at hc ⊢
      exact ⟨ConformsPort_transfer vd H p _ _ _ h1.1 h2.1 hc.1, ConformsPorts_transfer vd H rest vals o1 o2 h1.2 h2.2 hc.2⟩
end

mutual
/-- `pre_process` raises only when no completion exists -/
theorem preProcessPort_total : ∀ (p : Port), wfPort p = true → ∀ (name : String) (vals : Items) (r : Option V),
    DefaultsPort p (lookup name vals) r → ∃ vals', preProcessPort name p vals = .ok vals'
  | .leaf a, _, name, vals, r, _ => by
      simp only [preProcessPort]
      cases lookup name vals with
      | some v => exact ⟨_, rfl⟩
      | none => cases a.default <;> exact ⟨_, rfl⟩
  | .ns a ports, hwf, name, vals, r, h => by
      have hwf' : wfPorts ports = true := by simpa [wfPort] using hwf
      have go : ∀ items items', DefaultsPorts ports items items' →
          ∃ vals', (match preProcess ports items with
            | .ok items' => (Except.ok (setKey name (V.dict true items') vals) : Except Err Items)
            | .error e => .error e) = .ok vals' := by
        intro items items' hd
        obtain ⟨o, ho⟩ := preProcess_total ports hwf' items items' hd
        rw [ho]; exact ⟨_, rfl⟩
      simp only [preProcessPort]
      simp only [DefaultsPort] at h
      match hl : lookup name vals, h with
      | some (.atom _ _), h => exact h.elim
      | some (.dict _ items), ⟨i', _, d, _⟩ => simp only [nsStart]; exact go items i' d
      | none, h =>
        simp only [nsStart]
        simp only at h
        cases hpop : a.populate with
        | false => simp
        | true =>
          simp only [hpop, Bool.true_eq_false, if_false] at h
          simp only [Bool.not_true, Bool.false_eq_true, if_false]
          match hd : a.default, h with
          | some (.atom _ _), h => exact h.elim
          | some (.dict _ d), ⟨i', _, dd, _⟩ => simp only; exact go d i' dd
          | none, h =>
            simp only at h ⊢
            cases ports with
            | nil => simp
            | cons hd' tl =>
              simp only [reduceCtorEq, if_false] at h
              obtain ⟨i', _, dd, _⟩ := h
              simp only [List.isEmpty_cons, Bool.not_false, if_true]
              exact go [] i' dd
theorem preProcess_total : ∀ (ps : PortList), wfPorts ps = true → ∀ (vals out : Items),
    DefaultsPorts ps vals out → ∃ out', preProcess ps vals = .ok out'
  | [], _, vals, _, _ => ⟨vals, rfl⟩
  | (name, p) :: rest, hwf, vals, out, h => by
      simp only [wfPorts, Bool.and_eq_true, Bool.not_eq_true'] at hwf
      obtain ⟨⟨h1, h2⟩, h3⟩ := hwf
      simp only [DefaultsPorts] at h
      obtain ⟨vals', hv⟩ := preProcessPort_total p h2 name vals _ h.1
      obtain ⟨hA1, _, _⟩ := preProcessPort_spec p h2 name vals vals' hv
      have hne : ∀ k, hasKey k rest = true → k ≠ name := by
        intro k hk e; subst e; rw [h1] at hk; cases hk
      have h' : DefaultsPorts rest vals' out :=
        (DefaultsPorts_congr rest vals vals' out (fun k hk => hA1 k (hne k hk))).2 h.2
      obtain ⟨o, ho⟩ := preProcess_total rest h3 vals' out h'
      simp only [preProcess, hv]; exact ⟨o, ho⟩
end

theorem construct_ok_iff (vd : Nat → V → Bool) (top : NsA) (ports : PortList) (raw : Items) (parsed : V) :
    construct vd top ports raw = .ok parsed ↔
      ∃ items, preProcess ports raw = .ok items ∧
        validatePort vd "inputs" [] (.ns top ports) (some (.dict true items)) = none ∧ parsed = .dict true items := by
  unfold construct
  cases hp : preProcess ports raw with
  | error e => simp
  | ok items =>
    simp only [Except.ok.injEq, exists_eq_left']
    cases hv : validatePort vd "inputs" [] (.ns top ports) (some (.dict true items)) with
    | some e => simp
    | none => simp [eq_comm]

end Ports
