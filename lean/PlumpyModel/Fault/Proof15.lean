import PlumpyModel.Fault.Proof14
/-!
# Fault twins — the linking invariant for EVERY transition hook (`on_terminated` / `on_close` included), part 2

The closing part of a step, the stepping task, every event, every run: `Bad`, or the invariant `JF` of `Proof12`.  Together with
`Bad.run` (`Proof13`): in a run whose final configuration is not `Bad`, the linking invariant holds in the final configuration,
whatever the injected fault was (`runF_jb`, `stepperF_returns_run2`).
-/
namespace PMF
namespace FP
open L

section
variable {a0 : Arm} {N : Hook → FCfg → FCfg}

/-- what a piece of the closing part of a step leaves: `Bad`, or the linking invariant with nothing propagating -/
def RB (a0 : Arm) (r : Res) : Prop := Bad a0 r.1 ∨ (SI r.1 ∧ Hq r.1.l.c ∧ r.2 = none)

/-- `Bad`, or what holds at the head of the loop of `step_until_terminated` -/
def TB (a0 : Arm) (x : FCfg) : Prop := Bad a0 x ∨ TickF a0 x

/-- `Bad`, or the invariant between two events -/
def JB (a0 : Arm) (x : FCfg) : Prop := Bad a0 x ∨ JF a0 x

theorem setDone_tm (i : Nat) (st : AStatus) (y : FCfg) :
    TM y (if actionStatus y.l.c i = AStatus.pending then y.updC (fun c => setActionStatus c i st) else y) := by
  split
  · exact TM.updC _ _ (fun _ => (setActionStatus_fix ..).1)
  · exact TM.rfl' y

theorem storeOutcome_sb (i : Nat) (r : Res) : (Bad a0 r.1 ∨ (SI r.1 ∧ Hq r.1.l.c)) →
    RB a0 (match r with
      | (x, none) => ok (if actionStatus x.l.c i = AStatus.pending then x.updC (fun c => setActionStatus c i .done) else x)
      | (x, some e) =>
          ok (if actionStatus x.l.c i = AStatus.pending then x.updC (fun c => setActionStatus c i (.failed e)) else x)) := by
  intro h
  rcases h with hb | h
  · left
    obtain ⟨y, ye⟩ := r
    cases ye with
    | none => exact hb.tm (setDone_tm i .done y)
    | some e => exact hb.tm (setDone_tm i (.failed e) y)
  · right; exact storeOutcome_s i r h

/-- running the pending interrupt action -/
theorem runActionF_s2 (hA : NA2 a0 N) (hac : afterClose a0 = false) (x : FCfg) (i : Nat) (next : Option SObj)
    (hk : K a0 x) (h : SI x) (hq : Hq x.l.c) (hl : terminal x.l.c.st.label = false)
    (hp : ∀ a, x.l.c.actions[i]? = some a → a.status = .pending)
    (hn : (∃ pf, x.l.c.pc = .awaitPaused pf) → next = none)
    (ht : ∀ s, next = some s → TargetOk x.l.c s) :
    RB a0 (runActionF N x i next) := by
  unfold runActionF
  split
  · exact Or.inr ⟨h, hq, rfl⟩
  · rename_i a ha
    split
    · rename_i hne; exact absurd (hp a ha) hne
    · apply storeOutcome_sb
      split
      · cases next with
        | none =>
          rcases doPauseF_s2 hA x hk h hq (fun _ _ => hl) with hb | hs
          · exact Or.inl hb
          · exact Or.inr ⟨hs, Hq.qf hq (doPauseF_qf hA.q x)⟩
        | some s =>
          dsimp only
          obtain ⟨r0, r1⟩ := transitionToF_s2 hA.k hA.m hA.q hac x s hk h.1 h.2 hl (ht s rfl)
          have tk := transitionToF_K hA.k x s hk hac hl
          have tq := transitionToF_qf hA.q x s
          have hq1 : Hq (transitionToF N x s).1.l.c := Hq.qf hq tq
          generalize transitionToF N x s = r at r0 r1 tk tq hq1
          obtain ⟨y, ye⟩ := r
          cases ye with
          | some e =>
            rcases r0 with h0 | hb
            · cases h0
            · exact Or.inl (hb.tm (TM.of_eq rfl id))
          | none =>
            obtain ⟨t1, t2⟩ := r1 rfl
            show Bad a0 (if y.l.c.pausing.isNone then ok y else doPauseF N y).1 ∨
              (SI (if y.l.c.pausing.isNone then ok y else doPauseF N y).1 ∧ Hq (if y.l.c.pausing.isNone then ok y else doPauseF N y).1.l.c)
            split
            · exact Or.inr ⟨⟨t1, t2⟩, hq1⟩
            · have hl1 : ∀ pf, y.l.c.pc = .awaitPaused pf → terminal y.l.c.st.label = false := by
                intro pf hpf
                have hpc : y.l.c.pc = x.l.c.pc := (show QQ x.l y.l from tq).pc
                rw [hpc] at hpf; have := hn ⟨pf, hpf⟩; cases this
              rcases doPauseF_s2 hA y tk ⟨t1, t2⟩ hq1 hl1 with hb | hs
              · exact Or.inl hb
              · exact Or.inr ⟨hs, Hq.qf hq1 (doPauseF_qf hA.q y)⟩
      · obtain ⟨r0, r1⟩ := transitionToF_s2 hA.k hA.m hA.q hac x .killed hk h.1 h.2 hl (targetOk_killed _)
        have hq1 : Hq (transitionToF N x .killed).1.l.c := Hq.qf hq (transitionToF_qf hA.q x .killed)
        rcases r0 with h0 | hb
        · obtain ⟨t1, t2⟩ := r1 h0
          exact Or.inr ⟨⟨⟨t1.nocrash, t1.aw, t1.ap, t1.pv, t1.wv, t1.tp⟩, t2⟩, hq1⟩
        · exact Or.inl (hb.tm (TM.of_eq rfl id))

/-- on a terminated process the loop over the pending actions does nothing -/
theorem enactLoopF_tm : ∀ (n : Nat) (x : FCfg), TM x (enactLoopF N n x).1
  | 0, x => TM.rfl' x
  | n+1, x => by
    intro ht
    unfold enactLoopF
    split
    · split
      · rename_i hc; simp [ht] at hc
      · exact ⟨rfl, id⟩
    · exact ⟨rfl, id⟩

theorem bind_bad {r : Res} {k : FCfg → Res} (hb : Bad a0 r.1) (hk : ∀ y, TM y (k y).1) : Bad a0 (bind r k).1 := by
  obtain ⟨y, ye⟩ := r
  cases ye with
  | some e => exact hb
  | none => rw [bind_ok]; exact hb.tm (hk y)

theorem enactLoopF_s2 (hA : NA2 a0 N) (hac : afterClose a0 = false) : ∀ (n : Nat) (x : FCfg), K a0 x → SI x → Hq x.l.c →
    RB a0 (enactLoopF N n x)
  | 0, _, _, h, hq => Or.inr ⟨h, hq, rfl⟩
  | n+1, x, hk, h, hq => by
    unfold enactLoopF
    split
    · rename_i i _
      split
      · rename_i hc
        simp only [Bool.and_eq_true, decide_eq_true_eq, Bool.not_eq_true'] at hc
        have h1 := runActionF_s2 hA hac x i none hk h hq hc.2 (pending_of_status hc.1) (fun _ => rfl)
          (fun s hs => by cases hs)
        have k1 := runActionF_K hA.k hac x i none hk hc.2
        generalize runActionF N x i none = r at h1 k1
        rcases h1 with hb | ⟨s1, q1, e1⟩
        · exact Or.inl (bind_bad hb (enactLoopF_tm n))
        · obtain ⟨y, ye⟩ := r
          simp only at e1; subst e1
          rw [bind_ok]
          exact enactLoopF_s2 hA hac n y k1 s1 q1
      · exact Or.inr ⟨h, hq, rfl⟩
    · exact Or.inr ⟨h, hq, rfl⟩

theorem dispatchF_s2 (hA : NA2 a0 N) (hac : afterClose a0 = false) (x : FCfg) (next : Option SObj)
    (hk : K a0 x) (h : SI x) (hq : Hq x.l.c) (hia : IA x.l.c)
    (hn : (∃ pf, x.l.c.pc = .awaitPaused pf) → x.l.c.interrupt = none ∨ next = none)
    (ht : ∀ s, next = some s → TargetOk x.l.c s) :
    RB a0 (dispatchF N x next) := by
  unfold dispatchF
  split
  · exact Or.inr ⟨h, hq, rfl⟩
  · rename_i hl
    have hl' : terminal x.l.c.st.label = false := by simpa using hl
    have h1 : RB a0 (dispatch1F N x next) := by
      have nominal : RB a0 (match (generalizing := false) next with | some s => transitionToF N x s | none => ok x) := by
        cases next with
        | none => exact Or.inr ⟨h, hq, rfl⟩
        | some s =>
          obtain ⟨r0, r1⟩ := transitionToF_s2 hA.k hA.m hA.q hac x s hk h.1 h.2 hl' (ht s rfl)
          rcases r0 with h0 | hb
          · exact Or.inr ⟨r1 h0, Hq.qf hq (transitionToF_qf hA.q x s), h0⟩
          · exact Or.inl hb
      unfold dispatch1F
      split
      · rename_i i hint
        split
        · rename_i hnc
          have hp : ∀ a, x.l.c.actions[i]? = some a → a.status = .pending := by
            intro a ha
            rcases hia i a hint ha with hp | hp
            · exact hp
            · exfalso; apply hnc; simp [actionStatus, ha, hp]
          exact runActionF_s2 hA hac x i next hk h hq hl' hp
            (by intro hx; rcases hn hx with h0 | h0
                · rw [hint] at h0; cases h0
                · exact h0) ht
        · exact nominal
      · exact nominal
    have k1 := dispatch1F_K hA.k hac x next hk hl'
    generalize dispatch1F N x next = r at h1 k1
    rcases h1 with hb | ⟨s1, q1, e1⟩
    · exact Or.inl (bind_bad hb (fun y => enactLoopF_tm _ y))
    · obtain ⟨y, ye⟩ := r
      simp only at e1; subst e1
      rw [bind_ok]
      exact enactLoopF_s2 hA hac _ y k1 s1 q1

theorem endOfStepF_tick2 (hA : NA2 a0 N) (hac : afterClose a0 = false) (x : FCfg) (r : StepEnd)
    (hk : K a0 x) (h : SI x) (hq : Hq x.l.c) (hia : IA x.l.c)
    (hqi : (∃ pf, x.l.c.pc = .awaitPaused pf) → x.l.c.interrupt = none)
    (hr : ∀ s, r = .next (some s) → TargetOk x.l.c s) : TB a0 (endOfStepF N x r) := by
  have a := prepare_ar x.l.c r
  have hkr := endOfStepF_K hA.k hac x r hk
  unfold TB
  rw [endOfStepF_eq] at hkr ⊢
  have k1 : K a0 ((x.updL fun l => { l with executing := false }).setC (prepare x.l.c r).1) :=
    K.set (hk.fr (Fr.updL' x _ rfl rfl)) _ (prepare_same2 ..) (fun _ => (prepare_fix ..).1)
  have d := dispatchF_s2 hA hac ((x.updL fun l => { l with executing := false }).setC (prepare x.l.c r).1)
    (prepare x.l.c r).2 k1 ⟨h.1.ar a, h.2⟩ (hq.ar a) (prepare_ia x.l.c r hia)
    (by intro ⟨pf, hpf⟩
        have hpf' : (prepare x.l.c r).1.pc = .awaitPaused pf := hpf
        rw [a.pc] at hpf'; exact prepare_hn x.l.c r (hqi ⟨pf, hpf'⟩))
    (prepare_target x.l.c r hr)
  generalize dispatchF N ((x.updL fun l => { l with executing := false }).setC (prepare x.l.c r).1) (prepare x.l.c r).2 = rr
    at d hkr
  obtain ⟨y, ye⟩ := rr
  rcases d with hb | ⟨d1, d2, d3⟩
  · left
    have hb1 : Bad a0 (y.updC finally_) := Bad.tm hb (TM.updC _ _ (fun _ => finally_st _))
    cases ye with
    | none => exact hb1
    | some e => exact hb1.tm (TM.of_eq rfl id)
  · simp only at d3; subst d3
    exact Or.inr ⟨hkr, ⟨finally_invS _ d1.1, d1.2⟩, finally_hq _ d2, finally_interrupt _, finally_stepping _⟩

theorem finishUserF_tick2 (hA : NA2 a0 N) (hac : afterClose a0 = false) (x : FCfg) (o : Outcome)
    (hk : K a0 x) (h : SI x) (hq : Hq x.l.c) (hia : IA x.l.c)
    (hqi : (∃ pf, x.l.c.pc = .awaitPaused pf) → x.l.c.interrupt = none) : TB a0 (finishUserF N x o) := by
  unfold finishUserF
  split
  · rename_i cmd
    have r := cmdToState_tr x.l.c cmd
    have hs : StW x.l.c (cmdToState x.l.c cmd).1 := Or.inl (cmdToState_fields x.l.c cmd).2
    apply endOfStepF_tick2 hA hac _ _ (K.set hk _ (cmdToState_same2 ..) (fun _ => (cmdToState_fix ..).1))
      ⟨h.1.tr r hs, h.2⟩ (hq.tr r) (hia.of_eq r.interrupt r.actions)
    · intro ⟨pf, hpf⟩
      have hpf' : (cmdToState x.l.c cmd).1.pc = .awaitPaused pf := hpf
      show (cmdToState x.l.c cmd).1.interrupt = none
      rw [r.interrupt]; rw [r.pc] at hpf'; exact hqi ⟨pf, hpf'⟩
    · intro s hs; cases hs; exact cmdToState_target x.l.c cmd
  · exact endOfStepF_tick2 hA hac x _ hk h hq hia hqi (by intro s hs; cases hs; exact targetOk_excepted ..)

theorem wakeF_tick2 (hA : NA2 a0 N) (hac : afterClose a0 = false) (x : FCfg) (fn wf : Nat) (w : WF)
    (hk : K a0 x) (h : SI x) (hq : Hq x.l.c) (hia : IA x.l.c)
    (hqi : (∃ pf, x.l.c.pc = .awaitPaused pf) → x.l.c.interrupt = none)
    (hw : x.l.c.wfs[wf]? = some w) (hne : w ≠ .pending) : TB a0 (wakeF N x fn wf w) := by
  unfold wakeF
  split
  · exact endOfStepF_tick2 hA hac x _ hk h hq hia hqi (by intro s hs; cases hs; exact targetOk_running ..)
  · rename_i cookie
    have r := rearm_tr x.l.c wf
    have hs := rearm_invS x.l.c wf h.1 cookie hw
    rw [← rearm_eq] at r hs
    apply endOfStepF_tick2 hA hac (x.updC fun c => L.rearm c wf) _
      (K.upd hk (fun c => L.rearm c wf) (rearm_same2 ..) (fun ht => rearm_st_term _ _ ht))
      ⟨hs, h.2⟩ (hq.tr r) (hia.of_eq r.interrupt r.actions)
    · intro ⟨pf, hpf⟩
      have hpf' : (L.rearm x.l.c wf).pc = .awaitPaused pf := hpf
      show (L.rearm x.l.c wf).interrupt = none
      rw [r.interrupt]; rw [r.pc] at hpf'; exact hqi ⟨pf, hpf'⟩
    · intro s hs; cases hs
  · exact endOfStepF_tick2 hA hac x _ hk h hq hia hqi (by intro s hs; cases hs)
  · exact absurd rfl hne

theorem stepBodyKF_jf2 (hA : NA2 a0 N) (hac : afterClose a0 = false) (P : Prog) (k : FCfg → FCfg)
    (hk : ∀ d, TB a0 d → JB a0 (k d)) (x : FCfg) (h : TickF a0 x) : JB a0 (stepBodyKF N P k x) := by
  obtain ⟨hkx, ⟨hs, hin⟩, hq, hint, hstp⟩ := h
  generalize hx1 : (x.updL fun l => { l with c := { l.c with stepping := true }, executing := true }) = x1
  have hc1 : x1.l.c = { x.l.c with stepping := true } := by rw [← hx1]; rfl
  have k1 : K a0 x1 := by rw [← hx1]; exact hkx.fr ⟨⟨rfl, rfl, rfl, rfl, rfl, rfl⟩, Or.inl rfl, rfl, rfl, rfl⟩
  have hs1 : SI x1 := by
    refine ⟨?_, by rw [← hx1]; exact hin⟩
    rw [hc1]; exact ⟨hs.nocrash, hs.aw, hs.ap, hs.pv, hs.wv, hs.tp⟩
  have hq1 : Hq x1.l.c := by rw [hc1]; exact hq
  have hia1 : IA x1.l.c := by rw [hc1]; exact IA.of_none hint
  have hqi1 : (∃ pf, x1.l.c.pc = .awaitPaused pf) → x1.l.c.interrupt = none := fun _ => by rw [hc1]; exact hint
  have hst1 : x1.l.c.st = x.l.c.st := by rw [hc1]
  have e1 : stepBodyKF N P k x =
      (match x1.l.c.st with
      | .created fn => k (endOfStepF N x1 (.next (some (.running fn [] []))))
      | .running fn args kw =>
          let b := P fn args kw x1.l.c.ctx
          let x2 := x1.updC (fun c => { c with trace := { fn := fn, args := args, kw := kw, paused := c.paused.isSome } :: c.trace })
          if b.awaits = 0 then k (finishUserF N x2 b.out) else x2.updC (fun c => { c with pc := .inUser { b with awaits := b.awaits - 1 } })
      | .waiting fn wf _ _ =>
          match x1.l.c.wfs[wf]? with
          | some .pending => x1.updC (fun c => { c with pc := .awaitWaiting wf })
          | some w => k (wakeF N x1 fn wf w)
          | none => x1
      | _ => k (endOfStepF N x1 (.next none))) := by rw [← hx1]; rfl
  rw [e1]
  split
  · exact hk _ (endOfStepF_tick2 hA hac x1 _ k1 hs1 hq1 hia1 hqi1 (by intro s hs; cases hs; exact targetOk_running ..))
  · rename_i fn args kw hst
    dsimp only
    have k2 : K a0 (x1.updC fun c => { c with trace := { fn := fn, args := args, kw := kw, paused := c.paused.isSome } :: c.trace }) :=
      K.upd k1 _ ⟨rfl, rfl, rfl, rfl, rfl, rfl⟩ (fun _ => rfl)
    split
    · exact hk _ (finishUserF_tick2 hA hac _ _ k2
        ⟨⟨hs1.1.nocrash, hs1.1.aw, hs1.1.ap, hs1.1.pv, hs1.1.wv, hs1.1.tp⟩, hs1.2⟩ hq1 hia1 hqi1)
    · refine Or.inr ⟨K.upd k2 _ ⟨rfl, rfl, rfl, rfl, rfl, rfl⟩ (fun _ => rfl),
        ⟨⟨?_, ?_, ?_, hs1.1.pv, hs1.1.wv, ?_⟩, hs1.2⟩, hia1, ?_, ?_⟩
      · intro e h; cases h
      · intro wf h; cases h
      · intro pf h; cases h
      · intro pf h; cases h
      · intro hq; rcases hq with h | ⟨pf, h⟩ <;> cases h
      · intro hq; rcases hq with h | ⟨pf, h⟩ <;> cases h
  · rename_i fn wf wk aw hst
    split
    · rename_i hp
      refine Or.inr ⟨K.upd k1 _ ⟨rfl, rfl, rfl, rfl, rfl, rfl⟩ (fun _ => rfl),
        ⟨⟨?_, ?_, ?_, hs1.1.pv, hs1.1.wv, ?_⟩, hs1.2⟩, hia1, ?_, ?_⟩
      · intro e h; cases h
      · intro j hj; cases hj
        exact ⟨(List.getElem?_eq_some_iff.mp hp).1, Or.inl ⟨fn, wk, aw, hst⟩⟩
      · intro pf h; cases h
      · intro pf h; cases h
      · intro hq; rcases hq with h | ⟨pf, h⟩ <;> cases h
      · intro hq; rcases hq with h | ⟨pf, h⟩ <;> cases h
    · rename_i w hnp hw
      have hne : w ≠ .pending := by intro h; exact hnp h
      exact hk _ (wakeF_tick2 hA hac x1 fn wf w k1 hs1 hq1 hia1 hqi1 hw hne)
    · rename_i hnone
      exfalso
      have hlt := hs1.1.wv _ _ _ _ hst
      have hnone' : x1.l.c.wfs[wf]? = none := hnone
      rw [List.getElem?_eq_getElem hlt] at hnone'; cases hnone'
  · exact hk _ (endOfStepF_tick2 hA hac x1 _ k1 hs1 hq1 hia1 hqi1 (by intro s hs; cases hs))

theorem loopHeadF_jf2 (hA : NA2 a0 N) (hac : afterClose a0 = false) (P : Prog) :
    ∀ (fuel : Nat) (x : FCfg), TB a0 x → JB a0 (loopHeadF N P fuel x) := by
  intro fuel
  induction fuel with
  | zero =>
    intro x h
    rcases h with hb | h
    · exact Or.inl hb
    · exact Or.inr (by simpa [loopHeadF] using tickF_jf h)
  | succ n ih =>
    intro x h
    rcases h with hbad | h
    · exact Or.inl (hbad.tm (loopHeadF_tm P _ x))
    have hb := stepBodyKF_jf2 hA hac P (loopHeadF N P n) ih x h
    have kupd : ∀ pc', K a0 (x.updC fun c => { c with pc := pc' }) := fun _ => K.upd h.k _ ⟨rfl, rfl, rfl, rfl, rfl, rfl⟩ (fun _ => rfl)
    unfold loopHeadF
    split
    · exact Or.inr (tickF_jf h)
    · split
      · refine Or.inr ⟨kupd _, ⟨⟨?_, ?_, ?_, h.s.1.pv, h.s.1.wv, ?_⟩, h.s.2⟩, IA.of_none h.int, fun _ => h.int, fun _ => h.stp⟩
        · intro e h; cases h
        · intro wf h; cases h
        · intro pf h; cases h
        · intro pf h; cases h
      · rename_i hl
        have hl' : terminal x.l.c.st.label = false := by simpa using hl
        split
        · rename_i hcl
          have := ((h.k.kg_live hl').1.live hl').2.1
          rw [this] at hcl; cases hcl
        · split
          · rename_i pf hpa
            split
            · refine Or.inr ⟨kupd _, ⟨⟨?_, ?_, ?_, h.s.1.pv, h.s.1.wv, ?_⟩, h.s.2⟩, IA.of_none h.int, fun _ => h.int, fun _ => h.stp⟩
              · intro e h; cases h
              · intro wf h; cases h
              · intro pf' hp; cases hp
                exact ⟨h.s.1.pv pf hpa, Or.inl hpa⟩
              · intro pf' _ ht
                have ht' : terminal x.l.c.st.label = true := ht
                rw [hl'] at ht'; cases ht'
            · exact hb
          · exact hb

theorem tickStepperF_jf2 (hA : NA2 a0 N) (hac : afterClose a0 = false) (P : Prog) (x : FCfg) (h : JF a0 x) :
    JB a0 (tickStepperF N P x) := by
  have kupd : ∀ pc', K a0 (x.updC fun c => { c with pc := pc' }) := fun _ => K.upd h.k _ ⟨rfl, rfl, rfl, rfl, rfl, rfl⟩ (fun _ => rfl)
  unfold tickStepperF
  split
  · rename_i hpc
    exact loopHeadF_jf2 hA hac P _ x (Or.inr ⟨h.k, h.s, (by intro pf hp; rw [hpc] at hp; cases hp), h.qi (Or.inl hpc), h.qs (Or.inl hpc)⟩)
  · rename_i pf hpc
    split
    · rename_i htrue
      have tk : TickF a0 x := ⟨h.k, h.s, (by intro pf' hp; rw [hpc] at hp; cases hp; exact htrue),
        h.qi (Or.inr ⟨pf, hpc⟩), h.qs (Or.inr ⟨pf, hpc⟩)⟩
      have hb : JB a0 (stepBodyF N P fuel0 x) := stepBodyKF_jf2 hA hac P _ (loopHeadF_jf2 hA hac P fuel0) x tk
      split
      · rename_i pf' hpa
        split
        · refine Or.inr ⟨kupd _, ⟨⟨?_, ?_, ?_, h.s.1.pv, h.s.1.wv, ?_⟩, h.s.2⟩, h.ia, fun _ => h.qi (Or.inr ⟨pf, hpc⟩),
            fun _ => h.qs (Or.inr ⟨pf, hpc⟩)⟩
          · intro e h; cases h
          · intro wf h; cases h
          · intro p hp; cases hp
            exact ⟨h.s.1.pv pf' hpa, Or.inl hpa⟩
          · intro p _
            exact h.s.1.tp pf hpc
        · exact hb
      · exact hb
    · exact Or.inr h
  · rename_i b hpc
    have hqv : Hq x.l.c := by intro pf hp; rw [hpc] at hp; cases hp
    have hqiv : (∃ pf, x.l.c.pc = .awaitPaused pf) → x.l.c.interrupt = none := by
      intro ⟨pf, hp⟩; rw [hpc] at hp; cases hp
    split
    · exact loopHeadF_jf2 hA hac P _ _ (finishUserF_tick2 hA hac x b.out h.k h.s hqv h.ia hqiv)
    · refine Or.inr ⟨kupd _, ⟨⟨?_, ?_, ?_, h.s.1.pv, h.s.1.wv, ?_⟩, h.s.2⟩, h.ia, ?_, ?_⟩
      · intro e h; cases h
      · intro wf h; cases h
      · intro pf h; cases h
      · intro pf h; cases h
      · intro hq; rcases hq with h | ⟨pf, h⟩ <;> cases h
      · intro hq; rcases hq with h | ⟨pf, h⟩ <;> cases h
  · rename_i wf hpc
    have hqv : Hq x.l.c := by intro pf hp; rw [hpc] at hp; cases hp
    have hqiv : (∃ pf, x.l.c.pc = .awaitPaused pf) → x.l.c.interrupt = none := by
      intro ⟨pf, hp⟩; rw [hpc] at hp; cases hp
    split
    · exact Or.inr h
    · rename_i w hnp hw
      have hne : w ≠ .pending := by intro h; exact hnp h
      exact loopHeadF_jf2 hA hac P _ _ (wakeF_tick2 hA hac x _ wf w h.k h.s hqv h.ia hqiv hw hne)
    · exact Or.inr h
  · exact Or.inr h

/-! ### the other events -/

theorem jb_of_qf {x y : FCfg} (h : JF a0 x) (q : QF x y) (k : K a0 y) (s : SB a0 y) : JB a0 y := by
  rcases s with hb | hs
  · exact Or.inl hb
  · exact Or.inr (jf_of_qf h q k hs)

theorem tickCbF_jf2 (hA : NA2 a0 N) (hac : afterClose a0 = false) (x : FCfg) (cb : Cb) (h : JF a0 x) :
    JB a0 (tickCbF N x cb) := by
  have hkr := tickCbF_K hA.k hac x cb h.k
  unfold tickCbF at hkr ⊢
  by_cases hc : x.l.c.ready.contains cb = true
  · simp only [hc, if_true] at hkr ⊢
    have k1 : K a0 (x.updC fun c => { c with ready := c.ready.erase cb }) :=
      K.upd h.k _ ⟨rfl, rfl, rfl, rfl, rfl, rfl⟩ (fun _ => rfl)
    have h1 : JF a0 (x.updC fun c => { c with ready := c.ready.erase cb }) :=
      jf_of_old k1 (h.old.same rfl rfl rfl rfl rfl rfl rfl rfl) h.s.2
    cases cb with
    | adone f => exact Or.inr (jf_of_old hkr (awaitableDone_inv10 _ _ h1.old) h.s.2)
    | trykill =>
      simp only at hkr ⊢
      unfold tryKillingF at hkr ⊢
      rcases killF_s2 hA hac _ k1 h1.s with hb | hs2
      · exact Or.inl ((hb.tm (toLoop_tm _ (TM.rfl' _))).tm (TM.of_eq rfl id))
      · have k2 := killF_K hA.k hac _ k1
        have h2 := jf_of_qf h1 (killF_qf hA.q _) k2 hs2
        have h3 : JF a0 (toLoop (killF N (x.updC fun c => { c with ready := c.ready.erase Cb.trykill }))) := by
          unfold toLoop; split
          · exact jf_of_old (K.upd k2 _ ⟨rfl, rfl, rfl, rfl, rfl, rfl⟩ (fun _ => rfl))
              (h2.old.same rfl rfl rfl rfl rfl rfl rfl rfl) h2.s.2
          · exact h2
        exact Or.inr (jf_of_old hkr (h3.old.same rfl rfl rfl rfl rfl rfl rfl rfl) h3.s.2)
    | usercb raises =>
      cases raises with
      | false => exact Or.inr h1
      | true =>
        simp only [if_true]
        rcases failF_s2 hA hac _ (.user 8) k1 h1.s with hb | hs2
        · exact Or.inl (hb.tm (toLoop_tm _ (TM.rfl' _)))
        · have k2 := failF_K hA.k hac _ (.user 8) k1
          have h2 := jf_of_qf h1 (failF_qf hA.q _ _) k2 hs2
          unfold toLoop; split
          · exact Or.inr (jf_of_old (K.upd k2 _ ⟨rfl, rfl, rfl, rfl, rfl, rfl⟩ (fun _ => rfl))
              (h2.old.same rfl rfl rfl rfl rfl rfl rfl rfl) h2.s.2)
          · exact Or.inr h2
  · simp only [hc] at hkr ⊢
    exact Or.inr h

/-- every event keeps "`Bad`, or the invariant" -/
theorem stepFN_jb (hA : NA2 a0 N) (hac : afterClose a0 = false) (P : Prog) (x : FCfg) (ev : Ev) (h : JB a0 x) :
    JB a0 (stepFN N P x ev).1 := by
  rcases h with hb | h
  · exact Or.inl (hb.tm (stepFN_tm hA.t P x ev))
  have hkr := stepFN_K hA.k hac P x ev h.k
  cases ev <;> simp only [stepFN] at hkr ⊢
  · exact tickStepperF_jf2 hA hac P x h
  · exact tickCbF_jf2 hA hac x _ h
  · exact jb_of_qf h (pauseF_qf hA.q x) hkr (pauseF_s2 hA x h.k h.s)
  · exact jb_of_qf h (playF_qf hA.q x) hkr (playF_s2 hA x h.k h.s)
  · exact jb_of_qf h (killF_qf hA.q x) hkr (killF_s2 hA hac x h.k h.s)
  · exact Or.inr (jf_of_old hkr (resume_inv10 x.l.c _ h.old) h.s.2)
  · exact jb_of_qf h (failF_qf hA.q x _) hkr (failF_s2 hA hac x _ h.k h.s)
  · exact Or.inr (jf_of_old hkr (cancelFut_inv10 x.l.c h.old) h.s.2)
  · exact Or.inr (jf_of_old hkr (complete_inv10 x.l.c _ _ h.old) h.s.2)
  · exact Or.inr (jf_of_old hkr (h.old.same rfl rfl rfl rfl rfl rfl rfl rfl) h.s.2)

end

theorem stepF_jb {a0 : Arm} (hac : afterClose a0 = false) (P : Prog) (x : FCfg) (ev : Ev) (h : JB a0 x) :
    JB a0 (stepF P x ev).1 := stepFN_jb (fireNF_na2 hac _) hac P x ev h

/-- **in every configuration of a run with an injected fault — ANY hook —: `Bad`, or the linking invariant** -/
theorem runF_jb {a0 : Arm} (hac : afterClose a0 = false) (P : Prog) (x0 : FCfg) (evs : List Ev) (h : JB a0 x0) :
    JB a0 (runF P x0 evs) := by
  induction evs generalizing x0 with
  | nil => exact h
  | cons e es ih => exact ih _ (stepF_jb hac P x0 e h)

/-- … so in a run that does not END `Bad` the linking invariant holds at the end (and, `Bad` being absorbing, no configuration on
the way was `Bad`) -/
theorem runF_jf2 {a0 : Arm} (hac : afterClose a0 = false) (P : Prog) (nf : Nat) (plan : Plan) (evs : List Ev)
    (hnb : ¬ Bad a0 (runF P (initX nf plan (some a0)) evs)) : JF a0 (runF P (initX nf plan (some a0)) evs) := by
  rcases runF_jb hac P _ evs (Or.inr (initX_jf a0 nf plan)) with hb | h
  · exact absurd hb hnb
  · exact h

/-- a configuration on the way of a run that does not end `Bad` is not `Bad` -/
theorem not_bad_prefix {a0 : Arm} (P : Prog) (x0 : FCfg) (evs evs' : List Ev) (hnb : ¬ Bad a0 (runF P x0 (evs ++ evs'))) :
    ¬ Bad a0 (runF P x0 evs) := by
  intro hb
  apply hnb
  have : runF P x0 (evs ++ evs') = runF P (runF P x0 evs) evs' := by unfold runF; rw [List.foldl_append]
  rw [this]; exact hb.run P evs'

/-- **`step_until_terminated()` returns after a hook fault, every hook**: in every terminated configuration of a run that is not
`Bad`, finitely many wake-ups end the stepping task normally -/
theorem stepperF_returns_run2 {a0 : Arm} (hac : afterClose a0 = false) (P : Prog) (nf : Nat) (plan : Plan)
    (evs : List Ev) (ht : terminal (runF P (initX nf plan (some a0)) evs).l.c.st.label = true)
    (hnb : ¬ Bad a0 (runF P (initX nf plan (some a0)) evs)) :
    ∃ n, (runF P (runF P (initX nf plan (some a0)) evs) (List.replicate n .tick)).l.c.pc = .done := by
  have h := (runF_jf2 hac P nf plan evs hnb).s.1
  refine stepperF_returns P _ ht h.nocrash ?_ ?_ ?_
  · intro pf pf' hpc hpa
    exact h.tp pf hpc ht pf' hpa
  · intro pf hpc
    rcases (h.ap pf hpc).2 with hp | hp
    · exact h.tp pf hpc ht pf hp
    · exact hp
  · intro wf hpc
    obtain ⟨hlt, hw⟩ := h.aw wf hpc
    rcases hw with ⟨fn, wk, aw, hst⟩ | hn
    · exact absurd hst ((not_live_of_terminal ht).2.2 fn wf wk aw)
    · exact ⟨_, List.getElem?_eq_getElem hlt, by intro hp; rw [List.getElem?_eq_getElem hlt, hp] at hn; exact hn rfl⟩

end FP
end PMF
