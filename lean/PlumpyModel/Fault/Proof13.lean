import PlumpyModel.Fault.Proof12
/-!
# Fault twins — a terminated process stays as it is; `Bad` is absorbing

`TM x y`: if the process of `x` has terminated, `y` has the same state object and `fired` has not been reset.  Every control call,
every notification, every wake-up of the stepping task and every other event is such a step (a terminated process consults no
transition: `kill()`, `fail()`, `pause()` return at once, the closing part of a step does nothing; `play()` and the pause hooks only
touch the pause).  Hence the alternative `Bad` of the invariant `K` (the fault fired inside the failing path of a transition that an
error of the state machine itself had started) is ABSORBING: once it holds it holds in every later configuration of the run
(`Bad.run`), and a hypothesis on the final configuration excludes it in all earlier ones.
-/
namespace PMF
namespace FP
open L

/-- on a terminated process: the state object is kept, `fired` is monotone -/
def TM (x y : FCfg) : Prop :=
  terminal x.l.c.st.label = true → y.l.c.st = x.l.c.st ∧ (x.fired = true → y.fired = true)

theorem TM.rfl' (x : FCfg) : TM x x := fun _ => ⟨rfl, id⟩

theorem TM.trans' {x y z : FCfg} (h1 : TM x y) (h2 : TM y z) : TM x z := by
  intro ht
  obtain ⟨a, b⟩ := h1 ht
  obtain ⟨c, d⟩ := h2 (by rw [a]; exact ht)
  exact ⟨c.trans a, fun hf => d (b hf)⟩

theorem TM.of_eq {x y : FCfg} (hl : y.l.c.st = x.l.c.st) (hf : x.fired = true → y.fired = true) : TM x y := fun _ => ⟨hl, hf⟩

theorem TM.of_live {x y : FCfg} (hl : terminal x.l.c.st.label = false) : TM x y := fun ht => by rw [hl] at ht; cases ht

/-- a `Cfg` update that keeps the state object of a terminated process -/
theorem TM.updC (x : FCfg) (f : Cfg → Cfg) (hst : terminal x.l.c.st.label = true → (f x.l.c).st = x.l.c.st) :
    TM x (x.updC f) := fun ht => ⟨hst ht, id⟩

theorem Bad.terminal {a0 : Arm} {x : FCfg} (h : Bad a0 x) : terminal x.l.c.st.label = true := by
  obtain ⟨_, _, e, _, hs⟩ := h
  rw [hs]; exact excepted_terminal e

theorem Bad.tm {a0 : Arm} {x y : FCfg} (h : Bad a0 x) (t : TM x y) : Bad a0 y := by
  obtain ⟨a, b⟩ := t h.terminal
  obtain ⟨hm, hf, e, he, hs⟩ := h
  exact ⟨hm, b hf, e, he, by rw [a]; exact hs⟩

/-- a hook is such a step if its base implementation is -/
theorem hookF_tm (hk : HK) (base : FCfg → Res) (hb : ∀ x', TM x' (base x').1) (x : FCfg) : TM x (hookF hk base x).1 := by
  have hsup : ∀ x' : FCfg, TM x' (supF hk base x').1 := by
    intro x'
    unfold supF
    split
    · exact TM.trans' (TM.of_eq rfl id : TM x' { x' with called := x'.called - 1 }) (hb _)
    · have := hb x'
      generalize base x' = r at this
      obtain ⟨y, e⟩ := r
      cases e <;> exact this
  unfold hookF
  dsimp only
  split
  · exact TM.of_eq rfl (fun _ => rfl)
  · have := hsup { x with called := x.called + 1, arm := (armStep hk x.arm).2 }
    generalize supF hk base { x with called := x.called + 1, arm := (armStep hk x.arm).2 } = r at this
    obtain ⟨y, e⟩ := r
    have h0 : TM x y := TM.trans' (TM.of_eq rfl id) this
    cases e with
    | some e => exact h0
    | none =>
      dsimp only
      split
      · exact h0.trans' (TM.of_eq rfl (fun _ => rfl))
      · split <;> exact h0

theorem bind_tm {x : FCfg} {r : Res} {k : FCfg → Res} (h1 : TM x r.1) (hk : ∀ y, TM y (k y).1) : TM x (bind r k).1 := by
  obtain ⟨y, e⟩ := r
  cases e with
  | none => rw [bind_ok]; exact h1.trans' (hk y)
  | some e => exact h1

/-- the notification function keeps a terminated process as it is -/
def FTM (N : Hook → FCfg → FCfg) : Prop := ∀ h x, TM x (N h x)

section
variable {N : Hook → FCfg → FCfg}

theorem doPauseF_tm (hN : FTM N) (x : FCfg) : TM x (doPauseF N x).1 := by
  unfold doPauseF; dsimp only
  refine TM.trans' ?_ (TM.of_eq rfl id)
  refine bind_tm (hookF_tm _ _ (fun x' => TM.rfl' x') x) (fun y => hookF_tm _ _ (fun x' => ?_) y)
  unfold pausedBaseF
  exact TM.trans' (TM.of_eq rfl id : TM x' (x'.updC doPauseHooks)) (hN _ _)

theorem pauseF_tm (x : FCfg) : TM x (pauseF N x).1 := by
  intro ht
  unfold pauseF; dsimp only
  rw [if_pos ht]
  exact ⟨rfl, id⟩

theorem playF_tm (hN : FTM N) (x : FCfg) : TM x (playF N x).1 := by
  unfold playF
  split
  · exact TM.of_eq (play_st _) id
  · rw [retOf_fst]
    refine hookF_tm _ _ (fun x' => ?_) x
    unfold playingBaseF
    exact TM.trans' (TM.of_eq (play_st _) id : TM x' (x'.updC fun c => (play c).1)) (hN _ _)

theorem killF_tm (x : FCfg) : TM x (killF N x).1 := by
  intro ht
  unfold killF; dsimp only
  split
  · exact ⟨rfl, id⟩
  · first | exact ⟨rfl, id⟩ | (rw [if_pos ht]; exact ⟨rfl, id⟩)

theorem failF_tm (x : FCfg) (e : Exc) : TM x (failF N x e).1 := by
  intro ht
  unfold failF
  rw [if_pos ht]
  exact ⟨rfl, id⟩

theorem logRep_tm {x : FCfg} (q : Req) (r : FCfg × RetV) (h : TM x r.1) : TM x (logRep q r) := by
  unfold logRep; split
  · exact h.trans' (TM.of_eq rfl id)
  · exact h

theorem reqKF_tm (hN : FTM N) (q : Req) (x : FCfg) : TM x (reqKF N q x) := by
  cases q
  · exact logRep_tm _ _ (pauseF_tm x)
  · exact logRep_tm _ _ (playF_tm hN x)
  · exact logRep_tm _ _ (killF_tm x)

end

theorem fireKF_tm {R : Req → FCfg → FCfg} (hR : ∀ q x, TM x (R q x)) (h : Hook) (x : FCfg) : TM x (fireKF R h x) := by
  unfold fireKF; dsimp only
  have h1 : TM x (x.updL fun l => { l with cnt := bump l.cnt h }) := TM.of_eq rfl id
  split
  · exact h1
  · split
    · exact h1
    · refine h1.trans' ?_
      refine TM.trans' ?_ (hR _ _)
      exact TM.of_eq rfl id

theorem fireNF_tm : ∀ n, FTM (fireNF n)
  | 0 => fun _ _ => TM.of_eq rfl id
  | n+1 => fun h x => by
    unfold fireNF
    exact fireKF_tm (fun q x => reqKF_tm (fireNF_tm n) q x) h x

/-! ### the stepping task on a terminated process: no hook is consulted -/

section
variable {N : Hook → FCfg → FCfg}

theorem endOfStepF_terminal_fired (x : FCfg) (r : StepEnd) (ht : terminal x.l.c.st.label = true) :
    (endOfStepF N x r).fired = x.fired := by
  have hp : (prepare x.l.c r).1.st = x.l.c.st := (prepare_ar x.l.c r).st
  unfold endOfStepF dispatchF
  dsimp only
  have h1 : terminal ((x.updL fun l => { l with executing := false }).setC
      (prepare (x.updL fun l => { l with executing := false }).l.c r).1).l.c.st.label = true := by
    show terminal (prepare x.l.c r).1.st.label = true; rw [hp]; exact ht
  rw [if_pos h1]
  rfl

theorem endOfStepF_tm (x : FCfg) (r : StepEnd) : TM x (endOfStepF N x r) := fun ht =>
  ⟨endOfStepF_terminal_st x r ht, fun hf => by rw [endOfStepF_terminal_fired x r ht]; exact hf⟩

theorem finishUserF_tm (x : FCfg) (o : Outcome) : TM x (finishUserF N x o) := by
  unfold finishUserF
  cases o with
  | ret cmd =>
    exact TM.trans' (TM.of_eq (cmdToState_fields x.l.c cmd).2 id : TM x (x.setC (cmdToState x.l.c cmd).1)) (endOfStepF_tm _ _)
  | raise e => exact endOfStepF_tm x _

theorem wakeF_tm (x : FCfg) (fn wf : Nat) (w : WF) : TM x (wakeF N x fn wf w) := by
  unfold wakeF
  cases w with
  | result v => exact endOfStepF_tm x _
  | interrupted k =>
    exact TM.trans' (TM.updC x (fun c => L.rearm c wf) (fun ht => by rw [rearm_fix _ _ ht])) (endOfStepF_tm _ _)
  | failed e => exact endOfStepF_tm x _
  | pending => exact TM.rfl' x

theorem stepBodyKF_tm (P : Prog) (k : FCfg → FCfg) (hk : ∀ d, TM d (k d)) (x : FCfg) : TM x (stepBodyKF N P k x) := by
  intro ht
  obtain ⟨h1, h2, h3⟩ := not_live_of_terminal ht
  revert ht
  show TM x (stepBodyKF N P k x)
  unfold stepBodyKF
  dsimp only
  split
  · rename_i fn h; exact absurd h (h1 fn)
  · rename_i fn a kw h; exact absurd h (h2 fn a kw)
  · rename_i fn wf wk aw h; exact absurd h (h3 fn wf wk aw)
  · exact TM.trans' (TM.trans' (TM.of_eq rfl id :
      TM x (x.updL fun l => { l with c := { l.c with stepping := true }, executing := true })) (endOfStepF_tm _ _)) (hk _)

theorem loopHeadF_tm (P : Prog) : ∀ (fuel : Nat) (x : FCfg), TM x (loopHeadF N P fuel x)
  | 0, x => TM.rfl' x
  | n+1, x => by
    intro ht
    unfold loopHeadF
    split
    · exact ⟨rfl, id⟩
    · rw [if_pos ht]; exact ⟨rfl, id⟩

theorem tickStepperF_tm (P : Prog) (x : FCfg) : TM x (tickStepperF N P x) := by
  have hb : TM x (stepBodyF N P fuel0 x) := stepBodyKF_tm P _ (loopHeadF_tm P fuel0) x
  unfold tickStepperF
  split
  · exact loopHeadF_tm P _ x
  · split
    · split
      · split
        · exact TM.of_eq rfl id
        · exact hb
      · exact hb
    · exact TM.rfl' x
  · split
    · exact TM.trans' (finishUserF_tm x _) (loopHeadF_tm P _ _)
    · exact TM.of_eq rfl id
  · split
    · exact TM.rfl' x
    · exact TM.trans' (wakeF_tm x _ _ _) (loopHeadF_tm P _ _)
    · exact TM.rfl' x
  · exact TM.rfl' x

theorem toLoop_tm {x : FCfg} (r : FCfg × RetV) (h : TM x r.1) : TM x (toLoop r) := by
  unfold toLoop; split
  · exact h.trans' (TM.of_eq rfl id)
  · exact h

theorem tickCbF_tm (x : FCfg) (cb : Cb) : TM x (tickCbF N x cb) := by
  unfold tickCbF
  split
  · have h1 : TM x (x.updC fun c => { c with ready := c.ready.erase cb }) := TM.of_eq rfl id
    split
    · exact h1.trans' (TM.updC _ _ (fun ht => (awaitableDone_fix _ _ ht).1))
    · unfold tryKillingF
      exact h1.trans' ((toLoop_tm _ (killF_tm _)).trans' (TM.of_eq rfl id))
    · split
      · exact h1.trans' (toLoop_tm _ (failF_tm _ _))
      · exact h1
  · exact TM.rfl' x

/-- **every event leaves a terminated process as it is** (state object kept, `fired` not reset) -/
theorem stepFN_tm (hN : FTM N) (P : Prog) (x : FCfg) (ev : Ev) : TM x (stepFN N P x ev).1 := by
  cases ev <;> simp only [stepFN]
  · exact tickStepperF_tm P x
  · exact tickCbF_tm x _
  · exact pauseF_tm x
  · exact playF_tm hN x
  · exact killF_tm x
  · exact TM.updC x _ (fun ht => (resume_fix _ _ ht).1)
  · exact failF_tm x _
  · exact TM.updC x _ (fun _ => (cancelFut_fix x.l.c).1)
  · exact TM.updC x _ (fun _ => (complete_fix ..).1)
  · exact TM.of_eq rfl id

end

theorem stepF_tm (P : Prog) (x : FCfg) (ev : Ev) : TM x (stepF P x ev).1 := stepFN_tm (fireNF_tm _) P x ev

theorem runF_tm (P : Prog) (x0 : FCfg) (evs : List Ev) : TM x0 (runF P x0 evs) := by
  induction evs generalizing x0 with
  | nil => exact TM.rfl' x0
  | cons e es ih => exact (stepF_tm P x0 e).trans' (ih _)

/-- **`Bad` is absorbing**: every event keeps it … -/
theorem Bad.step {a0 : Arm} {x : FCfg} (h : Bad a0 x) (P : Prog) (ev : Ev) : Bad a0 (stepF P x ev).1 := h.tm (stepF_tm P x ev)

/-- … and so does every run -/
theorem Bad.run {a0 : Arm} {x : FCfg} (h : Bad a0 x) (P : Prog) (evs : List Ev) : Bad a0 (runF P x evs) := h.tm (runF_tm P x evs)

/-- **terminal states are final, `fired` is monotone** (runs of the twins): a terminated process keeps its state object for the
rest of the run, and a fault that has fired has fired -/
theorem runF_terminal_final (P : Prog) (x : FCfg) (evs : List Ev) (ht : terminal x.l.c.st.label = true) :
    (runF P x evs).l.c.st = x.l.c.st ∧ (x.fired = true → (runF P x evs).fired = true) := runF_tm P x evs ht

end FP
end PMF
