import PlumpyModel.Fault.Proof17
/-!
# Fault twins — the closing part of a step, the stepping task and every event keep `K2`: no run is ever `Bad`

The chain of `Fault/Proof5.lean` for `K2`.  The closing part of a step performs the transition the step proposes; `NextOk` says that
its target is allowed from the current state.  The states the model proposes: RUNNING from CREATED; what the step function returned
(RUNNING / WAITING / FINISHED / KILLED, allowed from RUNNING — the stepping task is inside a step function only while the state is
not CREATED, invariant `IUP`); RUNNING after a wait; EXCEPTED; KILLED by the kill action.
-/
namespace PMF
namespace FP
open L

/-- the state a step proposes is allowed from the current state (if the process is still live) -/
def NextOk (c : Cfg) (next : Option SObj) : Prop :=
  terminal c.st.label = false → ∀ s, next = some s → s.label ∈ allowed c.st.label

/-- the stepping task is inside a step function only if the state is not CREATED -/
def IUP (c : Cfg) : Prop := ∀ b, c.pc = .inUser b → c.st.label ≠ .created

theorem prepare_nextok (c : Cfg) (r : StepEnd)
    (hr : terminal c.st.label = false → ∀ s, r = .next (some s) → s.label ∈ allowed c.st.label) :
    NextOk c (prepare c r).2 := by
  intro hl s hs
  unfold prepare at hs
  split at hs
  · cases hs; exact excepted_allowed' _ hl
  · exact hr hl s (by simp only at hs; rw [hs])
  · split at hs <;> cases hs
  · cases hs; exact excepted_allowed' _ hl

section
variable {a0 : Arm} {N : Hook → FCfg → FCfg}

theorem storeOutcome_K2 (i : Nat) (r : Res) (h : K2 a0 r.1) :
    K2 a0 (match r with
      | (x, none) => ok (if actionStatus x.l.c i = AStatus.pending then x.updC (fun c => setActionStatus c i .done) else x)
      | (x, some e) =>
          ok (if actionStatus x.l.c i = AStatus.pending then x.updC (fun c => setActionStatus c i (.failed e)) else x)).1 := by
  obtain ⟨y, ye⟩ := r
  cases ye with
  | none =>
    show K2 a0 (if actionStatus y.l.c i = AStatus.pending then y.updC (fun c => setActionStatus c i .done) else y)
    split
    · exact K2.upd h _ (setActionStatus_same2 ..) (fun _ => (setActionStatus_fix ..).1)
    · exact h
  | some e =>
    show K2 a0 (if actionStatus y.l.c i = AStatus.pending then y.updC (fun c => setActionStatus c i (.failed e)) else y)
    split
    · exact K2.upd h _ (setActionStatus_same2 ..) (fun _ => (setActionStatus_fix ..).1)
    · exact h

theorem runActionF_K2 (hN : NK2 a0 N) (hac : afterClose a0 = false) (x : FCfg) (i : Nat) (next : Option SObj) (h : K2 a0 x)
    (hl : terminal x.l.c.st.label = false) (hnx : NextOk x.l.c next) : K2 a0 (runActionF N x i next).1 := by
  unfold runActionF
  split
  · exact h
  · rename_i a _
    split
    · exact h
    · apply storeOutcome_K2
      split
      · split
        · rename_i s
          have ht := (transitionToF_G hN.k hN.c x s h.k hac hl (hnx hl s rfl)).1
          generalize transitionToF N x s = r at ht
          obtain ⟨y, ye⟩ := r
          cases ye with
          | some e => exact K2.upd ht _ ⟨rfl, rfl, rfl, rfl, rfl, rfl⟩ (fun _ => rfl)
          | none =>
            show K2 a0 (if y.l.c.pausing.isNone then ok y else doPauseF N y).1
            split
            · exact ht
            · exact doPauseF_K2 hN y ht
        · exact doPauseF_K2 hN x h
      · exact K2.upd (transitionToF_G hN.k hN.c x .killed h.k hac hl (killed_allowed _ hl)).1 _ ⟨rfl, rfl, rfl, rfl, rfl, rfl⟩
          (fun _ => rfl)

theorem enactLoopF_K2 (hN : NK2 a0 N) (hac : afterClose a0 = false) : ∀ (n : Nat) (x : FCfg), K2 a0 x → K2 a0 (enactLoopF N n x).1
  | 0, x, h => h
  | n+1, x, h => by
    unfold enactLoopF
    split
    · split
      · rename_i i _ hc
        have hl : terminal x.l.c.st.label = false := by
          simp only [Bool.and_eq_true, Bool.not_eq_true'] at hc; exact hc.2
        have h1 := runActionF_K2 hN hac x i none h hl (fun _ s hs => by cases hs)
        generalize runActionF N x i none = r at h1
        obtain ⟨y, ye⟩ := r
        cases ye with
        | none => rw [bind_ok]; exact enactLoopF_K2 hN hac n y h1
        | some e => exact h1
      · exact h
    · exact h

theorem dispatch1F_K2 (hN : NK2 a0 N) (hac : afterClose a0 = false) (x : FCfg) (next : Option SObj) (h : K2 a0 x)
    (hl : terminal x.l.c.st.label = false) (hnx : NextOk x.l.c next) : K2 a0 (dispatch1F N x next).1 := by
  unfold dispatch1F
  split
  · split
    · exact runActionF_K2 hN hac x _ next h hl hnx
    · split
      · rename_i s
        exact (transitionToF_G hN.k hN.c x s h.k hac hl (hnx hl s rfl)).1
      · exact h
  · split
    · rename_i s
      exact (transitionToF_G hN.k hN.c x s h.k hac hl (hnx hl s rfl)).1
    · exact h

theorem dispatchF_K2 (hN : NK2 a0 N) (hac : afterClose a0 = false) (x : FCfg) (next : Option SObj) (h : K2 a0 x)
    (hnx : NextOk x.l.c next) : K2 a0 (dispatchF N x next).1 := by
  unfold dispatchF
  split
  · exact h
  · rename_i hnt
    have h1 := dispatch1F_K2 hN hac x next h (by simpa using hnt) hnx
    generalize dispatch1F N x next = r at h1
    obtain ⟨y, ye⟩ := r
    cases ye with
    | none => rw [bind_ok]; exact enactLoopF_K2 hN hac _ y h1
    | some e => exact h1

theorem endOfStepF_K2 (hN : NK2 a0 N) (hac : afterClose a0 = false) (x : FCfg) (r : StepEnd) (h : K2 a0 x)
    (hr : terminal x.l.c.st.label = false → ∀ s, r = .next (some s) → s.label ∈ allowed x.l.c.st.label) :
    K2 a0 (endOfStepF N x r) := by
  unfold endOfStepF
  dsimp only
  have h1 : K2 a0 ((x.updL fun l => { l with executing := false }).setC (prepare (x.updL fun l => { l with executing := false }).l.c r).1) :=
    K2.set (h.fr (Fr.updL' x _ rfl rfl)) _ (prepare_same2 ..) (fun _ => (prepare_fix ..).1)
  have hnx : NextOk ((x.updL fun l => { l with executing := false }).setC
      (prepare (x.updL fun l => { l with executing := false }).l.c r).1).l.c
      (prepare (x.updL fun l => { l with executing := false }).l.c r).2 := by
    have := prepare_nextok x.l.c r hr
    intro hl s hs
    have hst : (prepare x.l.c r).1.st = x.l.c.st := (prepare_fix x.l.c r).1
    have hl' : terminal x.l.c.st.label = false := by rw [← hst]; exact hl
    show s.label ∈ allowed (prepare x.l.c r).1.st.label
    rw [hst]; exact this hl' s hs
  have h2 := dispatchF_K2 hN hac _ (prepare (x.updL fun l => { l with executing := false }).l.c r).2 h1 hnx
  have h3 : K2 a0 ((dispatchF N ((x.updL fun l => { l with executing := false }).setC
      (prepare (x.updL fun l => { l with executing := false }).l.c r).1)
      (prepare (x.updL fun l => { l with executing := false }).l.c r).2).1.updC finally_) :=
    K2.upd h2 _ (finally_same2 _) (fun _ => finally_st _)
  split
  · exact h3
  · exact K2.upd h3 _ ⟨rfl, rfl, rfl, rfl, rfl, rfl⟩ (fun _ => rfl)

theorem cmdToState_label (c : Cfg) (cmd : Cmd) : (cmdToState c cmd).2.label ≠ .created := by
  cases cmd <;> simp [cmdToState, SObj.label]

theorem finishUserF_K2 (hN : NK2 a0 N) (hac : afterClose a0 = false) (x : FCfg) (o : Outcome) (h : K2 a0 x)
    (hst : x.l.c.st.label ≠ .created) : K2 a0 (finishUserF N x o) := by
  unfold finishUserF
  split
  · rename_i cmd
    refine endOfStepF_K2 hN hac _ _ (K2.set h _ (cmdToState_same2 ..) (fun _ => (cmdToState_fix ..).1)) ?_
    intro hl s hs
    cases hs
    have hst' : (cmdToState x.l.c cmd).1.st = x.l.c.st := (cmdToState_fix x.l.c cmd).1
    show (cmdToState x.l.c cmd).2.label ∈ allowed (cmdToState x.l.c cmd).1.st.label
    have hl' : terminal (cmdToState x.l.c cmd).1.st.label = false := hl
    rw [hst'] at hl' ⊢
    exact allowed_of_started _ _ hl' hst (cmdToState_label _ _)
  · refine endOfStepF_K2 hN hac _ _ h ?_
    intro hl s hs; cases hs; exact excepted_allowed' _ hl

theorem wakeF_K2 (hN : NK2 a0 N) (hac : afterClose a0 = false) (x : FCfg) (fn wf : Nat) (w : WF) (h : K2 a0 x) :
    K2 a0 (wakeF N x fn wf w) := by
  unfold wakeF
  split
  · exact endOfStepF_K2 hN hac _ _ h (by intro hl s hs; cases hs; exact running_allowed _ hl)
  · exact endOfStepF_K2 hN hac _ _ (K2.upd h _ (rearm_same2 ..) (fun ht => rearm_st_term _ _ ht)) (by intro hl s hs; cases hs)
  · exact endOfStepF_K2 hN hac _ _ h (by intro hl s hs; cases hs)
  · exact h

theorem stepBodyKF_K2 (hN : NK2 a0 N) (hac : afterClose a0 = false) (P : Prog) (k : FCfg → FCfg)
    (hk : ∀ x, K2 a0 x → K2 a0 (k x)) (x : FCfg) (h : K2 a0 x) : K2 a0 (stepBodyKF N P k x) := by
  unfold stepBodyKF
  dsimp only
  have h1 : K2 a0 (x.updL fun l => { l with c := { l.c with stepping := true }, executing := true }) :=
    h.fr ⟨⟨rfl, rfl, rfl, rfl, rfl, rfl⟩, Or.inl rfl, rfl, rfl, rfl⟩
  split
  · exact hk _ (endOfStepF_K2 hN hac _ _ h1 (by intro hl s hs; cases hs; exact running_allowed _ hl))
  · rename_i fn args kw hst
    split
    · refine hk _ (finishUserF_K2 hN hac _ _ (K2.upd h1 _ ⟨rfl, rfl, rfl, rfl, rfl, rfl⟩ (fun _ => rfl)) ?_)
      have hst' : x.l.c.st = .running fn args kw := hst
      show x.l.c.st.label ≠ .created
      rw [hst']; simp [SObj.label]
    · exact K2.upd (K2.upd h1 _ ⟨rfl, rfl, rfl, rfl, rfl, rfl⟩ (fun _ => rfl)) _ ⟨rfl, rfl, rfl, rfl, rfl, rfl⟩ (fun _ => rfl)
  · split
    · exact K2.upd h1 _ ⟨rfl, rfl, rfl, rfl, rfl, rfl⟩ (fun _ => rfl)
    · exact hk _ (wakeF_K2 hN hac _ _ _ _ h1)
    · exact h1
  · exact hk _ (endOfStepF_K2 hN hac _ _ h1 (by intro hl s hs; cases hs))

theorem loopHeadF_K2 (hN : NK2 a0 N) (hac : afterClose a0 = false) (P : Prog) :
    ∀ (fuel : Nat) (x : FCfg), K2 a0 x → K2 a0 (loopHeadF N P fuel x)
  | 0, x, h => h
  | n+1, x, h => by
    have ih := loopHeadF_K2 hN hac P n
    unfold loopHeadF
    split
    · exact h
    · split
      · exact K2.upd h _ ⟨rfl, rfl, rfl, rfl, rfl, rfl⟩ (fun _ => rfl)
      · split
        · exact K2.upd h _ ⟨rfl, rfl, rfl, rfl, rfl, rfl⟩ (fun _ => rfl)
        · split
          · split
            · exact K2.upd h _ ⟨rfl, rfl, rfl, rfl, rfl, rfl⟩ (fun _ => rfl)
            · exact stepBodyKF_K2 hN hac P _ ih x h
          · exact stepBodyKF_K2 hN hac P _ ih x h

theorem stepBodyF_K2 (hN : NK2 a0 N) (hac : afterClose a0 = false) (P : Prog) (fuel : Nat) (x : FCfg) (h : K2 a0 x) :
    K2 a0 (stepBodyF N P fuel x) := stepBodyKF_K2 hN hac P _ (loopHeadF_K2 hN hac P fuel) x h

theorem tickStepperF_K2 (hN : NK2 a0 N) (hac : afterClose a0 = false) (P : Prog) (x : FCfg) (h : K2 a0 x) (hiu : IUP x.l.c) :
    K2 a0 (tickStepperF N P x) := by
  unfold tickStepperF
  split
  · exact loopHeadF_K2 hN hac P _ x h
  · split
    · split
      · split
        · exact K2.upd h _ ⟨rfl, rfl, rfl, rfl, rfl, rfl⟩ (fun _ => rfl)
        · exact stepBodyF_K2 hN hac P _ x h
      · exact stepBodyF_K2 hN hac P _ x h
    · exact h
  · rename_i b hpc
    split
    · exact loopHeadF_K2 hN hac P _ _ (finishUserF_K2 hN hac _ _ h (hiu b hpc))
    · exact K2.upd h _ ⟨rfl, rfl, rfl, rfl, rfl, rfl⟩ (fun _ => rfl)
  · split
    · exact h
    · exact loopHeadF_K2 hN hac P _ _ (wakeF_K2 hN hac _ _ _ _ h)
    · exact h
  · exact h

/-! ### the other events -/

theorem toLoop_K2 (r : FCfg × RetV) (h : K2 a0 r.1) : K2 a0 (toLoop r) := by
  unfold toLoop; split
  · exact K2.upd h _ ⟨rfl, rfl, rfl, rfl, rfl, rfl⟩ (fun _ => rfl)
  · exact h

theorem cancelFut_K2 (x : FCfg) (h : K2 a0 x) : K2 a0 (x.updC fun c => (cancelFut c).1) :=
  (cancelFut_K x h.k).k2 (fun hb => by
    have hst : (cancelFut x.l.c).1.st = x.l.c.st := (cancelFut_fix x.l.c).1
    obtain ⟨hm, hf, e, he, hs⟩ := hb
    exact h.not_bad ⟨hm, hf, e, he, by rw [← hst]; exact hs⟩)

theorem tickCbF_K2 (hN : NK2 a0 N) (hac : afterClose a0 = false) (x : FCfg) (cb : Cb) (h : K2 a0 x) : K2 a0 (tickCbF N x cb) := by
  unfold tickCbF
  split
  · have h1 : K2 a0 (x.updC fun c => { c with ready := c.ready.erase cb }) :=
      K2.upd h _ ⟨rfl, rfl, rfl, rfl, rfl, rfl⟩ (fun _ => rfl)
    split
    · exact K2.upd h1 _ (awaitableDone_same2 ..) (fun ht => (awaitableDone_fix _ _ ht).1)
    · unfold tryKillingF
      exact K2.upd (toLoop_K2 _ (killF_K2 hN hac _ h1)) _ ⟨rfl, rfl, rfl, rfl, rfl, rfl⟩ (fun _ => rfl)
    · split
      · exact toLoop_K2 _ (failF_K2 hN hac _ _ h1)
      · exact h1
  · exact h

theorem stepFN_K2 (hN : NK2 a0 N) (hac : afterClose a0 = false) (P : Prog) (x : FCfg) (ev : Ev) (h : K2 a0 x) (hiu : IUP x.l.c) :
    K2 a0 (stepFN N P x ev).1 := by
  cases ev <;> simp only [stepFN]
  · exact tickStepperF_K2 hN hac P x h hiu
  · exact tickCbF_K2 hN hac x _ h
  · exact pauseF_K2 hN x h
  · exact playF_K2 hN x h
  · exact killF_K2 hN hac x h
  · exact K2.upd h _ (by unfold resume; split; exact deliver_same2 ..; exact Same2.rfl' _) (fun ht => (resume_fix _ _ ht).1)
  · exact failF_K2 hN hac x _ h
  · exact cancelFut_K2 x h
  · exact K2.upd h _ (complete_same2 ..) (fun _ => (complete_fix ..).1)
  · exact K2.upd h _ ⟨rfl, rfl, rfl, rfl, rfl, rfl⟩ (fun _ => rfl)

end
end FP
end PMF
