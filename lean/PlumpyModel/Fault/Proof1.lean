import PlumpyModel.Fault.Process
import PlumpyModel.PM.LProof13
/-!
# Fault twins — frame facts, the invariant `K`, the hook wrapper

`K a0 x`: what holds of every configuration of a run whose injected fault is `a0` (any hook, before / after, except the two points
after `close()`):
* the lifecycle part of C02's invariant without the count of terminal notifications (`Inv2w`: live ⇒ future unresolved, not
  closed, no cleanup run; terminated ⇒ closed, cleanups ran once, the future holds the outcome of the state object);
* if the fault is a lifecycle hook of a transition (`mainHK`) and has fired, the state is EXCEPTED with exactly the fault;
* no transition is in progress; the armed fault is still `a0`'s hook and variant, and nothing is armed once it has fired.
The alternative `Bad` (the state machine's own "cannot transition" error met the fault inside the failing transition) is
absorbing and excluded in the statements by a hypothesis on the final state.
-/
namespace PMF
namespace FP
open L

@[simp] theorem updC_l (x : FCfg) (f : Cfg → Cfg) : (x.updC f).l = x.l.upd f := rfl
@[simp] theorem updC_arm (x : FCfg) (f : Cfg → Cfg) : (x.updC f).arm = x.arm := rfl
@[simp] theorem updC_fired (x : FCfg) (f : Cfg → Cfg) : (x.updC f).fired = x.fired := rfl
@[simp] theorem updC_called (x : FCfg) (f : Cfg → Cfg) : (x.updC f).called = x.called := rfl
@[simp] theorem updC_rep (x : FCfg) (f : Cfg → Cfg) : (x.updC f).rep = x.rep := rfl
@[simp] theorem updL_l (x : FCfg) (f : LCfg → LCfg) : (x.updL f).l = f x.l := rfl
@[simp] theorem updL_arm (x : FCfg) (f : LCfg → LCfg) : (x.updL f).arm = x.arm := rfl
@[simp] theorem updL_fired (x : FCfg) (f : LCfg → LCfg) : (x.updL f).fired = x.fired := rfl
@[simp] theorem updL_called (x : FCfg) (f : LCfg → LCfg) : (x.updL f).called = x.called := rfl
@[simp] theorem updL_rep (x : FCfg) (f : LCfg → LCfg) : (x.updL f).rep = x.rep := rfl
@[simp] theorem setC_c (x : FCfg) (c : Cfg) : (x.setC c).l.c = c := rfl
@[simp] theorem setC_trans (x : FCfg) (c : Cfg) : (x.setC c).l.trans = x.l.trans := rfl
@[simp] theorem setC_plan (x : FCfg) (c : Cfg) : (x.setC c).l.plan = x.l.plan := rfl
@[simp] theorem setC_executing (x : FCfg) (c : Cfg) : (x.setC c).l.executing = x.l.executing := rfl
@[simp] theorem setC_arm (x : FCfg) (c : Cfg) : (x.setC c).arm = x.arm := rfl
@[simp] theorem setC_fired (x : FCfg) (c : Cfg) : (x.setC c).fired = x.fired := rfl
@[simp] theorem setC_called (x : FCfg) (c : Cfg) : (x.setC c).called = x.called := rfl
@[simp] theorem setC_rep (x : FCfg) (c : Cfg) : (x.setC c).rep = x.rep := rfl

@[simp] theorem bind_ok (y : FCfg) (f : FCfg → Res) : bind (y, none) f = f y := rfl
@[simp] theorem bind_err (y : FCfg) (e : Exc) (f : FCfg → Res) : bind (y, some e) f = (y, some e) := rfl

/-- the lifecycle part of `Inv2` without the count of terminal notifications (a fault that fires after the listeners were told
about the state entered makes them hear about two terminal states) -/
structure Inv2w (c : Cfg) : Prop where
  live : terminal c.st.label = false → (c.fut = .pending ∨ c.fut = .cancelled) ∧ c.closed = false ∧ c.cleanups = 0
  term : terminal c.st.label = true → c.closed = true ∧ c.cleanups = 1 ∧ outcomeOf c.st = some c.fut

theorem Inv2w.same2 {c c' : Cfg} (h : Inv2w c) (s : Same2 c c') : Inv2w c' := by
  obtain ⟨s1, s2, s3, s4, s5, _⟩ := s
  constructor
  · intro hl; rw [s1] at hl; rw [s3, s4, s5]; exact h.live hl
  · intro ht; rw [s1] at ht; rw [s2, s3, s4, s5]; exact h.term ht

theorem Inv2w.of_inv2 {c : Cfg} (h : Inv2 c) : Inv2w c :=
  ⟨fun hl => ⟨(h.live hl).1, (h.live hl).2.1, (h.live hl).2.2.1⟩, fun ht => ⟨(h.term ht).1, (h.term ht).2.1, (h.term ht).2.2.2⟩⟩

/-- the facts `Inv2w` asserts of a live configuration -/
def LiveW (c : Cfg) : Prop := (c.fut = .pending ∨ c.fut = .cancelled) ∧ c.closed = false ∧ c.cleanups = 0

theorem LiveW.same2 {c c' : Cfg} (h : LiveW c) (s : Same2 c c') : LiveW c' := by
  obtain ⟨_, _, s3, s4, s5, _⟩ := s
  unfold LiveW; rw [s3, s4, s5]; exact h

/-- the hooks of a transition (a fault there must end the process EXCEPTED); the others are the pause / play hooks -/
def mainHK : HK → Bool
  | .onPausing => false | .onPaused => false | .onPlaying => false | _ => true

/-- the two fault points that lie after the process has been closed (finding F18) -/
def afterClose (a : Arm) : Bool := a.after && (a.hk == .onTerminated || a.hk == .onClose)

/-- the armed fault is still the hook and variant of `a0`; nothing is armed once the fault has fired -/
def ArmOk (a0 : Arm) (x : FCfg) : Prop :=
  (∀ b, x.arm = some b → b.hk = a0.hk ∧ b.after = a0.after) ∧ (x.fired = true → x.arm = none)

/-- an error of the state machine itself -/
def Internal (e : Exc) : Prop := e = .assertion ∨ e = .invalidState ∨ ∃ a b, e = .noTransition a b

/-- an error of the state machine itself ("cannot transition", a failed assertion) met the fault inside the failing transition: only
`on_terminated` / `on_close` run there -/
def Bad (a0 : Arm) (x : FCfg) : Prop :=
  (a0.hk = .onTerminated ∨ a0.hk = .onClose) ∧ x.fired = true ∧ ∃ e, Internal e ∧ x.l.c.st = .excepted e

theorem Bad.main {a0 : Arm} {x : FCfg} (h : Bad a0 x) : mainHK a0.hk = true := by
  rcases h.1 with h | h <;> rw [h] <;> rfl

def Kg (a0 : Arm) (x : FCfg) : Prop :=
  Inv2w x.l.c ∧ (mainHK a0.hk = true → x.fired = true → x.l.c.st = .excepted faultExc)

structure K (a0 : Arm) (x : FCfg) : Prop where
  arm : ArmOk a0 x
  tr : x.l.trans = none
  g : Bad a0 x ∨ Kg a0 x

/-- `y` agrees with `x` on everything `K` looks at -/
structure Fr (x y : FCfg) : Prop where
  s2 : Same2 x.l.c y.l.c
  st : y.l.c.st = x.l.c.st ∨ terminal x.l.c.st.label = false      -- (a live state object may be re-armed / delivered to)
  fired : y.fired = x.fired
  arm : y.arm = x.arm
  trans : y.l.trans = x.l.trans

theorem Fr.rfl' (x : FCfg) : Fr x x := ⟨Same2.rfl' _, Or.inl rfl, rfl, rfl, rfl⟩
theorem Fr.trans' {x y z : FCfg} (h1 : Fr x y) (h2 : Fr y z) : Fr x z := by
  refine ⟨Same2.trans h1.s2 h2.s2, ?_, h2.fired.trans h1.fired, h2.arm.trans h1.arm, h2.trans.trans h1.trans⟩
  rcases h1.st with e1 | l1
  · rcases h2.st with e2 | l2
    · exact Or.inl (e2.trans e1)
    · exact Or.inr (by rw [← e1]; exact l2)
  · exact Or.inr l1

theorem ArmOk.of_none {a0 : Arm} {y : FCfg} (h : y.arm = none) : ArmOk a0 y :=
  ⟨fun b hb => (by rw [h] at hb; cases hb), fun _ => h⟩

theorem ArmOk.fr {a0 : Arm} {x y : FCfg} (h : ArmOk a0 x) (f : Fr x y) : ArmOk a0 y := by
  unfold ArmOk; rw [f.arm, f.fired]; exact h

theorem K.fr {a0 : Arm} {x y : FCfg} (h : K a0 x) (f : Fr x y) : K a0 y := by
  refine ⟨h.arm.fr f, by rw [f.trans]; exact h.tr, ?_⟩
  have hexc : ∀ e, x.l.c.st = .excepted e → y.l.c.st = .excepted e := fun e hs => by
    rcases f.st with h1 | h1
    · rw [h1]; exact hs
    · rw [hs] at h1; simp [SObj.label, terminal, allowed] at h1
  rcases h.g with ⟨hm, hf, e, he, hs⟩ | ⟨hi, he⟩
  · exact Or.inl ⟨hm, by rw [f.fired]; exact hf, e, he, hexc e hs⟩
  · exact Or.inr ⟨hi.same2 f.s2, fun hm hf => hexc _ (he hm (by rw [← f.fired]; exact hf))⟩

/-- a pure update of the `Cfg` part that keeps what `Inv2` looks at and the state object -/
theorem Fr.updC (x : FCfg) (f : Cfg → Cfg) (hs : Same2 x.l.c (f x.l.c)) (hst : (f x.l.c).st = x.l.c.st) : Fr x (x.updC f) :=
  ⟨hs, Or.inl hst, rfl, rfl, rfl⟩

/-- … the same for an update that may replace a live state object by another one of the same kind -/
theorem Fr.updC' (x : FCfg) (f : Cfg → Cfg) (hs : Same2 x.l.c (f x.l.c))
    (hst : (f x.l.c).st = x.l.c.st ∨ terminal x.l.c.st.label = false) : Fr x (x.updC f) :=
  ⟨hs, hst, rfl, rfl, rfl⟩

/-! ### the hook wrapper -/

theorem armStep_cases {a0 : Arm} (hk : HK) (x : FCfg) (h : ArmOk a0 x) :
    ((armStep hk x.arm).1 = .pass ∧ (∀ b, (armStep hk x.arm).2 = some b → b.hk = a0.hk ∧ b.after = a0.after) ∧
      (x.arm = none → (armStep hk x.arm).2 = none)) ∨
    (a0.hk = hk ∧ x.fired = false ∧ x.arm ≠ none ∧ (armStep hk x.arm).2 = none ∧
      (((armStep hk x.arm).1 = .before ∧ a0.after = false) ∨ ((armStep hk x.arm).1 = .after ∧ a0.after = true))) := by
  cases ha : x.arm with
  | none => left; simp [armStep]
  | some b =>
    obtain ⟨hb1, hb2⟩ := h.1 b ha
    have hnf : x.fired = false := by
      cases hf : x.fired with
      | false => rfl
      | true => have := h.2 hf; rw [ha] at this; cases this
    unfold armStep
    by_cases h1 : b.hk = hk
    · by_cases h2 : b.left = 0
      · right
        refine ⟨hb1 ▸ h1, hnf, (fun h => nomatch h), by simp [h1, h2], ?_⟩
        cases h3 : b.after
        · left; exact ⟨by simp [h1, h2, h3], by rw [← hb2]; exact h3⟩
        · right; exact ⟨by simp [h1, h2, h3], by rw [← hb2]; exact h3⟩
      · left
        simp only [h1, h2, if_true, if_false]
        exact ⟨trivial, fun b' hb' => by cases hb'; exact ⟨h1 ▸ hb1, hb2⟩, fun h => by cases h⟩
    · left
      simp only [h1, if_false]
      exact ⟨trivial, fun b' hb' => by cases hb'; exact ⟨hb1, hb2⟩, fun h => by cases h⟩

/-- `y'` is `y` up to the call counter and the `fired` flag -/
def UpTo (y y' : FCfg) : Prop := y'.l = y.l ∧ y'.arm = y.arm ∧ y'.rep = y.rep ∧ y'.inState = y.inState

/-- case analysis of a hook call.  `x'` is the configuration handed to the base implementation: `x` with the armed fault advanced
(and another value of the call counter); an exception leaves the configuration the base implementation reached, up to the call
counter (which is put back). -/
theorem hookF_cases {a0 : Arm} (hk : HK) (base : FCfg → Res) (x : FCfg) (h : ArmOk a0 x) :
    (a0.hk = hk ∧ a0.after = false ∧ x.fired = false ∧ x.arm ≠ none ∧
      ∃ y, hookF hk base x = (y, some faultExc) ∧ y.l = x.l ∧ y.fired = true ∧ y.arm = none ∧ y.rep = x.rep ∧
        y.inState = x.inState) ∨
    (∃ x', x'.l = x.l ∧ x'.fired = x.fired ∧ x'.rep = x.rep ∧ ArmOk a0 x' ∧ ((x.arm = none → x'.arm = none) ∧ x'.inState = x.inState) ∧
      ((a0.hk = hk ∧ a0.after = true ∧ x.fired = false ∧ x.arm ≠ none ∧ x'.arm = none ∧
          ((∃ y y' e, base x' = (y, some e) ∧ hookF hk base x = (y', some e) ∧ UpTo y y' ∧ y'.fired = y.fired) ∨
           (∃ y y', base x' = (y, none) ∧ hookF hk base x = (y', some faultExc) ∧ y'.l = y.l ∧ y'.rep = y.rep ∧
             y'.arm = none ∧ y'.fired = true ∧ y'.inState = y.inState))) ∨
       ((∃ y y' e, base x' = (y, some e) ∧ hookF hk base x = (y', some e) ∧ UpTo y y' ∧ y'.fired = y.fired) ∨
        (∃ y y' e, base x' = (y, none) ∧ hookF hk base x = (y', e) ∧ (e = none ∨ e = some .assertion) ∧ UpTo y y' ∧
          y'.fired = y.fired ∧ (y.called = x'.called → e = none ∧ y'.called = x.called))))) := by
  rcases armStep_cases hk x h with ⟨hp, h2, h3⟩ | ⟨hhk, hnf, hxa, harm, hv⟩
  · -- pass
    right
    have hao : ∀ n, ArmOk a0 { x with called := n, arm := (armStep hk x.arm).2 } := fun n => ⟨h2, fun hf => h3 (h.2 hf)⟩
    by_cases hT : hk = .onTerminated
    · subst hT
      refine ⟨{ x with called := x.called + 1 - 1, arm := (armStep .onTerminated x.arm).2 }, rfl, rfl, rfl, hao _, ⟨h3, rfl⟩, Or.inr ?_⟩
      unfold hookF supF
      simp only [hp, if_true]
      cases hb : base { x with called := x.called + 1 - 1, arm := (armStep HK.onTerminated x.arm).2 } with
      | mk y e =>
        cases e with
        | some e => left; exact ⟨y, { y with called := x.called }, e, rfl, rfl, ⟨rfl, rfl, rfl, rfl⟩, rfl⟩
        | none =>
          right
          by_cases hc : y.called = x.called
          · exact ⟨y, y, none, rfl, by simp [hc], Or.inl rfl, ⟨rfl, rfl, rfl, rfl⟩, rfl, fun _ => ⟨rfl, hc⟩⟩
          · exact ⟨y, y, some .assertion, rfl, by simp [hc], Or.inr rfl, ⟨rfl, rfl, rfl, rfl⟩, rfl,
              fun h' => absurd (by simpa using h') hc⟩
    · refine ⟨{ x with called := x.called + 1, arm := (armStep hk x.arm).2 }, rfl, rfl, rfl, hao _, ⟨h3, rfl⟩, Or.inr ?_⟩
      unfold hookF supF
      simp only [hp, hT, if_false]
      cases hb : base { x with called := x.called + 1, arm := (armStep hk x.arm).2 } with
      | mk y e =>
        cases e with
        | some e => left; exact ⟨y, { y with called := x.called }, e, rfl, rfl, ⟨rfl, rfl, rfl, rfl⟩, rfl⟩
        | none =>
          right
          by_cases hc : y.called - 1 = x.called
          · exact ⟨y, { y with called := y.called - 1 }, none, rfl, by simp [hc], Or.inl rfl, ⟨rfl, rfl, rfl, rfl⟩, rfl, fun _ => ⟨rfl, hc⟩⟩
          · exact ⟨y, { y with called := y.called - 1 }, some .assertion, rfl, by simp [hc], Or.inr rfl, ⟨rfl, rfl, rfl, rfl⟩, rfl,
              fun h' => absurd (by simp [h']) hc⟩
  · have hao : ∀ n, ArmOk a0 { x with called := n, arm := (armStep hk x.arm).2 } :=
      fun n => ⟨fun b hb => (by rw [show ({ x with called := n, arm := (armStep hk x.arm).2 } : FCfg).arm = none from harm] at hb; cases hb),
        fun _ => harm⟩
    rcases hv with ⟨hb4, haf⟩ | ⟨ha4, haf⟩
    · -- before
      left
      refine ⟨hhk, haf, hnf, hxa, { x with called := x.called, arm := (armStep hk x.arm).2, fired := true }, ?_, rfl, rfl, harm, rfl, rfl⟩
      unfold hookF; simp only [hb4]
    · -- after
      right
      by_cases hT : hk = .onTerminated
      · subst hT
        refine ⟨{ x with called := x.called + 1 - 1, arm := (armStep .onTerminated x.arm).2 }, rfl, rfl, rfl, hao _, ⟨fun _ => harm, rfl⟩,
          Or.inl ⟨hhk, haf, hnf, hxa, harm, ?_⟩⟩
        unfold hookF supF
        simp only [ha4, if_true]
        cases hb : base { x with called := x.called + 1 - 1, arm := (armStep HK.onTerminated x.arm).2 } with
        | mk y e =>
          cases e with
          | some e => left; exact ⟨y, { y with called := x.called }, e, rfl, rfl, ⟨rfl, rfl, rfl, rfl⟩, rfl⟩
          | none => right; exact ⟨y, { y with called := x.called, arm := none, fired := true }, rfl, rfl, rfl, rfl, rfl, rfl, rfl⟩
      · refine ⟨{ x with called := x.called + 1, arm := (armStep hk x.arm).2 }, rfl, rfl, rfl, hao _, ⟨fun _ => harm, rfl⟩,
          Or.inl ⟨hhk, haf, hnf, hxa, harm, ?_⟩⟩
        unfold hookF supF
        simp only [ha4, hT, if_false]
        cases hb : base { x with called := x.called + 1, arm := (armStep hk x.arm).2 } with
        | mk y e =>
          cases e with
          | some e => left; exact ⟨y, { y with called := x.called }, e, rfl, rfl, ⟨rfl, rfl, rfl, rfl⟩, rfl⟩
          | none => right; exact ⟨y, { y with called := x.called, arm := none, fired := true }, rfl, rfl, rfl, rfl, rfl, rfl, rfl⟩

end FP
end PMF
