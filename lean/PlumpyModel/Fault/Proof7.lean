import PlumpyModel.Fault.Proof5
/-!
# Fault twins — a fault in a pause / play hook: what exactly the failing call leaves behind
-/
namespace PMF
namespace FP
open L

section
variable {N : Hook → FCfg → FCfg}

/-- `on_pausing` raises (before or after `super()`): `_do_pause` raises it, `_pausing` is cleared, nothing else changed -/
theorem doPauseF_onPausing (x : FCfg) (af : Bool) (ha : x.arm = some ⟨.onPausing, 0, af⟩) :
    (doPauseF N x).2 = some faultExc ∧ (doPauseF N x).1.l = x.l.upd (fun c => { c with pausing := none }) ∧
    (doPauseF N x).1.fired = true ∧ (doPauseF N x).1.arm = none := by
  unfold doPauseF hookF
  cases af <;> simp [ha, armStep, supF, ok, bind, FCfg.updC]

/-- `on_paused` raises before `super()`: the same, the process is not paused -/
theorem doPauseF_onPaused_before (x : FCfg) (ha : x.arm = some ⟨.onPaused, 0, false⟩) :
    (doPauseF N x).2 = some faultExc ∧ (doPauseF N x).1.l = x.l.upd (fun c => { c with pausing := none }) ∧
    (doPauseF N x).1.fired = true ∧ (doPauseF N x).1.arm = none := by
  unfold doPauseF hookF
  simp [ha, armStep, supF, ok, bind, FCfg.updC]

/-- `on_paused` raises after `super()`: the process IS paused and its listeners were notified (`N .paused`), and the exception is
raised to the requester all the same -/
theorem doPauseF_onPaused_after (x : FCfg) (ha : x.arm = some ⟨.onPaused, 0, true⟩) :
    ∃ x' : FCfg, x'.l = x.l ∧ x'.arm = none ∧ x'.fired = x.fired ∧ x'.rep = x.rep ∧
      (doPauseF N x).2 = some faultExc ∧
      (doPauseF N x).1.l = (N .paused (x'.updC doPauseHooks)).l.upd (fun c => { c with pausing := none }) ∧
      (doPauseF N x).1.fired = true ∧ (doPauseF N x).1.arm = none := by
  refine ⟨{ x with called := x.called + 1 - 1 + 1, arm := none }, rfl, rfl, rfl, rfl, ?_⟩
  unfold doPauseF hookF
  simp [ha, armStep, supF, ok, bind, FCfg.updC, pausedBaseF]

/-- `on_playing` raises before `super()`: `play()` raises it, the process is still paused, nothing changed -/
theorem playF_onPlaying_before (x : FCfg) (ha : x.arm = some ⟨.onPlaying, 0, false⟩) (hp : x.l.c.paused.isSome = true) :
    (playF N x).2 = .raised faultExc ∧ (playF N x).1.l = x.l ∧ (playF N x).1.fired = true ∧ (playF N x).1.arm = none := by
  unfold playF
  cases hpp : x.l.c.paused with
  | none => rw [hpp] at hp; cases hp
  | some pf =>
    unfold hookF
    simp [ha, armStep, retOf]

/-- `on_playing` raises after `super()`: the process plays (its listeners were notified) and `play()` raises the exception -/
theorem playF_onPlaying_after (x : FCfg) (ha : x.arm = some ⟨.onPlaying, 0, true⟩) (hp : x.l.c.paused.isSome = true) :
    ∃ x' : FCfg, x'.l = x.l ∧ x'.arm = none ∧ x'.fired = x.fired ∧ x'.rep = x.rep ∧
      (playF N x).2 = .raised faultExc ∧ (playF N x).1.l = (N .played (x'.updC (fun c => (play c).1))).l ∧
      (playF N x).1.fired = true ∧ (playF N x).1.arm = none := by
  refine ⟨{ x with called := x.called + 1, arm := none }, rfl, rfl, rfl, rfl, ?_⟩
  unfold playF
  cases hpp : x.l.c.paused with
  | none => rw [hpp] at hp; cases hp
  | some pf =>
    unfold hookF
    simp [ha, armStep, supF, ok, retOf, playingBaseF]

end
end FP
end PMF
