import PlumpyModel.Fault.Proof5
/-!
# Fault twins — a fault in a pause / play hook: what exactly the failing call leaves behind
-/
namespace PMF
namespace FP
open L

section
variable {N : Hook → FCfg → FCfg}

/-- `on_pausing` raises (before or after `super()`): `_do_pause` raises it, `_pausing` is cleared, nothing else changed -/
theorem doPauseF_onPausing (x : FCfg) (af : Bool) (ha : x.arm = some ⟨.onPausing, 0, af⟩) :
    (doPauseF N x).2 = some faultExc ∧ (doPauseF N x).1.l = x.l.upd (fun c => { c with pausing := none }) ∧
    (doPauseF N x).1.fired = true ∧ (doPauseF N x).1.arm = none := by
  unfold doPauseF hookF
  cases af <;> simp [ha, armStep, supF, ok, bind, FCfg.updC]

/-- `on_paused` raises before `super()`: the same, the process is not paused -/
theorem doPauseF_onPaused_before (x : FCfg) (ha : x.arm = some ⟨.onPaused, 0, false⟩) :
    (doPauseF N x).2 = some faultExc ∧ (doPauseF N x).1.l = x.l.upd (fun c => { c with pausing := none }) ∧
    (doPauseF N x).1.fired = true ∧ (doPauseF N x).1.arm = none := by
  unfold doPauseF hookF
  simp [ha, armStep, supF, ok, bind, FCfg.updC]

/-- `on_paused` raises after `super()`: the process IS paused and its listeners were notified (`N .paused`), and the exception is
raised to the requester all the same -/
theorem doPauseF_onPaused_after (x : FCfg) (ha : x.arm = some ⟨.onPaused, 0, true⟩) :
    ∃ x' : FCfg, x'.l = x.l ∧ x'.arm = none ∧ x'.fired = x.fired ∧ x'.rep = x.rep ∧
      (doPauseF N x).2 = some faultExc ∧
      (doPauseF N x).1.l = (N .paused (x'.updC doPauseHooks)).l.upd (fun c => { c with pausing := none }) ∧
      (doPauseF N x).1.fired = true ∧ (doPauseF N x).1.arm = none := by
  refine ⟨{ x with called := x.called + 1 - 1 + 1, arm := none }, rfl, rfl, rfl, rfl, ?_⟩
  unfold doPauseF hookF
  simp [ha, armStep, supF, ok, bind, FCfg.updC, pausedBaseF]

/-- `on_playing` raises before `super()`: `play()` raises it, the process is still paused, nothing changed -/
theorem playF_onPlaying_before (x : FCfg) (ha : x.arm = some ⟨.onPlaying, 0, false⟩) (hp : x.l.c.paused.isSome = true) :
    (playF N x).2 = .raised faultExc ∧ (playF N x).1.l = x.l ∧ (playF N x).1.fired = true ∧ (playF N x).1.arm = none := by
  unfold playF
  cases hpp : x.l.c.paused with
  | none => rw [hpp] at hp; cases hp
  | some pf =>
    unfold hookF
    simp [ha, armStep, retOf]

/-- `on_playing` raises after `super()`: the process plays (its listeners were notified) and `play()` raises the exception -/
theorem playF_onPlaying_after (x : FCfg) (ha : x.arm = some ⟨.onPlaying, 0, true⟩) (hp : x.l.c.paused.isSome = true) :
    ∃ x' : FCfg, x'.l = x.l ∧ x'.arm = none ∧ x'.fired = x.fired ∧ x'.rep = x.rep ∧
      (playF N x).2 = .raised faultExc ∧ (playF N x).1.l = (N .played (x'.updC (fun c => (play c).1))).l ∧
      (playF N x).1.fired = true ∧ (playF N x).1.arm = none := by
  refine ⟨{ x with called := x.called + 1, arm := none }, rfl, rfl, rfl, rfl, ?_⟩
  unfold playF
  cases hpp : x.l.c.paused with
  | none => rw [hpp] at hp; cases hp
  | some pf =>
    unfold hookF
    simp [ha, armStep, supF, ok, retOf, playingBaseF]

/-- a pending pause action whose `on_pausing` raises: the exception becomes the exception of the action future (`.failed`), nothing
propagates into the step, `_pausing` is cleared, nothing else changed -/
theorem runActionF_onPausing (x : FCfg) (i : Nat) (a : Action) (af : Bool) (hai : x.l.c.actions[i]? = some a)
    (hk : a.kind = .pause) (hs : a.status = .pending) (ha : x.arm = some ⟨.onPausing, 0, af⟩) :
    (runActionF N x i none).2 = none ∧
    (runActionF N x i none).1.l = (x.l.upd (fun c => { c with pausing := none })).upd (fun c => setActionStatus c i (.failed faultExc)) ∧
    (runActionF N x i none).1.fired = true := by
  obtain ⟨d1, d2, d3, _⟩ := doPauseF_onPausing (N := N) x af ha
  unfold runActionF
  rw [hai]
  simp only [hs, ne_eq, not_true_eq_false, if_false, hk]
  generalize doPauseF N x = r at d1 d2 d3
  obtain ⟨y, ye⟩ := r
  simp only at d1 d2 d3
  subst d1
  have hst : actionStatus y.l.c i = .pending := by
    rw [d2]; unfold actionStatus; rw [upd_c]
    show (match x.l.c.actions[i]? with | some a => a.status | none => AStatus.cancelled) = _
    rw [hai]; exact hs
  simp only [hst, if_true]
  exact ⟨rfl, by show (y.updC _).l = _; rw [updC_l, d2], d3⟩

end
end FP
end PMF
