import PlumpyModel.Fault.Proof1
/-!
# Fault twins — one transition with the armed fault (`transitionToF`)

The pieces of `transition_to` in the order of the source; for each the configurations it can leave when the fault fires in it
(before / after the base implementation) and when it does not.  `NK`: what the notification function may be assumed to do —
it keeps `K` (outside a transition) and cannot touch the lifecycle inside one (`transition_to` asserts that no transition is in
progress; `pause()` / `kill()` defer while stepping).
-/
namespace PMF
namespace FP
open L

structure NK (a0 : Arm) (N : Hook → FCfg → FCfg) : Prop where
  inv : ∀ h x, K a0 x → K a0 (N h x)
  tq : ∀ h x, x.l.trans.isSome = true → ArmOk a0 x → Fr x (N h x)

theorem afterClose_false {a0 : Arm} (hac : afterClose a0 = false) (hk : a0.hk = .onTerminated ∨ a0.hk = .onClose) :
    a0.after = false := by
  unfold afterClose at hac
  rcases hk with hk | hk <;> simp [hk] at hac <;> exact hac

section
variable {a0 : Arm}

/-- a hook whose base implementation is a total update of the `Cfg` part -/
theorem hookF_pure (hk : HK) (f : Cfg → Cfg) (x : FCfg) (h : ArmOk a0 x) :
    ((hookF hk (fun x => ok (x.updC f)) x).2 = none ∧ (hookF hk (fun x => ok (x.updC f)) x).1.l = x.l.upd f ∧
      (hookF hk (fun x => ok (x.updC f)) x).1.fired = x.fired ∧ ArmOk a0 (hookF hk (fun x => ok (x.updC f)) x).1 ∧
      (hookF hk (fun x => ok (x.updC f)) x).1.called = x.called ∧
      (x.arm = none → (hookF hk (fun x => ok (x.updC f)) x).1.arm = none) ∧
      (hookF hk (fun x => ok (x.updC f)) x).1.rep = x.rep) ∨
    (a0.hk = hk ∧ (hookF hk (fun x => ok (x.updC f)) x).2 = some faultExc ∧
      (((hookF hk (fun x => ok (x.updC f)) x).1.l = x.l ∧ a0.after = false) ∨
       ((hookF hk (fun x => ok (x.updC f)) x).1.l = x.l.upd f ∧ a0.after = true)) ∧
      (hookF hk (fun x => ok (x.updC f)) x).1.fired = true ∧ (hookF hk (fun x => ok (x.updC f)) x).1.arm = none ∧
      x.fired = false ∧ x.arm ≠ none ∧ (hookF hk (fun x => ok (x.updC f)) x).1.rep = x.rep) := by
  rcases hookF_cases hk (fun x => ok (x.updC f)) x h with
    ⟨hhk, haf, hnf, hxa, y, hy, h1, h2, h3, h4⟩ | ⟨x', hl, hf, hr, hao, han, hcase⟩
  · right
    rw [hy]
    exact ⟨hhk, rfl, Or.inl ⟨h1, haf⟩, h2, h3, hnf, hxa, h4⟩
  · rcases hcase with ⟨hhk, haf, hnf, hxa, hx'a, hcase⟩ | hcase
    · rcases hcase with ⟨y, e, hb, _⟩ | ⟨y, y', hb, hy, hu, hfy⟩
      · simp [ok] at hb
      · right
        have hyx : y = x'.updC f := by simpa [ok] using hb.symm
        rw [hy]
        refine ⟨hhk, rfl, Or.inr ⟨?_, haf⟩, hfy, ?_, hnf, hxa, ?_⟩
        · show y'.l = _; rw [hu.1, hyx, updC_l, hl]
        · show y'.arm = none; rw [hu.2.1, hyx]; exact hx'a
        · show y'.rep = _; rw [hu.2.2, hyx, updC_rep, hr]
    · rcases hcase with ⟨y, e, hb, _⟩ | ⟨y, y', e, hb, hy, _, hu, hfy, hcalled⟩
      · simp [ok] at hb
      · left
        have hyx : y = x'.updC f := by simpa [ok] using hb.symm
        obtain ⟨he, hc'⟩ := hcalled (by rw [hyx]; rfl)
        rw [hy]; subst he
        refine ⟨rfl, ?_, ?_, ?_, hc', ?_, ?_⟩
        · show y'.l = _; rw [hu.1, hyx, updC_l, hl]
        · show y'.fired = _; rw [hfy, hyx, updC_fired, hf]
        · refine ⟨fun b hb' => hao.1 b (by rw [← hb']; show x'.arm = y'.arm; rw [hu.2.1, hyx]; rfl), fun hfy' => ?_⟩
          have h5 : y'.fired = true := hfy'
          rw [hfy, hyx] at h5
          show y'.arm = none; rw [hu.2.1, hyx]; exact hao.2 h5
        · intro hn; show y'.arm = none; rw [hu.2.1, hyx]; exact han hn
        · show y'.rep = _; rw [hu.2.2, hyx, updC_rep, hr]

/-- `close()` on a process that is not closed: closed, or the fault fired before `super().on_close()` and nothing happened -/
theorem closeF_spec (x : FCfg) (h : ArmOk a0 x) (hac : afterClose a0 = false) (hc : x.l.c.closed = false) :
    ((closeF x).2 = none ∧ (closeF x).1.l = x.l.upd onClose ∧ (closeF x).1.fired = x.fired ∧ ArmOk a0 (closeF x).1 ∧
      (closeF x).1.called = x.called ∧ (x.arm = none → (closeF x).1.arm = none)) ∨
    ((closeF x).2 = some faultExc ∧ (closeF x).1.l = x.l ∧ (closeF x).1.fired = true ∧ (closeF x).1.arm = none ∧
      x.fired = false ∧ x.arm ≠ none) := by
  unfold closeF
  simp only [hc, Bool.false_eq_true, if_false]
  rcases hookF_pure .onClose onClose x h with ⟨h1, h2, h3, h4, h5, h6, _⟩ | ⟨hhk, h1, h2, h3, h4, h5, h6, _⟩
  · exact Or.inl ⟨h1, h2, h3, h4, h5, h6⟩
  · right
    rcases h2 with ⟨h2, _⟩ | ⟨_, haf⟩
    · exact ⟨h1, h2, h3, h4, h5, h6⟩
    · exact absurd haf (by rw [afterClose_false hac (Or.inr hhk)]; exact Bool.false_ne_true)

theorem ArmOk.updC {x : FCfg} (h : ArmOk a0 x) (f : Cfg → Cfg) : ArmOk a0 (x.updC f) := h
theorem ArmOk.updL {x : FCfg} (h : ArmOk a0 x) (f : LCfg → LCfg) : ArmOk a0 (x.updL f) := h
theorem ArmOk.setC {x : FCfg} (h : ArmOk a0 x) (c : Cfg) : ArmOk a0 (x.setC c) := h

theorem releasePause_closed (c : Cfg) : (releasePause c).closed = c.closed := (releasePause_fields c).2.2.1

/-- `on_terminated` on a process that is not closed: released and closed, or the fault fired before `super().on_terminated()` /
before `super().on_close()` and the process is not closed -/
theorem terminatedF_spec (x : FCfg) (h : ArmOk a0 x) (hac : afterClose a0 = false) (hc : x.l.c.closed = false) :
    ((terminatedF x).2 = none ∧ (terminatedF x).1.l = x.l.upd onTerminated ∧ (terminatedF x).1.fired = x.fired ∧
      ArmOk a0 (terminatedF x).1 ∧ (x.arm = none → (terminatedF x).1.arm = none)) ∨
    ((terminatedF x).2 = some faultExc ∧ ((terminatedF x).1.l = x.l ∨ (terminatedF x).1.l = x.l.upd releasePause) ∧
      (terminatedF x).1.fired = true ∧ (terminatedF x).1.arm = none ∧ x.fired = false ∧ x.arm ≠ none) := by
  unfold terminatedF
  rcases hookF_cases .onTerminated (fun x => closeF (x.updC releasePause)) x h with
    ⟨_, _, hnf, hxa, y, hy, h1, h2, h3, _⟩ | ⟨x', hl, hf, hr, hao, han, hcase⟩
  · right; rw [hy]; exact ⟨rfl, Or.inl h1, h2, h3, hnf, hxa⟩
  · rcases hcase with ⟨hhk, haf, _⟩ | hcase
    · exact absurd haf (by rw [afterClose_false hac (Or.inl hhk)]; exact Bool.false_ne_true)
    · have hc'' : (x'.updC releasePause).l.c.closed = false := by
        rw [updC_l, upd_c, releasePause_closed, hl]; exact hc
      have hsp := closeF_spec (x'.updC releasePause) (hao.updC _) hac hc''
      rcases hcase with ⟨y, e, hb, hy⟩ | ⟨y, y', e, hb, hy, _, hu, hfy, hcalled⟩
      · -- the base implementation raised: the fault fired in `on_close`
        rcases hsp with ⟨k1, _⟩ | ⟨k1, k2, k3, k4, k5, k6⟩
        · rw [show closeF (x'.updC releasePause) = (y, some e) from hb] at k1; cases k1
        · right
          have h2 : (closeF (x'.updC releasePause)).2 = some e := by rw [show closeF (x'.updC releasePause) = (y, some e) from hb]
          have h1 : (closeF (x'.updC releasePause)).1 = y := by rw [show closeF (x'.updC releasePause) = (y, some e) from hb]
          rw [k1] at h2; cases h2
          rw [hy]
          refine ⟨rfl, Or.inr ?_, ?_, ?_, ?_, fun hn => k6 (han hn)⟩
          · show y.l = _; rw [← h1, k2, updC_l, hl]
          · show y.fired = true; rw [← h1]; exact k3
          · show y.arm = none; rw [← h1]; exact k4
          · rw [← hf]; exact k5
      · rcases hsp with ⟨k1, k2, k3, k4, k5, k6⟩ | ⟨k1, _⟩
        · left
          have h1 : (closeF (x'.updC releasePause)).1 = y := by rw [show closeF (x'.updC releasePause) = (y, none) from hb]
          obtain ⟨he, _⟩ := hcalled (by rw [← h1, k5]; rfl)
          rw [hy]; subst he
          refine ⟨rfl, ?_, ?_, ?_, ?_⟩
          · show y'.l = _; rw [hu.1, ← h1, k2, updC_l, hl]; rfl
          · show y'.fired = _; rw [hfy, ← h1, k3, updC_fired, hf]
          · have h4 : ArmOk a0 y := h1 ▸ k4
            exact ⟨fun b hb' => h4.1 b (by rw [← hb']; exact hu.2.1.symm), fun hfy' => by
              show y'.arm = none; rw [hu.2.1]; exact h4.2 (by rw [← hfy]; exact hfy')⟩
          · intro hn; show y'.arm = none; rw [hu.2.1, ← h1]; exact k6 (han hn)
        · rw [show closeF (x'.updC releasePause) = (y, none) from hb] at k1; cases k1

end
end FP
end PMF
