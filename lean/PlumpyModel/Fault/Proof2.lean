import PlumpyModel.Fault.Proof1
/-!
# Fault twins — one transition with the armed fault (`transitionToF`)

The pieces of `transition_to` in the order of the source; for each the configurations it can leave when the fault fires in it
(before / after the base implementation) and when it does not.  `NK`: what the notification function may be assumed to do —
it keeps `K` (outside a transition) and cannot touch the lifecycle inside one (`transition_to` asserts that no transition is in
progress; `pause()` / `kill()` defer while stepping).
-/
namespace PMF
namespace FP
open L

/-- `y`'s `Cfg` part agrees with `c` on what `Inv2` looks at and on the state object; its transition flag is `tr` -/
def CR (c : Cfg) (y : FCfg) (tr : Option Label) : Prop := Same2 c y.l.c ∧ y.l.c.st = c.st ∧ y.l.trans = tr

structure NK (a0 : Arm) (N : Hook → FCfg → FCfg) : Prop where
  inv : ∀ h x, K a0 x → K a0 (N h x)
  tq : ∀ h x, x.l.trans.isSome = true → ArmOk a0 x →
    CR x.l.c (N h x) x.l.trans ∧ ArmOk a0 (N h x) ∧ (mainHK a0.hk = true → (N h x).fired = x.fired)

theorem afterClose_false {a0 : Arm} (hac : afterClose a0 = false) (hk : a0.hk = .onTerminated ∨ a0.hk = .onClose) :
    a0.after = false := by
  unfold afterClose at hac
  rcases hk with hk | hk <;> simp [hk] at hac <;> exact hac

section
variable {a0 : Arm}

/-- a hook whose base implementation is a total update of the `Cfg` part -/
theorem hookF_pure (hk : HK) (f : Cfg → Cfg) (x : FCfg) (h : ArmOk a0 x) :
    ((hookF hk (fun x => ok (x.updC f)) x).2 = none ∧ (hookF hk (fun x => ok (x.updC f)) x).1.l = x.l.upd f ∧
      (hookF hk (fun x => ok (x.updC f)) x).1.fired = x.fired ∧ ArmOk a0 (hookF hk (fun x => ok (x.updC f)) x).1 ∧
      (hookF hk (fun x => ok (x.updC f)) x).1.called = x.called ∧
      (x.arm = none → (hookF hk (fun x => ok (x.updC f)) x).1.arm = none) ∧
      (hookF hk (fun x => ok (x.updC f)) x).1.rep = x.rep) ∨
    (a0.hk = hk ∧ (hookF hk (fun x => ok (x.updC f)) x).2 = some faultExc ∧
      (((hookF hk (fun x => ok (x.updC f)) x).1.l = x.l ∧ a0.after = false) ∨
       ((hookF hk (fun x => ok (x.updC f)) x).1.l = x.l.upd f ∧ a0.after = true)) ∧
      (hookF hk (fun x => ok (x.updC f)) x).1.fired = true ∧ (hookF hk (fun x => ok (x.updC f)) x).1.arm = none ∧
      x.fired = false ∧ x.arm ≠ none ∧ (hookF hk (fun x => ok (x.updC f)) x).1.rep = x.rep) := by
  rcases hookF_cases hk (fun x => ok (x.updC f)) x h with
    ⟨hhk, haf, hnf, hxa, y, hy, h1, h2, h3, h4⟩ | ⟨x', hl, hf, hr, hao, han, hcase⟩
  · right
    rw [hy]
    exact ⟨hhk, rfl, Or.inl ⟨h1, haf⟩, h2, h3, hnf, hxa, h4.1⟩
  · rcases hcase with ⟨hhk, haf, hnf, hxa, hx'a, hcase⟩ | hcase
    · rcases hcase with ⟨y, _, e, hb, _⟩ | ⟨y, y', hb, hy, hu1, hu2, hu3, hfy⟩
      · simp [ok] at hb
      · right
        have hyx : y = x'.updC f := by simpa [ok] using hb.symm
        rw [hy]
        refine ⟨hhk, rfl, Or.inr ⟨?_, haf⟩, hfy.1, hu3, hnf, hxa, ?_⟩
        · show y'.l = _; rw [hu1, hyx, updC_l, hl]
        · show y'.rep = _; rw [hu2, hyx, updC_rep, hr]
    · rcases hcase with ⟨y, _, e, hb, _⟩ | ⟨y, y', e, hb, hy, _, hu, hfy, hcalled⟩
      · simp [ok] at hb
      · left
        have hyx : y = x'.updC f := by simpa [ok] using hb.symm
        obtain ⟨he, hc'⟩ := hcalled (by rw [hyx]; rfl)
        rw [hy]; subst he
        refine ⟨rfl, ?_, ?_, ?_, hc', ?_, ?_⟩
        · show y'.l = _; rw [hu.1, hyx, updC_l, hl]
        · show y'.fired = _; rw [hfy, hyx, updC_fired, hf]
        · refine ⟨fun b hb' => hao.1 b (by rw [← hb']; show x'.arm = y'.arm; rw [hu.2.1, hyx]; rfl), fun hfy' => ?_⟩
          have h5 : y'.fired = true := hfy'
          rw [hfy, hyx] at h5
          show y'.arm = none; rw [hu.2.1, hyx]; exact hao.2 h5
        · intro hn; show y'.arm = none; rw [hu.2.1, hyx]; exact han.1 hn
        · show y'.rep = _; rw [hu.2.2.1, hyx, updC_rep, hr]

/-- `close()` on a process that is not closed: closed, or the fault fired before `super().on_close()` and nothing happened -/
theorem closeF_spec (x : FCfg) (h : ArmOk a0 x) (hac : afterClose a0 = false) (hc : x.l.c.closed = false) :
    ((closeF x).2 = none ∧ (closeF x).1.l = x.l.upd onClose ∧ (closeF x).1.fired = x.fired ∧ ArmOk a0 (closeF x).1 ∧
      (closeF x).1.called = x.called ∧ (x.arm = none → (closeF x).1.arm = none)) ∨
    ((closeF x).2 = some faultExc ∧ (closeF x).1.l = x.l ∧ (closeF x).1.fired = true ∧ (closeF x).1.arm = none ∧
      x.fired = false ∧ x.arm ≠ none ∧ a0.hk = .onClose) := by
  unfold closeF
  simp only [hc, Bool.false_eq_true, if_false]
  rcases hookF_pure .onClose onClose x h with ⟨h1, h2, h3, h4, h5, h6, _⟩ | ⟨hhk, h1, h2, h3, h4, h5, h6, _⟩
  · exact Or.inl ⟨h1, h2, h3, h4, h5, h6⟩
  · right
    rcases h2 with ⟨h2, _⟩ | ⟨_, haf⟩
    · exact ⟨h1, h2, h3, h4, h5, h6, hhk⟩
    · exact absurd haf (by rw [afterClose_false hac (Or.inr hhk)]; exact Bool.false_ne_true)

theorem ArmOk.updC {x : FCfg} (h : ArmOk a0 x) (f : Cfg → Cfg) : ArmOk a0 (x.updC f) := h
theorem ArmOk.updL {x : FCfg} (h : ArmOk a0 x) (f : LCfg → LCfg) : ArmOk a0 (x.updL f) := h
theorem ArmOk.setC {x : FCfg} (h : ArmOk a0 x) (c : Cfg) : ArmOk a0 (x.setC c) := h

theorem releasePause_closed (c : Cfg) : (releasePause c).closed = c.closed := (releasePause_fields c).2.2.1

/-- `on_terminated` on a process that is not closed: released and closed, or the fault fired before `super().on_terminated()` /
before `super().on_close()` and the process is not closed -/
theorem terminatedF_spec (x : FCfg) (h : ArmOk a0 x) (hac : afterClose a0 = false) (hc : x.l.c.closed = false) :
    ((terminatedF x).2 = none ∧ (terminatedF x).1.l = x.l.upd onTerminated ∧ (terminatedF x).1.fired = x.fired ∧
      ArmOk a0 (terminatedF x).1 ∧ (x.arm = none → (terminatedF x).1.arm = none)) ∨
    ((terminatedF x).2 = some faultExc ∧ ((terminatedF x).1.l = x.l ∨ (terminatedF x).1.l = x.l.upd releasePause) ∧
      (terminatedF x).1.fired = true ∧ (terminatedF x).1.arm = none ∧ x.fired = false ∧ x.arm ≠ none ∧
      (a0.hk = .onTerminated ∨ a0.hk = .onClose)) := by
  unfold terminatedF
  rcases hookF_cases .onTerminated termBaseF x h with
    ⟨hhk, _, hnf, hxa, y, hy, h1, h2, h3, _⟩ | ⟨x', hl, hf, hr, hao, han, hcase⟩
  · right; rw [hy]; exact ⟨rfl, Or.inl h1, h2, h3, hnf, hxa, Or.inl hhk⟩
  · rcases hcase with ⟨hhk, haf, _⟩ | hcase
    · exact absurd haf (by rw [afterClose_false hac (Or.inl hhk)]; exact Bool.false_ne_true)
    · have hc'' : (x'.updC releasePause).l.c.closed = false := by
        rw [updC_l, upd_c, releasePause_closed, hl]; exact hc
      have hsp : _ := closeF_spec (x'.updC releasePause) (hao.updC _) hac hc''
      rw [show closeF (x'.updC releasePause) = termBaseF x' from rfl] at hsp
      rcases hcase with ⟨y, yy, e, hb, hy, huu, hfyy⟩ | ⟨y, y', e, hb, hy, _, hu, hfy, hcalled⟩
      · -- the base implementation raised: the fault fired in `on_close`
        rcases hsp with ⟨k1, _⟩ | ⟨k1, k2, k3, k4, k5, k6, k7⟩
        · rw [show termBaseF x' = (y, some e) from hb] at k1; cases k1
        · right
          have h2 : (termBaseF x').2 = some e := by rw [show termBaseF x' = (y, some e) from hb]
          have h1 : (termBaseF x').1 = y := by rw [show termBaseF x' = (y, some e) from hb]
          rw [k1] at h2; cases h2
          rw [hy]
          refine ⟨rfl, Or.inr ?_, ?_, ?_, ?_, fun hn => k6 (han.1 hn), Or.inr k7⟩
          · show yy.l = _; rw [huu.1, ← h1, k2, updC_l, hl]
          · show yy.fired = true; rw [hfyy, ← h1]; exact k3
          · show yy.arm = none; rw [huu.2.1, ← h1]; exact k4
          · rw [← hf]; exact k5
      · rcases hsp with ⟨k1, k2, k3, k4, k5, k6⟩ | ⟨k1, _⟩
        · left
          have h1 : (termBaseF x').1 = y := by rw [show termBaseF x' = (y, none) from hb]
          obtain ⟨he, _⟩ := hcalled (by rw [← h1, k5]; rfl)
          rw [hy]; subst he
          refine ⟨rfl, ?_, ?_, ?_, ?_⟩
          · show y'.l = _; rw [hu.1, ← h1, k2, updC_l, hl]; rfl
          · show y'.fired = _; rw [hfy, ← h1, k3, updC_fired, hf]
          · have h4 : ArmOk a0 y := h1 ▸ k4
            exact ⟨fun b hb' => h4.1 b (by rw [← hb']; exact hu.2.1.symm), fun hfy' => by
              show y'.arm = none; rw [hu.2.1]; exact h4.2 (by rw [← hfy]; exact hfy')⟩
          · intro hn; show y'.arm = none; rw [hu.2.1, ← h1]; exact k6 (han.1 hn)
        · rw [show termBaseF x' = (y, none) from hb] at k1; cases k1

variable {N : Hook → FCfg → FCfg}

theorem enteredHooks_st (d : Cfg) (s : SObj) : (enteredHooks d s).st = d.st := (enteredHooks_fields d s).1

/-- the base implementation of the ENTERED hook on a configuration in which a transition is in progress -/
theorem enteredBaseF_spec (hN : NK a0 N) (s : SObj) (x : FCfg) (h : ArmOk a0 x) (htr : x.l.trans.isSome = true) :
    (enteredBaseF N s x).2 = none ∧ CR (enteredHooks x.l.c s) (enteredBaseF N s x).1 x.l.trans ∧
      ArmOk a0 (enteredBaseF N s x).1 ∧ (mainHK a0.hk = true → (enteredBaseF N s x).1.fired = x.fired) := by
  unfold enteredBaseF
  dsimp only [ok]
  cases hh : (enteredNotif s).bind hookOfNotif with
  | none => exact ⟨rfl, ⟨Same2.rfl' _, rfl, rfl⟩, h.updC _, fun _ => rfl⟩
  | some hk =>
    have htr' : (x.updC (fun c => enteredHooks c s)).l.trans.isSome = true := htr
    obtain ⟨⟨t1, t2, t3⟩, t4, t5⟩ := hN.tq hk _ htr' (h.updC _)
    exact ⟨rfl, ⟨t1, t2, t3⟩, t4, fun hm => t5 hm⟩

/-- the ENTERED callbacks during a transition: the base implementation ran (`CR (enteredHooks …)`) unless the fault fired
before it -/
theorem enteredHooksF_spec (hN : NK a0 N) (x : FCfg) (s : SObj) (h : ArmOk a0 x) (htr : x.l.trans.isSome = true) :
    ((enteredHooksF N x s).2 = none ∧ CR (enteredHooks x.l.c s) (enteredHooksF N x s).1 x.l.trans ∧
      ArmOk a0 (enteredHooksF N x s).1 ∧ (mainHK a0.hk = true → (enteredHooksF N x s).1.fired = x.fired)) ∨
    ((enteredHooksF N x s).2 = some faultExc ∧
      ((enteredHooksF N x s).1.l = x.l ∨ CR (enteredHooks x.l.c s) (enteredHooksF N x s).1 x.l.trans) ∧
      (enteredHooksF N x s).1.fired = true ∧ (enteredHooksF N x s).1.arm = none ∧ mainHK a0.hk = true) ∨
    ((enteredHooksF N x s).2 = some .assertion ∧ CR (enteredHooks x.l.c s) (enteredHooksF N x s).1 x.l.trans ∧
      ArmOk a0 (enteredHooksF N x s).1 ∧ (mainHK a0.hk = true → (enteredHooksF N x s).1.fired = x.fired)) := by
  unfold enteredHooksF hookOpt
  cases hk : enteredHK s with
  | none =>
    obtain ⟨h0, h1, h2, h3⟩ := enteredBaseF_spec hN s x h htr
    exact Or.inl ⟨h0, h1, h2, h3⟩
  | some k =>
    simp only []
    have hmk : a0.hk = k → mainHK a0.hk = true := fun hhk => by
      rw [hhk]; cases s <;> simp [enteredHK] at hk <;> subst hk <;> rfl
    rcases hookF_cases k (enteredBaseF N s) x h with ⟨hhk, _, hnf, _, y, hy, h1, h2, h3, _⟩ | ⟨x', hl, hf, hr, hao, han, hcase⟩
    · right; left; rw [hy]; exact ⟨rfl, Or.inl h1, h2, h3, hmk hhk⟩
    · obtain ⟨k0, k1, k2, k3⟩ := enteredBaseF_spec hN s x' hao (by rw [hl]; exact htr)
      rw [hl] at k1
      rcases hcase with ⟨hhk, _, hnf, _, hx'a, hcase⟩ | hcase
      · rcases hcase with ⟨y, _, e, hb, _⟩ | ⟨y, y', hb, hy, hu1, hu2, hu3, hfy⟩
        · rw [hb] at k0; cases k0
        · right; left
          have hy1 : (enteredBaseF N s x').1 = y := by rw [hb]
          rw [hy1] at k1
          rw [hy]
          refine ⟨rfl, Or.inr ⟨?_, ?_, ?_⟩, hfy.1, hu3, hmk hhk⟩
          · show Same2 _ y'.l.c; rw [hu1]; exact k1.1
          · show y'.l.c.st = _; rw [hu1]; exact k1.2.1
          · show y'.l.trans = _; rw [hu1]; exact k1.2.2
      · rcases hcase with ⟨y, _, e, hb, _⟩ | ⟨y, y', e, hb, hy, he, hu, hfy, _⟩
        · rw [hb] at k0; cases k0
        · have hy1 : (enteredBaseF N s x').1 = y := by rw [hb]
          rw [hy1] at k1 k2 k3
          have hcr : CR (enteredHooks x.l.c s) y' x.l.trans :=
            ⟨by rw [hu.1]; exact k1.1, by rw [hu.1]; exact k1.2.1, by rw [hu.1]; exact k1.2.2⟩
          have hao' : ArmOk a0 y' :=
            ⟨fun b hb' => k2.1 b (by rw [← hb']; exact hu.2.1.symm), fun hf' => by rw [hu.2.1]; exact k2.2 (by rw [← hfy]; exact hf')⟩
          have hfm : mainHK a0.hk = true → y'.fired = x.fired := fun hm => by rw [hfy, k3 hm, hf]
          rw [hy]
          rcases he with he | he
          · left; subst he; exact ⟨rfl, hcr, hao', hfm⟩
          · right; right; subst he; exact ⟨rfl, hcr, hao', hfm⟩

theorem excepted_terminal (e : Exc) : terminal (SObj.excepted e).label = true := by simp [SObj.label, terminal, allowed]

theorem exitState_st (c : Cfg) : (exitState c).st = c.st := by
  unfold exitState; split
  · dsimp only; split <;> rfl
  · rfl

/-- the late exit of a state that is still entered touches nothing the lifecycle invariant looks at -/
theorem lateExitF_spec (x : FCfg) : Same2 x.l.c (lateExitF x).l.c ∧ (lateExitF x).l.c.st = x.l.c.st ∧
    (lateExitF x).l.trans = x.l.trans ∧ (lateExitF x).arm = x.arm ∧ (lateExitF x).fired = x.fired := by
  unfold lateExitF; split
  · exact ⟨exitState_same2 _, exitState_st _, rfl, rfl, rfl⟩
  · exact ⟨Same2.rfl' _, rfl, rfl, rfl, rfl⟩

/-- `transition_failed` → `transition_to(EXCEPTED)` on a process that is not closed: EXCEPTED with `e`, everything agreeing — unless
the fault is still armed and fires in `on_terminated` / `on_close` of this failing transition (then it propagates) -/
theorem forceExceptedF_spec (hN : NK a0 N) (x : FCfg) (e : Exc) (h : ArmOk a0 x) (hac : afterClose a0 = false)
    (hc : x.l.c.closed = false) (hcl : x.l.c.cleanups = 0) :
    (forceExceptedF N x e).1.l.c.st = .excepted e ∧ ArmOk a0 (forceExceptedF N x e).1 ∧
    (((forceExceptedF N x e).2 = none ∧ Inv2w (forceExceptedF N x e).1.l.c ∧
        (mainHK a0.hk = true → (forceExceptedF N x e).1.fired = x.fired)) ∨
     ((forceExceptedF N x e).2 = some faultExc ∧ (forceExceptedF N x e).1.fired = true ∧
        (a0.hk = .onTerminated ∨ a0.hk = .onClose) ∧ x.fired = false)) := by
  unfold forceExceptedF
  simp only [hc, Bool.false_eq_true, if_false]
  -- the configurations on the way
  obtain ⟨⟨_, _, _, w4, w5, _⟩, _, w7, w8, w9⟩ := lateExitF_spec (x.updL fun l => { l with trans := some Label.excepted })
  generalize hx1 : lateExitF (x.updL fun l => { l with trans := some Label.excepted }) = x1 at w4 w5 w7 w8 w9
  have h1 : ArmOk a0 x1 := by unfold ArmOk; rw [w8, w9]; exact h
  have hc : x1.l.c.closed = false := by rw [w4]; exact hc
  have hcl : x1.l.c.cleanups = 0 := by rw [w5]; exact hcl
  have hf1 : x1.fired = x.fired := w9
  generalize hx2 : (x1.updC fun c => setFutExc c e) = x2
  have h2 : ArmOk a0 x2 := by rw [← hx2]; exact h1.updC _
  have htr2 : x2.l.trans.isSome = true := by rw [← hx2, updC_l, upd_trans, w7]; rfl
  obtain ⟨f1, f2, f3, f4, f5⟩ := setFutExc_fields x1.l.c e
  have hc2 : x2.l.c = setFutExc x1.l.c e := by rw [← hx2]; rfl
  obtain ⟨⟨t1, t2, t3⟩, t4, t5⟩ := hN.tq .entering x2 htr2 h2
  generalize hx3 : N Hook.entering x2 = x3 at t1 t2 t3 t4 t5
  obtain ⟨_, _, s3, s4, s5, _⟩ := t1
  generalize hx4 : ({ x3.updC fun c => setState c (SObj.excepted e) with inState := true } : FCfg) = x4
  have h4 : ArmOk a0 x4 := by rw [← hx4]; exact t4
  have htr4 : x4.l.trans.isSome = true := by rw [← hx4]; show (x3.l.upd _).trans.isSome = true; rw [upd_trans, t3]; exact htr2
  have hc4 : x4.l.c = setState x3.l.c (.excepted e) := by rw [← hx4]; rfl
  rcases enteredHooksF_spec hN x4 (.excepted e) h4 htr4 with ⟨e1, ⟨e2, e3, e4⟩, e5, e6⟩ | ⟨e1, _⟩ | ⟨e1, _⟩
  · -- the entered callbacks of EXCEPTED cannot raise
    generalize hy : enteredHooksF N x4 (SObj.excepted e) = ry at e1 e2 e3 e4 e5 e6
    obtain ⟨y, ye⟩ := ry
    simp only at e1 e2 e3 e4 e5 e6
    subst e1
    simp only [bind]
    obtain ⟨g1, g2, g3, g4, _⟩ := enteredHooks_fields x4.l.c (.excepted e)
    obtain ⟨_, _, u3, u4, u5, _⟩ := e2
    have hyc : y.l.c.closed = false := by rw [u4, g3, hc4]; show x3.l.c.closed = false; rw [s4, hc2, f2]; exact hc
    have hyst : y.l.c.st = .excepted e := by rw [e3, g1, hc4]; rfl
    have hyfut : y.l.c.fut = .exc e := by rw [u3, g2, hc4]; show x3.l.c.fut = _; rw [s3, hc2, f1]
    have hycl : y.l.c.cleanups = 0 := by rw [u5, g4, hc4]; show x3.l.c.cleanups = 0; rw [s5, hc2, f3]; exact hcl
    have hyf : mainHK a0.hk = true → y.fired = x.fired := fun hm => by
      rw [e6 hm, ← hx4]; show x3.fired = x.fired; rw [t5 hm, ← hx2]; exact hf1
    rcases terminatedF_spec y e5 hac hyc with ⟨k1, k2, k3, k4, _⟩ | ⟨k1, k2, k3, k4, k5, _, k7⟩
    · obtain ⟨o1, o2, o3, o4, _⟩ := onTerminated_fields y.l.c hyc
      have hst : (terminatedF y).1.l.c.st = .excepted e := by rw [k2, upd_c, o1]; exact hyst
      refine ⟨hst, k4, Or.inl ⟨k1, ⟨fun hl => ?_, fun _ => ⟨?_, ?_, ?_⟩⟩, fun hm => by rw [k3]; exact hyf hm⟩⟩
      · rw [hst, excepted_terminal] at hl; cases hl
      · rw [k2, upd_c]; exact o3
      · rw [k2, upd_c, o4, hycl]
      · rw [hst, k2, upd_c, o2, hyfut]; rfl
    · have hst : (terminatedF y).1.l.c.st = .excepted e := by
        rcases k2 with k2 | k2
        · rw [k2]; exact hyst
        · rw [k2, upd_c, (releasePause_fields y.l.c).1]; exact hyst
      refine ⟨hst, ⟨fun b hb => (by rw [k4] at hb; cases hb), fun _ => k4⟩, Or.inr ⟨k1, k3, k7, ?_⟩⟩
      have hm7 : mainHK a0.hk = true := by rcases k7 with h | h <;> rw [h] <;> rfl
      rw [← hyf hm7]; exact k5
  · exfalso
    have : enteredHK (.excepted e) = none := rfl
    unfold enteredHooksF hookOpt at e1
    rw [this] at e1
    simp only [enteredBaseF, ok] at e1
    cases e1
  · exfalso
    have : enteredHK (.excepted e) = none := rfl
    unfold enteredHooksF hookOpt at e1
    rw [this] at e1
    simp only [enteredBaseF, ok] at e1
    cases e1

end
end FP
end PMF
