import PlumpyModel.Fault.Proof5
import PlumpyModel.PM.LProof18
/-!
# Fault twins — on a terminated process a wake-up of the stepping task is the wake-up of `PM/Model.lean`

(no hook, no listener is consulted: the closing part of a step does nothing once the process has terminated), so
`stepper_returns_gen` of `PM/Proof10.lean` applies to the twins' configurations.
-/
namespace PMF
namespace FP
open L

section
variable {N : Hook → FCfg → FCfg}

theorem endOfStepF_terminal_c (x : FCfg) (r : StepEnd) (ht : terminal x.l.c.st.label = true) :
    (endOfStepF N x r).l.c = endOfStep x.l.c r := by
  have hp : (prepare x.l.c r).1.st = x.l.c.st := (prepare_ar x.l.c r).st
  unfold endOfStepF endOfStep dispatchF dispatch
  dsimp only
  have h1 : terminal ((x.updL fun l => { l with executing := false }).setC
      (prepare (x.updL fun l => { l with executing := false }).l.c r).1).l.c.st.label = true := by
    show terminal (prepare x.l.c r).1.st.label = true; rw [hp]; exact ht
  rw [if_pos h1, hp, if_pos ht]
  rfl

theorem terminal_of_eq {c c' : Cfg} (h : c'.st = c.st) (ht : terminal c.st.label = true) : terminal c'.st.label = true := by
  rw [h]; exact ht

theorem endOfStepF_terminal_st (x : FCfg) (r : StepEnd) (ht : terminal x.l.c.st.label = true) :
    (endOfStepF N x r).l.c.st = x.l.c.st := by
  rw [endOfStepF_terminal_c x r ht]; exact (endOfStep_fix x.l.c r ht).1

theorem finishUserF_terminal_c (x : FCfg) (o : Outcome) (ht : terminal x.l.c.st.label = true) :
    (finishUserF N x o).l.c = finishUser x.l.c o := by
  unfold finishUserF finishUser
  cases o with
  | ret cmd =>
    exact endOfStepF_terminal_c (N := N) (x.setC (cmdToState x.l.c cmd).1) _
      (by show terminal (cmdToState x.l.c cmd).1.st.label = true; rw [(cmdToState_fields x.l.c cmd).2]; exact ht)
  | raise e => exact endOfStepF_terminal_c x _ ht

theorem wakeF_terminal_c (x : FCfg) (fn wf : Nat) (w : WF) (ht : terminal x.l.c.st.label = true) :
    (wakeF N x fn wf w).l.c = wake x.l.c fn wf w := by
  unfold wakeF wake
  cases w with
  | result v => exact endOfStepF_terminal_c x _ ht
  | interrupted k =>
    have := endOfStepF_terminal_c (N := N) (x.updC (fun c => L.rearm c wf)) (.interruption k)
      (by rw [updC_l, upd_c, rearm_fix _ _ ht]; exact ht)
    rw [this, updC_l, upd_c, rearm_fix _ _ ht]
    have hnw := (not_live_of_terminal ht).2.2
    dsimp only
    split
    · rename_i f wf' wk aw hs; exact absurd hs (hnw f wf' wk aw)
    · rfl
  | failed e => exact endOfStepF_terminal_c x _ ht
  | pending => rfl

theorem loopHeadF_terminal_c (P : Prog) (fuel : Nat) (x : FCfg) (ht : terminal x.l.c.st.label = true) :
    (loopHeadF N P fuel x).l.c = loopHead P fuel x.l.c := by
  cases fuel with
  | zero => rfl
  | succ n =>
    unfold loopHeadF
    split
    · rename_i e hc; rw [loopHead_crashed P n x.l.c e hc]
    · rename_i hnc
      rw [loopHead_eq P n x.l.c (fun e h => hnc e h), if_pos ht, if_pos ht]; rfl

theorem stepBodyF_terminal_c (P : Prog) (fuel : Nat) (x : FCfg) (ht : terminal x.l.c.st.label = true) :
    (stepBodyF N P fuel x).l.c = stepBody P fuel x.l.c := by
  obtain ⟨h1, h2, h3⟩ := not_live_of_terminal ht
  unfold stepBodyF stepBodyKF stepBody
  dsimp only
  rw [stepBodyK_other P _ x.l.c (fun fn h => h1 fn h) (fun fn a k h => h2 fn a k h) (fun fn wf wk aw h => h3 fn wf wk aw h)]
  split
  · rename_i fn h; exact absurd h (h1 fn)
  · rename_i fn a k h; exact absurd h (h2 fn a k)
  · rename_i fn wf wk aw h; exact absurd h (h3 fn wf wk aw)
  · have he := endOfStepF_terminal_c (N := N)
      (x.updL fun l => { l with c := { l.c with stepping := true }, executing := true }) (.next none) ht
    have hst := endOfStepF_terminal_st (N := N)
      (x.updL fun l => { l with c := { l.c with stepping := true }, executing := true }) (.next none) ht
    rw [loopHeadF_terminal_c P fuel _ (terminal_of_eq hst ht), he]
    rfl

theorem tickStepperF_terminal_c (P : Prog) (x : FCfg) (ht : terminal x.l.c.st.label = true) :
    (tickStepperF N P x).l.c = tickStepper P x.l.c := by
  unfold tickStepperF
  split
  · rename_i hpc
    unfold tickStepper; rw [hpc]; dsimp only
    exact loopHeadF_terminal_c P _ x ht
  · rename_i pf hpc
    unfold tickStepper; rw [hpc]; dsimp only
    by_cases hpf : x.l.c.pfs[pf]? = some true
    · rw [if_pos hpf, if_pos hpf]
      split
      · rename_i pf' hpa
        by_cases hf : x.l.c.pfs[pf']? = some false
        · rw [if_pos hf]; simp only [hpa, hf, if_true]; rw [updC_l, upd_c, hpa]
        · rw [if_neg hf]; simp only [hpa, hf, if_false]; exact stepBodyF_terminal_c P _ x ht
      · rename_i hpa
        simp only [hpa]; exact stepBodyF_terminal_c P _ x ht
    · rw [if_neg hpf, if_neg hpf]
  · rename_i b hpc
    unfold tickStepper; rw [hpc]; dsimp only
    by_cases hb0 : b.awaits = 0
    · rw [if_pos hb0, if_pos hb0]
      have hc := finishUserF_terminal_c (N := N) x b.out ht
      have hst : (finishUserF N x b.out).l.c.st = x.l.c.st := by rw [hc]; exact (finishUser_fix x.l.c b.out ht).1
      rw [loopHeadF_terminal_c P _ _ (terminal_of_eq hst ht), hc]
    · rw [if_neg hb0, if_neg hb0]; rfl
  · rename_i wf hpc
    unfold tickStepper; rw [hpc]; dsimp only
    cases hw : x.l.c.wfs[wf]? with
    | none => rfl
    | some w =>
      have hc := fun fn => wakeF_terminal_c (N := N) x fn wf w ht
      have hst : ∀ fn, (wakeF N x fn wf w).l.c.st = x.l.c.st := fun fn => by rw [hc]; exact (wake_fix x.l.c fn wf w ht).1
      cases w with
      | pending => rfl
      | result v =>
        dsimp only
        exact (loopHeadF_terminal_c P _ _ (terminal_of_eq (hst _) ht)).trans (congrArg (loopHead P fuel0) (hc _))
      | interrupted k =>
        dsimp only
        exact (loopHeadF_terminal_c P _ _ (terminal_of_eq (hst _) ht)).trans (congrArg (loopHead P fuel0) (hc _))
      | failed e =>
        dsimp only
        exact (loopHeadF_terminal_c P _ _ (terminal_of_eq (hst _) ht)).trans (congrArg (loopHead P fuel0) (hc _))
  · rename_i h1 h2 h3 h4
    unfold tickStepper
    split
    · rename_i hh; exact (h1 hh).elim
    · rename_i pf hh; exact (h2 pf hh).elim
    · rename_i b hh; exact (h3 b hh).elim
    · rename_i wf hh; exact (h4 wf hh).elim
    · rfl

end

/-- `n` wake-ups of the stepping task in a run of the twins -/
theorem ticksF_terminal_c (P : Prog) : ∀ (n : Nat) (x : FCfg), terminal x.l.c.st.label = true →
    (runF P x (List.replicate n .tick)).l.c = ticks P n x.l.c
  | 0, _, _ => rfl
  | n+1, x, ht => by
    have h1 : (stepF P x .tick).1.l.c = tickStepper P x.l.c := tickStepperF_terminal_c P x ht
    have hst : (stepF P x .tick).1.l.c.st = x.l.c.st := by rw [h1]; exact (tickStepper_fix P x.l.c ht).1
    show (runF P (stepF P x .tick).1 (List.replicate n .tick)).l.c = ticks P n (tickStepper P x.l.c)
    rw [ticksF_terminal_c P n _ (terminal_of_eq hst ht), h1]

/-- **`step_until_terminated()` returns, configuration level**: from ANY terminated configuration of the twins in which the
stepping task has not crashed and is not blocked on an unreleased future, finitely many wake-ups end it normally -/
theorem stepperF_returns (P : Prog) (x : FCfg) (ht : terminal x.l.c.st.label = true) (hcr : ∀ e, x.l.c.pc ≠ .crashed e)
    (hpz : ∀ pf pf', x.l.c.pc = .awaitPaused pf → x.l.c.paused = some pf' → x.l.c.pfs[pf']? = some true)
    (hap : ∀ pf, x.l.c.pc = .awaitPaused pf → x.l.c.pfs[pf]? = some true)
    (haw : ∀ wf, x.l.c.pc = .awaitWaiting wf → ∃ w, x.l.c.wfs[wf]? = some w ∧ w ≠ .pending) :
    ∃ n, (runF P x (List.replicate n .tick)).l.c.pc = .done := by
  obtain ⟨n, hn⟩ := stepper_returns_gen P x.l.c ht hcr hpz hap haw
  exact ⟨n, by rw [ticksF_terminal_c P n x ht]; exact hn⟩

end FP
end PMF
