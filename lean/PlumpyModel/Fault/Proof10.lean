import PlumpyModel.Fault.Proof9
import PlumpyModel.PM.LProof17
/-!
# Fault twins — the linking invariant of the stepping task (`InvS` of `PM/Proof10.lean`) through a transition with the fault

`InvM`: `InvS` without "on a terminated process the current pause future is released" (which a transition re-establishes at its very
end, in `on_terminated`, and which is false in between when the fault cuts the transition short).  Hooks are transparent for
everything that only looks at the `LCfg` part and at `inState` (`hookF_shape`): the result is the configuration the hook was called
in (it raised before `super()`) or the one its base implementation reached.
-/
namespace PMF
namespace FP
open L

structure InvM (c : Cfg) : Prop where
  nocrash : ∀ e, c.pc ≠ .crashed e
  aw : ∀ wf, c.pc = .awaitWaiting wf → WOk c wf
  ap : ∀ pf, c.pc = .awaitPaused pf → pf < c.pfs.length ∧ (c.paused = some pf ∨ c.pfs[pf]? = some true)
  pv : PV c
  wv : WV c

theorem InvM.of_s {c : Cfg} (h : InvS c) : InvM c := ⟨h.nocrash, h.aw, h.ap, h.pv, h.wv⟩
theorem InvM.to_s {c : Cfg} (h : InvM c) (ht : ∀ pf, c.pc = .awaitPaused pf → RelT c) : InvS c :=
  ⟨h.nocrash, h.aw, h.ap, h.pv, h.wv, ht⟩

theorem InvM.tr {c c' : Cfg} (h : InvM c) (r : TR c c') (hs : StW c c') : InvM c' := by
  refine ⟨?_, ?_, ?_, h.pv.tr r, h.wv.tr r hs⟩
  · intro e; rw [r.pc]; exact h.nocrash e
  · intro wf hp; rw [r.pc] at hp; exact (h.aw wf hp).tr r hs
  · intro pf hp; rw [r.pc] at hp
    obtain ⟨h1, h2⟩ := h.ap pf hp
    refine ⟨Nat.lt_of_lt_of_le h1 r.pfs.1, ?_⟩
    rcases h2 with h2 | h2
    · exact Or.inl (by rw [r.paused]; exact h2)
    · exact Or.inr (r.pfs.2 pf h2)

/-- `self._state = next_state` after the state being left has been exited -/
theorem setState_invM (c : Cfg) (s : SObj) (h : InvM c) (hex : Exited c) (hs : TargetOk c s) :
    InvM (setState (enterState c s) s) := by
  have r : TR c (setState (enterState c s) s) := TR.trans (enterState_tr c s) (setState_tr _ s)
  refine ⟨?_, ?_, ?_, h.pv.tr r, ?_⟩
  · intro e; rw [r.pc]; exact h.nocrash e
  · intro wf hp; rw [r.pc] at hp
    obtain ⟨hlt, hw⟩ := h.aw wf hp
    refine ⟨Nat.lt_of_lt_of_le hlt r.wfs.1, Or.inr (r.wfs.nonpending hlt ?_)⟩
    rcases hw with ⟨fn, wk, aw, hst⟩ | hn
    · exact hex fn wf wk aw hst
    · exact hn
  · intro pf hp; rw [r.pc] at hp
    obtain ⟨h1, h2⟩ := h.ap pf hp
    refine ⟨Nat.lt_of_lt_of_le h1 r.pfs.1, ?_⟩
    rcases h2 with h2 | h2
    · exact Or.inl (by rw [r.paused]; exact h2)
    · exact Or.inr (r.pfs.2 pf h2)
  · intro fn wf wk aw hst
    have : s = .waiting fn wf wk aw := hst
    exact Nat.lt_of_lt_of_le (hs.2 fn wf wk aw this) r.wfs.1

/-! ### hooks are transparent -/

/-- `y'` is `y` as far as the `LCfg` part and `inState` go -/
def Like (y y' : FCfg) : Prop := y'.l = y.l ∧ y'.inState = y.inState

theorem Like.rfl' (y : FCfg) : Like y y := ⟨rfl, rfl⟩
theorem Like.trans' {a b c : FCfg} (h1 : Like a b) (h2 : Like b c) : Like a c := ⟨h2.1.trans h1.1, h2.2.trans h1.2⟩

theorem hookF_shape (hk : HK) (base : FCfg → Res) (x : FCfg) :
    (Like x (hookF hk base x).1 ∧ (hookF hk base x).2 ≠ none) ∨
    (∃ x', Like x x' ∧ Like (base x').1 (hookF hk base x).1 ∧ ((hookF hk base x).2 = none → (base x').2 = none)) := by
  unfold hookF
  dsimp only
  cases h1 : (armStep hk x.arm).1 with
  | before => left; exact ⟨⟨rfl, rfl⟩, fun h => nomatch h⟩
  | after =>
    right
    unfold supF
    by_cases hT : hk = .onTerminated
    · simp only [hT, if_true]
      refine ⟨{ x with called := x.called + 1 - 1, arm := (armStep .onTerminated x.arm).2 }, ⟨rfl, rfl⟩, ?_⟩
      subst hT
      cases hb : base { x with called := x.called + 1 - 1, arm := (armStep .onTerminated x.arm).2 } with
      | mk y e => cases e <;> exact ⟨⟨rfl, rfl⟩, fun h => nomatch h⟩
    · simp only [hT, if_false]
      refine ⟨{ x with called := x.called + 1, arm := (armStep hk x.arm).2 }, ⟨rfl, rfl⟩, ?_⟩
      cases hb : base { x with called := x.called + 1, arm := (armStep hk x.arm).2 } with
      | mk y e => cases e <;> exact ⟨⟨rfl, rfl⟩, fun h => nomatch h⟩
  | pass =>
    right
    unfold supF
    by_cases hT : hk = .onTerminated
    · simp only [hT, if_true]
      refine ⟨{ x with called := x.called + 1 - 1, arm := (armStep .onTerminated x.arm).2 }, ⟨rfl, rfl⟩, ?_⟩
      subst hT
      cases hb : base { x with called := x.called + 1 - 1, arm := (armStep .onTerminated x.arm).2 } with
      | mk y e =>
        cases e with
        | some e => exact ⟨⟨rfl, rfl⟩, fun h => nomatch h⟩
        | none =>
          have hne : ¬ (HookOut.pass = HookOut.after) := by decide
          simp only [hne, if_false]
          by_cases hc : y.called = x.called <;> simp only [hc, if_true, if_false] <;> exact ⟨⟨rfl, rfl⟩, fun _ => trivial⟩
    · simp only [hT, if_false]
      refine ⟨{ x with called := x.called + 1, arm := (armStep hk x.arm).2 }, ⟨rfl, rfl⟩, ?_⟩
      cases hb : base { x with called := x.called + 1, arm := (armStep hk x.arm).2 } with
      | mk y e =>
        cases e with
        | some e => exact ⟨⟨rfl, rfl⟩, fun h => nomatch h⟩
        | none =>
          have hne : ¬ (HookOut.pass = HookOut.after) := by decide
          simp only [hne, if_false]
          by_cases hc : y.called - 1 = x.called <;> simp only [hc, if_true, if_false] <;> exact ⟨⟨rfl, rfl⟩, fun _ => trivial⟩

/-! ### the pieces of a transition -/

/-- what the proofs need of the notification function for the linking invariant: inside a transition it keeps `InvM`, the state
object and `inState`; outside it keeps `InvS` (given `K`) -/
structure NS (a0 : Arm) (N : Hook → FCfg → FCfg) : Prop where
  m : ∀ h x, x.l.trans.isSome = true → InvM x.l.c → InvM (N h x).l.c
  mst : ∀ h x, x.l.trans.isSome = true → InvM x.l.c →
    (N h x).l.c.st = x.l.c.st ∧ (N h x).inState = x.inState ∧ (N h x).l.trans = x.l.trans
  s : ∀ h x, K a0 x → InvS x.l.c → x.inState = true → InvS (N h x).l.c ∧ (N h x).inState = true

theorem releasePause_st (c : Cfg) : (releasePause c).st = c.st := (releasePause_fields c).1
theorem onClose_st (c : Cfg) : (onClose c).st = c.st := by unfold onClose; split <;> rfl

theorem closeF_m (x : FCfg) (h : InvM x.l.c) :
    InvM (closeF x).1.l.c ∧ (closeF x).1.inState = x.inState ∧ (closeF x).1.l.trans = x.l.trans ∧
    ((closeF x).2 = none → (closeF x).1.l = x.l.upd onClose) := by
  unfold closeF
  split
  · rename_i hc
    refine ⟨h, rfl, rfl, fun _ => ?_⟩
    show x.l = { x.l with c := onClose x.l.c }
    unfold onClose; rw [if_pos hc]
  · rcases hookF_shape .onClose (fun x => ok (x.updC onClose)) x with ⟨⟨l1, l2⟩, hne⟩ | ⟨x', ⟨a1, a2⟩, ⟨b1, b2⟩, _⟩
    · exact ⟨by rw [l1]; exact h, l2, by rw [l1], fun hn => absurd hn hne⟩
    · have hb : (ok (x'.updC onClose)).1.l = x.l.upd onClose := by show x'.l.upd onClose = _; rw [a1]
      refine ⟨?_, ?_, ?_, fun _ => b1.trans hb⟩
      · rw [b1, hb, upd_c]; exact h.tr (onClose_tr _) (Or.inl (onClose_st _))
      · rw [b2]; exact a2
      · rw [b1, hb]; rfl

theorem terminatedF_m (x : FCfg) (h : InvM x.l.c) :
    InvM (terminatedF x).1.l.c ∧ (terminatedF x).1.inState = x.inState ∧ (terminatedF x).1.l.trans = x.l.trans ∧
    ((terminatedF x).2 = none → (terminatedF x).1.l = x.l.upd onTerminated) := by
  unfold terminatedF
  rcases hookF_shape .onTerminated termBaseF x with ⟨⟨l1, l2⟩, hne⟩ | ⟨x', ⟨a1, a2⟩, ⟨b1, b2⟩, hn⟩
  · exact ⟨by rw [l1]; exact h, l2, by rw [l1], fun hn => absurd hn hne⟩
  · have h1 : InvM (x'.updC releasePause).l.c := by
      rw [updC_l, upd_c, a1]; exact h.tr (releasePause_tr _) (Or.inl (releasePause_st _))
    obtain ⟨c1, c2, c3, c4⟩ := closeF_m (x'.updC releasePause) h1
    refine ⟨by rw [b1]; exact c1, by rw [b2]; exact c2.trans a2, by rw [b1]; exact c3.trans (by rw [updC_l, upd_trans, a1]), fun hh => ?_⟩
    rw [b1]
    have := c4 (hn hh)
    rw [show termBaseF x' = closeF (x'.updC releasePause) from rfl, this, updC_l, a1]
    rfl

section
variable {a0 : Arm} {N : Hook → FCfg → FCfg}

theorem enteredHooksF_m (hS : NS a0 N) (x : FCfg) (s : SObj) (h : InvM x.l.c) (htr : x.l.trans.isSome = true) :
    InvM (enteredHooksF N x s).1.l.c ∧ (enteredHooksF N x s).1.inState = x.inState ∧
    (enteredHooksF N x s).1.l.c.st = x.l.c.st ∧ (enteredHooksF N x s).1.l.trans = x.l.trans := by
  -- the base implementation on a configuration like `x`
  have hbase : ∀ x', Like x x' → InvM (enteredBaseF N s x').1.l.c ∧ (enteredBaseF N s x').1.inState = x.inState ∧
      (enteredBaseF N s x').1.l.c.st = x.l.c.st ∧ (enteredBaseF N s x').1.l.trans = x.l.trans := by
    intro x' ⟨a1, a2⟩
    unfold enteredBaseF; dsimp only [ok]
    have h1 : InvM (x'.updC fun c => enteredHooks c s).l.c := by
      rw [updC_l, upd_c, a1]; exact h.tr (enteredHooks_tr _ _) (Or.inl (L.enteredHooks_st _ _))
    have hst1 : (x'.updC fun c => enteredHooks c s).l.c.st = x.l.c.st := by rw [updC_l, upd_c, a1]; exact L.enteredHooks_st _ _
    have htr1 : (x'.updC fun c => enteredHooks c s).l.trans.isSome = true := by rw [updC_l, upd_trans, a1]; exact htr
    split
    · rename_i hk _
      obtain ⟨m1, m2, m3⟩ := hS.mst hk _ htr1 h1
      exact ⟨hS.m hk _ htr1 h1, m2.trans a2, m1.trans hst1, m3.trans (by rw [updC_l, upd_trans, a1])⟩
    · exact ⟨h1, a2, hst1, by rw [updC_l, upd_trans, a1]⟩
  unfold enteredHooksF hookOpt
  split
  · rename_i k _
    rcases hookF_shape k (enteredBaseF N s) x with ⟨⟨l1, l2⟩, _⟩ | ⟨x', hl, ⟨b1, b2⟩, _⟩
    · exact ⟨by rw [l1]; exact h, l2, by rw [l1], by rw [l1]⟩
    · obtain ⟨c1, c2, c3, c4⟩ := hbase x' hl
      exact ⟨by rw [b1]; exact c1, by rw [b2]; exact c2, by rw [b1]; exact c3, by rw [b1]; exact c4⟩
  · exact hbase x (Like.rfl' x)

/-- the configurations from which the failing path of `transition_to` can go on: the linking invariant holds up to the pause, and
a state that is no longer entered has completed its wait -/
def MQ (y : FCfg) : Prop := InvM y.l.c ∧ (y.inState = false → Exited y.l.c)

theorem exitOnceF_m (hS : NS a0 N) (hq : FQF N) (x : FCfg) (h : MQ x) (htr : x.l.trans.isSome = true) :
    MQ (exitOnceF N x).1 ∧ (exitOnceF N x).1.l.c.st = x.l.c.st ∧ (exitOnceF N x).1.l.trans = x.l.trans ∧
    ((exitOnceF N x).2 = none → (exitOnceF N x).1.inState = false) := by
  have hrest : ∀ y : FCfg, Like x y →
      MQ ({ (N .exiting y).updC exitState with inState := false } : FCfg) ∧
      ({ (N .exiting y).updC exitState with inState := false } : FCfg).l.c.st = x.l.c.st ∧
      ({ (N .exiting y).updC exitState with inState := false } : FCfg).l.trans = x.l.trans := by
    intro y ⟨a1, _⟩
    have htry : y.l.trans.isSome = true := by rw [a1]; exact htr
    have hm : InvM (N .exiting y).l.c := hS.m _ _ htry (by rw [a1]; exact h.1)
    obtain ⟨m1, _, m3⟩ := hS.mst .exiting y htry (by rw [a1]; exact h.1)
    refine ⟨⟨hm.tr (exitState_tr _) (Or.inl (exitState_st _)), fun _ => exitState_exited _ hm.wv⟩, ?_, ?_⟩
    · show (exitState (N .exiting y).l.c).st = _; rw [exitState_st, m1, a1]
    · show (N .exiting y).l.trans = _; rw [m3, a1]
  have e1 : exitOnceF N x = bind (hookOpt (exitHK x.l.c.st.label) ok x)
      (fun x => ok { (N .exiting x).updC exitState with inState := false }) := rfl
  rw [e1]
  unfold hookOpt
  split
  · rename_i k _
    rcases hookF_shape k ok x with ⟨⟨l1, l2⟩, hne⟩ | ⟨x', hl, ⟨b1, b2⟩, _⟩
    · generalize hookF k ok x = r at l1 l2 hne
      obtain ⟨y, e⟩ := r
      cases e with
      | none => exact absurd rfl hne
      | some e =>
        rw [bind_err]
        exact ⟨⟨by show InvM y.l.c; rw [l1]; exact h.1, fun hf => by
          show Exited y.l.c; rw [l1]; exact h.2 (by rw [← l2]; exact hf)⟩, by show y.l.c.st = _; rw [l1], by show y.l.trans = _; rw [l1],
          fun hn => nomatch hn⟩
    · have hxy : Like x (hookF k ok x).1 := ⟨b1.trans hl.1, b2.trans hl.2⟩
      generalize hookF k ok x = r at hxy
      obtain ⟨y, e⟩ := r
      cases e with
      | none =>
        rw [bind_ok]
        obtain ⟨r1, r2, r3⟩ := hrest y hxy
        exact ⟨r1, r2, r3, fun _ => rfl⟩
      | some e =>
        rw [bind_err]
        exact ⟨⟨by show InvM y.l.c; rw [hxy.1]; exact h.1, fun hf => by
          show Exited y.l.c; rw [hxy.1]; exact h.2 (by rw [← hxy.2]; exact hf)⟩, by show y.l.c.st = _; rw [hxy.1],
          by show y.l.trans = _; rw [hxy.1], fun hn => nomatch hn⟩
  · rw [show ok x = (x, none) from rfl, bind_ok]
    obtain ⟨r1, r2, r3⟩ := hrest x (Like.rfl' x)
    exact ⟨r1, r2, r3, fun _ => rfl⟩

theorem exitPhaseF_m (hS : NS a0 N) (hq : FQF N) (x : FCfg) (s : SObj) (h : MQ x) (htr : x.l.trans.isSome = true) :
    MQ (exitPhaseF N x s).1 ∧ (exitPhaseF N x s).1.l.c.st = x.l.c.st ∧ (exitPhaseF N x s).1.l.trans = x.l.trans ∧
    ((exitPhaseF N x s).2 = none → (exitPhaseF N x s).1.inState = false) := by
  have e1 : exitPhaseF N x s = bind (exitOnceF N x) (fun x => if retargeted x.l s then exitOnceF N x else ok x) := rfl
  rw [e1]
  obtain ⟨p1, p2, p3, p4⟩ := exitOnceF_m hS hq x h htr
  generalize exitOnceF N x = r at p1 p2 p3 p4
  obtain ⟨y, e⟩ := r
  cases e with
  | some e => rw [bind_err]; exact ⟨p1, p2, p3, fun hn => nomatch hn⟩
  | none =>
    rw [bind_ok]
    split
    · obtain ⟨q1, q2, q3, q4⟩ := exitOnceF_m hS hq y p1 (by rw [p3]; exact htr)
      exact ⟨q1, q2.trans p2, q3.trans p3, q4⟩
    · exact ⟨p1, p2, p3, fun _ => p4 rfl⟩

theorem enteringF_m (hS : NS a0 N) (hq : FQF N) (x : FCfg) (s : SObj) (h : MQ x) (htr : x.l.trans.isSome = true) :
    MQ (enteringF N x s).1 ∧ (enteringF N x s).1.l.c.st = x.l.c.st ∧ (enteringF N x s).1.inState = x.inState ∧
    (enteringF N x s).1.l.trans = x.l.trans := by
  -- a configuration that kept the state object, `inState`, the transition flag, with `InvM` and grown heaps
  have keep : ∀ y : FCfg, y.l.c.st = x.l.c.st → y.inState = x.inState → InvM y.l.c → MonoW x.l.c.wfs y.l.c.wfs → MQ y := by
    intro y h1 h2 h4 h5
    exact ⟨h4, fun hf => (h.2 (by rw [← h2]; exact hf)).mono h1 h5 h.1.wv⟩
  have hbase : ∀ x', Like x x' → InvM (enteringBaseF s x').1.l.c ∧ (enteringBaseF s x').1.l.c.st = x.l.c.st ∧
      (enteringBaseF s x').1.inState = x.inState ∧ (enteringBaseF s x').1.l.trans = x.l.trans ∧
      MonoW x.l.c.wfs (enteringBaseF s x').1.l.c.wfs := by
    intro x' ⟨a1, a2⟩
    unfold enteringBaseF
    split
    · exact ⟨by rw [a1]; exact h.1, by rw [a1], a2, by rw [a1], by rw [a1]; exact MonoW.rfl' _⟩
    · rename_i c2 hok
      rw [a1] at hok
      have r := enteringHooks_tr _ c2 s hok
      have hst := (ctl_enteringHooks _ c2 s hok).2
      exact ⟨h.1.tr r (Or.inl hst), hst, a2, by show x'.l.trans = _; rw [a1], r.wfs⟩
  have hNn : ∀ y : FCfg, y.l.c.st = x.l.c.st → y.inState = x.inState → y.l.trans = x.l.trans → InvM y.l.c →
      MonoW x.l.c.wfs y.l.c.wfs → MQ (N .entering y) ∧ (N .entering y).l.c.st = x.l.c.st ∧ (N .entering y).inState = x.inState ∧
      (N .entering y).l.trans = x.l.trans := by
    intro y h1 h2 h3 h4 h5
    have htry : y.l.trans.isSome = true := by rw [h3]; exact htr
    obtain ⟨m1, m2, m3⟩ := hS.mst .entering y htry h4
    exact ⟨keep _ (m1.trans h1) (m2.trans h2) (hS.m _ _ htry h4) (h5.trans (hq .entering y).wfs), m1.trans h1, m2.trans h2, m3.trans h3⟩
  have e1 : enteringF N x s = bind (hookOpt (enteringHK s) (enteringBaseF s) x) (fun x => ok (N .entering x)) := rfl
  rw [e1]
  -- the result of the hook, whatever it is
  have hhook : ((hookOpt (enteringHK s) (enteringBaseF s) x).1.l.c.st = x.l.c.st ∧
      (hookOpt (enteringHK s) (enteringBaseF s) x).1.inState = x.inState ∧
      (hookOpt (enteringHK s) (enteringBaseF s) x).1.l.trans = x.l.trans ∧
      InvM (hookOpt (enteringHK s) (enteringBaseF s) x).1.l.c ∧
      MonoW x.l.c.wfs (hookOpt (enteringHK s) (enteringBaseF s) x).1.l.c.wfs) := by
    unfold hookOpt
    split
    · rename_i k _
      rcases hookF_shape k (enteringBaseF s) x with ⟨⟨l1, l2⟩, _⟩ | ⟨x', hl, ⟨b1, b2⟩, _⟩
      · exact ⟨by rw [l1], l2, by rw [l1], by rw [l1]; exact h.1, by rw [l1]; exact MonoW.rfl' _⟩
      · obtain ⟨c1, c2, c3, c4, c5⟩ := hbase x' hl
        exact ⟨by rw [b1]; exact c2, by rw [b2]; exact c3, by rw [b1]; exact c4, by rw [b1]; exact c1, by rw [b1]; exact c5⟩
    · obtain ⟨c1, c2, c3, c4, c5⟩ := hbase x (Like.rfl' x)
      exact ⟨c2, c3, c4, c1, c5⟩
  obtain ⟨g1, g2, g3, g4, g5⟩ := hhook
  generalize hookOpt (enteringHK s) (enteringBaseF s) x = r at g1 g2 g3 g4 g5
  obtain ⟨y, e⟩ := r
  cases e with
  | some e => rw [bind_err]; exact ⟨keep y g1 g2 g4 g5, g1, g2, g3⟩
  | none => rw [bind_ok]; exact hNn y g1 g2 g3 g4 g5

/-- `do_enter`, the assignment, the ENTERED callbacks, `on_terminated`: from a state that has been exited -/
theorem enterNextF_m (hS : NS a0 N) (x : FCfg) (s : SObj) (h : InvM x.l.c) (hex : Exited x.l.c) (hs : TargetOk x.l.c s)
    (htr : x.l.trans.isSome = true) :
    MQ (enterNextF N x s).1 ∧ (enterNextF N x s).1.inState = true ∧ (enterNextF N x s).1.l.trans = x.l.trans ∧
    ((enterNextF N x s).2 = none → InvS (enterNextF N x s).1.l.c) := by
  have e1 : enterNextF N x s = bind (enteredHooksF N { x.updC fun c => setState (enterState c s) s with inState := true } s)
      (fun x => if terminal s.label then terminatedF x else ok x) := rfl
  rw [e1]
  generalize hx1 : ({ x.updC fun c => setState (enterState c s) s with inState := true } : FCfg) = x1
  have hc1 : x1.l.c = setState (enterState x.l.c s) s := by rw [← hx1]; rfl
  have hm1 : InvM x1.l.c := by rw [hc1]; exact setState_invM _ _ h hex hs
  have hi1 : x1.inState = true := by rw [← hx1]
  have htr1 : x1.l.trans = x.l.trans := by rw [← hx1]; rfl
  obtain ⟨p1, p2, p3, p4⟩ := enteredHooksF_m hS x1 s hm1 (by rw [htr1]; exact htr)
  generalize enteredHooksF N x1 s = r at p1 p2 p3 p4
  obtain ⟨y, e⟩ := r
  have hyi : y.inState = true := p2.trans hi1
  have hyst : y.l.c.st = s := by rw [show y.l.c.st = x1.l.c.st from p3, hc1]; rfl
  cases e with
  | some e =>
    rw [bind_err]
    exact ⟨⟨p1, fun hf => by rw [show y.inState = true from hyi] at hf; cases hf⟩, hyi, p4.trans htr1, fun hn => nomatch hn⟩
  | none =>
    rw [bind_ok]
    by_cases ht : terminal s.label = true
    · simp only [ht, if_true]
      obtain ⟨q1, q2, q3, q4⟩ := terminatedF_m y p1
      refine ⟨⟨q1, fun hf => by rw [q2, hyi] at hf; cases hf⟩, q2.trans hyi, q3.trans (p4.trans htr1), fun hn => ?_⟩
      refine q1.to_s (fun _ _ => ?_)
      rw [q4 hn, upd_c]
      intro _
      exact onTerminated_rel _ p1.pv
    · have ht' : terminal s.label = false := by simpa using ht
      simp only [ht', Bool.false_eq_true, if_false]
      refine ⟨⟨p1, fun hf => by rw [show (ok y).1.inState = true from hyi] at hf; cases hf⟩, hyi, p4.trans htr1, fun _ => ?_⟩
      refine p1.to_s (fun _ _ => ?_)
      intro htt
      have htt' : terminal y.l.c.st.label = true := htt
      rw [hyst, ht'] at htt'; cases htt'

theorem lateExitF_m (x : FCfg) (h : MQ x) : InvM (lateExitF x).l.c ∧ Exited (lateExitF x).l.c ∧
    (lateExitF x).l.trans = x.l.trans := by
  unfold lateExitF
  split
  · exact ⟨h.1.tr (exitState_tr _) (Or.inl (exitState_st _)), exitState_exited _ h.1.wv, rfl⟩
  · rename_i hc
    refine ⟨h.1, ?_, rfl⟩
    cases hi : x.inState with
    | false => exact h.2 hi
    | true =>
      -- still entered, hence terminal: not a WAITING state
      have ht : terminal x.l.c.st.label = true := by
        cases ht : terminal x.l.c.st.label with
        | true => rfl
        | false => simp [hi, ht] at hc
      exact exited_of_not_waiting (fun fn wf wk aw hs => (not_live_of_terminal ht).2.2 fn wf wk aw hs)

/-- the failing path of `transition_to`: EXCEPTED with the linking invariant restored (if nothing propagates) -/
theorem forceExceptedF_m (hS : NS a0 N) (hq : FQF N) (x : FCfg) (e : Exc) (h : MQ x) (hc : x.l.c.closed = false) :
    MQ (forceExceptedF N x e).1 ∧ (forceExceptedF N x e).1.inState = true ∧
    ((forceExceptedF N x e).2 = none → InvS (forceExceptedF N x e).1.l.c) := by
  unfold forceExceptedF
  simp only [hc, Bool.false_eq_true, if_false]
  have h0 : MQ (x.updL fun l => { l with trans := some Label.excepted }) := h
  obtain ⟨w1, w2, w3⟩ := lateExitF_m _ h0
  generalize lateExitF (x.updL fun l => { l with trans := some Label.excepted }) = x1 at w1 w2 w3
  have htr1 : x1.l.trans.isSome = true := by rw [w3]; rfl
  -- `on_except`
  have r2 := setFutExc_tr x1.l.c e
  have hst2 := (ctl_setFutExc x1.l.c e).2
  have hm2 : InvM (x1.updC fun c => setFutExc c e).l.c := w1.tr r2 (Or.inl hst2)
  have hx2 : Exited (x1.updC fun c => setFutExc c e).l.c := w2.mono hst2 r2.wfs w1.wv
  have htr2 : (x1.updC fun c => setFutExc c e).l.trans.isSome = true := htr1
  -- the other ENTERING callbacks
  obtain ⟨m1, _, m3⟩ := hS.mst .entering _ htr2 hm2
  have hm3 := hS.m .entering _ htr2 hm2
  have hx3 : Exited (N .entering (x1.updC fun c => setFutExc c e)).l.c := hx2.mono m1 (hq .entering _).wfs hm2.wv
  generalize N Hook.entering (x1.updC fun c => setFutExc c e) = x3 at m3 hm3 hx3
  have hm4 : InvM (setState x3.l.c (.excepted e)) := by
    have := setState_invM x3.l.c (.excepted e) hm3 hx3 (targetOk_excepted _ e)
    simpa [enterState] using this
  generalize hx4 : ({ x3.updC fun c => setState c (SObj.excepted e) with inState := true } : FCfg) = x4
  have hc4 : x4.l.c = setState x3.l.c (.excepted e) := by rw [← hx4]; rfl
  have htr4 : x4.l.trans.isSome = true := by rw [← hx4]; show (x3.l.upd _).trans.isSome = true; rw [upd_trans, m3]; exact htr2
  obtain ⟨p1, p2, p3, _⟩ := enteredHooksF_m hS x4 (.excepted e) (by rw [hc4]; exact hm4) htr4
  generalize enteredHooksF N x4 (SObj.excepted e) = r at p1 p2 p3
  obtain ⟨y, ye⟩ := r
  have hyi : y.inState = true := by rw [show y.inState = x4.inState from p2, ← hx4]
  cases ye with
  | some e' => rw [bind_err]; exact ⟨⟨p1, fun hf => by rw [show y.inState = true from hyi] at hf; cases hf⟩, hyi, fun hn => nomatch hn⟩
  | none =>
    rw [bind_ok]
    obtain ⟨q1, q2, _, q4⟩ := terminatedF_m y p1
    refine ⟨⟨q1, fun hf => by rw [q2, hyi] at hf; cases hf⟩, q2.trans hyi, fun hn => ?_⟩
    refine q1.to_s (fun _ _ => ?_)
    rw [q4 hn, upd_c]
    intro _
    exact onTerminated_rel _ p1.pv


theorem tryTransitionF_m (hS : NS a0 N) (hq : FQF N) (x : FCfg) (s : SObj) (h : MQ x) (hc : x.l.c.closed = false)
    (hs : TargetOk x.l.c s) (htr : x.l.trans.isSome = true) :
    MQ (tryTransitionF N x s).1 ∧ ((tryTransitionF N x s).2 = none → InvS (tryTransitionF N x s).1.l.c ∧
      (tryTransitionF N x s).1.inState = true) := by
  unfold tryTransitionF
  split
  · simp only [hc, Bool.false_eq_true, if_false]
    obtain ⟨p1, _, p3, p4⟩ := exitPhaseF_m hS hq x s h htr
    have pq := exitPhaseF_qf hq x s
    generalize exitPhaseF N x s = r at p1 p3 p4 pq
    obtain ⟨y, e⟩ := r
    cases e with
    | some e => rw [bind_err]; exact ⟨p1, fun hn => nomatch hn⟩
    | none =>
      rw [bind_ok]
      have htry : y.l.trans.isSome = true := by rw [show y.l.trans = x.l.trans from p3]; exact htr
      obtain ⟨q1, _, q3, q4⟩ := enteringF_m hS hq y s p1 htry
      have qq := enteringF_qf hq y s
      generalize enteringF N y s = r at q1 q3 q4 qq
      obtain ⟨z, e⟩ := r
      cases e with
      | some e => rw [bind_err]; exact ⟨q1, fun hn => nomatch hn⟩
      | none =>
        rw [bind_ok]
        have hzi : z.inState = false := (show z.inState = y.inState from q3).trans (p4 rfl)
        have hts : TargetOk z.l.c s := hs.mono (MonoW.trans (show QQ x.l y.l from pq).wfs (show QQ y.l z.l from qq).wfs)
        obtain ⟨r1, r2, _, r4⟩ := enterNextF_m hS z s q1.1 (q1.2 hzi) hts (by rw [show z.l.trans = y.l.trans from q4]; exact htry)
        exact ⟨r1, fun hn => ⟨r4 hn, r2⟩⟩
  · exact ⟨h, fun hn => nomatch hn⟩

/-- the fault is not one of the two hooks that also run in the failing path of `transition_to` -/
def NoTC (a0 : Arm) : Prop := ¬ (a0.hk = .onTerminated ∨ a0.hk = .onClose)

theorem K.kg {x : FCfg} (h : K a0 x) (hnb : NoTC a0) : Kg a0 x := by
  rcases h.g with hb | hk
  · exact absurd hb.1 hnb
  · exact hk

/-- **a transition of a live process keeps the linking invariant of the stepping task, whatever the fault does in it** -/
theorem transitionToF_s (hN : NK a0 N) (hS : NS a0 N) (hq : FQF N) (hac : afterClose a0 = false) (hnb : NoTC a0)
    (x : FCfg) (s : SObj) (hk : K a0 x) (hi : InvS x.l.c) (hin : x.inState = true)
    (hl : terminal x.l.c.st.label = false) (hs : TargetOk x.l.c s) :
    InvS (transitionToF N x s).1.l.c ∧ (transitionToF N x s).1.inState = true ∧ (transitionToF N x s).2 = none := by
  obtain ⟨hk', hret⟩ := transitionToF_K' hN x s hk hac hl
  have hr2 : (transitionToF N x s).2 = none := by
    rcases hret with h | h
    · exact h
    · exact absurd h.1 hnb
  have hlive : LiveW x.l.c := (hk.kg hnb).1.live hl
  refine ⟨?_, ?_, hr2⟩
  all_goals
    unfold transitionToF at hr2 ⊢
    simp only [hk.tr, Option.isSome_none, Bool.false_eq_true, if_false] at hr2 ⊢
    generalize hx0 : (x.updL fun l => { l with trans := some s.label }) = x0 at hr2 ⊢
    have h0 : MQ x0 := by rw [← hx0]; exact ⟨InvM.of_s hi, fun hf => by rw [show (x.updL _).inState = x.inState from rfl, hin] at hf; cases hf⟩
    have hc0 : x0.l.c.closed = false := by rw [← hx0]; exact hlive.2.1
    have htr0 : x0.l.trans.isSome = true := by rw [← hx0]; rfl
    have hs0 : TargetOk x0.l.c s := by rw [← hx0]; exact hs
    have ha0 : ArmOk a0 x0 := by rw [← hx0]; exact hk.arm.updL _
    have hl0 : LiveW x0.l.c := by rw [← hx0]; exact hlive
    obtain ⟨p1, p2⟩ := tryTransitionF_m hS hq x0 s h0 hc0 hs0 htr0
    have hsp := tryTransitionF_spec hN x0 s ha0 hac htr0 hl0
    generalize tryTransitionF N x0 s = r at p1 p2 hsp hr2 ⊢
    obtain ⟨y, e⟩ := r
    cases e with
    | none => first | exact (p2 rfl).1 | exact (p2 rfl).2
    | some e =>
      have hyc : y.l.c.closed = false := by
        rcases hsp with ⟨h1, _⟩ | ⟨e', h1, h2, _⟩
        · cases h1
        · exact h2
      obtain ⟨f1, f2, f3⟩ := forceExceptedF_m hS hq y e p1 hyc
      first | exact f3 hr2 | exact f2

end
end FP
end PMF
