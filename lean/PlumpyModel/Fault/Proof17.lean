import PlumpyModel.Fault.Proof16
/-!
# Fault twins — no transition of the model raises an error of the state machine itself; the invariant `K2` (`K` without `Bad`)

* `tryTransitionF_noint`: the `try` block of `transition_to` of a live process to an ALLOWED target raises nothing but the injected
  fault — the future is unresolved (`LiveW`), so `on_finish / on_kill` do not raise `InvalidStateError`; the call counter is balanced
  (`Fault/Proof16.lean`), so no `_called` assertion fails; the target is allowed, so no "cannot transition".
* `transitionToF_G`: hence a transition to an allowed target never produces the alternative `Bad` of the invariant `K`, and nothing
  propagates to its caller.
* `K2 a0 x`: `K a0 x` with the alternative `Bad` removed.  Every control call, every notification, the closing part of a step
  (given that the state the step proposes is allowed from the current one, `NextOk`), every wake-up of the stepping task and every
  other event keeps it.  The chain is that of `Fault/Proof4.lean` / `Proof5.lean`.
-/
namespace PMF
namespace FP
open L

section
variable {a0 : Arm} {N : Hook → FCfg → FCfg}

/-- **the `try` block of `transition_to` of a live process to an allowed target raises nothing but the fault** -/
theorem tryTransitionF_noint (hN : NK a0 N) (hC : FCF N) (x : FCfg) (s : SObj) (h : ArmOk a0 x)
    (htr : x.l.trans.isSome = true) (hl : LiveW x.l.c) (hal : s.label ∈ allowed x.l.c.st.label)
    (e : Exc) (he : (tryTransitionF N x s).2 = some e) : e = faultExc := by
  have hs : s.label ≠ .created := fun h => created_not_allowed _ (h ▸ hal)
  unfold tryTransitionF at he
  rw [if_pos hal] at he
  simp only [hl.2.1, Bool.false_eq_true, if_false] at he
  have hx := exitPhaseF_rf hC x s
  have hsp := exitPhaseF_spec hN x s h htr
  generalize exitPhaseF N x s = r at hx hsp he
  obtain ⟨y, ye⟩ := r
  cases ye with
  | some e' => rw [bind_err] at he; cases he; exact hx.2 e rfl
  | none =>
    rw [bind_ok] at he
    have hly : LiveW y.l.c := by
      rcases hsp with ⟨_, p2, _⟩ | ⟨p1, _⟩
      · exact hl.same2 p2.1
      · cases p1
    obtain ⟨_, q2⟩ := enteringF_cf hC y s
    generalize enteringF N y s = r2 at q2 he
    obtain ⟨z, ze⟩ := r2
    cases ze with
    | some e' =>
      rw [bind_err] at he; cases he
      rcases q2 e rfl with h | h
      · exact h
      · obtain ⟨c2, hc2, _⟩ := enteringHooks_w y.l.c s hly.1
        rw [hc2] at h; cases h
    | none =>
      rw [bind_ok] at he
      exact (enterNextF_rf hC z s hs).2 e he

/-- `K` without the alternative `Bad` -/
structure K2 (a0 : Arm) (x : FCfg) : Prop where
  arm : ArmOk a0 x
  tr : x.l.trans = none
  g : Kg a0 x

theorem K2.k {x : FCfg} (h : K2 a0 x) : K a0 x := ⟨h.arm, h.tr, Or.inr h.g⟩

theorem Kg.not_bad {x : FCfg} (h : Kg a0 x) : ¬ Bad a0 x := by
  intro hb
  have hs := h.2 hb.main hb.2.1
  obtain ⟨_, _, e, he, hs'⟩ := hb
  rw [hs] at hs'; cases hs'
  exact faultExc_not_internal he

theorem K2.not_bad {x : FCfg} (h : K2 a0 x) : ¬ Bad a0 x := h.g.not_bad

theorem K.k2 {x : FCfg} (h : K a0 x) (hnb : ¬ Bad a0 x) : K2 a0 x := by
  refine ⟨h.arm, h.tr, ?_⟩
  rcases h.g with hb | hg
  · exact absurd hb hnb
  · exact hg

theorem K.k2_live {x : FCfg} (h : K a0 x) (hl : terminal x.l.c.st.label = false) : K2 a0 x :=
  ⟨h.arm, h.tr, h.kg_live hl⟩

theorem K2.fr {x y : FCfg} (h : K2 a0 x) (f : Fr x y) : K2 a0 y :=
  (h.k.fr f).k2 (fun hb => by
    have hexc : terminal y.l.c.st.label = true := hb.terminal
    have hlab : y.l.c.st.label = x.l.c.st.label := f.s2.1
    have hst : y.l.c.st = x.l.c.st := by
      rcases f.st with h1 | h1
      · exact h1
      · rw [hlab, h1] at hexc; cases hexc
    obtain ⟨hm, hf, e, he, hs⟩ := hb
    exact h.not_bad ⟨hm, by rw [← f.fired]; exact hf, e, he, by rw [← hst]; exact hs⟩)

theorem K2.congr {x y : FCfg} (h : K2 a0 x) (hl : y.l = x.l) (ha : y.arm = x.arm) (hf : y.fired = x.fired) : K2 a0 y :=
  h.fr ⟨by rw [hl]; exact Same2.rfl' _, Or.inl (by rw [hl]), hf, ha, by rw [hl]⟩

theorem K2.of_armok {x y : FCfg} (h : K2 a0 x) (hl : y.l = x.l) (ha : ArmOk a0 y) (hf : y.fired = x.fired) : K2 a0 y :=
  ⟨ha, by rw [hl]; exact h.tr, ⟨by rw [hl]; exact h.g.1, fun hm hf' => by rw [hl]; exact h.g.2 hm (by rw [← hf]; exact hf')⟩⟩

theorem K2.fire {x y : FCfg} (h : K2 a0 x) (hl : y.l = x.l) (ha : y.arm = none) (hnm : mainHK a0.hk = false) : K2 a0 y :=
  ⟨ArmOk.of_none ha, by rw [hl]; exact h.tr, ⟨by rw [hl]; exact h.g.1, fun hm => by rw [hnm] at hm; cases hm⟩⟩

theorem K2.upd {x : FCfg} (h : K2 a0 x) (f : Cfg → Cfg) (hs : Same2 x.l.c (f x.l.c))
    (hst : terminal x.l.c.st.label = true → (f x.l.c).st = x.l.c.st) : K2 a0 (x.updC f) := by
  refine h.fr (Fr.updC' x f hs ?_)
  cases ht : terminal x.l.c.st.label with
  | true => exact Or.inl (hst ht)
  | false => exact Or.inr rfl

theorem K2.set {x : FCfg} (h : K2 a0 x) (c : Cfg) (hs : Same2 x.l.c c)
    (hst : terminal x.l.c.st.label = true → c.st = x.l.c.st) : K2 a0 (x.setC c) :=
  K2.upd h (fun _ => c) hs hst

/-- **`transition_to` of a live process to an allowed target keeps `K2`, and nothing propagates to its caller** — whatever the
fault (any hook, before / after `super()`, except the two points after `close()`) does in it -/
theorem transitionToF_G (hN : NK a0 N) (hC : FCF N) (x : FCfg) (s : SObj) (hk : K a0 x) (hac : afterClose a0 = false)
    (hl : terminal x.l.c.st.label = false) (hal : s.label ∈ allowed x.l.c.st.label) :
    K2 a0 (transitionToF N x s).1 ∧ (transitionToF N x s).2 = none := by
  have hlive : LiveW x.l.c := (hk.kg_live hl).1.live hl
  unfold transitionToF
  simp only [hk.tr, Option.isSome_none, Bool.false_eq_true, if_false]
  generalize hx0 : (x.updL fun l => { l with trans := some s.label }) = x0
  have h0 : ArmOk a0 x0 := by rw [← hx0]; exact hk.arm.updL _
  have htr0 : x0.l.trans.isSome = true := by rw [← hx0]; rfl
  have hl0 : LiveW x0.l.c := by rw [← hx0]; exact hlive
  have hf0 : x0.fired = x.fired := by rw [← hx0]; rfl
  have hal0 : s.label ∈ allowed x0.l.c.st.label := by rw [← hx0]; exact hal
  have hnf : mainHK a0.hk = true → x.fired = false := by
    intro hm
    cases hf : x.fired with
    | false => rfl
    | true =>
      exfalso
      rw [(hk.kg_live hl).2 hm hf, excepted_terminal] at hl; cases hl
  have hni := tryTransitionF_noint hN hC x0 s h0 htr0 hl0 hal0
  rcases tryTransitionF_spec hN x0 s h0 hac htr0 hl0 with ⟨p1, p2, p3, p4⟩ | ⟨e, p1, p2, p3, p4⟩
  · generalize tryTransitionF N x0 s = r at p1 p2 p3 p4
    obtain ⟨y, ye⟩ := r
    simp only at p1 p2 p3 p4
    subst p1
    refine ⟨⟨p3.updL _, rfl, ⟨p2, fun hm hf => ?_⟩⟩, rfl⟩
    have : y.fired = false := by rw [p4 hm, hf0]; exact hnf hm
    have hf' : y.fired = true := hf
    rw [this] at hf'; cases hf'
  · have hfe := hni e p1
    generalize tryTransitionF N x0 s = r at p1 p2 p3 p4
    obtain ⟨y, ye⟩ := r
    simp only at p1 p2 p3 p4
    subst p1
    simp only
    have hya : ArmOk a0 y := by
      rcases p4 with ⟨_, q2, q3, _⟩ | ⟨_, q2, _⟩
      · exact ArmOk.of_none q3
      · exact q2
    obtain ⟨f1, f2, f3⟩ := forceExceptedF_spec hN y e hya hac p2 p3
    rcases p4 with ⟨q1, q2, q3, q4⟩ | ⟨q1, q2, q3⟩
    · subst q1
      rcases f3 with ⟨g1, g2, g3⟩ | ⟨_, _, _, g4⟩
      · exact ⟨⟨f2.updL _, rfl, ⟨g2, fun _ _ => f1⟩⟩, g1⟩
      · rw [q2] at g4; cases g4
    · subst hfe
      exact absurd q1 faultExc_not_internal

theorem killed_allowed (l : Label) (h : terminal l = false) : Label.killed ∈ allowed l := by
  cases l <;> simp_all [terminal, allowed]

theorem excepted_allowed' (l : Label) (h : terminal l = false) : Label.excepted ∈ allowed l := by
  cases l <;> simp_all [terminal, allowed]

theorem running_allowed (l : Label) (h : terminal l = false) : Label.running ∈ allowed l := by
  cases l <;> simp_all [terminal, allowed]

theorem allowed_of_started (l t : Label) (h : terminal l = false) (hl : l ≠ .created) (ht : t ≠ .created) : t ∈ allowed l := by
  cases l <;> cases t <;> simp_all [terminal, allowed]

/-- everything the chain assumes of the notification function -/
structure NK2 (a0 : Arm) (N : Hook → FCfg → FCfg) : Prop where
  k : NK a0 N
  c : FCF N
  inv : ∀ h x, K2 a0 x → K2 a0 (N h x)

end

section
variable {a0 : Arm}

theorem hookF_K2 (hk : HK) (hnm : mainHK hk = false) (base : FCfg → Res) (hbase : ∀ x', K2 a0 x' → K2 a0 (base x').1)
    (x : FCfg) (h : K2 a0 x) : K2 a0 (hookF hk base x).1 := by
  rcases hookF_cases hk base x h.arm with ⟨hhk, _, _, _, y, hy, h1, _, h3, _⟩ | ⟨x', hl, hf, _, hao, _, hcase⟩
  · rw [hy]; exact h.fire h1 h3 (by rw [hhk]; exact hnm)
  · have hx' : K2 a0 x' := h.of_armok hl hao hf
    have hb := hbase x' hx'
    rcases hcase with ⟨hhk, _, _, _, _, hcase⟩ | hcase
    · rcases hcase with ⟨y, yy, e, hb', hy, huu, hfyy⟩ | ⟨y, y', hb', hy, hu1, _, hu3, _⟩
      · rw [hy]; rw [hb'] at hb; exact K2.congr hb huu.1 huu.2.1 hfyy
      · rw [hy]; rw [hb'] at hb; exact K2.fire hb hu1 hu3 (by rw [hhk]; exact hnm)
    · rcases hcase with ⟨y, yy, e, hb', hy, huu, hfyy⟩ | ⟨y, y', e, hb', hy, _, hu, hfy, _⟩
      · rw [hy]; rw [hb'] at hb; exact K2.congr hb huu.1 huu.2.1 hfyy
      · rw [hy]; rw [hb'] at hb; exact K2.congr hb hu.1 hu.2.1 hfy

variable {N : Hook → FCfg → FCfg}

theorem doPauseF_K2 (hN : NK2 a0 N) (x : FCfg) (h : K2 a0 x) : K2 a0 (doPauseF N x).1 := by
  have e1 : doPauseF N x = ((bind (hookF .onPausing ok x) fun x => hookF .onPaused (pausedBaseF N) x).1.updC
      (fun c => { c with pausing := none }), (bind (hookF .onPausing ok x) fun x => hookF .onPaused (pausedBaseF N) x).2) := rfl
  rw [e1]
  have h1 : K2 a0 (hookF .onPausing ok x).1 := hookF_K2 .onPausing rfl ok (fun x' hx' => hx') x h
  have h2 : K2 a0 (bind (hookF .onPausing ok x) fun x => hookF .onPaused (pausedBaseF N) x).1 := by
    generalize hookF .onPausing ok x = r at h1
    obtain ⟨y, ye⟩ := r
    cases ye with
    | some e => exact h1
    | none =>
      rw [bind_ok]
      refine hookF_K2 .onPaused rfl (pausedBaseF N) (fun x' hx' => ?_) y h1
      unfold pausedBaseF
      exact hN.inv _ _ (hx'.fr (Fr.updC x' doPauseHooks (doPauseHooks_same2 _) rfl))
  exact h2.fr (Fr.updC _ _ ⟨rfl, rfl, rfl, rfl, rfl, rfl⟩ rfl)

theorem pauseF_K2 (hN : NK2 a0 N) (x : FCfg) (h : K2 a0 x) : K2 a0 (pauseF N x).1 := by
  unfold pauseF; dsimp only
  split
  · exact h
  · split
    · exact h
    · split
      · exact h.fr (Fr.updC x _ (hand_same2 ..) (hand_hkc ..).st)
      · split
        · exact h
        · split
          · have hs : Same2 x.l.c { requestL x.l .pause with pausing := (requestL x.l .pause).interrupt } :=
              Same2.trans (requestL_same2 x.l .pause) ⟨rfl, rfl, rfl, rfl, rfl, rfl⟩
            have hst : ({ requestL x.l .pause with pausing := (requestL x.l .pause).interrupt } : Cfg).st = x.l.c.st :=
              requestL_st x.l .pause
            split
            · exact h.fr (Fr.setC' x _ (Same2.trans hs (hand_same2 ..)) ((hand_hkc ..).st.trans hst))
            · exact h.fr (Fr.setC' x _ hs hst)
          · rw [retOf_fst]; exact doPauseF_K2 hN x h

theorem playF_K2 (hN : NK2 a0 N) (x : FCfg) (h : K2 a0 x) : K2 a0 (playF N x).1 := by
  unfold playF
  split
  · exact h.fr (Fr.updC x _ (play_same2 _) (play_st _))
  · rw [retOf_fst]
    refine hookF_K2 .onPlaying rfl (playingBaseF N) (fun x' hx' => ?_) x h
    unfold playingBaseF
    exact hN.inv _ _ (hx'.fr (Fr.updC x' _ (play_same2 _) (play_st _)))

theorem killF_K2 (hN : NK2 a0 N) (hac : afterClose a0 = false) (x : FCfg) (h : K2 a0 x) : K2 a0 (killF N x).1 := by
  unfold killF; dsimp only
  split
  · exact h
  · split
    · exact h
    · rename_i _ hnt
      split
      · exact h.fr (Fr.updC x _ (hand_same2 ..) (hand_hkc ..).st)
      · split
        · have hs : Same2 x.l.c { requestL x.l .kill with killing := (requestL x.l .kill).interrupt } :=
            Same2.trans (requestL_same2 x.l .kill) ⟨rfl, rfl, rfl, rfl, rfl, rfl⟩
          have hst : ({ requestL x.l .kill with killing := (requestL x.l .kill).interrupt } : Cfg).st = x.l.c.st :=
            requestL_st x.l .kill
          split
          · exact h.fr (Fr.setC' x _ (Same2.trans hs (hand_same2 ..)) ((hand_hkc ..).st.trans hst))
          · exact h.fr (Fr.setC' x _ hs hst)
        · rw [retOf_fst]
          have hl : terminal x.l.c.st.label = false := by simpa using hnt
          exact (transitionToF_G hN.k hN.c x .killed h.k hac hl (killed_allowed _ hl)).1

theorem failF_K2 (hN : NK2 a0 N) (hac : afterClose a0 = false) (x : FCfg) (e : Exc) (h : K2 a0 x) : K2 a0 (failF N x e).1 := by
  unfold failF
  split
  · exact h
  · rename_i hnt
    rw [retOf_fst]
    have hl : terminal x.l.c.st.label = false := by simpa using hnt
    exact (transitionToF_G hN.k hN.c x (.excepted e) h.k hac hl (excepted_allowed' _ hl)).1

theorem logRep_K2 (q : Req) (r : FCfg × RetV) (h : K2 a0 r.1) : K2 a0 (logRep q r) := by
  unfold logRep; split
  · exact K2.congr h rfl rfl rfl
  · exact h

theorem reqKF_K2 (hN : NK2 a0 N) (hac : afterClose a0 = false) (q : Req) (x : FCfg) (h : K2 a0 x) : K2 a0 (reqKF N q x) := by
  cases q
  · exact logRep_K2 _ _ (pauseF_K2 hN x h)
  · exact logRep_K2 _ _ (playF_K2 hN x h)
  · exact logRep_K2 _ _ (killF_K2 hN hac x h)

theorem fireKF_K2 (R : Req → FCfg → FCfg) (hR : ∀ q x, K2 a0 x → K2 a0 (R q x)) (h : Hook) (x : FCfg) (hx : K2 a0 x) :
    K2 a0 (fireKF R h x) := by
  unfold fireKF; dsimp only
  have h1 : K2 a0 (x.updL fun l => { l with cnt := bump l.cnt h }) := hx.fr (Fr.updL' x _ rfl rfl)
  split
  · exact h1
  · split
    · exact h1
    · exact hR _ _ (h1.fr (Fr.updL' _ _ rfl rfl))

/-- **the notification function of the model keeps `K2`** -/
theorem fireNF_nk2 (hac : afterClose a0 = false) : ∀ n, NK2 a0 (fireNF n)
  | 0 => ⟨fireNF_nk hac 0, fireNF_cf 0, fun h x hx => hx.fr (Fr.updL' x _ rfl rfl)⟩
  | n+1 => by
    have ih := fireNF_nk2 hac n
    refine ⟨fireNF_nk hac (n+1), fireNF_cf (n+1), fun h x hx => ?_⟩
    unfold fireNF
    exact fireKF_K2 _ (fun q x hx => reqKF_K2 ih hac q x hx) h x hx

end
end FP
end PMF
