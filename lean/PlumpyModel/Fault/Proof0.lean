import PlumpyModel.Fault.Model
/-! helper for the swallowing loops of `Fault/Model.lean` -/
namespace Fault

theorem callAll_fold {σ : Type} (cbs : List (Callback σ)) (s : σ) (n k : Nat) :
    cbs.foldl (fun acc cb => (cb.eff acc.1, acc.2.1 + 1, if cb.raises then acc.2.2 + 1 else acc.2.2)) (s, n, k) =
      (cbs.foldl (fun t cb => cb.eff t) s, n + cbs.length, k + (cbs.filter (·.raises)).length) := by
  induction cbs generalizing s n k with
  | nil => simp
  | cons cb rest ih =>
    simp only [List.foldl, List.length_cons]
    rw [ih]
    cases h : cb.raises <;> simp [List.filter, h] <;> omega

end Fault
