import PlumpyModel.Fault.Proof15
/-!
# Fault twins — the call counter is balanced, no state is ever CREATED again, and a hook raises only what its base raises

`CF x y`: `y` has the value of `_called` that `x` has, and the state of `y` is CREATED only if that of `x` is.  It holds between the
argument and the result of every twin below the closing part of a step, whether or not the fault fires in it, whether or not an
exception propagates (`call_with_super_check` puts the counter back when the hook raises, repair 6c8055d; `super_check` decrements
it when the base implementation returns).  Consequently the final check `assert self._called == call_count` of
`call_with_super_check` never fails, and the only exception that a hook call lets through is the injected fault or what its base
implementation raised (`hookF_cf`).  `RF x r`: the result `r` is `CF`-related to `x` and the only exception it carries is the fault.
-/
namespace PMF
namespace FP
open L

/-- the call counter is kept; the state is CREATED afterwards only if it was before -/
structure CF (x y : FCfg) : Prop where
  called : y.called = x.called
  ncr : y.l.c.st.label = .created → x.l.c.st.label = .created

theorem CF.rfl' (x : FCfg) : CF x x := ⟨rfl, id⟩
theorem CF.trans' {x y z : FCfg} (h1 : CF x y) (h2 : CF y z) : CF x z :=
  ⟨h2.called.trans h1.called, fun h => h1.ncr (h2.ncr h)⟩
theorem CF.of_l {x y : FCfg} (hc : y.called = x.called) (hl : y.l = x.l) : CF x y := ⟨hc, fun h => by rw [← hl]; exact h⟩
theorem CF.of_st {x y : FCfg} (hc : y.called = x.called) (hl : y.l.c.st = x.l.c.st) : CF x y := ⟨hc, fun h => by rw [← hl]; exact h⟩
theorem CF.of_label {x y : FCfg} (hc : y.called = x.called) (hl : y.l.c.st.label = x.l.c.st.label) : CF x y :=
  ⟨hc, fun h => by rw [← hl]; exact h⟩
theorem CF.updC (x : FCfg) (f : Cfg → Cfg) (hl : (f x.l.c).st.label = x.l.c.st.label) : CF x (x.updC f) := CF.of_label rfl hl
theorem CF.updL (x : FCfg) (f : LCfg → LCfg) (h : (f x.l).c = x.l.c) : CF x (x.updL f) :=
  CF.of_st rfl (by rw [updL_l, h])
theorem CF.not_created {x y : FCfg} (hc : y.called = x.called) (hn : y.l.c.st.label ≠ .created) : CF x y :=
  ⟨hc, fun h => absurd h hn⟩

/-- the notification function keeps the frame -/
def FCF (N : Hook → FCfg → FCfg) : Prop := ∀ h x, CF x (N h x)

/-- `r` is `CF`-related to `x` and carries no exception but the fault -/
def RF (x : FCfg) (r : Res) : Prop := CF x r.1 ∧ ∀ e, r.2 = some e → e = faultExc

theorem RF.ok' {x y : FCfg} (h : CF x y) : RF x (ok y) := ⟨h, fun e he => by cases he⟩

theorem bind_rf {x : FCfg} {r : Res} {k : FCfg → Res} (h1 : RF x r) (hk : ∀ y, RF y (k y)) : RF x (bind r k) := by
  obtain ⟨y, e⟩ := r
  cases e with
  | none => rw [bind_ok]; exact ⟨h1.1.trans' (hk y).1, (hk y).2⟩
  | some e => exact h1

theorem bind_cf {x : FCfg} {r : Res} {k : FCfg → Res} (h1 : CF x r.1) (hk : ∀ y, CF y (k y).1) : CF x (bind r k).1 := by
  obtain ⟨y, e⟩ := r
  cases e with
  | none => rw [bind_ok]; exact h1.trans' (hk y)
  | some e => exact h1

/-- `super().on_x()` behind `super_check` -/
theorem supF_cf (hk : HK) (base : FCfg → Res) (hb : ∀ x', CF x' (base x').1) (x' : FCfg) :
    ((supF hk base x').1.l.c.st.label = .created → x'.l.c.st.label = .created) ∧
    ((supF hk base x').2 = none → (supF hk base x').1.called = x'.called - 1) ∧
    (∀ e, (supF hk base x').2 = some e → ∃ x'', x''.l = x'.l ∧ (base x'').2 = some e) := by
  unfold supF
  split
  · have h := hb { x' with called := x'.called - 1 }
    exact ⟨h.ncr, fun _ => h.called, fun e he => ⟨{ x' with called := x'.called - 1 }, rfl, he⟩⟩
  · have h := hb x'
    generalize hr : base x' = r at h
    obtain ⟨y, e⟩ := r
    cases e with
    | none =>
      dsimp only
      exact ⟨h.ncr, fun _ => by rw [h.called], fun e he => by cases he⟩
    | some e =>
      dsimp only
      exact ⟨h.ncr, fun he => (by cases he), fun e' he => ⟨x', rfl, by rw [hr]; exact he⟩⟩

/-- **a hook call leaves `_called` as it found it, and lets through only the fault or what its base implementation raised** — so
the `assert self._called == call_count` of `call_with_super_check` never fails -/
theorem hookF_cf (hk : HK) (base : FCfg → Res) (hb : ∀ x', CF x' (base x').1) (x : FCfg) :
    CF x (hookF hk base x).1 ∧
    ∀ e, (hookF hk base x).2 = some e → e = faultExc ∨ ∃ x', x'.l = x.l ∧ (base x').2 = some e := by
  unfold hookF
  dsimp only
  split
  · exact ⟨⟨rfl, id⟩, fun e he => Or.inl (by cases he; rfl)⟩
  · obtain ⟨s1, s2, s3⟩ := supF_cf hk base hb { x with called := x.called + 1, arm := (armStep hk x.arm).2 }
    generalize supF hk base { x with called := x.called + 1, arm := (armStep hk x.arm).2 } = r at s1 s2 s3
    obtain ⟨y, e⟩ := r
    cases e with
    | some e =>
      refine ⟨⟨rfl, s1⟩, fun e' he => Or.inr ?_⟩
      cases he
      exact s3 e rfl
    | none =>
      dsimp only
      have hc : y.called = x.called := by
        have := s2 rfl
        simpa using this
      split
      · exact ⟨⟨rfl, s1⟩, fun e he => Or.inl (by cases he; rfl)⟩
      · first | rw [if_pos hc] | skip
        exact ⟨⟨hc, s1⟩, fun e he => by cases he⟩

/-- a hook whose base implementation raises only the fault -/
theorem hookF_rf (hk : HK) (base : FCfg → Res) (hb : ∀ x', RF x' (base x')) (x : FCfg) : RF x (hookF hk base x) := by
  obtain ⟨h1, h2⟩ := hookF_cf hk base (fun x' => (hb x').1) x
  refine ⟨h1, fun e he => ?_⟩
  rcases h2 e he with h | ⟨x', _, hx'⟩
  · exact h
  · exact (hb x').2 e hx'

theorem hookOpt_rf (hk : Option HK) (base : FCfg → Res) (hb : ∀ x', RF x' (base x')) (x : FCfg) : RF x (hookOpt hk base x) := by
  unfold hookOpt; split
  · exact hookF_rf _ base hb x
  · exact hb x

theorem closeF_rf (x : FCfg) : RF x (closeF x) := by
  unfold closeF; split
  · exact RF.ok' (CF.rfl' x)
  · exact hookF_rf _ _ (fun x' => RF.ok' (CF.updC x' _ (by rw [onClose_st]))) x

theorem terminatedF_rf (x : FCfg) : RF x (terminatedF x) := by
  unfold terminatedF
  refine hookF_rf _ _ (fun x' => ?_) x
  unfold termBaseF
  have h1 : CF x' (x'.updC releasePause) := CF.updC x' _ (by rw [releasePause_st])
  exact ⟨h1.trans' (closeF_rf _).1, (closeF_rf _).2⟩

section
variable {N : Hook → FCfg → FCfg}

theorem enteredHooksF_rf (hN : FCF N) (x : FCfg) (s : SObj) : RF x (enteredHooksF N x s) := by
  unfold enteredHooksF
  refine hookOpt_rf _ _ (fun x' => ?_) x
  unfold enteredBaseF; dsimp only
  have h1 : CF x' (x'.updC fun c => enteredHooks c s) := CF.updC x' _ (by rw [enteredHooks_st])
  split
  · exact RF.ok' (h1.trans' (hN _ _))
  · exact RF.ok' h1

theorem lateExitF_cf (x : FCfg) : CF x (lateExitF x) := by
  unfold lateExitF; split
  · exact CF.of_st rfl (exitState_st _)
  · exact CF.rfl' x

theorem forceExceptedF_rf (hN : FCF N) (x : FCfg) (e : Exc) : RF x (forceExceptedF N x e) := by
  unfold forceExceptedF
  split
  · exact RF.ok' (CF.not_created rfl (by simp [SObj.label]))
  · dsimp only
    refine bind_rf ?_ (fun y => terminatedF_rf y)
    have h1 := enteredHooksF_rf hN
      ({ (N Hook.entering ((lateExitF (x.updL fun l => { l with trans := some Label.excepted })).updC fun c => setFutExc c e)).updC
        fun c => setState c (SObj.excepted e) with inState := true } : FCfg) (.excepted e)
    refine ⟨CF.trans' ?_ h1.1, h1.2⟩
    refine CF.not_created ?_ (by simp [setState, SObj.label])
    show (N Hook.entering _).called = x.called
    rw [(hN _ _).called]
    exact (lateExitF_cf _).called

theorem enterNextF_rf (hN : FCF N) (x : FCfg) (s : SObj) (hs : s.label ≠ .created) : RF x (enterNextF N x s) := by
  unfold enterNextF; dsimp only
  refine bind_rf ?_ (fun y => by split; exact terminatedF_rf y; exact RF.ok' (CF.rfl' y))
  have h1 := enteredHooksF_rf hN ({ x.updC fun c => setState (enterState c s) s with inState := true } : FCfg) s
  have h0 : CF x ({ x.updC fun c => setState (enterState c s) s with inState := true } : FCfg) :=
    CF.not_created rfl (by show (setState (enterState x.l.c s) s).st.label ≠ .created; exact hs)
  exact ⟨CF.trans' h0 h1.1, h1.2⟩

theorem exitOnceF_rf (hN : FCF N) (x : FCfg) : RF x (exitOnceF N x) := by
  unfold exitOnceF
  refine bind_rf (hookOpt_rf _ _ (fun x' => RF.ok' (CF.rfl' x')) x) (fun y => RF.ok' ?_)
  refine CF.trans' (hN Hook.exiting y) (CF.of_st rfl ?_)
  show (exitState (N Hook.exiting y).l.c).st = _
  exact exitState_st _

theorem exitPhaseF_rf (hN : FCF N) (x : FCfg) (s : SObj) : RF x (exitPhaseF N x s) := by
  unfold exitPhaseF
  refine bind_rf (exitOnceF_rf hN x) (fun y => ?_)
  split
  · exact exitOnceF_rf hN y
  · exact RF.ok' (CF.rfl' y)

theorem enteringHooks_st {c c2 : Cfg} {s : SObj} (h : enteringHooks c s = .ok c2) : c2.st = c.st := by
  unfold enteringHooks at h
  have hf : (freshFutIfCancelled c).st = c.st := by unfold freshFutIfCancelled; split <;> rfl
  cases s with
  | finished v okk =>
    simp only at h
    split at h
    · cases h; exact hf
    · cases h
  | killed =>
    simp only at h
    split at h
    · cases h; exact hf
    · cases h
  | excepted e => cases h; exact (setFutExc_fields c e).2.2.2.2
  | created fn => cases h; rfl
  | running fn a k => cases h; rfl
  | waiting fn wf wk aw => cases h; rfl

/-- the ENTERING callbacks: the only exception other than the fault is the one the base implementation of
`on_finish / on_kill` raises when the future is already resolved -/
theorem enteringF_cf (hN : FCF N) (x : FCfg) (s : SObj) :
    CF x (enteringF N x s).1 ∧
    ∀ e, (enteringF N x s).2 = some e → e = faultExc ∨ enteringHooks x.l.c s = .error e := by
  have hbase : ∀ x' : FCfg, CF x' (enteringBaseF s x').1 := by
    intro x'
    unfold enteringBaseF
    split
    · exact CF.rfl' x'
    · rename_i c2 hok
      exact CF.of_st rfl (enteringHooks_st hok)
  have hexc : ∀ (x' : FCfg) e, (enteringBaseF s x').2 = some e → enteringHooks x'.l.c s = .error e := by
    intro x' e he
    unfold enteringBaseF at he
    split at he
    · rename_i e' herr
      cases he; exact herr
    · cases he
  have e1 : enteringF N x s = bind (hookOpt (enteringHK s) (enteringBaseF s) x) (fun x => ok (N .entering x)) := rfl
  rw [e1]
  have hh : CF x (hookOpt (enteringHK s) (enteringBaseF s) x).1 ∧
      ∀ e, (hookOpt (enteringHK s) (enteringBaseF s) x).2 = some e → e = faultExc ∨ enteringHooks x.l.c s = .error e := by
    unfold hookOpt
    split
    · obtain ⟨h1, h2⟩ := hookF_cf _ (enteringBaseF s) hbase x
      refine ⟨h1, fun e he => ?_⟩
      rcases h2 e he with h | ⟨x', hl, hx'⟩
      · exact Or.inl h
      · right; have := hexc x' e hx'; rw [hl] at this; exact this
    · exact ⟨hbase x, fun e he => Or.inr (hexc x e he)⟩
  generalize hookOpt (enteringHK s) (enteringBaseF s) x = r at hh
  obtain ⟨y, oe⟩ := r
  cases oe with
  | none => rw [bind_ok]; exact ⟨hh.1.trans' (hN _ _), fun e he => by cases he⟩
  | some e' => exact hh

theorem created_not_allowed (l : Label) : Label.created ∉ allowed l := by cases l <;> simp [allowed]

theorem tryTransitionF_cf (hN : FCF N) (x : FCfg) (s : SObj) : CF x (tryTransitionF N x s).1 := by
  unfold tryTransitionF
  split
  · rename_i hal
    have hs : s.label ≠ .created := fun h => created_not_allowed _ (h ▸ hal)
    split
    · exact CF.not_created rfl hs
    · exact bind_cf (exitPhaseF_rf hN x s).1 (fun y => bind_cf (enteringF_cf hN y s).1 (fun z => (enterNextF_rf hN z s hs).1))
  · exact CF.rfl' x

/-- **`transition_to` leaves `_called` as it found it and never enters CREATED** -/
theorem transitionToF_cf (hN : FCF N) (x : FCfg) (s : SObj) : CF x (transitionToF N x s).1 := by
  unfold transitionToF
  split
  · exact CF.rfl' x
  · dsimp only
    refine CF.trans' ?_ (CF.updL _ _ rfl)
    have h1 := tryTransitionF_cf hN (x.updL fun l => { l with trans := some s.label }) s
    generalize tryTransitionF N (x.updL fun l => { l with trans := some s.label }) s = r at h1
    obtain ⟨y, e⟩ := r
    have h0 : CF x y := CF.trans' (CF.updL x _ rfl) h1
    cases e with
    | none => exact h0
    | some e => exact h0.trans' (forceExceptedF_rf hN y e).1

theorem doPauseF_cf (hN : FCF N) (x : FCfg) : CF x (doPauseF N x).1 := by
  unfold doPauseF; dsimp only
  refine CF.trans' ?_ (CF.updC _ _ rfl)
  refine bind_cf (hookF_cf _ _ (fun x' => CF.rfl' x') x).1 (fun y => (hookF_cf _ _ (fun x' => ?_) y).1)
  unfold pausedBaseF
  exact CF.trans' (CF.updC x' doPauseHooks rfl) (hN _ _)

theorem pauseF_cf (hN : FCF N) (x : FCfg) : CF x (pauseF N x).1 := by
  unfold pauseF; dsimp only
  split
  · exact CF.rfl' x
  · split
    · exact CF.rfl' x
    · split
      · exact CF.of_st rfl (hand_hkc ..).st
      · split
        · exact CF.rfl' x
        · split
          · have hst : ({ requestL x.l .pause with pausing := (requestL x.l .pause).interrupt } : Cfg).st = x.l.c.st :=
              requestL_st x.l .pause
            split
            · exact CF.of_st rfl ((hand_hkc ..).st.trans hst)
            · exact CF.of_st rfl hst
          · rw [retOf_fst]; exact doPauseF_cf hN x

theorem playF_cf (hN : FCF N) (x : FCfg) : CF x (playF N x).1 := by
  unfold playF
  split
  · exact CF.of_st rfl (play_st _)
  · rw [retOf_fst]
    refine (hookF_cf _ _ (fun x' => ?_) x).1
    unfold playingBaseF
    exact CF.trans' (CF.of_st rfl (play_st _) : CF x' (x'.updC fun c => (play c).1)) (hN _ _)

theorem killF_cf (hN : FCF N) (x : FCfg) : CF x (killF N x).1 := by
  unfold killF; dsimp only
  split
  · exact CF.rfl' x
  · split
    · exact CF.rfl' x
    · split
      · exact CF.of_st rfl (hand_hkc ..).st
      · split
        · have hst : ({ requestL x.l .kill with killing := (requestL x.l .kill).interrupt } : Cfg).st = x.l.c.st :=
            requestL_st x.l .kill
          split
          · exact CF.of_st rfl ((hand_hkc ..).st.trans hst)
          · exact CF.of_st rfl hst
        · rw [retOf_fst]; exact transitionToF_cf hN x _

theorem failF_cf (hN : FCF N) (x : FCfg) (e : Exc) : CF x (failF N x e).1 := by
  unfold failF; split
  · exact CF.rfl' x
  · rw [retOf_fst]; exact transitionToF_cf hN x _

theorem logRep_cf {x : FCfg} (q : Req) (r : FCfg × RetV) (h : CF x r.1) : CF x (logRep q r) := by
  unfold logRep; split
  · exact h.trans' (CF.of_l rfl rfl)
  · exact h

theorem reqKF_cf (hN : FCF N) (q : Req) (x : FCfg) : CF x (reqKF N q x) := by
  cases q
  · exact logRep_cf _ _ (pauseF_cf hN x)
  · exact logRep_cf _ _ (playF_cf hN x)
  · exact logRep_cf _ _ (killF_cf hN x)
end

theorem fireKF_cf {R : Req → FCfg → FCfg} (hR : ∀ q x, CF x (R q x)) (h : Hook) (x : FCfg) : CF x (fireKF R h x) := by
  unfold fireKF; dsimp only
  have h1 : CF x (x.updL fun l => { l with cnt := bump l.cnt h }) := CF.updL x _ rfl
  split
  · exact h1
  · split
    · exact h1
    · exact (h1.trans' (CF.updL _ _ rfl)).trans' (hR _ _)

/-- **the notification function of the model keeps the call counter and never makes the state CREATED** -/
theorem fireNF_cf : ∀ n, FCF (fireNF n)
  | 0 => fun _ x => CF.updL x _ rfl
  | n+1 => fun h x => by
    unfold fireNF
    exact fireKF_cf (fun q x => reqKF_cf (fireNF_cf n) q x) h x

end FP
end PMF
