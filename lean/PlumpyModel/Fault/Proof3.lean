import PlumpyModel.Fault.Proof2
/-!
# Fault twins — `transition_to` as a whole keeps `K`

`ExcRes`: what a phase of the `try` block leaves behind when an exception propagates out of it — the process is not closed, no
cleanup has run, and the exception is the fault (which has fired, nothing armed any more) or an error of the state machine itself
(the fault untouched).
-/
namespace PMF
namespace FP
open L

section
variable {a0 : Arm} {N : Hook → FCfg → FCfg}

def ExcRes (a0 : Arm) (x : FCfg) (r : Res) : Prop :=
  ∃ e, r.2 = some e ∧ r.1.l.c.closed = false ∧ r.1.l.c.cleanups = 0 ∧
    ((e = faultExc ∧ r.1.fired = true ∧ r.1.arm = none ∧ mainHK a0.hk = true) ∨
     (Internal e ∧ ArmOk a0 r.1 ∧ (mainHK a0.hk = true → r.1.fired = x.fired)))

theorem ok_eq_updC_id : (ok : FCfg → Res) = fun x => ok (x.updC id) := rfl

theorem CR.trans' {c : Cfg} {y z : FCfg} {tr : Option Label} (h1 : CR c y tr) (h2 : CR y.l.c z y.l.trans) : CR c z tr :=
  ⟨Same2.trans h1.1 h2.1, h2.2.1.trans h1.2.1, h2.2.2.trans h1.2.2⟩

/-- EXITING callbacks and `do_exit()` once -/
theorem exitOnceF_spec (hN : NK a0 N) (x : FCfg) (h : ArmOk a0 x) (htr : x.l.trans.isSome = true) :
    ((exitOnceF N x).2 = none ∧ CR x.l.c (exitOnceF N x).1 x.l.trans ∧ ArmOk a0 (exitOnceF N x).1 ∧
      (mainHK a0.hk = true → (exitOnceF N x).1.fired = x.fired)) ∨
    ((exitOnceF N x).2 = some faultExc ∧ (exitOnceF N x).1.l = x.l ∧ (exitOnceF N x).1.fired = true ∧
      (exitOnceF N x).1.arm = none ∧ mainHK a0.hk = true) := by
  -- after the hook passed
  have hrest : ∀ y : FCfg, y.l = x.l → ArmOk a0 y →
      CR x.l.c ({ (N .exiting y).updC exitState with inState := false } : FCfg) x.l.trans ∧
      ArmOk a0 ({ (N .exiting y).updC exitState with inState := false } : FCfg) ∧
      (mainHK a0.hk = true → ({ (N .exiting y).updC exitState with inState := false } : FCfg).fired = y.fired) := by
    intro y hl hy
    obtain ⟨⟨t1, t2, t3⟩, t4, t5⟩ := hN.tq .exiting y (by rw [hl]; exact htr) hy
    rw [hl] at t1 t2 t3
    exact ⟨⟨Same2.trans t1 (exitState_same2 _), by show (exitState (N .exiting y).l.c).st = _; rw [exitState_st, t2],
      by show (N .exiting y).l.trans = _; rw [t3]⟩, t4, fun hm => t5 hm⟩
  have e1 : exitOnceF N x = bind (hookOpt (exitHK x.l.c.st.label) ok x)
      (fun x => ok { (N .exiting x).updC exitState with inState := false }) := rfl
  rw [e1]
  cases hk : exitHK x.l.c.st.label with
  | none =>
    obtain ⟨r1, r2, r3⟩ := hrest x rfl h
    exact Or.inl ⟨rfl, r1, r2, r3⟩
  | some k =>
    have hmk : a0.hk = k → mainHK a0.hk = true := fun hhk => by
      rw [hhk]; cases hl : x.l.c.st.label <;> rw [hl] at hk <;> simp [exitHK] at hk <;> subst hk <;> rfl
    have hp := hookF_pure k id x h
    rw [show (fun x : FCfg => ok (x.updC id)) = ok from rfl] at hp
    rw [show hookOpt (some k) ok x = hookF k ok x from rfl]
    rcases hp with ⟨p1, p2, p3, p4, _, _, _⟩ | ⟨hhk, p1, p2, p3, p4, _⟩
    · generalize hookF k ok x = r at p1 p2 p3 p4
      obtain ⟨y, ye⟩ := r
      simp only at p1 p2 p3 p4
      subst p1
      obtain ⟨r1, r2, r3⟩ := hrest y p2 p4
      exact Or.inl ⟨rfl, r1, r2, fun hm => (r3 hm).trans p3⟩
    · generalize hookF k ok x = r at p1 p2 p3 p4
      obtain ⟨y, ye⟩ := r
      simp only at p1 p2 p3 p4
      subst p1
      refine Or.inr ⟨rfl, ?_, p3, p4, hmk hhk⟩
      rcases p2 with ⟨p2, _⟩ | ⟨p2, _⟩ <;> exact p2

/-- the exit phase (twice when the entry is re-targeted) -/
theorem exitPhaseF_spec (hN : NK a0 N) (x : FCfg) (s : SObj) (h : ArmOk a0 x) (htr : x.l.trans.isSome = true) :
    ((exitPhaseF N x s).2 = none ∧ CR x.l.c (exitPhaseF N x s).1 x.l.trans ∧ ArmOk a0 (exitPhaseF N x s).1 ∧
      (mainHK a0.hk = true → (exitPhaseF N x s).1.fired = x.fired)) ∨
    ((exitPhaseF N x s).2 = some faultExc ∧ CR x.l.c (exitPhaseF N x s).1 x.l.trans ∧ (exitPhaseF N x s).1.fired = true ∧
      (exitPhaseF N x s).1.arm = none ∧ mainHK a0.hk = true) := by
  have e1 : exitPhaseF N x s = bind (exitOnceF N x) (fun x => if retargeted x.l s then exitOnceF N x else ok x) := rfl
  rw [e1]
  rcases exitOnceF_spec hN x h htr with ⟨p1, p2, p3, p4⟩ | ⟨p1, p2, p3, p4, p5⟩
  · generalize exitOnceF N x = r at p1 p2 p3 p4
    obtain ⟨y, ye⟩ := r
    simp only at p1 p2 p3 p4
    subst p1
    rw [bind_ok]
    split
    · have htr' : y.l.trans.isSome = true := by rw [p2.2.2]; exact htr
      rcases exitOnceF_spec hN y p3 htr' with ⟨q1, q2, q3, q4⟩ | ⟨q1, q2, q3, q4, q5⟩
      · exact Or.inl ⟨q1, p2.trans' q2, q3, fun hm => (q4 hm).trans (p4 hm)⟩
      · refine Or.inr ⟨q1, ?_, q3, q4, q5⟩
        unfold CR; rw [q2]; exact p2
    · exact Or.inl ⟨rfl, p2, p3, p4⟩
  · generalize exitOnceF N x = r at p1 p2 p3 p4
    obtain ⟨y, ye⟩ := r
    simp only at p1 p2 p3 p4
    subst p1
    rw [bind_err]
    exact Or.inr ⟨rfl, ⟨by rw [p2]; exact Same2.rfl' _, by rw [p2], by rw [p2]⟩, p3, p4, p5⟩

/-- the base implementations of `on_run / on_wait / on_finish / on_kill / on_except` on a process whose future is unresolved -/
theorem enteringHooks_w (c : Cfg) (s : SObj) (hf : c.fut = .pending ∨ c.fut = .cancelled) :
    ∃ c2, enteringHooks c s = .ok c2 ∧ c2.closed = c.closed ∧ c2.cleanups = c.cleanups ∧
      (terminal s.label = true → outcomeOf s = some c2.fut) ∧
      (terminal s.label = false → (c2.fut = .pending ∨ c2.fut = .cancelled)) := by
  unfold enteringHooks
  cases s with
  | finished v okk =>
    have hp : (freshFutIfCancelled c).fut = .pending := by
      unfold freshFutIfCancelled futCancelled; rcases hf with h | h <;> simp [h]
    have h2 : (freshFutIfCancelled c).closed = c.closed ∧ (freshFutIfCancelled c).cleanups = c.cleanups := by
      unfold freshFutIfCancelled; split <;> exact ⟨rfl, rfl⟩
    simp only [hp, if_true]
    exact ⟨_, rfl, h2.1, h2.2, fun _ => rfl, fun ht => by simp [SObj.label, terminal, allowed] at ht⟩
  | killed =>
    have hp : (freshFutIfCancelled c).fut = .pending := by
      unfold freshFutIfCancelled futCancelled; rcases hf with h | h <;> simp [h]
    have h2 : (freshFutIfCancelled c).closed = c.closed ∧ (freshFutIfCancelled c).cleanups = c.cleanups := by
      unfold freshFutIfCancelled; split <;> exact ⟨rfl, rfl⟩
    simp only [hp, if_true]
    exact ⟨_, rfl, h2.1, h2.2, fun _ => rfl, fun ht => by simp [SObj.label, terminal, allowed] at ht⟩
  | excepted e =>
    obtain ⟨f1, f2, f3, _, _⟩ := setFutExc_fields c e
    exact ⟨_, rfl, f2, f3, fun _ => by rw [f1]; rfl, fun ht => by simp [SObj.label, terminal, allowed] at ht⟩
  | created fn => exact ⟨_, rfl, rfl, rfl, fun ht => by simp [SObj.label, terminal, allowed] at ht, fun _ => hf⟩
  | running fn a k => exact ⟨_, rfl, rfl, rfl, fun ht => by simp [SObj.label, terminal, allowed] at ht, fun _ => hf⟩
  | waiting fn wf wk aw => exact ⟨_, rfl, rfl, rfl, fun ht => by simp [SObj.label, terminal, allowed] at ht, fun _ => hf⟩

/-- what the entering phase hands to `do_enter` -/
structure Entered (s : SObj) (y : FCfg) (tr : Option Label) : Prop where
  closed : y.l.c.closed = false
  cleanups : y.l.c.cleanups = 0
  ft : terminal s.label = true → outcomeOf s = some y.l.c.fut
  fl : terminal s.label = false → (y.l.c.fut = .pending ∨ y.l.c.fut = .cancelled)
  trans : y.l.trans = tr

theorem enteringF_spec (hN : NK a0 N) (x : FCfg) (s : SObj) (h : ArmOk a0 x) (htr : x.l.trans.isSome = true)
    (hl : LiveW x.l.c) :
    ((enteringF N x s).2 = none ∧ Entered s (enteringF N x s).1 x.l.trans ∧ ArmOk a0 (enteringF N x s).1 ∧
      (mainHK a0.hk = true → (enteringF N x s).1.fired = x.fired)) ∨
    ExcRes a0 x (enteringF N x s) := by
  obtain ⟨c2, hc2, g1, g2, g3, g4⟩ := enteringHooks_w x.l.c s hl.1
  -- the base implementation on a configuration carrying `x.l`
  have hbase : ∀ x' : FCfg, x'.l = x.l → enteringBaseF s x' = (x'.setC c2, none) := by
    intro x' hl'; unfold enteringBaseF; rw [hl', hc2]; rfl
  -- the other ENTERING callbacks
  have hrest : ∀ y : FCfg, y.l.c = c2 → y.l.trans = x.l.trans → ArmOk a0 y →
      Entered s (N .entering y) x.l.trans ∧ ArmOk a0 (N .entering y) ∧ (mainHK a0.hk = true → (N .entering y).fired = y.fired) := by
    intro y hyc hyt hy
    obtain ⟨⟨⟨_, _, s3, s4, s5, _⟩, _, t3⟩, t4, t5⟩ := hN.tq .entering y (by rw [hyt]; exact htr) hy
    refine ⟨⟨by rw [s4, hyc, g1]; exact hl.2.1, by rw [s5, hyc, g2]; exact hl.2.2, fun ht => by rw [s3, hyc]; exact g3 ht,
      fun ht => by rw [s3, hyc]; exact g4 ht, by rw [t3, hyt]⟩, t4, fun hm => t5 hm⟩
  have e1 : enteringF N x s = bind (hookOpt (enteringHK s) (enteringBaseF s) x) (fun x => ok (N .entering x)) := rfl
  rw [e1]
  cases hk : enteringHK s with
  | none =>
    rw [show hookOpt none (enteringBaseF s) x = enteringBaseF s x from rfl, hbase x rfl]
    obtain ⟨r1, r2, r3⟩ := hrest (x.setC c2) rfl rfl (h.setC _)
    exact Or.inl ⟨rfl, r1, r2, r3⟩
  | some k =>
    have hmk : a0.hk = k → mainHK a0.hk = true := fun hhk => by
      rw [hhk]; cases s <;> simp [enteringHK] at hk <;> subst hk <;> rfl
    rw [show hookOpt (some k) (enteringBaseF s) x = hookF k (enteringBaseF s) x from rfl]
    rcases hookF_cases k (enteringBaseF s) x h with ⟨hhk, _, hnf, _, y, hy, h1, h2, h3, _⟩ | ⟨x', hl', hf, hr, hao, han, hcase⟩
    · right
      rw [hy]
      exact ⟨faultExc, rfl, by show y.l.c.closed = false; rw [h1]; exact hl.2.1, by show y.l.c.cleanups = 0; rw [h1]; exact hl.2.2,
        Or.inl ⟨rfl, h2, h3, hmk hhk⟩⟩
    · have hb' := hbase x' hl'
      rcases hcase with ⟨hhk, _, hnf, _, hx'a, hcase⟩ | hcase
      · rcases hcase with ⟨y, _, e, hb, _⟩ | ⟨y, y', hb, hy, hu1, hu2, hu3, hfy⟩
        · rw [hb'] at hb; cases hb
        · right
          rw [hb'] at hb
          have hyx : y = x'.setC c2 := by cases hb; rfl
          rw [hy]
          exact ⟨faultExc, rfl, by show y'.l.c.closed = false; rw [hu1, hyx, setC_c, g1]; exact hl.2.1,
            by show y'.l.c.cleanups = 0; rw [hu1, hyx, setC_c, g2]; exact hl.2.2, Or.inl ⟨rfl, hfy.1, hu3, hmk hhk⟩⟩
      · rcases hcase with ⟨y, _, e, hb, _⟩ | ⟨y, y', e, hb, hy, _, hu, hfy, hcalled⟩
        · rw [hb'] at hb; cases hb
        · rw [hb'] at hb
          have hyx : y = x'.setC c2 := by cases hb; rfl
          obtain ⟨he, _⟩ := hcalled (by rw [hyx]; rfl)
          rw [hy]; subst he
          have hy'c : y'.l.c = c2 := by rw [hu.1, hyx]; rfl
          have hy't : y'.l.trans = x.l.trans := by rw [hu.1, hyx, setC_trans, hl']
          have hy'a : ArmOk a0 y' :=
            ⟨fun b hb' => hao.1 b (by rw [← hb', hu.2.1, hyx]; rfl), fun hf' => by
              rw [hu.2.1, hyx]; exact hao.2 (by rw [hfy, hyx] at hf'; exact hf')⟩
          obtain ⟨r1, r2, r3⟩ := hrest y' hy'c hy't hy'a
          exact Or.inl ⟨rfl, r1, r2, fun hm => by
            show (N Hook.entering y').fired = x.fired
            rw [r3 hm, hfy, hyx]; exact hf⟩

theorem releasePause_cleanups (c : Cfg) : (releasePause c).cleanups = c.cleanups := (releasePause_fields c).2.2.2.1

/-- `do_enter`, `self._state = …`, the ENTERED callbacks, `on_terminated` for a terminal state -/
theorem enterNextF_spec (hN : NK a0 N) (x : FCfg) (s : SObj) (h : ArmOk a0 x) (hac : afterClose a0 = false)
    (tr : Option Label) (htr : tr.isSome = true) (he : Entered s x tr) :
    ((enterNextF N x s).2 = none ∧ Inv2w (enterNextF N x s).1.l.c ∧ ArmOk a0 (enterNextF N x s).1 ∧
      (mainHK a0.hk = true → (enterNextF N x s).1.fired = x.fired)) ∨
    ExcRes a0 x (enterNextF N x s) := by
  have e1 : enterNextF N x s = bind (enteredHooksF N { x.updC fun c => setState (enterState c s) s with inState := true } s)
      (fun x => if terminal s.label then terminatedF x else ok x) := rfl
  rw [e1]
  generalize hx1 : ({ x.updC fun c => setState (enterState c s) s with inState := true } : FCfg) = x1
  have h1 : ArmOk a0 x1 := by rw [← hx1]; exact h
  have htr1 : x1.l.trans.isSome = true := by rw [← hx1]; show (x.l.upd _).trans.isSome = true; rw [upd_trans, he.trans]; exact htr
  have hc1 : x1.l.c = setState (enterState x.l.c s) s := by rw [← hx1]; rfl
  have hf1 : x1.fired = x.fired := by rw [← hx1]; rfl
  obtain ⟨_, _, s3, s4, s5, _⟩ := enterState_same2 x.l.c s
  obtain ⟨g1, g2, g3, g4, _⟩ := enteredHooks_fields x1.l.c s
  -- the configuration once the base implementation of the ENTERED hook ran
  have hran : ∀ y : FCfg, CR (enteredHooks x1.l.c s) y x1.l.trans →
      y.l.c.closed = false ∧ y.l.c.cleanups = 0 ∧ y.l.c.fut = x.l.c.fut ∧ y.l.c.st = s := by
    intro y ⟨⟨_, _, u3, u4, u5, _⟩, u7, _⟩
    refine ⟨?_, ?_, ?_, ?_⟩
    · rw [u4, g3, hc1]; show (enterState x.l.c s).closed = false; rw [s4]; exact he.closed
    · rw [u5, g4, hc1]; show (enterState x.l.c s).cleanups = 0; rw [s5]; exact he.cleanups
    · rw [u3, g2, hc1]; show (enterState x.l.c s).fut = _; rw [s3]
    · rw [u7, g1, hc1]; rfl
  have hx1c : x1.l.c.closed = false ∧ x1.l.c.cleanups = 0 := by
    rw [hc1]; exact ⟨by show (enterState x.l.c s).closed = false; rw [s4]; exact he.closed,
      by show (enterState x.l.c s).cleanups = 0; rw [s5]; exact he.cleanups⟩
  rcases enteredHooksF_spec hN x1 s h1 htr1 with ⟨e1, e2, e3, e4⟩ | ⟨e1, e2, e3, e4, e5⟩ | ⟨e1, e2, e3, e4⟩
  · generalize enteredHooksF N x1 s = r at e1 e2 e3 e4
    obtain ⟨y, ye⟩ := r
    simp only at e1 e2 e3 e4
    subst e1
    rw [bind_ok]
    obtain ⟨y1, y2, y3, y4⟩ := hran y e2
    have hyf : mainHK a0.hk = true → y.fired = x.fired := fun hm => (e4 hm).trans hf1
    by_cases ht : terminal s.label = true
    · simp only [ht, if_true]
      rcases terminatedF_spec y e3 hac y1 with ⟨k1, k2, k3, k4, _⟩ | ⟨k1, k2, k3, k4, _, _, k7⟩
      · obtain ⟨o1, o2, o3, o4, _⟩ := onTerminated_fields y.l.c y1
        have hst : (terminatedF y).1.l.c.st = s := by rw [k2, upd_c, o1]; exact y4
        refine Or.inl ⟨k1, ⟨fun hl => ?_, fun _ => ⟨?_, ?_, ?_⟩⟩, k4, fun hm => by rw [k3]; exact hyf hm⟩
        · rw [hst, ht] at hl; cases hl
        · rw [k2, upd_c]; exact o3
        · rw [k2, upd_c, o4, y2]
        · rw [hst, k2, upd_c, o2, y3]; exact he.ft ht
      · right
        have hm7 : mainHK a0.hk = true := by rcases k7 with h | h <;> rw [h] <;> rfl
        refine ⟨faultExc, k1, ?_, ?_, Or.inl ⟨rfl, k3, k4, hm7⟩⟩
        · rcases k2 with k2 | k2
          · rw [k2]; exact y1
          · rw [k2, upd_c, releasePause_closed]; exact y1
        · rcases k2 with k2 | k2
          · rw [k2]; exact y2
          · rw [k2, upd_c, releasePause_cleanups]; exact y2
    · have ht' : terminal s.label = false := by simpa using ht
      simp only [ht', Bool.false_eq_true, if_false]
      refine Or.inl ⟨rfl, ⟨fun _ => ⟨?_, y1, y2⟩, fun hl => ?_⟩, e3, hyf⟩
      · show y.l.c.fut = _ ∨ y.l.c.fut = _; rw [y3]; exact he.fl ht'
      · rw [show (ok y).1.l.c.st = s from y4, ht'] at hl; cases hl
  · generalize enteredHooksF N x1 s = r at e1 e2 e3 e4
    obtain ⟨y, ye⟩ := r
    simp only at e1 e2 e3 e4
    subst e1
    rw [bind_err]
    right
    refine ⟨faultExc, rfl, ?_, ?_, Or.inl ⟨rfl, e3, e4, e5⟩⟩
    · rcases e2 with e2 | e2
      · show y.l.c.closed = false; rw [e2]; exact hx1c.1
      · exact (hran y e2).1
    · rcases e2 with e2 | e2
      · show y.l.c.cleanups = 0; rw [e2]; exact hx1c.2
      · exact (hran y e2).2.1
  · generalize enteredHooksF N x1 s = r at e1 e2 e3 e4
    obtain ⟨y, ye⟩ := r
    simp only at e1 e2 e3 e4
    subst e1
    rw [bind_err]
    right
    exact ⟨.assertion, rfl, (hran y e2).1, (hran y e2).2.1, Or.inr ⟨Or.inl rfl, e3, fun hm => (e4 hm).trans hf1⟩⟩

theorem ExcRes.of {x y : FCfg} {r : Res} (h : ExcRes a0 y r) (hf : mainHK a0.hk = true → y.fired = x.fired) : ExcRes a0 x r := by
  obtain ⟨e, h1, h2, h3, h4⟩ := h
  refine ⟨e, h1, h2, h3, ?_⟩
  rcases h4 with h4 | ⟨i1, i2, i3⟩
  · exact Or.inl h4
  · exact Or.inr ⟨i1, i2, fun hm => (i3 hm).trans (hf hm)⟩

/-- the `try` block of `transition_to` from a live process -/
theorem tryTransitionF_spec (hN : NK a0 N) (x : FCfg) (s : SObj) (h : ArmOk a0 x) (hac : afterClose a0 = false)
    (htr : x.l.trans.isSome = true) (hl : LiveW x.l.c) :
    ((tryTransitionF N x s).2 = none ∧ Inv2w (tryTransitionF N x s).1.l.c ∧ ArmOk a0 (tryTransitionF N x s).1 ∧
      (mainHK a0.hk = true → (tryTransitionF N x s).1.fired = x.fired)) ∨
    ExcRes a0 x (tryTransitionF N x s) := by
  unfold tryTransitionF
  split
  · simp only [hl.2.1, Bool.false_eq_true, if_false]
    rcases exitPhaseF_spec hN x s h htr with ⟨p1, p2, p3, p4⟩ | ⟨p1, p2, p3, p4, p5⟩
    · generalize exitPhaseF N x s = r at p1 p2 p3 p4
      obtain ⟨y, ye⟩ := r
      simp only at p1 p2 p3 p4
      subst p1
      rw [bind_ok]
      have hly : LiveW y.l.c := hl.same2 p2.1
      have htry : y.l.trans.isSome = true := by rw [p2.2.2]; exact htr
      rcases enteringF_spec hN y s p3 htry hly with ⟨q1, q2, q3, q4⟩ | hq
      · generalize enteringF N y s = r at q1 q2 q3 q4
        obtain ⟨z, ze⟩ := r
        simp only at q1 q2 q3 q4
        subst q1
        rw [bind_ok]
        rcases enterNextF_spec hN z s q3 hac y.l.trans htry q2 with ⟨r1, r2, r3, r4⟩ | hr
        · exact Or.inl ⟨r1, r2, r3, fun hm => ((r4 hm).trans (q4 hm)).trans (p4 hm)⟩
        · exact Or.inr (hr.of fun hm => (q4 hm).trans (p4 hm))
      · right
        obtain ⟨e, h1, h2, h3, h4⟩ := hq
        generalize enteringF N y s = r at h1 h2 h3 h4
        obtain ⟨z, ze⟩ := r
        simp only at h1
        subst h1
        rw [bind_err]
        exact ExcRes.of ⟨e, rfl, h2, h3, h4⟩ p4
    · generalize exitPhaseF N x s = r at p1 p2 p3 p4
      obtain ⟨y, ye⟩ := r
      simp only at p1 p2 p3 p4
      subst p1
      rw [bind_err]
      right
      obtain ⟨_, _, _, u4, u5, _⟩ := p2.1
      exact ⟨faultExc, rfl, by show y.l.c.closed = false; rw [u4]; exact hl.2.1, by show y.l.c.cleanups = 0; rw [u5]; exact hl.2.2,
        Or.inl ⟨rfl, p3, p4, p5⟩⟩
  · right
    exact ⟨_, rfl, hl.2.1, hl.2.2, Or.inr ⟨Or.inr (Or.inr ⟨_, _, rfl⟩), h, fun _ => rfl⟩⟩

theorem faultExc_not_internal : ¬ Internal faultExc := by
  intro h
  rcases h with h | h | ⟨a, b, h⟩ <;> cases h

/-- **`transition_to` of a live process keeps `K`**, and nothing propagates to its caller except in the `Bad` case (an error of
the state machine itself, in whose failing transition the fault fired) -/
theorem transitionToF_K' (hN : NK a0 N) (x : FCfg) (s : SObj) (hk : K a0 x) (hac : afterClose a0 = false)
    (hl : terminal x.l.c.st.label = false) :
    K a0 (transitionToF N x s).1 ∧ ((transitionToF N x s).2 = none ∨ Bad a0 (transitionToF N x s).1) := by
  have hlive : LiveW x.l.c := by
    rcases hk.g with ⟨_, _, e, _, hs⟩ | ⟨hi, _⟩
    · rw [hs, excepted_terminal] at hl; cases hl
    · exact hi.live hl
  unfold transitionToF
  simp only [hk.tr, Option.isSome_none, Bool.false_eq_true, if_false]
  generalize hx0 : (x.updL fun l => { l with trans := some s.label }) = x0
  have h0 : ArmOk a0 x0 := by rw [← hx0]; exact hk.arm.updL _
  have htr0 : x0.l.trans.isSome = true := by rw [← hx0]; rfl
  have hl0 : LiveW x0.l.c := by rw [← hx0]; exact hlive
  have hf0 : x0.fired = x.fired := by rw [← hx0]; rfl
  -- a fault that has fired before this transition was not a transition hook
  have hnf : mainHK a0.hk = true → x.fired = false := by
    intro hm
    cases hf : x.fired with
    | false => rfl
    | true =>
      exfalso
      rcases hk.g with ⟨_, _, e, _, hs⟩ | ⟨_, he⟩
      · rw [hs, excepted_terminal] at hl; cases hl
      · rw [he hm hf, excepted_terminal] at hl; cases hl
  rcases tryTransitionF_spec hN x0 s h0 hac htr0 hl0 with ⟨p1, p2, p3, p4⟩ | ⟨e, p1, p2, p3, p4⟩
  · generalize tryTransitionF N x0 s = r at p1 p2 p3 p4
    obtain ⟨y, ye⟩ := r
    simp only at p1 p2 p3 p4
    subst p1
    refine ⟨⟨p3.updL _, rfl, Or.inr ⟨p2, fun hm hf => ?_⟩⟩, Or.inl rfl⟩
    have : y.fired = false := by rw [p4 hm, hf0]; exact hnf hm
    have hf' : y.fired = true := hf
    rw [this] at hf'; cases hf'
  · generalize tryTransitionF N x0 s = r at p1 p2 p3 p4
    obtain ⟨y, ye⟩ := r
    simp only at p1 p2 p3 p4
    subst p1
    simp only
    have hya : ArmOk a0 y := by
      rcases p4 with ⟨_, q2, q3, _⟩ | ⟨_, q2, _⟩
      · exact ArmOk.of_none q3
      · exact q2
    obtain ⟨f1, f2, f3⟩ := forceExceptedF_spec hN y e hya hac p2 p3
    rcases p4 with ⟨q1, q2, q3, q4⟩ | ⟨q1, q2, q3⟩
    · -- the fault fired in this transition: EXCEPTED with it
      subst q1
      rcases f3 with ⟨g1, g2, g3⟩ | ⟨_, _, _, g4⟩
      · exact ⟨⟨f2.updL _, rfl, Or.inr ⟨g2, fun _ _ => f1⟩⟩, Or.inl g1⟩
      · rw [q2] at g4; cases g4
    · -- an error of the state machine itself
      rcases f3 with ⟨g1, g2, g3⟩ | ⟨g1, g2, g3, g4⟩
      · refine ⟨⟨f2.updL _, rfl, Or.inr ⟨g2, fun hm hf => ?_⟩⟩, Or.inl g1⟩
        have : (forceExceptedF N y e).1.fired = false := by rw [g3 hm, q3 hm, hf0]; exact hnf hm
        have hf' : (forceExceptedF N y e).1.fired = true := hf
        rw [this] at hf'; cases hf'
      · have hb : Bad a0 ((forceExceptedF N y e).1.updL fun l => { l with trans := none }) := ⟨g3, g2, e, q1, f1⟩
        exact ⟨⟨f2.updL _, rfl, Or.inl hb⟩, Or.inr hb⟩

theorem transitionToF_K (hN : NK a0 N) (x : FCfg) (s : SObj) (hk : K a0 x) (hac : afterClose a0 = false)
    (hl : terminal x.l.c.st.label = false) : K a0 (transitionToF N x s).1 :=
  (transitionToF_K' hN x s hk hac hl).1

end
end FP
end PMF
