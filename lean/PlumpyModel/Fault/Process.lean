import PlumpyModel.PM.Listener
/-!
# Fault model on top of the process-control model: a whole run with ONE injected fault (C03)

`Fault/Model.lean` is one `transition_to` of a process whose lifecycle hooks may raise.  This file puts the same user
overrides `def on_x(self): [raise]; super().on_x(); [raise]` into the process-control model with listeners
(`PM/Listener.lean`, `PMF.L`), so that a WHOLE run — program, schedule of requests, requests issued by listeners from
inside transitions, and one injected fault — is decided by the model:

* a configuration `FCfg` carries the configuration `LCfg` of the model with listeners, the **armed fault**
  (`Arm`: hook, number of calls of that hook that still pass, raise before / after `super()`), the flag `fired`, the
  counter `called` of `call_with_super_check` (`hookF`), and the log `rep` of the requests issued
  by listeners that raised (a listener is the requester then);
* every function of `PM/Listener.lean` that contains a call of a user hook gets a twin `…F` returning
  `FCfg × Option Exc`: the configuration reached so far (Python does not roll back mutations) and the exception that
  is propagating, if any.  The twins follow the source statement by statement (`try / except / finally` of
  `transition_to`, `_do_pause`, `do_kill`, `CancellableAction.run`, the closing part of `Process.step`);
* the hooks of the EXCEPTED state (`on_except`, `on_excepted`) are not fault points (they only run after another
  failure); `on_create` is construction (`Fault/Model.lean`, `construct`);
* **a run of the model** (`runX`): without a fault the run of the model with listeners (`runL`), by definition; with a fault
  armed at the start, the twins' (`runF`), also after it fired (the twins then pass every hook).  That the twins of a run whose
  fault never fires compute what `runL` computes is checked by the correspondence with the real code (every case of C03, op
  by op), not proved.

Faults in user code that is not a lifecycle hook need no twin:
* a step function (or an `out()` call inside it) raising is a program whose body raises: `withStepFault`;
* a failing `call_soon` callback is the event `tickCb (.usercb true)` of `PM/Model.lean`;
* listeners and cleanups are called in loops that swallow exceptions (`Fault/Model.lean`, `callAll`).

Core Lean only.
-/
namespace PMF
namespace FP
open L

/-- the exception object of the injected fault -/
def faultExc : Exc := .user 99

/-- the user hooks of a process that are fault points of a run -/
inductive HK
  | exitRunning | exitWaiting                       -- on_exit_running / on_exit_waiting   (EXITING callbacks)
  | onRun | onWait | onFinish | onKill              -- on_run / on_wait / on_finish / on_kill   (ENTERING)
  | onRunning | onWaiting | onFinished | onKilled   -- on_running / … (ENTERED; the base implementation notifies listeners)
  | onTerminated | onClose
  | onPausing | onPaused | onPlaying
deriving DecidableEq, Repr, Inhabited

structure Arm where
  hk : HK
  left : Nat            -- calls of `hk` that still pass; the next one after them raises
  after : Bool          -- raise after `super()` returned (else before calling it)
deriving DecidableEq, Repr, Inhabited

structure FCfg where
  l : LCfg
  arm : Option Arm := none
  fired : Bool := false
  called : Nat := 0                   -- `_called`, the counter of `call_with_super_check` / `super_check`
  inState : Bool := true              -- `self._state.in_state`: the current state object has been entered and not exited yet
  rep : List (Req × RetV) := []       -- newest first: the requests issued by listeners that RAISED (the listener is the requester)

abbrev Res := FCfg × Option Exc

def FCfg.updC (x : FCfg) (f : Cfg → Cfg) : FCfg := { x with l := x.l.upd f }
def FCfg.updL (x : FCfg) (f : LCfg → LCfg) : FCfg := { x with l := f x.l }
def FCfg.setC (x : FCfg) (c : Cfg) : FCfg := { x with l := { x.l with c := c } }

def ok (x : FCfg) : Res := (x, none)

/-- sequencing that keeps the configuration reached when an exception propagates -/
def bind (r : Res) (k : FCfg → Res) : Res :=
  match r with
  | (x, none) => k x
  | (x, some e) => (x, some e)

/-- a user hook is called through `call_with_super_check(self.on_x)`:
```
call_count = self._called; self._called = call_count + 1
try: self.on_x()            # the user override: [raise]; super().on_x(); [raise]
except BaseException: self._called = call_count; raise
assert self._called == call_count
```
and the base implementation is wrapped by `super_check`: `assert self._called >= 1; base(); self._called -= 1`.
The call of the override is counted on entry; the armed call raises before calling `super()` or after it returned (if `super()`
itself raised, that exception propagates).  When the call raises, the counter is put back to what it was on entry (repair
6c8055d), so a hook call that is in progress around it passes its own final check. -/
inductive HookOut | pass | before | after
deriving DecidableEq, Repr, Inhabited

/-- what the armed fault does at a call of hook `hk`, and the fault that stays armed afterwards -/
def armStep (hk : HK) : Option Arm → HookOut × Option Arm
  | none => (.pass, none)
  | some a =>
    if a.hk = hk then
      if a.left = 0 then (if a.after then .after else .before, none)
      else (.pass, some { a with left := a.left - 1 })
    else (.pass, some a)

/-- `super().on_x()`: the base implementation behind the `super_check` wrapper.  (`Process.on_terminated` is not wrapped itself:
it first calls the wrapped, empty `StateMachine.on_terminated`, then releases the pause and closes.) -/
def supF (hk : HK) (base : FCfg → Res) (x : FCfg) : Res :=
  if hk = .onTerminated then base { x with called := x.called - 1 } else
  match base x with
  | (y, none) => ({ y with called := y.called - 1 }, none)
  | (y, some e) => (y, some e)

def hookF (hk : HK) (base : FCfg → Res) (x : FCfg) : Res :=
  let cc := x.called
  let d := armStep hk x.arm
  let x := { x with called := cc + 1, arm := d.2 }
  match d.1 with
  | .before => ({ x with called := cc, fired := true }, some faultExc)
  | o =>
    match supF hk base x with
    | (y, some e) => ({ y with called := cc }, some e)
    | (y, none) =>
      if o = .after then ({ y with called := cc, arm := none, fired := true }, some faultExc)
      else if y.called = cc then (y, none) else (y, some .assertion)

def enteredHK : SObj → Option HK
  | .running .. => some .onRunning | .waiting .. => some .onWaiting | .finished .. => some .onFinished
  | .killed => some .onKilled | _ => none

def enteringHK : SObj → Option HK
  | .running .. => some .onRun | .waiting .. => some .onWait | .finished .. => some .onFinish
  | .killed => some .onKill | _ => none

def exitHK : Label → Option HK
  | .running => some .exitRunning | .waiting => some .exitWaiting | _ => none

def hookOpt (hk : Option HK) (base : FCfg → Res) (x : FCfg) : Res :=
  match hk with
  | some h => hookF h base x
  | none => base x

section
variable (N : Hook → FCfg → FCfg)

/-! ### transitions -/

/-- `Process.close`: `on_close` (base: run the cleanups, swallowing their exceptions; clear the callbacks; closed) -/
def closeF (x : FCfg) : Res :=
  if x.l.c.closed then ok x else hookF .onClose (fun x => ok (x.updC onClose)) x

def termBaseF (x : FCfg) : Res := closeF (x.updC releasePause)

/-- `on_terminated` (base: release the pause, close) -/
def terminatedF (x : FCfg) : Res := hookF .onTerminated termBaseF x

/-- ENTERED callbacks: the process's own `on_entered` → `on_running / on_waiting / on_finished / on_killed / on_excepted`
(base: `_killing = None` for KILLED; the listeners are notified, the oracle is consulted) -/
def enteredBaseF (s : SObj) (x : FCfg) : Res :=
  let x := x.updC (fun c => enteredHooks c s)
  ok (match (enteredNotif s).bind hookOfNotif with
      | some h => N h x
      | none => x)

def enteredHooksF (x : FCfg) (s : SObj) : Res := hookOpt (enteredHK s) (enteredBaseF N s) x

/-- the failing path of `transition_to`: a state that is still entered (the failed transition was cut short before it had been
exited: a failing exiting callback, an invalid target) and not terminal is exited now, without callbacks (repair a130f23) -/
def lateExitF (x : FCfg) : FCfg :=
  if x.inState && !terminal x.l.c.st.label then { x.updC exitState with inState := false } else x

/-- `transition_failed` → `transition_to(EXCEPTED)` with the EXITING callbacks bypassed; an exception in there propagates -/
def forceExceptedF (x : FCfg) (e : Exc) : Res :=
  if x.l.c.closed then ok (x.updC (fun c => { c with st := .excepted e })) else
  let x := x.updL (fun l => { l with trans := some .excepted })
  let x := lateExitF x
  let x := x.updC (fun c => setFutExc c e)
  let x := N .entering x
  let x := { x.updC (fun c => setState c (.excepted e)) with inState := true }
  bind (enteredHooksF N x (.excepted e)) terminatedF

def enterNextF (x : FCfg) (s : SObj) : Res :=
  let x := { x.updC (fun c => setState (enterState c s) s) with inState := true }
  bind (enteredHooksF N x s) fun x =>
  if terminal s.label then terminatedF x else ok x

/-- EXITING callbacks (the process's own `on_exiting` → `on_exit_running / on_exit_waiting` first, then the others),
`do_exit()` -/
def exitOnceF (x : FCfg) : Res :=
  bind (hookOpt (exitHK x.l.c.st.label) ok x) fun x => ok { (N .exiting x).updC exitState with inState := false }

def exitPhaseF (x : FCfg) (s : SObj) : Res :=
  bind (exitOnceF N x) fun x => if retargeted x.l s then exitOnceF N x else ok x

/-- ENTERING callbacks: the process's own `on_entering` → `on_run / on_wait / on_finish / on_kill / on_except` (base:
resolve the future, which may fail), then the others -/
def enteringBaseF (s : SObj) (x : FCfg) : Res :=
  match enteringHooks x.l.c s with
  | .error e => (x, some e)
  | .ok c2 => ok (x.setC c2)

def enteringF (x : FCfg) (s : SObj) : Res :=
  bind (hookOpt (enteringHK s) (enteringBaseF s) x) fun x => ok (N .entering x)

/-- the `try` block of `transition_to` -/
def tryTransitionF (x : FCfg) (s : SObj) : Res :=
  if s.label ∈ allowed x.l.c.st.label then
    if x.l.c.closed then ok (x.updC (fun c => { exitState c with st := s }))
    else
      bind (exitPhaseF N x s) fun x =>
      bind (enteringF N x s) fun x =>
      enterNextF N x s
  else (x, some (.noTransition x.l.c.st.label s.label))

/-- `transition_to` with `Process.transition_failed`.  (The assertion at its top is not in `PM/Listener.lean`: no request is made
from inside a transition outside a step there; here it makes the statement "a request made during a transition cannot change the
state" a local fact.) -/
def transitionToF (x : FCfg) (s : SObj) : Res :=
  if x.l.trans.isSome then (x, some .assertion) else    -- `assert not self._transitioning`
  let x := x.updL (fun l => { l with trans := some s.label })
  let r :=
    match tryTransitionF N x s with
    | (x, none) => ok x
    | (x, some e) => forceExceptedF N x e
  (r.1.updL (fun l => { l with trans := none }), r.2)

/-! ### control calls -/

/-- `_do_pause` without a next state: `on_pausing`, `on_paused` (base: `doPauseHooks`, listeners notified),
`finally: self._pausing = None` -/
def pausedBaseF (x : FCfg) : Res := ok (N .paused (x.updC doPauseHooks))

def doPauseF (x : FCfg) : Res :=
  let r := bind (hookF .onPausing ok x) fun x => hookF .onPaused (pausedBaseF N) x
  (r.1.updC (fun c => { c with pausing := none }), r.2)

def retOf (r : Res) (v : RetV) : FCfg × RetV :=
  match r with
  | (x, none) => (x, v)
  | (x, some e) => (x, .raised e)

def pauseF (x : FCfg) : FCfg × RetV :=
  let c := x.l.c
  if terminal c.st.label then (x, .bool false)
  else if c.paused.isSome then (x, .bool true)
  else match c.pausing with
  | some i => (x.updC (fun c => hand c i), .action i)
  | none =>
    if c.killing.isSome then (x, .bool false)
    else if c.stepping then
      let c := requestL x.l .pause
      let c := { c with pausing := c.interrupt }
      match c.interrupt with
      | some i => (x.setC (hand c i), .action i)
      | none => (x.setC c, .none)
    else retOf (doPauseF N x) (.bool true)

/-- `play()`: `on_playing` (base: resolve and drop the pause future, listeners notified) on a paused process -/
def playingBaseF (x : FCfg) : Res := ok (N .played (x.updC (fun c => (play c).1)))

def playF (x : FCfg) : FCfg × RetV :=
  match x.l.c.paused with
  | none => (x.updC (fun c => (play c).1), .bool true)
  | some _ => retOf (hookF .onPlaying (playingBaseF N) x) (.bool true)

def killF (x : FCfg) : FCfg × RetV :=
  let c := x.l.c
  if c.st.label = .killed then (x, .bool true)
  else if terminal c.st.label then (x, .bool false)
  else match c.killing with
  | some i => (x.updC (fun c => hand c i), .action i)
  | none =>
    if c.stepping then
      let c := requestL x.l .kill
      let c := { c with killing := c.interrupt }
      match c.interrupt with
      | some i => (x.setC (hand c i), .action i)
      | none => (x.setC c, .none)
    else retOf (transitionToF N x .killed) (.bool true)

def failF (x : FCfg) (e : Exc) : FCfg × RetV :=
  if terminal x.l.c.st.label then (x, .bool false) else retOf (transitionToF N x (.excepted e)) .none

/-- a request of the oracle: what it returns or raises goes to the listener that made it (the event helper swallows an
exception a listener lets through) -/
def logRep (q : Req) (r : FCfg × RetV) : FCfg :=
  match r.2 with
  | .raised _ => { r.1 with rep := (q, r.2) :: r.1.rep }
  | _ => r.1

def reqKF : Req → FCfg → FCfg
  | .pause, x => logRep .pause (pauseF N x)
  | .play, x => logRep .play (playF N x)
  | .kill, x => logRep .kill (killF N x)

/-! ### the closing part of `Process.step` -/

/-- `CancellableAction.run(next)`: the action's exception becomes the exception of the action future — unless the action
was cancelled (superseded by another request) while it ran: then nobody is left to report to, the failure is logged, and the
step goes on to serve the request that superseded it (repair e94edb5) -/
def runActionF (x : FCfg) (i : Nat) (next : Option SObj) : Res :=
  match x.l.c.actions[i]? with
  | none => ok x
  | some a =>
    if a.status ≠ .pending then (x, some .alreadyRan) else
    let r : Res :=
      match a.kind with
      | .pause =>
          match next with
          | some s =>
              match transitionToF N x s with
              | (x, some e) => (x.updC (fun c => { c with pausing := none }), some e)
              | (x, none) => if x.l.c.pausing.isNone then ok x else doPauseF N x
          | none => doPauseF N x
      | .kill =>
          let r := transitionToF N x .killed
          (r.1.updC (fun c => { c with killing := none }), r.2)
    match r with
    | (x, none) => ok (if actionStatus x.l.c i = .pending then x.updC (fun c => setActionStatus c i .done) else x)
    | (x, some e) =>
        ok (if actionStatus x.l.c i = .pending then x.updC (fun c => setActionStatus c i (.failed e)) else x)

def enactLoopF : Nat → FCfg → Res
  | 0, x => ok x
  | n+1, x =>
    match x.l.c.interrupt with
    | some i =>
        if actionStatus x.l.c i = .pending && !terminal x.l.c.st.label then bind (runActionF N x i none) (enactLoopF n)
        else ok x
    | none => ok x

def dispatch1F (x : FCfg) (next : Option SObj) : Res :=
  match x.l.c.interrupt with
  | some i =>
      if actionStatus x.l.c i ≠ .cancelled then runActionF N x i next
      else match next with | some s => transitionToF N x s | none => ok x
  | none => match next with | some s => transitionToF N x s | none => ok x

def dispatchF (x : FCfg) (next : Option SObj) : Res :=
  if terminal x.l.c.st.label then ok x else
  bind (dispatch1F N x next) fun x => enactLoopF N (x.l.plan.length + 1) x

/-- the closing part of `Process.step`; an exception that propagates out of it ends the stepping task -/
def endOfStepF (x : FCfg) (r : StepEnd) : FCfg :=
  let x := x.updL (fun l => { l with executing := false })
  let p := prepare x.l.c r
  let r := dispatchF N (x.setC p.1) p.2
  let x := r.1.updC finally_
  match r.2 with
  | none => x
  | some e => x.updC (fun c => { c with pc := .crashed e })

def finishUserF (x : FCfg) (o : Outcome) : FCfg :=
  match o with
  | .ret cmd => endOfStepF N (x.setC (cmdToState x.l.c cmd).1) (.next (some (cmdToState x.l.c cmd).2))
  | .raise e => endOfStepF N x (.next (some (.excepted e)))

def wakeF (x : FCfg) (fn wf : Nat) (w : WF) : FCfg :=
  match w with
  | .result v => endOfStepF N x (.next (some (.running fn (match v with | some y => [y] | none => []) [])))
  | .interrupted cookie => endOfStepF N (x.updC (fun c => rearm c wf)) (.interruption cookie)
  | .failed e => endOfStepF N x (.exception e)
  | .pending => x

def stepBodyKF (P : Prog) (k : FCfg → FCfg) (x : FCfg) : FCfg :=
  let x := x.updL (fun l => { l with c := { l.c with stepping := true }, executing := true })
  match x.l.c.st with
  | .created fn => k (endOfStepF N x (.next (some (.running fn [] []))))
  | .running fn args kw =>
      let b := P fn args kw x.l.c.ctx
      let x := x.updC (fun c => { c with trace := { fn := fn, args := args, kw := kw, paused := c.paused.isSome } :: c.trace })
      if b.awaits = 0 then k (finishUserF N x b.out) else x.updC (fun c => { c with pc := .inUser { b with awaits := b.awaits - 1 } })
  | .waiting fn wf _ _ =>
      match x.l.c.wfs[wf]? with
      | some .pending => x.updC (fun c => { c with pc := .awaitWaiting wf })
      | some w => k (wakeF N x fn wf w)
      | none => x
  | _ => k (endOfStepF N x (.next none))

def loopHeadF (P : Prog) : Nat → FCfg → FCfg
  | 0, x => x
  | fuel+1, x =>
    match x.l.c.pc with
    | .crashed _ => x
    | _ =>
    if terminal x.l.c.st.label then x.updC (fun c => { c with pc := .done }) else
    if x.l.c.closed then x.updC (fun c => { c with pc := .crashed .closedErr }) else
    match x.l.c.paused with
    | some pf => if x.l.c.pfs[pf]? = some false then x.updC (fun c => { c with pc := .awaitPaused pf })
                 else stepBodyKF N P (loopHeadF P fuel) x
    | none => stepBodyKF N P (loopHeadF P fuel) x

def stepBodyF (P : Prog) (fuel : Nat) (x : FCfg) : FCfg := stepBodyKF N P (loopHeadF N P fuel) x

def tickStepperF (P : Prog) (x : FCfg) : FCfg :=
  match x.l.c.pc with
  | .notStarted => loopHeadF N P fuel0 x
  | .awaitPaused pf =>
      if x.l.c.pfs[pf]? = some true then
        match x.l.c.paused with
        | some pf' => if x.l.c.pfs[pf']? = some false then x.updC (fun c => { c with pc := .awaitPaused pf' }) else stepBodyF N P fuel0 x
        | none => stepBodyF N P fuel0 x
      else x
  | .inUser b =>
      if b.awaits = 0 then loopHeadF N P fuel0 (finishUserF N x b.out)
      else x.updC (fun c => { c with pc := .inUser { b with awaits := b.awaits - 1 } })
  | .awaitWaiting wf =>
      match x.l.c.wfs[wf]? with
      | some .pending => x
      | some w =>
          let fn := match x.l.c.st with | .waiting fn .. => fn | _ => 0
          loopHeadF N P fuel0 (wakeF N x fn wf w)
      | none => x
  | _ => x

/-- an exception that propagates out of a done-callback or a `call_soon` task reaches the loop's exception handler -/
def toLoop (r : FCfg × RetV) : FCfg :=
  match r.2 with
  | .raised e => r.1.updC (fun c => { c with loopErrs := e :: c.loopErrs })
  | _ => r.1

def tryKillingF (x : FCfg) : FCfg := (toLoop (killF N x)).updC (fun c => { c with handed := x.l.c.handed })

def tickCbF (x : FCfg) (cb : Cb) : FCfg :=
  if x.l.c.ready.contains cb then
    let x := x.updC (fun c => { c with ready := c.ready.erase cb })
    match cb with
    | .adone f => x.updC (fun c => awaitableDone c f)
    | .trykill => tryKillingF N x
    | .usercb raises => if raises then toLoop (failF N x (.user 8)) else x
  else x

def stepFN (P : Prog) (x : FCfg) : Ev → FCfg × RetV
  | .tick => (tickStepperF N P x, .none)
  | .tickCb cb => (tickCbF N x cb, .none)
  | .pause => pauseF N x
  | .play => playF N x
  | .kill => killF N x
  | .resume v => (x.updC (fun c => (resume c v).1), (resume x.l.c v).2)
  | .fail e => failF N x e
  | .cancelFut => (x.updC (fun c => (cancelFut c).1), (cancelFut x.l.c).2)
  | .complete f o => (x.updC (fun c => complete c f o), .none)
  | .callSoon r => (x.updC (fun c => { c with ready := c.ready ++ [.usercb r] }), .none)

end

/-- one notification: as `L.fireK`, on `FCfg` -/
def fireKF (R : Req → FCfg → FCfg) (h : Hook) (x : FCfg) : FCfg :=
  let n := x.l.cnt h + 1
  let x := x.updL (fun l => { l with cnt := bump l.cnt h })
  if hookPhase h && !(x.l.c.stepping && !x.l.executing) then x else
  match x.l.plan.find? (fun e => e.1 = h && e.2.1 = n) with
  | none => x
  | some e => R e.2.2 (x.updL (fun l => logIssued { l with plan := l.plan.erase e } h e.2.2))

def fireNF : Nat → Hook → FCfg → FCfg
  | 0, h, x => x.updL (fun l => { l with cnt := bump l.cnt h })
  | n+1, h, x => fireKF (reqKF (fireNF n)) h x

/-- one event with the fault-aware twins -/
def stepF (P : Prog) (x : FCfg) (ev : Ev) : FCfg × RetV := stepFN (fireNF x.l.plan.length) P x ev

/-- a run of the twins -/
def runF (P : Prog) (x0 : FCfg) (evs : List Ev) : FCfg := evs.foldl (fun x e => (stepF P x e).1) x0

/-- **a run of the model with (at most) one injected fault**: the run of the model with listeners if no fault is armed at the
start, else the twins' run -/
def runX (P : Prog) (x0 : FCfg) (evs : List Ev) : FCfg :=
  if x0.arm.isNone then { x0 with l := runL P x0.l evs } else runF P x0 evs

def initX (nfut : Nat) (plan : Plan) (arm : Option Arm) : FCfg := { l := initL nfut plan, arm := arm }

/-! ### faults in step functions -/

/-- the program in which step function `fn` raises the fault after `seg` await points (a `raise` in its body, or an `out()` call
whose output hook raises) -/
def withStepFault (P : Prog) (fn seg : Nat) : Prog := fun f a k c =>
  if f = fn then ⟨seg, .raise faultExc⟩ else P f a k c

end FP
end PMF
