import PlumpyModel.Fault.Proof3
/-!
# Fault twins — the control calls keep `K`; the notification function `fireNF n` satisfies `NK`
-/
namespace PMF
namespace FP
open L

section
variable {a0 : Arm}

/-- `K` looks at the `LCfg` part, the armed fault and the `fired` flag only -/
theorem K.congr {x y : FCfg} (h : K a0 x) (hl : y.l = x.l) (ha : y.arm = x.arm) (hf : y.fired = x.fired) : K a0 y :=
  h.fr ⟨by rw [hl]; exact Same2.rfl' _, Or.inl (by rw [hl]), hf, ha, by rw [hl]⟩

theorem K.of_armok {x y : FCfg} (h : K a0 x) (hl : y.l = x.l) (ha : ArmOk a0 y) (hf : y.fired = x.fired) : K a0 y := by
  refine ⟨ha, by rw [hl]; exact h.tr, ?_⟩
  rcases h.g with ⟨hm, hf', e, he, hs⟩ | ⟨hi, he⟩
  · exact Or.inl ⟨hm, by rw [hf]; exact hf', e, he, by rw [hl]; exact hs⟩
  · exact Or.inr ⟨by rw [hl]; exact hi, fun hm hf' => by rw [hl]; exact he hm (by rw [← hf]; exact hf')⟩

/-- a pause / play hook fired: nothing `K` cares about changed -/
theorem K.fire {x y : FCfg} (h : K a0 x) (hl : y.l = x.l) (ha : y.arm = none) (hnm : mainHK a0.hk = false) : K a0 y := by
  refine ⟨ArmOk.of_none ha, by rw [hl]; exact h.tr, ?_⟩
  rcases h.g with hb | ⟨hi, _⟩
  · have := hb.main; rw [hnm] at this; cases this
  · exact Or.inr ⟨by rw [hl]; exact hi, fun hm => by rw [hnm] at hm; cases hm⟩

theorem Fr.setC' (x : FCfg) (c : Cfg) (hs : Same2 x.l.c c) (hst : c.st = x.l.c.st) : Fr x (x.setC c) :=
  ⟨hs, Or.inl hst, rfl, rfl, rfl⟩

/-- a hook that is not a hook of a transition keeps `K` if its base implementation does -/
theorem hookF_K (hk : HK) (hnm : mainHK hk = false) (base : FCfg → Res) (hbase : ∀ x', K a0 x' → K a0 (base x').1)
    (x : FCfg) (h : K a0 x) : K a0 (hookF hk base x).1 := by
  rcases hookF_cases hk base x h.arm with ⟨hhk, _, _, _, y, hy, h1, _, h3, _⟩ | ⟨x', hl, hf, _, hao, _, hcase⟩
  · rw [hy]; exact h.fire h1 h3 (by rw [hhk]; exact hnm)
  · have hx' : K a0 x' := h.of_armok hl hao hf
    have hb := hbase x' hx'
    rcases hcase with ⟨hhk, _, _, _, _, hcase⟩ | hcase
    · rcases hcase with ⟨y, yy, e, hb', hy, huu, hfyy⟩ | ⟨y, y', hb', hy, hu1, _, hu3, _⟩
      · rw [hy]; rw [hb'] at hb; exact K.congr hb huu.1 huu.2.1 hfyy
      · rw [hy]; rw [hb'] at hb; exact K.fire hb hu1 hu3 (by rw [hhk]; exact hnm)
    · rcases hcase with ⟨y, yy, e, hb', hy, huu, hfyy⟩ | ⟨y, y', e, hb', hy, _, hu, hfy, _⟩
      · rw [hy]; rw [hb'] at hb; exact K.congr hb huu.1 huu.2.1 hfyy
      · rw [hy]; rw [hb'] at hb; exact K.congr hb hu.1 hu.2.1 hfy

theorem doPauseHooks_st (c : Cfg) : (doPauseHooks c).st = c.st := rfl

variable {N : Hook → FCfg → FCfg}

theorem doPauseF_K (hN : NK a0 N) (x : FCfg) (h : K a0 x) : K a0 (doPauseF N x).1 := by
  have e1 : doPauseF N x = ((bind (hookF .onPausing ok x) fun x => hookF .onPaused (pausedBaseF N) x).1.updC
      (fun c => { c with pausing := none }), (bind (hookF .onPausing ok x) fun x => hookF .onPaused (pausedBaseF N) x).2) := rfl
  rw [e1]
  have h1 : K a0 (hookF .onPausing ok x).1 := hookF_K .onPausing rfl ok (fun x' hx' => hx') x h
  have h2 : K a0 (bind (hookF .onPausing ok x) fun x => hookF .onPaused (pausedBaseF N) x).1 := by
    generalize hookF .onPausing ok x = r at h1
    obtain ⟨y, ye⟩ := r
    cases ye with
    | some e => exact h1
    | none =>
      rw [bind_ok]
      refine hookF_K .onPaused rfl (pausedBaseF N) (fun x' hx' => ?_) y h1
      unfold pausedBaseF
      exact hN.inv _ _ (hx'.fr (Fr.updC x' doPauseHooks (doPauseHooks_same2 _) rfl))
  exact h2.fr (Fr.updC _ _ ⟨rfl, rfl, rfl, rfl, rfl, rfl⟩ rfl)

theorem retOf_fst (r : Res) (v : RetV) : (retOf r v).1 = r.1 := by
  obtain ⟨y, e⟩ := r; cases e <;> rfl

theorem requestL_st (l : LCfg) (k : AKind) : (requestL l k).st = l.c.st := (requestL_hkc l k).st

theorem pauseF_K (hN : NK a0 N) (x : FCfg) (h : K a0 x) : K a0 (pauseF N x).1 := by
  unfold pauseF; dsimp only
  split
  · exact h
  · split
    · exact h
    · split
      · exact h.fr (Fr.updC x _ (hand_same2 ..) (hand_hkc ..).st)
      · split
        · exact h
        · split
          · have hs : Same2 x.l.c { requestL x.l .pause with pausing := (requestL x.l .pause).interrupt } :=
              Same2.trans (requestL_same2 x.l .pause) ⟨rfl, rfl, rfl, rfl, rfl, rfl⟩
            have hst : ({ requestL x.l .pause with pausing := (requestL x.l .pause).interrupt } : Cfg).st = x.l.c.st :=
              requestL_st x.l .pause
            split
            · exact h.fr (Fr.setC' x _ (Same2.trans hs (hand_same2 ..)) ((hand_hkc ..).st.trans hst))
            · exact h.fr (Fr.setC' x _ hs hst)
          · rw [retOf_fst]; exact doPauseF_K hN x h

theorem play_st (c : Cfg) : (play c).1.st = c.st := (play_hkc c).st

theorem playF_K (hN : NK a0 N) (x : FCfg) (h : K a0 x) : K a0 (playF N x).1 := by
  unfold playF
  split
  · exact h.fr (Fr.updC x _ (play_same2 _) (play_st _))
  · rw [retOf_fst]
    refine hookF_K .onPlaying rfl (playingBaseF N) (fun x' hx' => ?_) x h
    unfold playingBaseF
    exact hN.inv _ _ (hx'.fr (Fr.updC x' _ (play_same2 _) (play_st _)))

theorem killF_K (hN : NK a0 N) (hac : afterClose a0 = false) (x : FCfg) (h : K a0 x) : K a0 (killF N x).1 := by
  unfold killF; dsimp only
  split
  · exact h
  · split
    · exact h
    · rename_i _ hnt
      split
      · exact h.fr (Fr.updC x _ (hand_same2 ..) (hand_hkc ..).st)
      · split
        · have hs : Same2 x.l.c { requestL x.l .kill with killing := (requestL x.l .kill).interrupt } :=
            Same2.trans (requestL_same2 x.l .kill) ⟨rfl, rfl, rfl, rfl, rfl, rfl⟩
          have hst : ({ requestL x.l .kill with killing := (requestL x.l .kill).interrupt } : Cfg).st = x.l.c.st :=
            requestL_st x.l .kill
          split
          · exact h.fr (Fr.setC' x _ (Same2.trans hs (hand_same2 ..)) ((hand_hkc ..).st.trans hst))
          · exact h.fr (Fr.setC' x _ hs hst)
        · rw [retOf_fst]; exact transitionToF_K hN x .killed h hac (by simpa using hnt)

theorem failF_K (hN : NK a0 N) (hac : afterClose a0 = false) (x : FCfg) (e : Exc) (h : K a0 x) : K a0 (failF N x e).1 := by
  unfold failF
  split
  · exact h
  · rename_i hnt
    rw [retOf_fst]; exact transitionToF_K hN x _ h hac (by simpa using hnt)

theorem logRep_K (q : Req) (r : FCfg × RetV) (h : K a0 r.1) : K a0 (logRep q r) := by
  unfold logRep; split
  · exact K.congr h rfl rfl rfl
  · exact h

theorem reqKF_K (hN : NK a0 N) (hac : afterClose a0 = false) (q : Req) (x : FCfg) (h : K a0 x) : K a0 (reqKF N q x) := by
  cases q
  · exact logRep_K _ _ (pauseF_K hN x h)
  · exact logRep_K _ _ (playF_K hN x h)
  · exact logRep_K _ _ (killF_K hN hac x h)

/-! ### requests made while a transition is in progress cannot touch the lifecycle -/

/-- `y` is `x` as far as a transition in progress is concerned -/
def TQ (a0 : Arm) (x y : FCfg) : Prop :=
  CR x.l.c y x.l.trans ∧ ArmOk a0 y ∧ (mainHK a0.hk = true → y.fired = x.fired)

theorem TQ.rfl' {x : FCfg} (h : ArmOk a0 x) : TQ a0 x x := ⟨⟨Same2.rfl' _, rfl, rfl⟩, h, fun _ => rfl⟩
theorem TQ.trans' {x y z : FCfg} (h1 : TQ a0 x y) (h2 : TQ a0 y z) : TQ a0 x z :=
  ⟨h1.1.trans' h2.1, h2.2.1, fun hm => (h2.2.2 hm).trans (h1.2.2 hm)⟩
theorem TQ.updC {x : FCfg} (h : ArmOk a0 x) (f : Cfg → Cfg) (hs : Same2 x.l.c (f x.l.c)) (hst : (f x.l.c).st = x.l.c.st) :
    TQ a0 x (x.updC f) := ⟨⟨hs, hst, rfl⟩, h.updC _, fun _ => rfl⟩
theorem TQ.setC {x : FCfg} (h : ArmOk a0 x) (c : Cfg) (hs : Same2 x.l.c c) (hst : c.st = x.l.c.st) :
    TQ a0 x (x.setC c) := ⟨⟨hs, hst, rfl⟩, h.setC _, fun _ => rfl⟩
theorem TQ.congr {x y y' : FCfg} (h : TQ a0 x y) (hl : y'.l = y.l) (ha : ArmOk a0 y') (hf : mainHK a0.hk = true → y'.fired = y.fired) :
    TQ a0 x y' :=
  ⟨⟨by rw [hl]; exact h.1.1, by rw [hl]; exact h.1.2.1, by rw [hl]; exact h.1.2.2⟩, ha, fun hm => (hf hm).trans (h.2.2 hm)⟩

theorem hookF_TQ (hk : HK) (hnm : mainHK hk = false) (base : FCfg → Res)
    (hbase : ∀ x', ArmOk a0 x' → x'.l.trans.isSome = true → TQ a0 x' (base x').1)
    (x : FCfg) (h : ArmOk a0 x) (htr : x.l.trans.isSome = true) : TQ a0 x (hookF hk base x).1 := by
  rcases hookF_cases hk base x h with ⟨hhk, _, _, _, y, hy, h1, _, h3, _⟩ | ⟨x', hl, hf, _, hao, _, hcase⟩
  · rw [hy]
    exact (TQ.rfl' h).congr h1 (ArmOk.of_none h3) (fun hm => by rw [hhk, hnm] at hm; cases hm)
  · have hb := hbase x' hao (by rw [hl]; exact htr)
    have hxx' : TQ a0 x x' := (TQ.rfl' h).congr hl hao (fun _ => hf)
    rcases hcase with ⟨hhk, _, _, _, _, hcase⟩ | hcase
    · rcases hcase with ⟨y, yy, e, hb', hy, huu, hfyy⟩ | ⟨y, y', hb', hy, hu1, _, hu3, _⟩
      · rw [hy]; rw [hb'] at hb
        have hya : ArmOk a0 yy :=
          ⟨fun b hb'' => hb.2.1.1 b (by rw [← hb'']; exact huu.2.1.symm), fun hf' => by rw [huu.2.1]; exact hb.2.1.2 (by rw [← hfyy]; exact hf')⟩
        exact (hxx'.trans' hb).congr huu.1 hya (fun _ => hfyy)
      · rw [hy]; rw [hb'] at hb
        exact (hxx'.trans' hb).congr hu1 (ArmOk.of_none hu3) (fun hm => by rw [hhk, hnm] at hm; cases hm)
    · rcases hcase with ⟨y, yy, e, hb', hy, huu, hfyy⟩ | ⟨y, y', e, hb', hy, _, hu, hfy, _⟩
      · rw [hy]; rw [hb'] at hb
        have hya : ArmOk a0 yy :=
          ⟨fun b hb'' => hb.2.1.1 b (by rw [← hb'']; exact huu.2.1.symm), fun hf' => by rw [huu.2.1]; exact hb.2.1.2 (by rw [← hfyy]; exact hf')⟩
        exact (hxx'.trans' hb).congr huu.1 hya (fun _ => hfyy)
      · rw [hy]; rw [hb'] at hb
        have hya : ArmOk a0 y' :=
          ⟨fun b hb'' => hb.2.1.1 b (by rw [← hb'']; exact hu.2.1.symm), fun hf' => by rw [hu.2.1]; exact hb.2.1.2 (by rw [← hfy]; exact hf')⟩
        exact (hxx'.trans' hb).congr hu.1 hya (fun _ => hfy)

theorem NK.tq' (hN : NK a0 N) (h : Hook) (x : FCfg) (htr : x.l.trans.isSome = true) (hx : ArmOk a0 x) : TQ a0 x (N h x) :=
  hN.tq h x htr hx

theorem doPauseF_TQ (hN : NK a0 N) (x : FCfg) (h : ArmOk a0 x) (htr : x.l.trans.isSome = true) : TQ a0 x (doPauseF N x).1 := by
  have e1 : doPauseF N x = ((bind (hookF .onPausing ok x) fun x => hookF .onPaused (pausedBaseF N) x).1.updC
      (fun c => { c with pausing := none }), (bind (hookF .onPausing ok x) fun x => hookF .onPaused (pausedBaseF N) x).2) := rfl
  rw [e1]
  have h1 : TQ a0 x (hookF .onPausing ok x).1 := hookF_TQ .onPausing rfl ok (fun x' hx' _ => TQ.rfl' hx') x h htr
  have h2 : TQ a0 x (bind (hookF .onPausing ok x) fun x => hookF .onPaused (pausedBaseF N) x).1 := by
    generalize hookF .onPausing ok x = r at h1
    obtain ⟨y, ye⟩ := r
    cases ye with
    | some e => exact h1
    | none =>
      rw [bind_ok]
      refine h1.trans' (hookF_TQ .onPaused rfl (pausedBaseF N) (fun x' hx' htr' => ?_) y h1.2.1 (by rw [h1.1.2.2]; exact htr))
      unfold pausedBaseF
      exact (TQ.updC hx' doPauseHooks (doPauseHooks_same2 _) rfl).trans' (hN.tq' _ _ htr' (hx'.updC _))
  exact h2.trans' (TQ.updC h2.2.1 _ ⟨rfl, rfl, rfl, rfl, rfl, rfl⟩ rfl)

theorem pauseF_TQ (hN : NK a0 N) (x : FCfg) (h : ArmOk a0 x) (htr : x.l.trans.isSome = true) : TQ a0 x (pauseF N x).1 := by
  unfold pauseF; dsimp only
  split
  · exact TQ.rfl' h
  · split
    · exact TQ.rfl' h
    · split
      · exact TQ.updC h _ (hand_same2 ..) (hand_hkc ..).st
      · split
        · exact TQ.rfl' h
        · split
          · have hs : Same2 x.l.c { requestL x.l .pause with pausing := (requestL x.l .pause).interrupt } :=
              Same2.trans (requestL_same2 x.l .pause) ⟨rfl, rfl, rfl, rfl, rfl, rfl⟩
            have hst : ({ requestL x.l .pause with pausing := (requestL x.l .pause).interrupt } : Cfg).st = x.l.c.st :=
              requestL_st x.l .pause
            split
            · exact TQ.setC h _ (Same2.trans hs (hand_same2 ..)) ((hand_hkc ..).st.trans hst)
            · exact TQ.setC h _ hs hst
          · rw [retOf_fst]; exact doPauseF_TQ hN x h htr

theorem playF_TQ (hN : NK a0 N) (x : FCfg) (h : ArmOk a0 x) (htr : x.l.trans.isSome = true) : TQ a0 x (playF N x).1 := by
  unfold playF
  split
  · exact TQ.updC h _ (play_same2 _) (play_st _)
  · rw [retOf_fst]
    refine hookF_TQ .onPlaying rfl (playingBaseF N) (fun x' hx' htr' => ?_) x h htr
    unfold playingBaseF
    exact (TQ.updC hx' _ (play_same2 _) (play_st _)).trans' (hN.tq' _ _ htr' (hx'.updC _))

theorem killF_TQ (x : FCfg) (h : ArmOk a0 x) (htr : x.l.trans.isSome = true) : TQ a0 x (killF N x).1 := by
  unfold killF; dsimp only
  split
  · exact TQ.rfl' h
  · split
    · exact TQ.rfl' h
    · split
      · exact TQ.updC h _ (hand_same2 ..) (hand_hkc ..).st
      · split
        · have hs : Same2 x.l.c { requestL x.l .kill with killing := (requestL x.l .kill).interrupt } :=
            Same2.trans (requestL_same2 x.l .kill) ⟨rfl, rfl, rfl, rfl, rfl, rfl⟩
          have hst : ({ requestL x.l .kill with killing := (requestL x.l .kill).interrupt } : Cfg).st = x.l.c.st :=
            requestL_st x.l .kill
          split
          · exact TQ.setC h _ (Same2.trans hs (hand_same2 ..)) ((hand_hkc ..).st.trans hst)
          · exact TQ.setC h _ hs hst
        · -- `transition_to` asserts that no transition is in progress
          rw [retOf_fst]
          unfold transitionToF
          simp only [htr, if_true]
          exact TQ.rfl' h

theorem logRep_TQ {x : FCfg} (q : Req) (r : FCfg × RetV) (h : TQ a0 x r.1) : TQ a0 x (logRep q r) := by
  unfold logRep; split
  · exact h.congr rfl h.2.1 (fun _ => rfl)
  · exact h

theorem reqKF_TQ (hN : NK a0 N) (q : Req) (x : FCfg) (h : ArmOk a0 x) (htr : x.l.trans.isSome = true) : TQ a0 x (reqKF N q x) := by
  cases q
  · exact logRep_TQ _ _ (pauseF_TQ hN x h htr)
  · exact logRep_TQ _ _ (playF_TQ hN x h htr)
  · exact logRep_TQ _ _ (killF_TQ x h htr)

/-! ### the notification function of the model -/

theorem Fr.updL' (x : FCfg) (f : LCfg → LCfg) (hc : (f x.l).c = x.l.c) (ht : (f x.l).trans = x.l.trans) : Fr x (x.updL f) :=
  ⟨by rw [updL_l, hc]; exact Same2.rfl' _, Or.inl (by rw [updL_l, hc]), rfl, rfl, ht⟩

theorem TQ.updL {x : FCfg} (h : ArmOk a0 x) (f : LCfg → LCfg) (hc : (f x.l).c = x.l.c) (ht : (f x.l).trans = x.l.trans) :
    TQ a0 x (x.updL f) :=
  ⟨⟨by rw [updL_l, hc]; exact Same2.rfl' _, by rw [updL_l, hc], ht⟩, h.updL _, fun _ => rfl⟩

theorem fireKF_K (R : Req → FCfg → FCfg) (hR : ∀ q x, K a0 x → K a0 (R q x)) (h : Hook) (x : FCfg) (hx : K a0 x) :
    K a0 (fireKF R h x) := by
  unfold fireKF; dsimp only
  have h1 : K a0 (x.updL fun l => { l with cnt := bump l.cnt h }) := hx.fr (Fr.updL' x _ rfl rfl)
  split
  · exact h1
  · split
    · exact h1
    · exact hR _ _ (h1.fr (Fr.updL' _ _ rfl rfl))

theorem fireKF_TQ (R : Req → FCfg → FCfg) (hR : ∀ q x, ArmOk a0 x → x.l.trans.isSome = true → TQ a0 x (R q x)) (h : Hook)
    (x : FCfg) (hx : ArmOk a0 x) (htr : x.l.trans.isSome = true) : TQ a0 x (fireKF R h x) := by
  unfold fireKF; dsimp only
  have h1 : TQ a0 x (x.updL fun l => { l with cnt := bump l.cnt h }) := TQ.updL hx _ rfl rfl
  split
  · exact h1
  · split
    · exact h1
    · rename_i e _
      have h2 : TQ a0 (x.updL fun l => { l with cnt := bump l.cnt h })
          ((x.updL fun l => { l with cnt := bump l.cnt h }).updL fun l => logIssued { l with plan := l.plan.erase e } h e.2.2) :=
        TQ.updL h1.2.1 _ rfl rfl
      exact (h1.trans' h2).trans' (hR _ _ h2.2.1 (by rw [h2.1.2.2, h1.1.2.2]; exact htr))

/-- **the notification function of the model satisfies what the transition lemmas assume of it** -/
theorem fireNF_nk (hac : afterClose a0 = false) : ∀ n, NK a0 (fireNF n)
  | 0 => ⟨fun h x hx => hx.fr (Fr.updL' x _ rfl rfl), fun h x _ hx => TQ.updL hx _ rfl rfl⟩
  | n+1 => by
    have ih := fireNF_nk hac n
    refine ⟨fun h x hx => ?_, fun h x htr hx => ?_⟩
    · unfold fireNF
      exact fireKF_K _ (fun q x hx => reqKF_K ih hac q x hx) h x hx
    · unfold fireNF
      exact fireKF_TQ _ (fun q x hx htr => reqKF_TQ ih q x hx htr) h x hx htr

end
end FP
end PMF
