import PlumpyModel.Fault.Proof4
/-!
# Fault twins — the closing part of a step, the stepping task, every event keeps `K`
-/
namespace PMF
namespace FP
open L

section
variable {a0 : Arm} {N : Hook → FCfg → FCfg}

/-- a `Cfg` update that keeps what `Inv2` looks at; on a terminated process it keeps the state object -/
theorem K.upd {x : FCfg} (h : K a0 x) (f : Cfg → Cfg) (hs : Same2 x.l.c (f x.l.c))
    (hst : terminal x.l.c.st.label = true → (f x.l.c).st = x.l.c.st) : K a0 (x.updC f) := by
  refine h.fr (Fr.updC' x f hs ?_)
  cases ht : terminal x.l.c.st.label with
  | true => exact Or.inl (hst ht)
  | false => exact Or.inr rfl

theorem K.set {x : FCfg} (h : K a0 x) (c : Cfg) (hs : Same2 x.l.c c)
    (hst : terminal x.l.c.st.label = true → c.st = x.l.c.st) : K a0 (x.setC c) :=
  K.upd h (fun _ => c) hs hst

/-- storing the outcome of the action in the action future -/
theorem storeOutcome_K (i : Nat) (r : Res) (h : K a0 r.1) :
    K a0 (match r with
      | (x, none) => ok (if actionStatus x.l.c i = AStatus.pending then x.updC (fun c => setActionStatus c i .done) else x)
      | (x, some e) =>
          ok (if actionStatus x.l.c i = AStatus.pending then x.updC (fun c => setActionStatus c i (.failed e)) else x)).1 := by
  obtain ⟨y, ye⟩ := r
  cases ye with
  | none =>
    show K a0 (if actionStatus y.l.c i = AStatus.pending then y.updC (fun c => setActionStatus c i .done) else y)
    split
    · exact K.upd h _ (setActionStatus_same2 ..) (fun _ => (setActionStatus_fix ..).1)
    · exact h
  | some e =>
    show K a0 (if actionStatus y.l.c i = AStatus.pending then y.updC (fun c => setActionStatus c i (.failed e)) else y)
    split
    · exact K.upd h _ (setActionStatus_same2 ..) (fun _ => (setActionStatus_fix ..).1)
    · exact h

theorem runActionF_K (hN : NK a0 N) (hac : afterClose a0 = false) (x : FCfg) (i : Nat) (next : Option SObj) (h : K a0 x)
    (hl : terminal x.l.c.st.label = false) : K a0 (runActionF N x i next).1 := by
  unfold runActionF
  split
  · exact h
  · rename_i a _
    split
    · exact h
    · apply storeOutcome_K
      split
      · split
        · rename_i s
          have ht := transitionToF_K hN x s h hac hl
          generalize transitionToF N x s = r at ht
          obtain ⟨y, ye⟩ := r
          cases ye with
          | some e => exact K.upd ht _ ⟨rfl, rfl, rfl, rfl, rfl, rfl⟩ (fun _ => rfl)
          | none =>
            show K a0 (if y.l.c.pausing.isNone then ok y else doPauseF N y).1
            split
            · exact ht
            · exact doPauseF_K hN y ht
        · exact doPauseF_K hN x h
      · exact K.upd (transitionToF_K hN x .killed h hac hl) _ ⟨rfl, rfl, rfl, rfl, rfl, rfl⟩ (fun _ => rfl)

theorem enactLoopF_K (hN : NK a0 N) (hac : afterClose a0 = false) : ∀ (n : Nat) (x : FCfg), K a0 x → K a0 (enactLoopF N n x).1
  | 0, x, h => h
  | n+1, x, h => by
    unfold enactLoopF
    split
    · split
      · rename_i i _ hc
        have hl : terminal x.l.c.st.label = false := by
          simp only [Bool.and_eq_true, Bool.not_eq_true'] at hc; exact hc.2
        have h1 := runActionF_K hN hac x i none h hl
        generalize runActionF N x i none = r at h1
        obtain ⟨y, ye⟩ := r
        cases ye with
        | none => rw [bind_ok]; exact enactLoopF_K hN hac n y h1
        | some e => exact h1
      · exact h
    · exact h

theorem dispatch1F_K (hN : NK a0 N) (hac : afterClose a0 = false) (x : FCfg) (next : Option SObj) (h : K a0 x)
    (hl : terminal x.l.c.st.label = false) : K a0 (dispatch1F N x next).1 := by
  unfold dispatch1F
  split
  · split
    · exact runActionF_K hN hac x _ next h hl
    · split
      · exact transitionToF_K hN x _ h hac hl
      · exact h
  · split
    · exact transitionToF_K hN x _ h hac hl
    · exact h

theorem dispatchF_K (hN : NK a0 N) (hac : afterClose a0 = false) (x : FCfg) (next : Option SObj) (h : K a0 x) :
    K a0 (dispatchF N x next).1 := by
  unfold dispatchF
  split
  · exact h
  · rename_i hnt
    have h1 := dispatch1F_K hN hac x next h (by simpa using hnt)
    generalize dispatch1F N x next = r at h1
    obtain ⟨y, ye⟩ := r
    cases ye with
    | none => rw [bind_ok]; exact enactLoopF_K hN hac _ y h1
    | some e => exact h1

theorem finally_st (c : Cfg) : (finally_ c).st = c.st :=
  (Fix.trans (⟨rfl, rfl⟩ : Fix c { c with stepping := false }) (setInterrupt_fix _ _)).1

theorem endOfStepF_K (hN : NK a0 N) (hac : afterClose a0 = false) (x : FCfg) (r : StepEnd) (h : K a0 x) :
    K a0 (endOfStepF N x r) := by
  unfold endOfStepF
  dsimp only
  have h1 : K a0 ((x.updL fun l => { l with executing := false }).setC (prepare (x.updL fun l => { l with executing := false }).l.c r).1) :=
    K.set (h.fr (Fr.updL' x _ rfl rfl)) _ (prepare_same2 ..) (fun _ => (prepare_fix ..).1)
  have h2 := dispatchF_K hN hac _ (prepare (x.updL fun l => { l with executing := false }).l.c r).2 h1
  have h3 : K a0 ((dispatchF N ((x.updL fun l => { l with executing := false }).setC
      (prepare (x.updL fun l => { l with executing := false }).l.c r).1)
      (prepare (x.updL fun l => { l with executing := false }).l.c r).2).1.updC finally_) :=
    K.upd h2 _ (finally_same2 _) (fun _ => finally_st _)
  split
  · exact h3
  · exact K.upd h3 _ ⟨rfl, rfl, rfl, rfl, rfl, rfl⟩ (fun _ => rfl)

theorem finishUserF_K (hN : NK a0 N) (hac : afterClose a0 = false) (x : FCfg) (o : Outcome) (h : K a0 x) :
    K a0 (finishUserF N x o) := by
  unfold finishUserF
  split
  · exact endOfStepF_K hN hac _ _ (K.set h _ (cmdToState_same2 ..) (fun _ => (cmdToState_fix ..).1))
  · exact endOfStepF_K hN hac _ _ h

theorem rearm_st_term (c : Cfg) (wf : Nat) (ht : terminal c.st.label = true) : (rearm c wf).st = c.st := by
  unfold rearm
  split
  · rename_i hs; rw [hs] at ht; simp [SObj.label, terminal, allowed] at ht
  · rfl

theorem wakeF_K (hN : NK a0 N) (hac : afterClose a0 = false) (x : FCfg) (fn wf : Nat) (w : WF) (h : K a0 x) :
    K a0 (wakeF N x fn wf w) := by
  unfold wakeF
  split
  · exact endOfStepF_K hN hac _ _ h
  · exact endOfStepF_K hN hac _ _ (K.upd h _ (rearm_same2 ..) (fun ht => rearm_st_term _ _ ht))
  · exact endOfStepF_K hN hac _ _ h
  · exact h

theorem stepBodyKF_K (hN : NK a0 N) (hac : afterClose a0 = false) (P : Prog) (k : FCfg → FCfg)
    (hk : ∀ x, K a0 x → K a0 (k x)) (x : FCfg) (h : K a0 x) : K a0 (stepBodyKF N P k x) := by
  unfold stepBodyKF
  dsimp only
  have h1 : K a0 (x.updL fun l => { l with c := { l.c with stepping := true }, executing := true }) :=
    h.fr ⟨⟨rfl, rfl, rfl, rfl, rfl, rfl⟩, Or.inl rfl, rfl, rfl, rfl⟩
  split
  · exact hk _ (endOfStepF_K hN hac _ _ h1)
  · split
    · exact hk _ (finishUserF_K hN hac _ _ (K.upd h1 _ ⟨rfl, rfl, rfl, rfl, rfl, rfl⟩ (fun _ => rfl)))
    · exact K.upd (K.upd h1 _ ⟨rfl, rfl, rfl, rfl, rfl, rfl⟩ (fun _ => rfl)) _ ⟨rfl, rfl, rfl, rfl, rfl, rfl⟩ (fun _ => rfl)
  · split
    · exact K.upd h1 _ ⟨rfl, rfl, rfl, rfl, rfl, rfl⟩ (fun _ => rfl)
    · exact hk _ (wakeF_K hN hac _ _ _ _ h1)
    · exact h1
  · exact hk _ (endOfStepF_K hN hac _ _ h1)

theorem loopHeadF_K (hN : NK a0 N) (hac : afterClose a0 = false) (P : Prog) : ∀ (fuel : Nat) (x : FCfg), K a0 x → K a0 (loopHeadF N P fuel x)
  | 0, x, h => h
  | n+1, x, h => by
    have ih := loopHeadF_K hN hac P n
    unfold loopHeadF
    split
    · exact h
    · split
      · exact K.upd h _ ⟨rfl, rfl, rfl, rfl, rfl, rfl⟩ (fun _ => rfl)
      · split
        · exact K.upd h _ ⟨rfl, rfl, rfl, rfl, rfl, rfl⟩ (fun _ => rfl)
        · split
          · split
            · exact K.upd h _ ⟨rfl, rfl, rfl, rfl, rfl, rfl⟩ (fun _ => rfl)
            · exact stepBodyKF_K hN hac P _ ih x h
          · exact stepBodyKF_K hN hac P _ ih x h

theorem stepBodyF_K (hN : NK a0 N) (hac : afterClose a0 = false) (P : Prog) (fuel : Nat) (x : FCfg) (h : K a0 x) :
    K a0 (stepBodyF N P fuel x) := stepBodyKF_K hN hac P _ (loopHeadF_K hN hac P fuel) x h

theorem tickStepperF_K (hN : NK a0 N) (hac : afterClose a0 = false) (P : Prog) (x : FCfg) (h : K a0 x) :
    K a0 (tickStepperF N P x) := by
  unfold tickStepperF
  split
  · exact loopHeadF_K hN hac P _ x h
  · split
    · split
      · split
        · exact K.upd h _ ⟨rfl, rfl, rfl, rfl, rfl, rfl⟩ (fun _ => rfl)
        · exact stepBodyF_K hN hac P _ x h
      · exact stepBodyF_K hN hac P _ x h
    · exact h
  · split
    · exact loopHeadF_K hN hac P _ _ (finishUserF_K hN hac _ _ h)
    · exact K.upd h _ ⟨rfl, rfl, rfl, rfl, rfl, rfl⟩ (fun _ => rfl)
  · split
    · exact h
    · exact loopHeadF_K hN hac P _ _ (wakeF_K hN hac _ _ _ _ h)
    · exact h
  · exact h

/-! ### the other events -/

theorem awaitableDone_same2 (c : Cfg) (f : Nat) : Same2 c (awaitableDone c f) := by
  unfold awaitableDone
  have hold : ∀ d : Cfg, Same2 d (match d.efKeys.find? (·.1 = f), d.efs[f]? with
      | some (_, key), some (EFut.result v) => { d with ctx := (key, v) :: d.ctx.filter (·.1 ≠ key) }
      | _, _ => d) := by
    intro d; split
    · exact ⟨rfl, rfl, rfl, rfl, rfl, rfl⟩
    · exact Same2.rfl' d
  dsimp only
  split
  · rename_i fn wf wakeup aw hst
    split
    · exact hold c
    · have h1 : Same2 c { c with st := .waiting fn wf wakeup (aw.filter (·.1 ≠ f)) } :=
        ⟨by simp [hst, SObj.label], by simp [hst, outcomeOf], rfl, rfl, rfl, rfl⟩
      split
      · split
        · exact Same2.trans (Same2.trans h1 ⟨rfl, rfl, rfl, rfl, rfl, rfl⟩) (deliver_same2 ..)
        · exact Same2.trans h1 ⟨rfl, rfl, rfl, rfl, rfl, rfl⟩
      · exact Same2.trans h1 (deliver_same2 ..)
      · exact h1
  · exact hold c

theorem complete_same2 (c : Cfg) (f : Nat) (o : EFut) : Same2 c (complete c f o) := by
  unfold complete; split
  · dsimp only; split <;> exact ⟨rfl, rfl, rfl, rfl, rfl, rfl⟩
  · exact Same2.rfl' c

theorem toLoop_K (r : FCfg × RetV) (h : K a0 r.1) : K a0 (toLoop r) := by
  unfold toLoop; split
  · exact K.upd h _ ⟨rfl, rfl, rfl, rfl, rfl, rfl⟩ (fun _ => rfl)
  · exact h

/-- cancelling the process future: only a pending future changes, and a terminated process has none -/
theorem cancelFut_K (x : FCfg) (h : K a0 x) : K a0 (x.updC fun c => (cancelFut c).1) := by
  refine ⟨h.arm.updC _, h.tr, ?_⟩
  have hst : (cancelFut x.l.c).1.st = x.l.c.st := (cancelFut_fix x.l.c).1
  rcases h.g with ⟨hm, hf, e, he, hs⟩ | ⟨hi, he⟩
  · exact Or.inl ⟨hm, hf, e, he, by rw [updC_l, upd_c, hst]; exact hs⟩
  · refine Or.inr ⟨?_, fun hm hf => by rw [updC_l, upd_c, hst]; exact he hm hf⟩
    rw [updC_l, upd_c]
    unfold cancelFut
    split
    · rename_i hp
      have hl : terminal x.l.c.st.label = false := by
        cases ht : terminal x.l.c.st.label with
        | false => rfl
        | true =>
          have := (hi.term ht).2.2
          rw [hp] at this
          cases hs : x.l.c.st <;> simp [hs, outcomeOf] at this
      obtain ⟨_, l2, l3⟩ := hi.live hl
      exact ⟨fun _ => ⟨Or.inr rfl, l2, l3⟩, fun ht => by rw [show terminal x.l.c.st.label = false from hl] at ht; cases ht⟩
    · exact hi

theorem tickCbF_K (hN : NK a0 N) (hac : afterClose a0 = false) (x : FCfg) (cb : Cb) (h : K a0 x) : K a0 (tickCbF N x cb) := by
  unfold tickCbF
  split
  · have h1 : K a0 (x.updC fun c => { c with ready := c.ready.erase cb }) :=
      K.upd h _ ⟨rfl, rfl, rfl, rfl, rfl, rfl⟩ (fun _ => rfl)
    split
    · exact K.upd h1 _ (awaitableDone_same2 ..) (fun ht => (awaitableDone_fix _ _ ht).1)
    · unfold tryKillingF
      exact K.upd (toLoop_K _ (killF_K hN hac _ h1)) _ ⟨rfl, rfl, rfl, rfl, rfl, rfl⟩ (fun _ => rfl)
    · split
      · exact toLoop_K _ (failF_K hN hac _ _ h1)
      · exact h1
  · exact h

theorem stepFN_K (hN : NK a0 N) (hac : afterClose a0 = false) (P : Prog) (x : FCfg) (ev : Ev) (h : K a0 x) :
    K a0 (stepFN N P x ev).1 := by
  cases ev <;> simp only [stepFN]
  · exact tickStepperF_K hN hac P x h
  · exact tickCbF_K hN hac x _ h
  · exact pauseF_K hN x h
  · exact playF_K hN x h
  · exact killF_K hN hac x h
  · exact K.upd h _ (by unfold resume; split; exact deliver_same2 ..; exact Same2.rfl' _) (fun ht => (resume_fix _ _ ht).1)
  · exact failF_K hN hac x _ h
  · exact cancelFut_K x h
  · exact K.upd h _ (complete_same2 ..) (fun _ => (complete_fix ..).1)
  · exact K.upd h _ ⟨rfl, rfl, rfl, rfl, rfl, rfl⟩ (fun _ => rfl)

/-- **every event of a run with an injected fault keeps `K`** -/
theorem stepF_K (hac : afterClose a0 = false) (P : Prog) (x : FCfg) (ev : Ev) (h : K a0 x) : K a0 (stepF P x ev).1 :=
  stepFN_K (fireNF_nk hac _) hac P x ev h

theorem runF_K (hac : afterClose a0 = false) (P : Prog) (x0 : FCfg) (evs : List Ev) (h : K a0 x0) : K a0 (runF P x0 evs) := by
  induction evs generalizing x0 with
  | nil => exact h
  | cons e es ih => exact ih _ (stepF_K hac P x0 e h)

theorem initX_K (a0 : Arm) (nf : Nat) (plan : Plan) : K a0 (initX nf plan (some a0)) := by
  refine ⟨⟨fun b hb => by cases hb; exact ⟨rfl, rfl⟩, fun hf => by cases hf⟩, rfl, Or.inr ⟨Inv2w.of_inv2 (inv2_init nf), fun _ hf => by cases hf⟩⟩

theorem runX_armed (P : Prog) (nf : Nat) (plan : Plan) (a : Arm) (evs : List Ev) :
    runX P (initX nf plan (some a)) evs = runF P (initX nf plan (some a)) evs := rfl


end
end FP
end PMF
