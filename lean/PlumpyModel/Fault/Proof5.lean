import PlumpyModel.Fault.Proof4
/-!
# Fault twins — the closing part of a step, the stepping task, every event keeps `K`
-/
namespace PMF
namespace FP
open L

section
variable {a0 : Arm} {N : Hook → FCfg → FCfg}

/-- a `Cfg` update that keeps what `Inv2` looks at; on a terminated process it keeps the state object -/
theorem K.upd {x : FCfg} (h : K a0 x) (f : Cfg → Cfg) (hs : Same2 x.l.c (f x.l.c))
    (hst : terminal x.l.c.st.label = true → (f x.l.c).st = x.l.c.st) : K a0 (x.updC f) := by
  refine h.fr (Fr.updC' x f hs ?_)
  cases ht : terminal x.l.c.st.label with
  | true => exact Or.inl (hst ht)
  | false => exact Or.inr rfl

theorem K.set {x : FCfg} (h : K a0 x) (c : Cfg) (hs : Same2 x.l.c c)
    (hst : terminal x.l.c.st.label = true → c.st = x.l.c.st) : K a0 (x.setC c) :=
  K.upd h (fun _ => c) hs hst

/-- storing the outcome of the action in the action future -/
theorem storeOutcome_K (i : Nat) (r : Res) (h : K a0 r.1) :
    K a0 (match r with
      | (x, none) => ok (if actionStatus x.l.c i = AStatus.pending then x.updC (fun c => setActionStatus c i .done) else x)
      | (x, some e) =>
          if actionStatus x.l.c i = AStatus.pending then ok (x.updC (fun c => setActionStatus c i (.failed e))) else (x, some e)).1 := by
  obtain ⟨y, ye⟩ := r
  cases ye with
  | none =>
    show K a0 (if actionStatus y.l.c i = AStatus.pending then y.updC (fun c => setActionStatus c i .done) else y)
    split
    · exact K.upd h _ (setActionStatus_same2 ..) (fun _ => (setActionStatus_fix ..).1)
    · exact h
  | some e =>
    show K a0 (if actionStatus y.l.c i = AStatus.pending then ok (y.updC (fun c => setActionStatus c i (.failed e))) else (y, some e)).1
    split
    · exact K.upd h _ (setActionStatus_same2 ..) (fun _ => (setActionStatus_fix ..).1)
    · exact h

theorem runActionF_K (hN : NK a0 N) (hac : afterClose a0 = false) (x : FCfg) (i : Nat) (next : Option SObj) (h : K a0 x)
    (hl : terminal x.l.c.st.label = false) : K a0 (runActionF N x i next).1 := by
  unfold runActionF
  split
  · exact h
  · rename_i a _
    split
    · exact h
    · apply storeOutcome_K
      split
      · split
        · rename_i s
          have ht := transitionToF_K hN x s h hac hl
          generalize transitionToF N x s = r at ht
          obtain ⟨y, ye⟩ := r
          cases ye with
          | some e => exact K.upd ht _ ⟨rfl, rfl, rfl, rfl, rfl, rfl⟩ (fun _ => rfl)
          | none =>
            show K a0 (if y.l.c.pausing.isNone then ok y else doPauseF N y).1
            split
            · exact ht
            · exact doPauseF_K hN y ht
        · exact doPauseF_K hN x h
      · exact K.upd (transitionToF_K hN x .killed h hac hl) _ ⟨rfl, rfl, rfl, rfl, rfl, rfl⟩ (fun _ => rfl)

theorem enactLoopF_K (hN : NK a0 N) (hac : afterClose a0 = false) : ∀ (n : Nat) (x : FCfg), K a0 x → K a0 (enactLoopF N n x).1
  | 0, x, h => h
  | n+1, x, h => by
    unfold enactLoopF
    split
    · split
      · rename_i i _ hc
        have hl : terminal x.l.c.st.label = false := by
          simp only [Bool.and_eq_true, Bool.not_eq_true'] at hc; exact hc.2
        have h1 := runActionF_K hN hac x i none h hl
        generalize runActionF N x i none = r at h1
        obtain ⟨y, ye⟩ := r
        cases ye with
        | none => rw [bind_ok]; exact enactLoopF_K hN hac n y h1
        | some e => exact h1
      · exact h
    · exact h

theorem dispatch1F_K (hN : NK a0 N) (hac : afterClose a0 = false) (x : FCfg) (next : Option SObj) (h : K a0 x)
    (hl : terminal x.l.c.st.label = false) : K a0 (dispatch1F N x next).1 := by
  unfold dispatch1F
  split
  · split
    · exact runActionF_K hN hac x _ next h hl
    · split
      · exact transitionToF_K hN x _ h hac hl
      · exact h
  · split
    · exact transitionToF_K hN x _ h hac hl
    · exact h

theorem dispatchF_K (hN : NK a0 N) (hac : afterClose a0 = false) (x : FCfg) (next : Option SObj) (h : K a0 x) :
    K a0 (dispatchF N x next).1 := by
  unfold dispatchF
  split
  · exact h
  · rename_i hnt
    have h1 := dispatch1F_K hN hac x next h (by simpa using hnt)
    generalize dispatch1F N x next = r at h1
    obtain ⟨y, ye⟩ := r
    cases ye with
    | none => rw [bind_ok]; exact enactLoopF_K hN hac _ y h1
    | some e => exact h1

theorem finally_st (c : Cfg) : (finally_ c).st = c.st :=
  (Fix.trans (⟨rfl, rfl⟩ : Fix c { c with stepping := false }) (setInterrupt_fix _ _)).1

theorem endOfStepF_K (hN : NK a0 N) (hac : afterClose a0 = false) (x : FCfg) (r : StepEnd) (h : K a0 x) :
    K a0 (endOfStepF N x r) := by
  unfold endOfStepF
  dsimp only
  have h1 : K a0 ((x.updL fun l => { l with executing := false }).setC (prepare (x.updL fun l => { l with executing := false }).l.c r).1) :=
    K.set (h.fr (Fr.updL' x _ rfl rfl)) _ (prepare_same2 ..) (fun _ => (prepare_fix ..).1)
  have h2 := dispatchF_K hN hac _ (prepare (x.updL fun l => { l with executing := false }).l.c r).2 h1
  have h3 : K a0 ((dispatchF N ((x.updL fun l => { l with executing := false }).setC
      (prepare (x.updL fun l => { l with executing := false }).l.c r).1)
      (prepare (x.updL fun l => { l with executing := false }).l.c r).2).1.updC finally_) :=
    K.upd h2 _ (finally_same2 _) (fun _ => finally_st _)
  split
  · exact h3
  · exact K.upd h3 _ ⟨rfl, rfl, rfl, rfl, rfl, rfl⟩ (fun _ => rfl)

theorem finishUserF_K (hN : NK a0 N) (hac : afterClose a0 = false) (x : FCfg) (o : Outcome) (h : K a0 x) :
    K a0 (finishUserF N x o) := by
  unfold finishUserF
  split
  · exact endOfStepF_K hN hac _ _ (K.set h _ (cmdToState_same2 ..) (fun _ => (cmdToState_fix ..).1))
  · exact endOfStepF_K hN hac _ _ h

theorem rearm_st_term (c : Cfg) (wf : Nat) (ht : terminal c.st.label = true) : (rearm c wf).st = c.st := by
  unfold rearm
  split
  · rename_i hs; rw [hs] at ht; simp [SObj.label, terminal, allowed] at ht
  · rfl

theorem wakeF_K (hN : NK a0 N) (hac : afterClose a0 = false) (x : FCfg) (fn wf : Nat) (w : WF) (h : K a0 x) :
    K a0 (wakeF N x fn wf w) := by
  unfold wakeF
  split
  · exact endOfStepF_K hN hac _ _ h
  · exact endOfStepF_K hN hac _ _ (K.upd h _ (rearm_same2 ..) (fun ht => rearm_st_term _ _ ht))
  · exact endOfStepF_K hN hac _ _ h
  · exact h

theorem stepBodyKF_K (hN : NK a0 N) (hac : afterClose a0 = false) (P : Prog) (k : FCfg → FCfg)
    (hk : ∀ x, K a0 x → K a0 (k x)) (x : FCfg) (h : K a0 x) : K a0 (stepBodyKF N P k x) := by
  unfold stepBodyKF
  dsimp only
  have h1 : K a0 (x.updL fun l => { l with c := { l.c with stepping := true }, executing := true }) :=
    h.fr ⟨⟨rfl, rfl, rfl, rfl, rfl, rfl⟩, Or.inl rfl, rfl, rfl, rfl⟩
  split
  · exact hk _ (endOfStepF_K hN hac _ _ h1)
  · split
    · exact hk _ (finishUserF_K hN hac _ _ (K.upd h1 _ ⟨rfl, rfl, rfl, rfl, rfl, rfl⟩ (fun _ => rfl)))
    · exact K.upd (K.upd h1 _ ⟨rfl, rfl, rfl, rfl, rfl, rfl⟩ (fun _ => rfl)) _ ⟨rfl, rfl, rfl, rfl, rfl, rfl⟩ (fun _ => rfl)
  · split
    · exact K.upd h1 _ ⟨rfl, rfl, rfl, rfl, rfl, rfl⟩ (fun _ => rfl)
    · exact hk _ (wakeF_K hN hac _ _ _ _ h1)
    · exact h1
  · exact hk _ (endOfStepF_K hN hac _ _ h1)

theorem loopHeadF_K (hN : NK a0 N) (hac : afterClose a0 = false) (P : Prog) : ∀ (fuel : Nat) (x : FCfg), K a0 x → K a0 (loopHeadF N P fuel x)
  | 0, x, h => h
  | n+1, x, h => by
    have ih := loopHeadF_K hN hac P n
    unfold loopHeadF
    split
    · exact h
    · split
      · exact K.upd h _ ⟨rfl, rfl, rfl, rfl, rfl, rfl⟩ (fun _ => rfl)
      · split
        · exact K.upd h _ ⟨rfl, rfl, rfl, rfl, rfl, rfl⟩ (fun _ => rfl)
        · split
          · split
            · exact K.upd h _ ⟨rfl, rfl, rfl, rfl, rfl, rfl⟩ (fun _ => rfl)
            · exact stepBodyKF_K hN hac P _ ih x h
          · exact stepBodyKF_K hN hac P _ ih x h

theorem stepBodyF_K (hN : NK a0 N) (hac : afterClose a0 = false) (P : Prog) (fuel : Nat) (x : FCfg) (h : K a0 x) :
    K a0 (stepBodyF N P fuel x) := stepBodyKF_K hN hac P _ (loopHeadF_K hN hac P fuel) x h

theorem tickStepperF_K (hN : NK a0 N) (hac : afterClose a0 = false) (P : Prog) (x : FCfg) (h : K a0 x) :
    K a0 (tickStepperF N P x) := by
  unfold tickStepperF
  split
  · exact loopHeadF_K hN hac P _ x h
  · split
    · split
      · split
        · exact K.upd h _ ⟨rfl, rfl, rfl, rfl, rfl, rfl⟩ (fun _ => rfl)
        · exact stepBodyF_K hN hac P _ x h
      · exact stepBodyF_K hN hac P _ x h
    · exact h
  · split
    · exact loopHeadF_K hN hac P _ _ (finishUserF_K hN hac _ _ h)
    · exact K.upd h _ ⟨rfl, rfl, rfl, rfl, rfl, rfl⟩ (fun _ => rfl)
  · split
    · exact h
    · exact loopHeadF_K hN hac P _ _ (wakeF_K hN hac _ _ _ _ h)
    · exact h
  · exact h

end
end FP
end PMF
