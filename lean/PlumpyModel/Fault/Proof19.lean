import PlumpyModel.Fault.Proof18
/-!
# Fault twins — the stepping task is inside a step function only while the state is not CREATED; no run is ever `Bad`

`IUP` (`Fault/Proof18.lean`) is an invariant of runs: the program counter is `inUser` only after a step function was activated on a
RUNNING state, no twin below the closing part of a step touches the program counter (`QF`) and none ever makes the state CREATED
again (`CF`); the closing part of a step changes the program counter only to `crashed`.  With it every event keeps `K2`, so
**no configuration of a run with an injected fault is `Bad`** (`runF_not_bad`): the hypothesis "the run did not end in an error of the
state machine itself" of the statements about `on_terminated` / `on_close` faults is always true.
-/
namespace PMF
namespace FP
open L

/-- the program counter is kept (or the task crashed) and the state is not made CREATED -/
def EP (x y : FCfg) : Prop :=
  (y.l.c.pc = x.l.c.pc ∨ ∃ e, y.l.c.pc = .crashed e) ∧ (y.l.c.st.label = .created → x.l.c.st.label = .created)

theorem EP.rfl' (x : FCfg) : EP x x := ⟨Or.inl rfl, id⟩
theorem EP.trans' {x y z : FCfg} (h1 : EP x y) (h2 : EP y z) : EP x z := by
  refine ⟨?_, fun h => h1.2 (h2.2 h)⟩
  rcases h2.1 with h | h
  · rcases h1.1 with h' | ⟨e, h'⟩
    · exact Or.inl (h.trans h')
    · exact Or.inr ⟨e, h.trans h'⟩
  · exact Or.inr h
theorem EP.of {x y : FCfg} (q : QF x y) (c : CF x y) : EP x y := ⟨Or.inl q.pc, c.ncr⟩
theorem EP.of_eq {x y : FCfg} (hp : y.l.c.pc = x.l.c.pc) (hs : y.l.c.st.label = x.l.c.st.label) : EP x y :=
  ⟨Or.inl hp, fun h => by rw [← hs]; exact h⟩
theorem EP.updC (x : FCfg) (f : Cfg → Cfg) (hp : (f x.l.c).pc = x.l.c.pc) (hs : (f x.l.c).st.label = x.l.c.st.label) :
    EP x (x.updC f) := EP.of_eq hp hs

theorem IUP.ep {x y : FCfg} (h : IUP x.l.c) (p : EP x y) : IUP y.l.c := by
  intro b hb hc
  rcases p.1 with hp | ⟨e, hp⟩
  · exact h b (by rw [← hp]; exact hb) (p.2 hc)
  · rw [hp] at hb; cases hb

theorem bind_ep {x : FCfg} {r : Res} {k : FCfg → Res} (h1 : EP x r.1) (hk : ∀ y, EP y (k y).1) : EP x (bind r k).1 := by
  obtain ⟨y, e⟩ := r
  cases e with
  | none => rw [bind_ok]; exact h1.trans' (hk y)
  | some e => exact h1

section
variable {N : Hook → FCfg → FCfg}

theorem setStatus_ep (y : FCfg) (i : Nat) (st : AStatus) :
    EP y (if actionStatus y.l.c i = AStatus.pending then y.updC (fun c => setActionStatus c i st) else y) := by
  split
  · exact EP.updC y _ (setActionStatus_ar ..).pc (by rw [(setActionStatus_ar ..).st])
  · exact EP.rfl' y

theorem runActionF_ep (hQ : FQF N) (hC : FCF N) (x : FCfg) (i : Nat) (next : Option SObj) : EP x (runActionF N x i next).1 := by
  unfold runActionF
  split
  · exact EP.rfl' x
  · split
    · exact EP.rfl' x
    · dsimp only
      have hstore : ∀ r : Res, EP x r.1 → EP x (match r with
          | (x, none) => ok (if actionStatus x.l.c i = AStatus.pending then x.updC (fun c => setActionStatus c i .done) else x)
          | (x, some e) =>
              ok (if actionStatus x.l.c i = AStatus.pending then x.updC (fun c => setActionStatus c i (.failed e)) else x)).1 := by
        intro r hr
        obtain ⟨y, ye⟩ := r
        cases ye with
        | none => exact hr.trans' (setStatus_ep y i _)
        | some e => exact hr.trans' (setStatus_ep y i _)
      apply hstore
      split
      · split
        · rename_i s
          have ht : EP x (transitionToF N x s).1 := EP.of (transitionToF_qf hQ x s) (transitionToF_cf hC x s)
          generalize transitionToF N x s = r at ht
          obtain ⟨y, ye⟩ := r
          cases ye with
          | some e => exact ht.trans' (EP.updC _ _ rfl rfl)
          | none =>
            show EP x (if y.l.c.pausing.isNone then ok y else doPauseF N y).1
            split
            · exact ht
            · exact ht.trans' (EP.of (doPauseF_qf hQ y) (doPauseF_cf hC y))
        · exact EP.of (doPauseF_qf hQ x) (doPauseF_cf hC x)
      · exact (EP.of (transitionToF_qf hQ x .killed) (transitionToF_cf hC x .killed)).trans' (EP.updC _ _ rfl rfl)

theorem enactLoopF_ep (hQ : FQF N) (hC : FCF N) : ∀ (n : Nat) (x : FCfg), EP x (enactLoopF N n x).1
  | 0, x => EP.rfl' x
  | n+1, x => by
    unfold enactLoopF
    split
    · split
      · exact bind_ep (runActionF_ep hQ hC x _ none) (enactLoopF_ep hQ hC n)
      · exact EP.rfl' x
    · exact EP.rfl' x

theorem dispatchF_ep (hQ : FQF N) (hC : FCF N) (x : FCfg) (next : Option SObj) : EP x (dispatchF N x next).1 := by
  unfold dispatchF
  split
  · exact EP.rfl' x
  · refine bind_ep ?_ (fun y => enactLoopF_ep hQ hC _ y)
    unfold dispatch1F
    split
    · split
      · exact runActionF_ep hQ hC x _ next
      · split
        · exact EP.of (transitionToF_qf hQ x _) (transitionToF_cf hC x _)
        · exact EP.rfl' x
    · split
      · exact EP.of (transitionToF_qf hQ x _) (transitionToF_cf hC x _)
      · exact EP.rfl' x

theorem finally_pc' (c : Cfg) : (finally_ c).pc = c.pc := (setInterrupt_ar { c with stepping := false } none).pc

/-- the closing part of a step changes the program counter only to `crashed` -/
theorem endOfStepF_ep (hQ : FQF N) (hC : FCF N) (x : FCfg) (r : StepEnd) : EP x (endOfStepF N x r) := by
  unfold endOfStepF
  dsimp only
  have h1 : EP x ((x.updL fun l => { l with executing := false }).setC (prepare (x.updL fun l => { l with executing := false }).l.c r).1) :=
    EP.of_eq (prepare_ar x.l.c r).pc (by show (prepare x.l.c r).1.st.label = _; rw [(prepare_ar x.l.c r).st])
  have h2 := h1.trans' (dispatchF_ep hQ hC _ (prepare (x.updL fun l => { l with executing := false }).l.c r).2)
  have h3 := h2.trans' (EP.updC (dispatchF N ((x.updL fun l => { l with executing := false }).setC
      (prepare (x.updL fun l => { l with executing := false }).l.c r).1)
      (prepare (x.updL fun l => { l with executing := false }).l.c r).2).1 finally_ (finally_pc' _) (by rw [finally_st]))
  split
  · exact h3
  · rename_i e _
    exact ⟨Or.inr ⟨e, rfl⟩, h3.2⟩

theorem finishUserF_ep (hQ : FQF N) (hC : FCF N) (x : FCfg) (o : Outcome) : EP x (finishUserF N x o) := by
  unfold finishUserF
  split
  · rename_i cmd
    have h1 : EP x (x.setC (cmdToState x.l.c cmd).1) :=
      EP.of_eq (cmdToState_fields x.l.c cmd).1 (by show (cmdToState x.l.c cmd).1.st.label = _; rw [(cmdToState_fields x.l.c cmd).2])
    exact h1.trans' (endOfStepF_ep hQ hC _ _)
  · exact endOfStepF_ep hQ hC _ _

theorem wakeF_ep (hQ : FQF N) (hC : FCF N) (x : FCfg) (fn wf : Nat) (w : WF) : EP x (wakeF N x fn wf w) := by
  unfold wakeF
  split
  · exact endOfStepF_ep hQ hC _ _
  · exact (EP.updC x (fun c => L.rearm c wf) (rearm_tr _ _).pc (rearm_same2 _ _).1).trans' (endOfStepF_ep hQ hC _ _)
  · exact endOfStepF_ep hQ hC _ _
  · exact EP.rfl' x

theorem stepBodyKF_iup (hQ : FQF N) (hC : FCF N) (P : Prog) (k : FCfg → FCfg) (hk : ∀ d, IUP d.l.c → IUP (k d).l.c)
    (x : FCfg) (h : IUP x.l.c) : IUP (stepBodyKF N P k x).l.c := by
  unfold stepBodyKF
  dsimp only
  have h1 : IUP (x.updL fun l => { l with c := { l.c with stepping := true }, executing := true }).l.c := h
  split
  · exact hk _ (h1.ep (endOfStepF_ep hQ hC _ _))
  · rename_i fn args kw hst
    have hst' : x.l.c.st = .running fn args kw := hst
    split
    · have h2 : IUP ((x.updL fun l => { l with c := { l.c with stepping := true }, executing := true }).updC fun c =>
          { c with trace := { fn := fn, args := args, kw := kw, paused := c.paused.isSome } :: c.trace }).l.c := h
      exact hk _ (h2.ep (finishUserF_ep hQ hC _ _))
    · intro b _
      show x.l.c.st.label ≠ .created
      rw [hst']; simp [SObj.label]
  · split
    · intro b hb; cases hb
    · exact hk _ (h1.ep (wakeF_ep hQ hC _ _ _ _))
    · exact h1
  · exact hk _ (h1.ep (endOfStepF_ep hQ hC _ _))

theorem loopHeadF_iup (hQ : FQF N) (hC : FCF N) (P : Prog) : ∀ (fuel : Nat) (x : FCfg), IUP x.l.c → IUP (loopHeadF N P fuel x).l.c
  | 0, x, h => h
  | n+1, x, h => by
    have ih := loopHeadF_iup hQ hC P n
    unfold loopHeadF
    split
    · exact h
    · split
      · intro b hb; cases hb
      · split
        · intro b hb; cases hb
        · split
          · split
            · intro b hb; cases hb
            · exact stepBodyKF_iup hQ hC P _ ih x h
          · exact stepBodyKF_iup hQ hC P _ ih x h

theorem tickStepperF_iup (hQ : FQF N) (hC : FCF N) (P : Prog) (x : FCfg) (h : IUP x.l.c) : IUP (tickStepperF N P x).l.c := by
  have hb : IUP (stepBodyF N P fuel0 x).l.c := stepBodyKF_iup hQ hC P _ (loopHeadF_iup hQ hC P fuel0) x h
  unfold tickStepperF
  split
  · exact loopHeadF_iup hQ hC P _ x h
  · split
    · split
      · split
        · intro b hb; cases hb
        · exact hb
      · exact hb
    · exact h
  · rename_i b hpc
    split
    · exact loopHeadF_iup hQ hC P _ _ (h.ep (finishUserF_ep hQ hC _ _))
    · intro b' _
      exact h b hpc
  · split
    · exact h
    · exact loopHeadF_iup hQ hC P _ _ (h.ep (wakeF_ep hQ hC _ _ _ _))
    · exact h
  · exact h

/-! ### the other events -/

theorem awaitableDone_pc (c : Cfg) (f : Nat) : (awaitableDone c f).pc = c.pc := by
  unfold awaitableDone
  have hold : ∀ d : Cfg, ((match d.efKeys.find? (fun p : Nat × Nat => p.1 = f), d.efs[f]? with
      | some (_, key), some (EFut.result v) => { d with ctx := (key, v) :: d.ctx.filter (fun p : Nat × Val => p.1 ≠ key) }
      | _, _ => d) : Cfg).pc = d.pc := by
    intro d; split <;> rfl
  dsimp only
  split
  · split
    · exact hold c
    · split
      · split
        · exact (deliver_tr ..).pc
        · rfl
      · exact (deliver_tr ..).pc
      · rfl
  · exact hold c

theorem toLoop_ep (r : FCfg × RetV) : EP r.1 (toLoop r) := by
  unfold toLoop; split
  · exact EP.updC _ _ rfl rfl
  · exact EP.rfl' _

theorem tickCbF_ep (hQ : FQF N) (hC : FCF N) (x : FCfg) (cb : Cb) : EP x (tickCbF N x cb) := by
  unfold tickCbF
  split
  · have h1 : EP x (x.updC fun c => { c with ready := c.ready.erase cb }) := EP.updC x _ rfl rfl
    split
    · exact h1.trans' (EP.updC _ _ (awaitableDone_pc ..) (awaitableDone_same2 ..).1)
    · unfold tryKillingF
      exact h1.trans' (((EP.of (killF_qf hQ _) (killF_cf hC _)).trans' (toLoop_ep _)).trans' (EP.updC _ _ rfl rfl))
    · split
      · exact h1.trans' ((EP.of (failF_qf hQ _ _) (failF_cf hC _ _)).trans' (toLoop_ep _))
      · exact h1
  · exact EP.rfl' x

theorem stepFN_iup (hQ : FQF N) (hC : FCF N) (P : Prog) (x : FCfg) (ev : Ev) (h : IUP x.l.c) : IUP (stepFN N P x ev).1.l.c := by
  cases ev <;> simp only [stepFN]
  · exact tickStepperF_iup hQ hC P x h
  · exact h.ep (tickCbF_ep hQ hC x _)
  · exact h.ep (EP.of (pauseF_qf hQ x) (pauseF_cf hC x))
  · exact h.ep (EP.of (playF_qf hQ x) (playF_cf hC x))
  · exact h.ep (EP.of (killF_qf hQ x) (killF_cf hC x))
  · refine h.ep (EP.updC x _ ?_ ?_)
    · unfold resume; split
      · exact (deliver_tr ..).pc
      · rfl
    · unfold resume; split
      · exact (deliver_same2 ..).1
      · rfl
  · exact h.ep (EP.of (failF_qf hQ x _) (failF_cf hC x _))
  · refine h.ep (EP.updC x _ ?_ (by rw [(cancelFut_fix x.l.c).1]))
    unfold cancelFut; split <;> rfl
  · refine h.ep (EP.updC x _ ?_ (complete_same2 ..).1)
    unfold complete; split
    · dsimp only; split <;> rfl
    · rfl
  · exact h.ep (EP.updC x _ rfl rfl)

end

/-- the invariant of runs: `K2` and `IUP` -/
structure KI (a0 : Arm) (x : FCfg) : Prop where
  k2 : K2 a0 x
  iu : IUP x.l.c

theorem stepF_KI {a0 : Arm} (hac : afterClose a0 = false) (P : Prog) (x : FCfg) (ev : Ev) (h : KI a0 x) : KI a0 (stepF P x ev).1 :=
  ⟨stepFN_K2 (fireNF_nk2 hac _) hac P x ev h.k2 h.iu, stepFN_iup (fireNF_qf _) (fireNF_cf _) P x ev h.iu⟩

theorem runF_KI {a0 : Arm} (hac : afterClose a0 = false) (P : Prog) (x0 : FCfg) (evs : List Ev) (h : KI a0 x0) :
    KI a0 (runF P x0 evs) := by
  induction evs generalizing x0 with
  | nil => exact h
  | cons e es ih => exact ih _ (stepF_KI hac P x0 e h)

theorem initX_KI (a0 : Arm) (nf : Nat) (plan : Plan) : KI a0 (initX nf plan (some a0)) :=
  ⟨(initX_K a0 nf plan).k2_live rfl, fun b hb => by cases hb⟩

/-- **no configuration of a run with an injected fault is `Bad`** — for every program, plan, history and every fault point except
the two after `close()` -/
theorem runF_not_bad {a0 : Arm} (hac : afterClose a0 = false) (P : Prog) (nf : Nat) (plan : Plan) (evs : List Ev) :
    ¬ Bad a0 (runF P (initX nf plan (some a0)) evs) :=
  (runF_KI hac P _ evs (initX_KI a0 nf plan)).k2.not_bad

end FP
end PMF
