import PlumpyModel.Fault.Proof11
/-!
# Fault twins — the linking invariant through the closing part of a step, the stepping task, every event, every run

`JF`: `Inv10` of `PM/Proof10.lean` on the `Cfg` part (the stepping task has not crashed; blocked on a waiting future it holds the one
the current state owns or a completed one; blocked on a pause future it holds the current one or a released one; the interrupt slot
never holds an action that already ran) + "the current state is entered".  For a fault that is not `on_terminated` / `on_close`
(`NoTC`: those two also run in the failing path of `transition_to`, where a second failure propagates).
-/
namespace PMF
namespace FP
open L

theorem Hq.qf {x y : FCfg} (h : Hq x.l.c) (q : QF x y) : Hq y.l.c := Hq.qq h q

section
variable {a0 : Arm} {N : Hook → FCfg → FCfg}

/-- everything assumed of the notification function -/
structure NA (a0 : Arm) (N : Hook → FCfg → FCfg) : Prop where
  k : NK a0 N
  s : NS a0 N
  q : FQF N

theorem setDone_si (i : Nat) (st : AStatus) (y : FCfg) (h : SI y ∧ Hq y.l.c) :
    SI (if actionStatus y.l.c i = AStatus.pending then y.updC (fun c => setActionStatus c i st) else y) ∧
    Hq (if actionStatus y.l.c i = AStatus.pending then y.updC (fun c => setActionStatus c i st) else y).l.c := by
  split
  · exact ⟨⟨h.1.1.ar (setActionStatus_ar ..), h.1.2⟩, h.2.ar (setActionStatus_ar ..)⟩
  · exact h

/-- storing the outcome of the action: nothing propagates any more (repair e94edb5) -/
theorem storeOutcome_s (i : Nat) (r : Res) (h : SI r.1 ∧ Hq r.1.l.c) :
    SI (match r with
      | (x, none) => ok (if actionStatus x.l.c i = AStatus.pending then x.updC (fun c => setActionStatus c i .done) else x)
      | (x, some e) =>
          ok (if actionStatus x.l.c i = AStatus.pending then x.updC (fun c => setActionStatus c i (.failed e)) else x)).1 ∧
    Hq (match r with
      | (x, none) => ok (if actionStatus x.l.c i = AStatus.pending then x.updC (fun c => setActionStatus c i .done) else x)
      | (x, some e) =>
          ok (if actionStatus x.l.c i = AStatus.pending then x.updC (fun c => setActionStatus c i (.failed e)) else x)).1.l.c ∧
    (match r with
      | (x, none) => ok (if actionStatus x.l.c i = AStatus.pending then x.updC (fun c => setActionStatus c i .done) else x)
      | (x, some e) =>
          ok (if actionStatus x.l.c i = AStatus.pending then x.updC (fun c => setActionStatus c i (.failed e)) else x)).2 = none := by
  obtain ⟨y, ye⟩ := r
  cases ye with
  | none => exact ⟨(setDone_si i .done y h).1, (setDone_si i .done y h).2, rfl⟩
  | some e => exact ⟨(setDone_si i (.failed e) y h).1, (setDone_si i (.failed e) y h).2, rfl⟩

/-- running the pending interrupt action -/
theorem runActionF_s (hA : NA a0 N) (hac : afterClose a0 = false) (hnb : NoTC a0) (x : FCfg) (i : Nat) (next : Option SObj)
    (hk : K a0 x) (h : SI x) (hq : Hq x.l.c) (hl : terminal x.l.c.st.label = false)
    (hp : ∀ a, x.l.c.actions[i]? = some a → a.status = .pending)
    (hn : (∃ pf, x.l.c.pc = .awaitPaused pf) → next = none)
    (ht : ∀ s, next = some s → TargetOk x.l.c s) :
    SI (runActionF N x i next).1 ∧ Hq (runActionF N x i next).1.l.c ∧ (runActionF N x i next).2 = none := by
  unfold runActionF
  split
  · exact ⟨h, hq, rfl⟩
  · rename_i a ha
    split
    · rename_i hne; exact absurd (hp a ha) hne
    · apply storeOutcome_s
      split
      · cases next with
        | none => exact ⟨doPauseF_s hA.k hA.s x hk h hq (fun _ _ => hl), Hq.qf hq (doPauseF_qf hA.q x)⟩
        | some s =>
          dsimp only
          obtain ⟨t1, t2, t3⟩ := transitionToF_s hA.k hA.s hA.q hac hnb x s hk h.1 h.2 hl (ht s rfl)
          have tk := transitionToF_K hA.k x s hk hac hl
          have tq := transitionToF_qf hA.q x s
          have hq1 : Hq (transitionToF N x s).1.l.c := Hq.qf hq tq
          generalize transitionToF N x s = r at t1 t2 t3 tk tq hq1
          obtain ⟨y, ye⟩ := r
          simp only at t3
          subst t3
          show SI (if y.l.c.pausing.isNone then ok y else doPauseF N y).1 ∧ Hq (if y.l.c.pausing.isNone then ok y else doPauseF N y).1.l.c
          split
          · exact ⟨⟨t1, t2⟩, hq1⟩
          · have hl1 : ∀ pf, y.l.c.pc = .awaitPaused pf → terminal y.l.c.st.label = false := by
              intro pf hpf
              have hpc : y.l.c.pc = x.l.c.pc := (show QQ x.l y.l from tq).pc
              rw [hpc] at hpf; have := hn ⟨pf, hpf⟩; cases this
            exact ⟨doPauseF_s hA.k hA.s y tk ⟨t1, t2⟩ hq1 hl1, Hq.qf hq1 (doPauseF_qf hA.q y)⟩
      · obtain ⟨t1, t2, _⟩ := transitionToF_s hA.k hA.s hA.q hac hnb x .killed hk h.1 h.2 hl (targetOk_killed _)
        have hq1 : Hq (transitionToF N x .killed).1.l.c := Hq.qf hq (transitionToF_qf hA.q x .killed)
        exact ⟨⟨⟨t1.nocrash, t1.aw, t1.ap, t1.pv, t1.wv, t1.tp⟩, t2⟩, hq1⟩

theorem runActionF_K' (hA : NA a0 N) (hac : afterClose a0 = false) (x : FCfg) (i : Nat) (next : Option SObj) (hk : K a0 x)
    (hl : terminal x.l.c.st.label = false) : K a0 (runActionF N x i next).1 := runActionF_K hA.k hac x i next hk hl

theorem enactLoopF_s (hA : NA a0 N) (hac : afterClose a0 = false) (hnb : NoTC a0) : ∀ (n : Nat) (x : FCfg), K a0 x → SI x → Hq x.l.c →
    SI (enactLoopF N n x).1 ∧ Hq (enactLoopF N n x).1.l.c ∧ (enactLoopF N n x).2 = none
  | 0, _, _, h, hq => ⟨h, hq, rfl⟩
  | n+1, x, hk, h, hq => by
    unfold enactLoopF
    split
    · rename_i i _
      split
      · rename_i hc
        simp only [Bool.and_eq_true, decide_eq_true_eq, Bool.not_eq_true'] at hc
        obtain ⟨h1, q1, e1⟩ := runActionF_s hA hac hnb x i none hk h hq hc.2 (pending_of_status hc.1) (fun _ => rfl)
          (fun s hs => by cases hs)
        have k1 := runActionF_K hA.k hac x i none hk hc.2
        generalize runActionF N x i none = r at h1 q1 e1 k1
        obtain ⟨y, ye⟩ := r
        simp only at e1; subst e1
        rw [bind_ok]
        exact enactLoopF_s hA hac hnb n y k1 h1 q1
      · exact ⟨h, hq, rfl⟩
    · exact ⟨h, hq, rfl⟩

theorem dispatchF_s (hA : NA a0 N) (hac : afterClose a0 = false) (hnb : NoTC a0) (x : FCfg) (next : Option SObj)
    (hk : K a0 x) (h : SI x) (hq : Hq x.l.c) (hia : IA x.l.c)
    (hn : (∃ pf, x.l.c.pc = .awaitPaused pf) → x.l.c.interrupt = none ∨ next = none)
    (ht : ∀ s, next = some s → TargetOk x.l.c s) :
    SI (dispatchF N x next).1 ∧ Hq (dispatchF N x next).1.l.c ∧ (dispatchF N x next).2 = none := by
  unfold dispatchF
  split
  · exact ⟨h, hq, rfl⟩
  · rename_i hl
    have hl' : terminal x.l.c.st.label = false := by simpa using hl
    have h1 : SI (dispatch1F N x next).1 ∧ Hq (dispatch1F N x next).1.l.c ∧ (dispatch1F N x next).2 = none := by
      have nominal : SI (match next with | some s => transitionToF N x s | none => ok x).1 ∧
          Hq (match next with | some s => transitionToF N x s | none => ok x).1.l.c ∧
          (match next with | some s => transitionToF N x s | none => ok x).2 = none := by
        cases next with
        | none => exact ⟨h, hq, rfl⟩
        | some s =>
          obtain ⟨t1, t2, t3⟩ := transitionToF_s hA.k hA.s hA.q hac hnb x s hk h.1 h.2 hl' (ht s rfl)
          exact ⟨⟨t1, t2⟩, Hq.qf hq (transitionToF_qf hA.q x s), t3⟩
      unfold dispatch1F
      split
      · rename_i i hint
        split
        · rename_i hnc
          have hp : ∀ a, x.l.c.actions[i]? = some a → a.status = .pending := by
            intro a ha
            rcases hia i a hint ha with hp | hp
            · exact hp
            · exfalso; apply hnc; simp [actionStatus, ha, hp]
          exact runActionF_s hA hac hnb x i next hk h hq hl' hp
            (by intro hx; rcases hn hx with h0 | h0
                · rw [hint] at h0; cases h0
                · exact h0) ht
        · exact nominal
      · exact nominal
    have k1 := dispatch1F_K hA.k hac x next hk hl'
    generalize dispatch1F N x next = r at h1 k1
    obtain ⟨y, ye⟩ := r
    obtain ⟨s1, q1, e1⟩ := h1
    simp only at e1; subst e1
    rw [bind_ok]
    exact enactLoopF_s hA hac hnb _ y k1 s1 q1

/-- what holds at the head of `step_until_terminated`'s loop inside a wake-up of the stepping task -/
structure TickF (a0 : Arm) (x : FCfg) : Prop where
  k : K a0 x
  s : SI x
  q : Hq x.l.c
  int : x.l.c.interrupt = none
  stp : x.l.c.stepping = false

theorem endOfStepF_eq (x : FCfg) (r : StepEnd) :
    endOfStepF N x r =
      match (dispatchF N ((x.updL fun l => { l with executing := false }).setC (prepare x.l.c r).1) (prepare x.l.c r).2).2 with
      | none => (dispatchF N ((x.updL fun l => { l with executing := false }).setC (prepare x.l.c r).1) (prepare x.l.c r).2).1.updC finally_
      | some e => ((dispatchF N ((x.updL fun l => { l with executing := false }).setC (prepare x.l.c r).1)
          (prepare x.l.c r).2).1.updC finally_).updC (fun c => { c with pc := .crashed e }) := rfl

theorem endOfStepF_tick (hA : NA a0 N) (hac : afterClose a0 = false) (hnb : NoTC a0) (x : FCfg) (r : StepEnd)
    (hk : K a0 x) (h : SI x) (hq : Hq x.l.c) (hia : IA x.l.c)
    (hqi : (∃ pf, x.l.c.pc = .awaitPaused pf) → x.l.c.interrupt = none)
    (hr : ∀ s, r = .next (some s) → TargetOk x.l.c s) : TickF a0 (endOfStepF N x r) := by
  have a := prepare_ar x.l.c r
  have hkr := endOfStepF_K hA.k hac x r hk
  rw [endOfStepF_eq] at hkr ⊢
  have k1 : K a0 ((x.updL fun l => { l with executing := false }).setC (prepare x.l.c r).1) :=
    K.set (hk.fr (Fr.updL' x _ rfl rfl)) _ (prepare_same2 ..) (fun _ => (prepare_fix ..).1)
  obtain ⟨d1, d2, d3⟩ := dispatchF_s hA hac hnb ((x.updL fun l => { l with executing := false }).setC (prepare x.l.c r).1)
    (prepare x.l.c r).2 k1 ⟨h.1.ar a, h.2⟩ (hq.ar a) (prepare_ia x.l.c r hia)
    (by intro ⟨pf, hpf⟩
        have hpf' : (prepare x.l.c r).1.pc = .awaitPaused pf := hpf
        rw [a.pc] at hpf'; exact prepare_hn x.l.c r (hqi ⟨pf, hpf'⟩))
    (prepare_target x.l.c r hr)
  generalize dispatchF N ((x.updL fun l => { l with executing := false }).setC (prepare x.l.c r).1) (prepare x.l.c r).2 = rr
    at d1 d2 d3 hkr
  obtain ⟨y, ye⟩ := rr
  simp only at d3; subst d3
  exact ⟨hkr, ⟨finally_invS _ d1.1, d1.2⟩, finally_hq _ d2, finally_interrupt _, finally_stepping _⟩

/-- the invariant between two events -/
structure JF (a0 : Arm) (x : FCfg) : Prop where
  k : K a0 x
  s : SI x
  ia : IA x.l.c
  qi : PMF.Quiet x.l.c → x.l.c.interrupt = none
  qs : PMF.Quiet x.l.c → x.l.c.stepping = false

theorem JF.old {x : FCfg} (h : JF a0 x) : Inv10 x.l.c := ⟨h.s.1, h.ia, h.qi, h.qs⟩

theorem tickF_jf {x : FCfg} (h : TickF a0 x) : JF a0 x :=
  ⟨h.k, h.s, IA.of_none h.int, fun _ => h.int, fun _ => h.stp⟩

/-- an event that is not a wake-up of the stepping task: the frame `QQ` carries the rest -/
theorem jf_of_qf {x y : FCfg} (h : JF a0 x) (q : QF x y) (k : K a0 y) (s : SI y) : JF a0 y := by
  have q' : QQ x.l y.l := q
  have hquiet : PMF.Quiet y.l.c → PMF.Quiet x.l.c := by intro hq; unfold PMF.Quiet at *; rw [q'.pc] at hq; exact hq
  refine ⟨k, s, q'.ia h.ia, ?_, ?_⟩
  · intro hq; rw [q'.int (h.qs (hquiet hq))]; exact h.qi (hquiet hq)
  · intro hq; rw [q'.stepping]; exact h.qs (hquiet hq)

theorem jf_of_old {y : FCfg} (k : K a0 y) (h : Inv10 y.l.c) (hi : y.inState = true) : JF a0 y :=
  ⟨k, ⟨h.s, hi⟩, h.ia, h.qi, h.qs⟩

theorem finishUserF_tick (hA : NA a0 N) (hac : afterClose a0 = false) (hnb : NoTC a0) (x : FCfg) (o : Outcome)
    (hk : K a0 x) (h : SI x) (hq : Hq x.l.c) (hia : IA x.l.c)
    (hqi : (∃ pf, x.l.c.pc = .awaitPaused pf) → x.l.c.interrupt = none) : TickF a0 (finishUserF N x o) := by
  unfold finishUserF
  split
  · rename_i cmd
    have r := cmdToState_tr x.l.c cmd
    have hs : StW x.l.c (cmdToState x.l.c cmd).1 := Or.inl (cmdToState_fields x.l.c cmd).2
    apply endOfStepF_tick hA hac hnb _ _ (K.set hk _ (cmdToState_same2 ..) (fun _ => (cmdToState_fix ..).1))
      ⟨h.1.tr r hs, h.2⟩ (hq.tr r) (hia.of_eq r.interrupt r.actions)
    · intro ⟨pf, hpf⟩
      have hpf' : (cmdToState x.l.c cmd).1.pc = .awaitPaused pf := hpf
      show (cmdToState x.l.c cmd).1.interrupt = none
      rw [r.interrupt]; rw [r.pc] at hpf'; exact hqi ⟨pf, hpf'⟩
    · intro s hs; cases hs; exact cmdToState_target x.l.c cmd
  · exact endOfStepF_tick hA hac hnb x _ hk h hq hia hqi (by intro s hs; cases hs; exact targetOk_excepted ..)

theorem wakeF_tick (hA : NA a0 N) (hac : afterClose a0 = false) (hnb : NoTC a0) (x : FCfg) (fn wf : Nat) (w : WF)
    (hk : K a0 x) (h : SI x) (hq : Hq x.l.c) (hia : IA x.l.c)
    (hqi : (∃ pf, x.l.c.pc = .awaitPaused pf) → x.l.c.interrupt = none)
    (hw : x.l.c.wfs[wf]? = some w) (hne : w ≠ .pending) : TickF a0 (wakeF N x fn wf w) := by
  unfold wakeF
  split
  · exact endOfStepF_tick hA hac hnb x _ hk h hq hia hqi (by intro s hs; cases hs; exact targetOk_running ..)
  · rename_i cookie
    have r := rearm_tr x.l.c wf
    have hs := rearm_invS x.l.c wf h.1 cookie hw
    rw [← rearm_eq] at r hs
    apply endOfStepF_tick hA hac hnb (x.updC fun c => L.rearm c wf) _
      (K.upd hk (fun c => L.rearm c wf) (rearm_same2 ..) (fun ht => rearm_st_term _ _ ht))
      ⟨hs, h.2⟩ (hq.tr r) (hia.of_eq r.interrupt r.actions)
    · intro ⟨pf, hpf⟩
      have hpf' : (L.rearm x.l.c wf).pc = .awaitPaused pf := hpf
      show (L.rearm x.l.c wf).interrupt = none
      rw [r.interrupt]; rw [r.pc] at hpf'; exact hqi ⟨pf, hpf'⟩
    · intro s hs; cases hs
  · exact endOfStepF_tick hA hac hnb x _ hk h hq hia hqi (by intro s hs; cases hs)
  · exact absurd rfl hne

theorem stepBodyKF_jf (hA : NA a0 N) (hac : afterClose a0 = false) (hnb : NoTC a0) (P : Prog) (k : FCfg → FCfg)
    (hk : ∀ d, TickF a0 d → JF a0 (k d)) (x : FCfg) (h : TickF a0 x) : JF a0 (stepBodyKF N P k x) := by
  obtain ⟨hkx, ⟨hs, hin⟩, hq, hint, hstp⟩ := h
  generalize hx1 : (x.updL fun l => { l with c := { l.c with stepping := true }, executing := true }) = x1
  have hc1 : x1.l.c = { x.l.c with stepping := true } := by rw [← hx1]; rfl
  have k1 : K a0 x1 := by rw [← hx1]; exact hkx.fr ⟨⟨rfl, rfl, rfl, rfl, rfl, rfl⟩, Or.inl rfl, rfl, rfl, rfl⟩
  have hs1 : SI x1 := by
    refine ⟨?_, by rw [← hx1]; exact hin⟩
    rw [hc1]; exact ⟨hs.nocrash, hs.aw, hs.ap, hs.pv, hs.wv, hs.tp⟩
  have hq1 : Hq x1.l.c := by rw [hc1]; exact hq
  have hia1 : IA x1.l.c := by rw [hc1]; exact IA.of_none hint
  have hqi1 : (∃ pf, x1.l.c.pc = .awaitPaused pf) → x1.l.c.interrupt = none := fun _ => by rw [hc1]; exact hint
  have hst1 : x1.l.c.st = x.l.c.st := by rw [hc1]
  have e1 : stepBodyKF N P k x =
      (match x1.l.c.st with
      | .created fn => k (endOfStepF N x1 (.next (some (.running fn [] []))))
      | .running fn args kw =>
          let b := P fn args kw x1.l.c.ctx
          let x2 := x1.updC (fun c => { c with trace := { fn := fn, args := args, kw := kw, paused := c.paused.isSome } :: c.trace })
          if b.awaits = 0 then k (finishUserF N x2 b.out) else x2.updC (fun c => { c with pc := .inUser { b with awaits := b.awaits - 1 } })
      | .waiting fn wf _ _ =>
          match x1.l.c.wfs[wf]? with
          | some .pending => x1.updC (fun c => { c with pc := .awaitWaiting wf })
          | some w => k (wakeF N x1 fn wf w)
          | none => x1
      | _ => k (endOfStepF N x1 (.next none))) := by rw [← hx1]; rfl
  rw [e1]
  split
  · exact hk _ (endOfStepF_tick hA hac hnb x1 _ k1 hs1 hq1 hia1 hqi1 (by intro s hs; cases hs; exact targetOk_running ..))
  · rename_i fn args kw hst
    dsimp only
    have k2 : K a0 (x1.updC fun c => { c with trace := { fn := fn, args := args, kw := kw, paused := c.paused.isSome } :: c.trace }) :=
      K.upd k1 _ ⟨rfl, rfl, rfl, rfl, rfl, rfl⟩ (fun _ => rfl)
    split
    · exact hk _ (finishUserF_tick hA hac hnb _ _ k2
        ⟨⟨hs1.1.nocrash, hs1.1.aw, hs1.1.ap, hs1.1.pv, hs1.1.wv, hs1.1.tp⟩, hs1.2⟩ hq1 hia1 hqi1)
    · refine ⟨K.upd k2 _ ⟨rfl, rfl, rfl, rfl, rfl, rfl⟩ (fun _ => rfl),
        ⟨⟨?_, ?_, ?_, hs1.1.pv, hs1.1.wv, ?_⟩, hs1.2⟩, hia1, ?_, ?_⟩
      · intro e h; cases h
      · intro wf h; cases h
      · intro pf h; cases h
      · intro pf h; cases h
      · intro hq; rcases hq with h | ⟨pf, h⟩ <;> cases h
      · intro hq; rcases hq with h | ⟨pf, h⟩ <;> cases h
  · rename_i fn wf wk aw hst
    split
    · rename_i hp
      refine ⟨K.upd k1 _ ⟨rfl, rfl, rfl, rfl, rfl, rfl⟩ (fun _ => rfl),
        ⟨⟨?_, ?_, ?_, hs1.1.pv, hs1.1.wv, ?_⟩, hs1.2⟩, hia1, ?_, ?_⟩
      · intro e h; cases h
      · intro j hj; cases hj
        exact ⟨(List.getElem?_eq_some_iff.mp hp).1, Or.inl ⟨fn, wk, aw, hst⟩⟩
      · intro pf h; cases h
      · intro pf h; cases h
      · intro hq; rcases hq with h | ⟨pf, h⟩ <;> cases h
      · intro hq; rcases hq with h | ⟨pf, h⟩ <;> cases h
    · rename_i w hnp hw
      have hne : w ≠ .pending := by intro h; exact hnp h
      exact hk _ (wakeF_tick hA hac hnb x1 fn wf w k1 hs1 hq1 hia1 hqi1 hw hne)
    · rename_i hnone
      exfalso
      have hlt := hs1.1.wv _ _ _ _ hst
      have hnone' : x1.l.c.wfs[wf]? = none := hnone
      rw [List.getElem?_eq_getElem hlt] at hnone'; cases hnone'
  · exact hk _ (endOfStepF_tick hA hac hnb x1 _ k1 hs1 hq1 hia1 hqi1 (by intro s hs; cases hs))

theorem loopHeadF_jf (hA : NA a0 N) (hac : afterClose a0 = false) (hnb : NoTC a0) (P : Prog) :
    ∀ (fuel : Nat) (x : FCfg), TickF a0 x → JF a0 (loopHeadF N P fuel x) := by
  intro fuel
  induction fuel with
  | zero => intro x h; simpa [loopHeadF] using tickF_jf h
  | succ n ih =>
    intro x h
    have hb := stepBodyKF_jf hA hac hnb P (loopHeadF N P n) ih x h
    have kupd : ∀ pc', K a0 (x.updC fun c => { c with pc := pc' }) := fun _ => K.upd h.k _ ⟨rfl, rfl, rfl, rfl, rfl, rfl⟩ (fun _ => rfl)
    unfold loopHeadF
    split
    · exact tickF_jf h
    · split
      · refine ⟨kupd _, ⟨⟨?_, ?_, ?_, h.s.1.pv, h.s.1.wv, ?_⟩, h.s.2⟩, IA.of_none h.int, fun _ => h.int, fun _ => h.stp⟩
        · intro e h; cases h
        · intro wf h; cases h
        · intro pf h; cases h
        · intro pf h; cases h
      · rename_i hl
        have hl' : terminal x.l.c.st.label = false := by simpa using hl
        split
        · rename_i hcl
          have := ((h.k.kg hnb).1.live hl').2.1
          rw [this] at hcl; cases hcl
        · split
          · rename_i pf hpa
            split
            · refine ⟨kupd _, ⟨⟨?_, ?_, ?_, h.s.1.pv, h.s.1.wv, ?_⟩, h.s.2⟩, IA.of_none h.int, fun _ => h.int, fun _ => h.stp⟩
              · intro e h; cases h
              · intro wf h; cases h
              · intro pf' hp; cases hp
                exact ⟨h.s.1.pv pf hpa, Or.inl hpa⟩
              · intro pf' _ ht
                have ht' : terminal x.l.c.st.label = true := ht
                rw [hl'] at ht'; cases ht'
            · exact hb
          · exact hb

theorem tickStepperF_jf (hA : NA a0 N) (hac : afterClose a0 = false) (hnb : NoTC a0) (P : Prog) (x : FCfg) (h : JF a0 x) :
    JF a0 (tickStepperF N P x) := by
  have kupd : ∀ pc', K a0 (x.updC fun c => { c with pc := pc' }) := fun _ => K.upd h.k _ ⟨rfl, rfl, rfl, rfl, rfl, rfl⟩ (fun _ => rfl)
  unfold tickStepperF
  split
  · rename_i hpc
    exact loopHeadF_jf hA hac hnb P _ x ⟨h.k, h.s, (by intro pf hp; rw [hpc] at hp; cases hp), h.qi (Or.inl hpc), h.qs (Or.inl hpc)⟩
  · rename_i pf hpc
    split
    · rename_i htrue
      have tk : TickF a0 x := ⟨h.k, h.s, (by intro pf' hp; rw [hpc] at hp; cases hp; exact htrue),
        h.qi (Or.inr ⟨pf, hpc⟩), h.qs (Or.inr ⟨pf, hpc⟩)⟩
      have hb : JF a0 (stepBodyF N P fuel0 x) := stepBodyKF_jf hA hac hnb P _ (loopHeadF_jf hA hac hnb P fuel0) x tk
      split
      · rename_i pf' hpa
        split
        · refine ⟨kupd _, ⟨⟨?_, ?_, ?_, h.s.1.pv, h.s.1.wv, ?_⟩, h.s.2⟩, h.ia, fun _ => h.qi (Or.inr ⟨pf, hpc⟩),
            fun _ => h.qs (Or.inr ⟨pf, hpc⟩)⟩
          · intro e h; cases h
          · intro wf h; cases h
          · intro p hp; cases hp
            exact ⟨h.s.1.pv pf' hpa, Or.inl hpa⟩
          · intro p _
            exact h.s.1.tp pf hpc
        · exact hb
      · exact hb
    · exact h
  · rename_i b hpc
    have hqv : Hq x.l.c := by intro pf hp; rw [hpc] at hp; cases hp
    have hqiv : (∃ pf, x.l.c.pc = .awaitPaused pf) → x.l.c.interrupt = none := by
      intro ⟨pf, hp⟩; rw [hpc] at hp; cases hp
    split
    · exact loopHeadF_jf hA hac hnb P _ _ (finishUserF_tick hA hac hnb x b.out h.k h.s hqv h.ia hqiv)
    · refine ⟨kupd _, ⟨⟨?_, ?_, ?_, h.s.1.pv, h.s.1.wv, ?_⟩, h.s.2⟩, h.ia, ?_, ?_⟩
      · intro e h; cases h
      · intro wf h; cases h
      · intro pf h; cases h
      · intro pf h; cases h
      · intro hq; rcases hq with h | ⟨pf, h⟩ <;> cases h
      · intro hq; rcases hq with h | ⟨pf, h⟩ <;> cases h
  · rename_i wf hpc
    have hqv : Hq x.l.c := by intro pf hp; rw [hpc] at hp; cases hp
    have hqiv : (∃ pf, x.l.c.pc = .awaitPaused pf) → x.l.c.interrupt = none := by
      intro ⟨pf, hp⟩; rw [hpc] at hp; cases hp
    split
    · exact h
    · rename_i w hnp hw
      have hne : w ≠ .pending := by intro h; exact hnp h
      exact loopHeadF_jf hA hac hnb P _ _ (wakeF_tick hA hac hnb x _ wf w h.k h.s hqv h.ia hqiv hw hne)
    · exact h
  · exact h

/-! ### the other events -/

theorem tickCbF_jf (hA : NA a0 N) (hac : afterClose a0 = false) (hnb : NoTC a0) (x : FCfg) (cb : Cb) (h : JF a0 x) :
    JF a0 (tickCbF N x cb) := by
  have hkr := tickCbF_K hA.k hac x cb h.k
  unfold tickCbF at hkr ⊢
  by_cases hc : x.l.c.ready.contains cb = true
  · simp only [hc, if_true] at hkr ⊢
    have k1 : K a0 (x.updC fun c => { c with ready := c.ready.erase cb }) :=
      K.upd h.k _ ⟨rfl, rfl, rfl, rfl, rfl, rfl⟩ (fun _ => rfl)
    have h1 : JF a0 (x.updC fun c => { c with ready := c.ready.erase cb }) :=
      jf_of_old k1 (h.old.same rfl rfl rfl rfl rfl rfl rfl rfl) h.s.2
    cases cb with
    | adone f => exact jf_of_old hkr (awaitableDone_inv10 _ _ h1.old) h.s.2
    | trykill =>
      simp only at hkr ⊢
      unfold tryKillingF at hkr ⊢
      have hs2 := killF_s hA.k hA.s hA.q hac hnb _ k1 h1.s
      have k2 := killF_K hA.k hac _ k1
      have h2 := jf_of_qf h1 (killF_qf hA.q _) k2 hs2
      have h3 : JF a0 (toLoop (killF N (x.updC fun c => { c with ready := c.ready.erase Cb.trykill }))) := by
        unfold toLoop; split
        · exact jf_of_old (K.upd k2 _ ⟨rfl, rfl, rfl, rfl, rfl, rfl⟩ (fun _ => rfl))
            (h2.old.same rfl rfl rfl rfl rfl rfl rfl rfl) h2.s.2
        · exact h2
      exact jf_of_old hkr (h3.old.same rfl rfl rfl rfl rfl rfl rfl rfl) h3.s.2
    | usercb raises =>
      cases raises with
      | false => exact h1
      | true =>
        simp only [if_true]
        have hs2 := failF_s hA.k hA.s hA.q hac hnb _ (.user 8) k1 h1.s
        have k2 := failF_K hA.k hac _ (.user 8) k1
        have h2 := jf_of_qf h1 (failF_qf hA.q _ _) k2 hs2
        unfold toLoop; split
        · exact jf_of_old (K.upd k2 _ ⟨rfl, rfl, rfl, rfl, rfl, rfl⟩ (fun _ => rfl))
            (h2.old.same rfl rfl rfl rfl rfl rfl rfl rfl) h2.s.2
        · exact h2
  · simp only [hc] at hkr ⊢
    exact h

/-- every event keeps the invariant -/
theorem stepFN_jf (hA : NA a0 N) (hac : afterClose a0 = false) (hnb : NoTC a0) (P : Prog) (x : FCfg) (ev : Ev) (h : JF a0 x) :
    JF a0 (stepFN N P x ev).1 := by
  have hkr := stepFN_K hA.k hac P x ev h.k
  cases ev <;> simp only [stepFN] at hkr ⊢
  · exact tickStepperF_jf hA hac hnb P x h
  · exact tickCbF_jf hA hac hnb x _ h
  · exact jf_of_qf h (pauseF_qf hA.q x) hkr (pauseF_s hA.k hA.s x h.k h.s)
  · exact jf_of_qf h (playF_qf hA.q x) hkr (playF_s hA.s x h.k h.s)
  · exact jf_of_qf h (killF_qf hA.q x) hkr (killF_s hA.k hA.s hA.q hac hnb x h.k h.s)
  · exact jf_of_old hkr (resume_inv10 x.l.c _ h.old) h.s.2
  · exact jf_of_qf h (failF_qf hA.q x _) hkr (failF_s hA.k hA.s hA.q hac hnb x _ h.k h.s)
  · exact jf_of_old hkr (cancelFut_inv10 x.l.c h.old) h.s.2
  · exact jf_of_old hkr (complete_inv10 x.l.c _ _ h.old) h.s.2
  · exact jf_of_old hkr (h.old.same rfl rfl rfl rfl rfl rfl rfl rfl) h.s.2

end

theorem fireNF_na {a0 : Arm} (hac : afterClose a0 = false) (hnb : NoTC a0) (n : Nat) : NA a0 (fireNF n) :=
  ⟨fireNF_nk hac n, fireNF_ns hac hnb n, fireNF_qf n⟩

theorem stepF_jf {a0 : Arm} (hac : afterClose a0 = false) (hnb : NoTC a0) (P : Prog) (x : FCfg) (ev : Ev) (h : JF a0 x) :
    JF a0 (stepF P x ev).1 := stepFN_jf (fireNF_na hac hnb _) hac hnb P x ev h

/-- **the linking invariant holds in every configuration of a run with an injected fault** (not `on_terminated` / `on_close`) -/
theorem runF_jf {a0 : Arm} (hac : afterClose a0 = false) (hnb : NoTC a0) (P : Prog) (x0 : FCfg) (evs : List Ev) (h : JF a0 x0) :
    JF a0 (runF P x0 evs) := by
  induction evs generalizing x0 with
  | nil => exact h
  | cons e es ih => exact ih _ (stepF_jf hac hnb P x0 e h)

theorem initX_jf (a0 : Arm) (nf : Nat) (plan : Plan) : JF a0 (initX nf plan (some a0)) :=
  jf_of_old (initX_K a0 nf plan) (inv10_init nf) rfl

/-- **`step_until_terminated()` returns after a hook fault**: in every terminated configuration of a run whose injected fault is
not `on_terminated` / `on_close`, finitely many wake-ups end the stepping task normally -/
theorem stepperF_returns_run {a0 : Arm} (hac : afterClose a0 = false) (hnb : NoTC a0) (P : Prog) (nf : Nat) (plan : Plan)
    (evs : List Ev) (ht : terminal (runF P (initX nf plan (some a0)) evs).l.c.st.label = true) :
    ∃ n, (runF P (runF P (initX nf plan (some a0)) evs) (List.replicate n .tick)).l.c.pc = .done := by
  have h := (runF_jf hac hnb P _ evs (initX_jf a0 nf plan)).s.1
  refine stepperF_returns P _ ht h.nocrash ?_ ?_ ?_
  · intro pf pf' hpc hpa
    exact h.tp pf hpc ht pf' hpa
  · intro pf hpc
    rcases (h.ap pf hpc).2 with hp | hp
    · exact h.tp pf hpc ht pf hp
    · exact hp
  · intro wf hpc
    obtain ⟨hlt, hw⟩ := h.aw wf hpc
    rcases hw with ⟨fn, wk, aw, hst⟩ | hn
    · exact absurd hst ((not_live_of_terminal ht).2.2 fn wf wk aw)
    · exact ⟨_, List.getElem?_eq_getElem hlt, by intro hp; rw [List.getElem?_eq_getElem hlt, hp] at hn; exact hn rfl⟩

end FP
end PMF
