import PlumpyModel.Fault.Proof10
/-!
# Fault twins — the control calls and the notification function keep the linking invariant

Inside a transition (where `transition_to` refuses to start another one) the requests keep `InvM`, the state object, `inState`;
outside they keep `InvS` and `inState` (given `K`).  Both are proved of `fireNF n` by induction on the nesting depth (`fireNF_ns`).
-/
namespace PMF
namespace FP
open L

theorem InvM.ar {c c' : Cfg} (h : InvM c) (r : AR c c') : InvM c' := by
  obtain ⟨r1, r2, r3, r4, r5, _, _⟩ := r
  refine ⟨?_, ?_, ?_, ?_, ?_⟩
  · intro e; rw [r1]; exact h.nocrash e
  · intro wf hp; rw [r1] at hp; unfold WOk; rw [r2, r3]; exact h.aw wf hp
  · intro pf hp; rw [r1] at hp; rw [r4, r5]; exact h.ap pf hp
  · unfold PV; rw [r4, r5]; exact h.pv
  · unfold WV; rw [r2, r3]; exact h.wv

theorem doPauseHooks_invM (c : Cfg) (h : InvM c) (hq : Hq c) : InvM (doPauseHooks c) := by
  refine ⟨h.nocrash, h.aw, ?_, ?_, h.wv⟩
  · intro pf hp
    have h1 : c.pfs[pf]? = some true := hq pf hp
    have hlt : pf < c.pfs.length := (List.getElem?_eq_some_iff.mp h1).1
    refine ⟨?_, Or.inr ?_⟩
    · show pf < (c.pfs ++ [false]).length
      simp; omega
    · exact (MonoP.append c.pfs false).2 pf h1
  · intro pf hp
    have h1 : some c.pfs.length = some pf := hp
    cases h1
    show c.pfs.length < (c.pfs ++ [false]).length
    simp

theorem invM_unpause {c d : Cfg} (h : InvM c) (pf : Nat) (hpa : c.paused = some pf) (h1 : d.pc = c.pc) (h2 : d.st = c.st)
    (h3 : d.wfs = c.wfs) (h7 : d.paused = none) (h8 : MonoP c.pfs d.pfs) (h9 : d.pfs[pf]? = some true) : InvM d := by
  refine ⟨?_, ?_, ?_, ?_, ?_⟩
  · intro e; rw [h1]; exact h.nocrash e
  · intro wf hp; rw [h1] at hp; unfold WOk; rw [h2, h3]; exact h.aw wf hp
  · intro p hp; rw [h1] at hp
    obtain ⟨a, b⟩ := h.ap p hp
    refine ⟨Nat.lt_of_lt_of_le a h8.1, Or.inr ?_⟩
    rcases b with b | b
    · rw [hpa] at b; cases b; exact h9
    · exact h8.2 p b
  · intro p hp; rw [h7] at hp; cases hp
  · unfold WV; rw [h2, h3]; exact h.wv

theorem play_invM (c : Cfg) (h : InvM c) : InvM (play c).1 := by
  unfold play
  split
  · split
    · rename_i i _
      have a : AR c { cancelAction c i with pausing := none } :=
        AR.trans (cancelAction_ar c i) ⟨rfl, rfl, rfl, rfl, rfl, rfl, rfl⟩
      exact h.ar a
    · exact h
  · rename_i pf hpa
    dsimp only
    have hlt := h.pv pf hpa
    split
    · exact invM_unpause h pf hpa rfl rfl rfl rfl (MonoP.set_true _ _) (by simp [setAt, hlt])
    · rename_i hnf
      have h9 : c.pfs[pf]? = some true := by
        rw [List.getElem?_eq_getElem hlt] at hnf ⊢
        cases hb : c.pfs[pf] with
        | true => rfl
        | false => rw [hb] at hnf; exact absurd rfl hnf
      exact invM_unpause h pf hpa rfl rfl rfl rfl (MonoP.rfl' _) h9

theorem requestL_invM (l : LCfg) (k : AKind) (h : InvM l.c) : InvM (requestL l k) := by
  have h0 : InvM { l.c with nextCookie := l.c.nextCookie + 1 } := ⟨h.nocrash, h.aw, h.ap, h.pv, h.wv⟩
  have a := setInterruptFromExc_ar { l.c with nextCookie := l.c.nextCookie + 1 } k l.c.nextCookie
  unfold requestL; split
  · unfold requestInterrupt
    exact (h0.ar a).tr (interruptState_tr _ _) (Or.inl (interruptState_st _ _))
  · exact h0.ar a

theorem hq_of_unpaused {c : Cfg} (h : InvM c) (hpa : c.paused = none) : Hq c := by
  intro pf hp
  rcases (h.ap pf hp).2 with h1 | h1
  · rw [hpa] at h1; cases h1
  · exact h1

section
variable {a0 : Arm} {N : Hook → FCfg → FCfg}

/-! ### inside a transition -/

/-- what holds of a request made while a transition is in progress -/
def MI (x y : FCfg) : Prop :=
  InvM y.l.c ∧ y.l.c.st = x.l.c.st ∧ y.inState = x.inState ∧ y.l.trans = x.l.trans

theorem doPauseF_mi (hS : NS a0 N) (x : FCfg) (h : InvM x.l.c) (hq : Hq x.l.c) (htr : x.l.trans.isSome = true) :
    MI x (doPauseF N x).1 := by
  have fin : ∀ y : FCfg, MI x y → MI x (y.updC fun c => { c with pausing := none }) := by
    intro y ⟨h1, h2, h3, h4⟩
    exact ⟨⟨h1.nocrash, h1.aw, h1.ap, h1.pv, h1.wv⟩, h2, h3, h4⟩
  have hbase : ∀ x', Like x x' → MI x (pausedBaseF N x').1 := by
    intro x' ⟨a1, a2⟩
    unfold pausedBaseF
    have h1 : InvM (x'.updC doPauseHooks).l.c := by rw [updC_l, upd_c, a1]; exact doPauseHooks_invM _ h hq
    have htr1 : (x'.updC doPauseHooks).l.trans.isSome = true := by rw [updC_l, upd_trans, a1]; exact htr
    obtain ⟨m1, m2, m3⟩ := hS.mst .paused _ htr1 h1
    exact ⟨hS.m _ _ htr1 h1, m1.trans (by rw [updC_l, upd_c, a1]; rfl), m2.trans a2, m3.trans (by rw [updC_l, upd_trans, a1])⟩
  have e1 : doPauseF N x = ((bind (hookF .onPausing ok x) fun x => hookF .onPaused (pausedBaseF N) x).1.updC
      (fun c => { c with pausing := none }), (bind (hookF .onPausing ok x) fun x => hookF .onPaused (pausedBaseF N) x).2) := rfl
  rw [e1]
  apply fin
  have hx : MI x x := ⟨h, rfl, rfl, rfl⟩
  have like : ∀ y y' : FCfg, Like y y' → MI x y → MI x y' := fun y y' ⟨l1, l2⟩ ⟨m1, m2, m3, m4⟩ =>
    ⟨by rw [l1]; exact m1, by rw [l1]; exact m2, l2.trans m3, by rw [l1]; exact m4⟩
  have h1 : Like x (hookF .onPausing ok x).1 := by
    rcases hookF_shape .onPausing ok x with ⟨hl, _⟩ | ⟨x', hl, hb, _⟩
    · exact hl
    · exact hl.trans' hb
  generalize hookF .onPausing ok x = r at h1
  obtain ⟨y, e⟩ := r
  cases e with
  | some e => rw [bind_err]; exact like x y h1 hx
  | none =>
    rw [bind_ok]
    rcases hookF_shape .onPaused (pausedBaseF N) y with ⟨hl, _⟩ | ⟨x', hl, hb, _⟩
    · exact like x _ (h1.trans' hl) hx
    · exact like _ _ hb (hbase x' (h1.trans' hl))

theorem pauseF_mi (hS : NS a0 N) (x : FCfg) (h : InvM x.l.c) (htr : x.l.trans.isSome = true) : MI x (pauseF N x).1 := by
  have hx : MI x x := ⟨h, rfl, rfl, rfl⟩
  unfold pauseF; dsimp only
  split
  · exact hx
  · split
    · exact hx
    · rename_i hnp
      split
      · exact ⟨h.tr (hand_tr _ _) (Or.inl (hand_ctl _ _).2), (hand_ctl _ _).2, rfl, rfl⟩
      · split
        · exact hx
        · split
          · have h1 : InvM { requestL x.l .pause with pausing := (requestL x.l .pause).interrupt } := by
              have := requestL_invM x.l .pause h
              exact ⟨this.nocrash, this.aw, this.ap, this.pv, this.wv⟩
            have hst : ({ requestL x.l .pause with pausing := (requestL x.l .pause).interrupt } : Cfg).st = x.l.c.st :=
              requestL_st x.l .pause
            split
            · exact ⟨h1.tr (hand_tr _ _) (Or.inl (hand_ctl _ _).2), (hand_ctl _ _).2.trans hst, rfl, rfl⟩
            · exact ⟨h1, hst, rfl, rfl⟩
          · rw [retOf_fst]
            have hpa : x.l.c.paused = none := by
              cases hpa : x.l.c.paused with
              | none => rfl
              | some pf => simp [hpa] at hnp
            exact doPauseF_mi hS x h (hq_of_unpaused h hpa) htr

theorem playF_mi (hS : NS a0 N) (x : FCfg) (h : InvM x.l.c) (htr : x.l.trans.isSome = true) : MI x (playF N x).1 := by
  have hx : MI x x := ⟨h, rfl, rfl, rfl⟩
  have like : ∀ y y' : FCfg, Like y y' → MI x y → MI x y' := fun y y' ⟨l1, l2⟩ ⟨m1, m2, m3, m4⟩ =>
    ⟨by rw [l1]; exact m1, by rw [l1]; exact m2, l2.trans m3, by rw [l1]; exact m4⟩
  unfold playF
  split
  · exact ⟨play_invM _ h, play_st _, rfl, rfl⟩
  · rw [retOf_fst]
    rcases hookF_shape .onPlaying (playingBaseF N) x with ⟨hl, _⟩ | ⟨x', ⟨a1, a2⟩, hb, _⟩
    · exact like x _ hl hx
    · refine like _ _ hb ?_
      unfold playingBaseF
      have h1 : InvM (x'.updC fun c => (play c).1).l.c := by rw [updC_l, upd_c, a1]; exact play_invM _ h
      have htr1 : (x'.updC fun c => (play c).1).l.trans.isSome = true := by rw [updC_l, upd_trans, a1]; exact htr
      obtain ⟨m1, m2, m3⟩ := hS.mst .played _ htr1 h1
      exact ⟨hS.m _ _ htr1 h1, m1.trans (by rw [updC_l, upd_c, a1]; exact play_st _), m2.trans a2,
        m3.trans (by rw [updC_l, upd_trans, a1])⟩

theorem killF_mi (x : FCfg) (h : InvM x.l.c) (htr : x.l.trans.isSome = true) : MI x (killF N x).1 := by
  have hx : MI x x := ⟨h, rfl, rfl, rfl⟩
  unfold killF; dsimp only
  split
  · exact hx
  · split
    · exact hx
    · split
      · exact ⟨h.tr (hand_tr _ _) (Or.inl (hand_ctl _ _).2), (hand_ctl _ _).2, rfl, rfl⟩
      · split
        · have h1 : InvM { requestL x.l .kill with killing := (requestL x.l .kill).interrupt } := by
            have := requestL_invM x.l .kill h
            exact ⟨this.nocrash, this.aw, this.ap, this.pv, this.wv⟩
          have hst : ({ requestL x.l .kill with killing := (requestL x.l .kill).interrupt } : Cfg).st = x.l.c.st :=
            requestL_st x.l .kill
          split
          · exact ⟨h1.tr (hand_tr _ _) (Or.inl (hand_ctl _ _).2), (hand_ctl _ _).2.trans hst, rfl, rfl⟩
          · exact ⟨h1, hst, rfl, rfl⟩
        · rw [retOf_fst]
          unfold transitionToF
          simp only [htr, if_true]
          exact hx

theorem logRep_like (q : Req) (r : FCfg × RetV) : Like r.1 (logRep q r) := by
  unfold logRep; split <;> exact ⟨rfl, rfl⟩

theorem reqKF_mi (hS : NS a0 N) (q : Req) (x : FCfg) (h : InvM x.l.c) (htr : x.l.trans.isSome = true) : MI x (reqKF N q x) := by
  have like : ∀ y y' : FCfg, Like y y' → MI x y → MI x y' := fun y y' ⟨l1, l2⟩ ⟨m1, m2, m3, m4⟩ =>
    ⟨by rw [l1]; exact m1, by rw [l1]; exact m2, l2.trans m3, by rw [l1]; exact m4⟩
  cases q
  · exact like _ _ (logRep_like _ _) (pauseF_mi hS x h htr)
  · exact like _ _ (logRep_like _ _) (playF_mi hS x h htr)
  · exact like _ _ (logRep_like _ _) (killF_mi x h htr)

/-! ### outside a transition -/

/-- the linking invariant and "the current state is entered" -/
def SI (y : FCfg) : Prop := InvS y.l.c ∧ y.inState = true

theorem SI.like {y y' : FCfg} (h : SI y) (hl : y'.l = y.l) (hi : y'.inState = y.inState) : SI y' :=
  ⟨by rw [hl]; exact h.1, hi.trans h.2⟩

/-- a pause / play hook keeps `SI` if its base implementation does -/
theorem hookF_si (hk : HK) (hnm : mainHK hk = false) (base : FCfg → Res)
    (x : FCfg) (hbase : ∀ x', x'.l = x.l → K a0 x' → SI x' → SI (base x').1) (hkx : K a0 x) (h : SI x) :
    SI (hookF hk base x).1 := by
  rcases hookF_cases hk base x hkx.arm with ⟨_, _, _, _, y, hy, h1, _, _, _, h5⟩ | ⟨x', hl, hf, _, hao, han, hcase⟩
  · rw [hy]; exact h.like h1 h5
  · have hx' : K a0 x' := hkx.of_armok hl hao hf
    have hb := hbase x' hl hx' (h.like hl han.2)
    rcases hcase with ⟨_, _, _, _, _, hcase⟩ | hcase
    · rcases hcase with ⟨y, yy, e, hb', hy, huu, _⟩ | ⟨y, y', hb', hy, hu1, _, _, _, hu5⟩
      · rw [hy]; rw [hb'] at hb; exact hb.like huu.1 huu.2.2.2
      · rw [hy]; rw [hb'] at hb; exact hb.like hu1 hu5
    · rcases hcase with ⟨y, yy, e, hb', hy, huu, _⟩ | ⟨y, y', e, hb', hy, _, hu, _, _⟩
      · rw [hy]; rw [hb'] at hb; exact hb.like huu.1 huu.2.2.2
      · rw [hy]; rw [hb'] at hb; exact hb.like hu.1 hu.2.2.2

theorem doPauseF_s (hN : NK a0 N) (hS : NS a0 N) (x : FCfg) (hk : K a0 x) (h : SI x) (hq : Hq x.l.c)
    (hl : ∀ pf, x.l.c.pc = .awaitPaused pf → terminal x.l.c.st.label = false) : SI (doPauseF N x).1 := by
  have e1 : doPauseF N x = ((bind (hookF .onPausing ok x) fun x => hookF .onPaused (pausedBaseF N) x).1.updC
      (fun c => { c with pausing := none }), (bind (hookF .onPausing ok x) fun x => hookF .onPaused (pausedBaseF N) x).2) := rfl
  rw [e1]
  have fin : ∀ y : FCfg, SI y → SI (y.updC fun c => { c with pausing := none }) := by
    intro y ⟨h1, h2⟩
    exact ⟨⟨h1.nocrash, h1.aw, h1.ap, h1.pv, h1.wv, h1.tp⟩, h2⟩
  apply fin
  -- `on_pausing`: nothing happens to the `LCfg` part
  have k1 : K a0 (hookF .onPausing ok x).1 := hookF_K .onPausing rfl ok (fun x' hx' => hx') x hk
  have s1 : SI (hookF .onPausing ok x).1 ∧ (hookF .onPausing ok x).1.l = x.l := by
    rcases hookF_cases .onPausing ok x hk.arm with ⟨_, _, _, _, y, hy, h1, _, _, _, h5⟩ | ⟨x', hl', _, _, _, han, hcase⟩
    · rw [hy]; exact ⟨h.like h1 h5, h1⟩
    · rcases hcase with ⟨_, _, _, _, _, hcase⟩ | hcase
      · rcases hcase with ⟨y, yy, e, hb', _⟩ | ⟨y, y', hb', hy, hu1, _, _, _, hu5⟩
        · cases hb'
        · have : y = x' := by cases hb'; rfl
          rw [hy]; subst this
          exact ⟨h.like (hu1.trans hl') (hu5.trans han.2), hu1.trans hl'⟩
      · rcases hcase with ⟨y, yy, e, hb', _⟩ | ⟨y, y', e, hb', hy, _, hu, _, _⟩
        · cases hb'
        · have : y = x' := by cases hb'; rfl
          rw [hy]; subst this
          exact ⟨h.like (hu.1.trans hl') (hu.2.2.2.trans han.2), hu.1.trans hl'⟩
  generalize hookF .onPausing ok x = r at k1 s1
  obtain ⟨y, e⟩ := r
  cases e with
  | some e => exact s1.1
  | none =>
    rw [bind_ok]
    refine hookF_si .onPaused rfl (pausedBaseF N) y (fun x' hl' hx' hs' => ?_) k1 s1.1
    unfold pausedBaseF
    have hlx : x'.l = x.l := hl'.trans s1.2
    have h1 : InvS (x'.updC doPauseHooks).l.c := by
      rw [updC_l, upd_c]
      exact doPauseHooks_invS _ hs'.1 (by rw [hlx]; exact hq) (by rw [hlx]; exact hl)
    exact hS.s _ _ (hx'.fr (Fr.updC x' doPauseHooks (doPauseHooks_same2 _) rfl)) h1 hs'.2

theorem pauseF_s (hN : NK a0 N) (hS : NS a0 N) (x : FCfg) (hk : K a0 x) (h : SI x) : SI (pauseF N x).1 := by
  unfold pauseF; dsimp only
  split
  · exact h
  · rename_i hnt
    split
    · exact h
    · rename_i hnp
      split
      · exact ⟨h.1.tr (hand_tr _ _) (Or.inl (hand_ctl _ _).2), h.2⟩
      · split
        · exact h
        · split
          · have h1 : InvS { requestL x.l .pause with pausing := (requestL x.l .pause).interrupt } := by
              have := requestL_invS x.l .pause h.1
              exact ⟨this.nocrash, this.aw, this.ap, this.pv, this.wv, this.tp⟩
            split
            · exact ⟨h1.tr (hand_tr _ _) (Or.inl (hand_ctl _ _).2), h.2⟩
            · exact ⟨h1, h.2⟩
          · rw [retOf_fst]
            have hpa : x.l.c.paused = none := by
              cases hpa : x.l.c.paused with
              | none => rfl
              | some pf => simp [hpa] at hnp
            have hl : terminal x.l.c.st.label = false := by simpa using hnt
            exact doPauseF_s hN hS x hk h (hq_of_unpaused (InvM.of_s h.1) hpa) (fun _ _ => hl)

theorem playF_s (hS : NS a0 N) (x : FCfg) (hk : K a0 x) (h : SI x) : SI (playF N x).1 := by
  unfold playF
  split
  · exact ⟨play_invS _ h.1, h.2⟩
  · rw [retOf_fst]
    refine hookF_si .onPlaying rfl (playingBaseF N) x (fun x' _ hx' hs' => ?_) hk h
    unfold playingBaseF
    exact hS.s _ _ (hx'.fr (Fr.updC x' _ (play_same2 _) (play_st _))) (play_invS _ hs'.1) hs'.2

theorem killF_s (hN : NK a0 N) (hS : NS a0 N) (hq : FQF N) (hac : afterClose a0 = false) (hnb : NoTC a0)
    (x : FCfg) (hk : K a0 x) (h : SI x) : SI (killF N x).1 := by
  unfold killF; dsimp only
  split
  · exact h
  · split
    · exact h
    · rename_i _ hnt
      split
      · exact ⟨h.1.tr (hand_tr _ _) (Or.inl (hand_ctl _ _).2), h.2⟩
      · split
        · have h1 : InvS { requestL x.l .kill with killing := (requestL x.l .kill).interrupt } := by
            have := requestL_invS x.l .kill h.1
            exact ⟨this.nocrash, this.aw, this.ap, this.pv, this.wv, this.tp⟩
          split
          · exact ⟨h1.tr (hand_tr _ _) (Or.inl (hand_ctl _ _).2), h.2⟩
          · exact ⟨h1, h.2⟩
        · rw [retOf_fst]
          obtain ⟨r1, r2, _⟩ := transitionToF_s hN hS hq hac hnb x .killed hk h.1 h.2 (by simpa using hnt) (targetOk_killed _)
          exact ⟨r1, r2⟩

theorem failF_s (hN : NK a0 N) (hS : NS a0 N) (hq : FQF N) (hac : afterClose a0 = false) (hnb : NoTC a0)
    (x : FCfg) (e : Exc) (hk : K a0 x) (h : SI x) : SI (failF N x e).1 := by
  unfold failF
  split
  · exact h
  · rename_i hnt
    rw [retOf_fst]
    obtain ⟨r1, r2, _⟩ := transitionToF_s hN hS hq hac hnb x (.excepted e) hk h.1 h.2 (by simpa using hnt) (targetOk_excepted _ _)
    exact ⟨r1, r2⟩

theorem reqKF_s (hN : NK a0 N) (hS : NS a0 N) (hq : FQF N) (hac : afterClose a0 = false) (hnb : NoTC a0)
    (q : Req) (x : FCfg) (hk : K a0 x) (h : SI x) : SI (reqKF N q x) := by
  cases q
  · exact (pauseF_s hN hS x hk h).like (logRep_like _ _).1 (logRep_like _ _).2
  · exact (playF_s hS x hk h).like (logRep_like _ _).1 (logRep_like _ _).2
  · exact (killF_s hN hS hq hac hnb x hk h).like (logRep_like _ _).1 (logRep_like _ _).2

end

/-! ### the notification function of the model -/

theorem fireKF_mi {a0 : Arm} (R : Req → FCfg → FCfg)
    (hR : ∀ q x, InvM x.l.c → x.l.trans.isSome = true → MI x (R q x)) (h : Hook) (x : FCfg) (hx : InvM x.l.c)
    (htr : x.l.trans.isSome = true) : MI x (fireKF R h x) := by
  have _ := a0
  unfold fireKF; dsimp only
  have h1 : MI x (x.updL fun l => { l with cnt := bump l.cnt h }) := ⟨hx, rfl, rfl, rfl⟩
  split
  · exact h1
  · split
    · exact h1
    · exact hR _ _ hx htr

theorem fireKF_s {a0 : Arm} (R : Req → FCfg → FCfg) (hR : ∀ q x, K a0 x → SI x → SI (R q x)) (h : Hook) (x : FCfg)
    (hk : K a0 x) (hx : SI x) : SI (fireKF R h x) := by
  unfold fireKF; dsimp only
  have k1 : K a0 (x.updL fun l => { l with cnt := bump l.cnt h }) := hk.fr (Fr.updL' x _ rfl rfl)
  have h1 : SI (x.updL fun l => { l with cnt := bump l.cnt h }) := hx
  split
  · exact h1
  · split
    · exact h1
    · exact hR _ _ (k1.fr (Fr.updL' _ _ rfl rfl)) h1

/-- **the notification function of the model keeps the linking invariant** (for a fault that is not `on_terminated` / `on_close`) -/
theorem fireNF_ns {a0 : Arm} (hac : afterClose a0 = false) (hnb : NoTC a0) : ∀ n, NS a0 (fireNF n)
  | 0 => ⟨fun _ _ _ hx => hx, fun _ _ _ _ => ⟨rfl, rfl, rfl⟩, fun _ _ _ hs hi => ⟨hs, hi⟩⟩
  | n+1 => by
    have ih := fireNF_ns hac hnb n
    refine ⟨fun h x htr hx => ?_, fun h x htr hx => ?_, fun h x hk hs hi => ?_⟩
    · unfold fireNF
      exact (fireKF_mi (a0 := a0) _ (fun q x hx htr => reqKF_mi ih q x hx htr) h x hx htr).1
    · unfold fireNF
      exact (fireKF_mi (a0 := a0) _ (fun q x hx htr => reqKF_mi ih q x hx htr) h x hx htr).2
    · unfold fireNF
      exact fireKF_s _ (fun q x hk hs => reqKF_s (fireNF_nk hac n) ih (fireNF_qf n) hac hnb q x hk hs) h x hk ⟨hs, hi⟩

end FP
end PMF
