import PlumpyModel.Fault.Proof8
/-!
# Fault twins — what no hook, no notification and no transition ever touches (`QQ` of `PM/LProof16.lean`)

The program counter of the stepping task and `_stepping` are untouched, the future heaps only grow and only get completed, the
interrupt-action slot is untouched unless a step is in progress, and the slot never holds an action that already ran — for every
twin below the closing part of a step, whether or not the fault fires in it.
-/
namespace PMF
namespace FP
open L

/-- the frame `QQ` between the `LCfg` parts -/
def QF (x y : FCfg) : Prop := QQ x.l y.l

theorem QF.rfl' (x : FCfg) : QF x x := QQ.rfl' _
theorem QF.trans' {x y z : FCfg} (h1 : QF x y) (h2 : QF y z) : QF x z := QQ.trans h1 h2
theorem QF.of_l {x y : FCfg} (h : y.l = x.l) : QF x y := by unfold QF; rw [h]; exact QQ.rfl' _
theorem QF.updC (x : FCfg) (f : Cfg → Cfg) (r : TR x.l.c (f x.l.c)) : QF x (x.updC f) := QQ.upd_tr x.l f r
theorem QF.updL (x : FCfg) (f : LCfg → LCfg) (h : (f x.l).c = x.l.c) : QF x (x.updL f) := QQ.same h

def FQF (N : Hook → FCfg → FCfg) : Prop := ∀ h x, QF x (N h x)

/-- a hook keeps the frame if its base implementation does -/
theorem hookF_qf (hk : HK) (base : FCfg → Res) (hb : ∀ x', QF x' (base x').1) (x : FCfg) : QF x (hookF hk base x).1 := by
  have hsup : ∀ x' : FCfg, QF x' (supF hk base x').1 := by
    intro x'
    unfold supF
    split
    · exact QF.trans' (QF.of_l rfl : QF x' { x' with called := x'.called - 1 }) (hb _)
    · have := hb x'
      generalize base x' = r at this
      obtain ⟨y, e⟩ := r
      cases e <;> exact this
  unfold hookF
  dsimp only
  split
  · exact QF.of_l rfl
  · have := hsup { x with called := x.called + 1, arm := (armStep hk x.arm).2 }
    generalize supF hk base { x with called := x.called + 1, arm := (armStep hk x.arm).2 } = r at this
    obtain ⟨y, e⟩ := r
    have h0 : QF x y := QF.trans' (QF.of_l rfl) this
    cases e with
    | some e => exact h0
    | none =>
      dsimp only
      split
      · exact h0
      · split <;> exact h0

theorem hookOpt_qf (hk : Option HK) (base : FCfg → Res) (hb : ∀ x', QF x' (base x').1) (x : FCfg) :
    QF x (hookOpt hk base x).1 := by
  unfold hookOpt; split
  · exact hookF_qf _ base hb x
  · exact hb x

theorem bind_qf {x : FCfg} {r : Res} {k : FCfg → Res} (h1 : QF x r.1) (hk : ∀ y, QF y (k y).1) : QF x (bind r k).1 := by
  obtain ⟨y, e⟩ := r
  cases e with
  | none => rw [bind_ok]; exact h1.trans' (hk y)
  | some e => exact h1

theorem closeF_qf (x : FCfg) : QF x (closeF x).1 := by
  unfold closeF; split
  · exact QF.rfl' x
  · exact hookF_qf _ _ (fun x' => QF.updC x' _ (onClose_tr _)) x

theorem terminatedF_qf (x : FCfg) : QF x (terminatedF x).1 := by
  unfold terminatedF
  exact hookF_qf _ _ (fun x' => by unfold termBaseF; exact (QF.updC x' _ (releasePause_tr _)).trans' (closeF_qf _)) x

section
variable {N : Hook → FCfg → FCfg}

theorem enteredHooksF_qf (hN : FQF N) (x : FCfg) (s : SObj) : QF x (enteredHooksF N x s).1 := by
  unfold enteredHooksF
  refine hookOpt_qf _ _ (fun x' => ?_) x
  unfold enteredBaseF; dsimp only [ok]
  have h1 : QF x' (x'.updC fun c => enteredHooks c s) := QF.updC x' _ (enteredHooks_tr _ _)
  split
  · exact h1.trans' (hN _ _)
  · exact h1

theorem lateExitF_qf (x : FCfg) : QF x (lateExitF x) := by
  unfold lateExitF; split
  · exact QF.updC x _ (exitState_tr _)
  · exact QF.rfl' x

theorem forceExceptedF_qf (hN : FQF N) (x : FCfg) (e : Exc) : QF x (forceExceptedF N x e).1 := by
  unfold forceExceptedF
  split
  · exact QF.updC x _ (TR.of_eq rfl rfl rfl rfl rfl rfl rfl)
  · dsimp only
    refine bind_qf ?_ (fun y => terminatedF_qf y)
    refine QF.trans' ?_ (enteredHooksF_qf hN _ _)
    refine QF.trans' ?_ (QF.updC _ _ (setState_tr _ _) : QF _ ((N Hook.entering _).updC fun c => setState c (.excepted e)))
    refine QF.trans' ?_ (hN _ _)
    refine QF.trans' ?_ (QF.updC _ _ (setFutExc_tr _ e))
    exact QF.trans' (QF.updL x _ rfl) (lateExitF_qf _)

theorem enterNextF_qf (hN : FQF N) (x : FCfg) (s : SObj) : QF x (enterNextF N x s).1 := by
  unfold enterNextF; dsimp only
  refine bind_qf ?_ (fun y => by split; exact terminatedF_qf y; exact QF.rfl' y)
  have h1 : QF x ({ x.updC fun c => setState (enterState c s) s with inState := true } : FCfg) :=
    QQ.upd_tr x.l _ (TR.trans (enterState_tr _ _) (setState_tr _ _))
  exact h1.trans' (enteredHooksF_qf hN _ _)

theorem exitOnceF_qf (hN : FQF N) (x : FCfg) : QF x (exitOnceF N x).1 := by
  unfold exitOnceF
  refine bind_qf (hookOpt_qf _ _ (fun x' => QF.rfl' x') x) (fun y => ?_)
  exact QF.trans' (hN _ _) (QF.updC _ _ (exitState_tr _) : QF (N Hook.exiting y) ((N Hook.exiting y).updC exitState))

theorem exitPhaseF_qf (hN : FQF N) (x : FCfg) (s : SObj) : QF x (exitPhaseF N x s).1 := by
  unfold exitPhaseF
  refine bind_qf (exitOnceF_qf hN x) (fun y => ?_)
  split
  · exact exitOnceF_qf hN y
  · exact QF.rfl' y

theorem enteringF_qf (hN : FQF N) (x : FCfg) (s : SObj) : QF x (enteringF N x s).1 := by
  unfold enteringF
  refine bind_qf (hookOpt_qf _ _ (fun x' => ?_) x) (fun y => hN _ _)
  unfold enteringBaseF
  split
  · exact QF.rfl' x'
  · rename_i c2 hok
    exact QQ.of_tr (enteringHooks_tr _ c2 s hok)

theorem tryTransitionF_qf (hN : FQF N) (x : FCfg) (s : SObj) : QF x (tryTransitionF N x s).1 := by
  unfold tryTransitionF
  split
  · split
    · exact QF.updC x _ (TR.trans (exitState_tr x.l.c) (TR.of_eq rfl rfl rfl rfl rfl rfl rfl))
    · exact bind_qf (exitPhaseF_qf hN x s) (fun y => bind_qf (enteringF_qf hN y s) (fun z => enterNextF_qf hN z s))
  · exact QF.rfl' x

theorem transitionToF_qf (hN : FQF N) (x : FCfg) (s : SObj) : QF x (transitionToF N x s).1 := by
  unfold transitionToF
  split
  · exact QF.rfl' x
  · dsimp only
    refine QF.trans' ?_ (QF.updL _ _ rfl)
    have h1 := tryTransitionF_qf hN (x.updL fun l => { l with trans := some s.label }) s
    generalize tryTransitionF N (x.updL fun l => { l with trans := some s.label }) s = r at h1
    obtain ⟨y, e⟩ := r
    have h0 : QF x y := QF.trans' (QF.updL x _ rfl) h1
    cases e with
    | none => exact h0
    | some e => exact h0.trans' (forceExceptedF_qf hN y e)

theorem doPauseF_qf (hN : FQF N) (x : FCfg) : QF x (doPauseF N x).1 := by
  unfold doPauseF; dsimp only
  refine QF.trans' ?_ (QF.updC _ _ (TR.of_eq rfl rfl rfl rfl rfl rfl rfl))
  refine bind_qf (hookF_qf _ _ (fun x' => QF.rfl' x') x) (fun y => hookF_qf _ _ (fun x' => ?_) y)
  unfold pausedBaseF
  exact QF.trans' (show QF x' (x'.updC doPauseHooks) from doPauseHooks_qq x'.l) (hN _ _)

theorem pauseF_qf (hN : FQF N) (x : FCfg) : QF x (pauseF N x).1 := by
  unfold pauseF; dsimp only
  split
  · exact QF.rfl' x
  · split
    · exact QF.rfl' x
    · split
      · exact QF.updC x _ (hand_tr _ _)
      · split
        · exact QF.rfl' x
        · split
          · rename_i hs
            have h1 := requestL_qq x.l .pause (fun _ => (requestL x.l .pause).interrupt) id hs
            split
            · exact QQ.trans h1 (QQ.of_tr (hand_tr _ _))
            · exact h1
          · rw [retOf_fst]; exact doPauseF_qf hN x

theorem playF_qf (hN : FQF N) (x : FCfg) : QF x (playF N x).1 := by
  unfold playF
  split
  · exact play_qq x.l
  · rw [retOf_fst]
    refine hookF_qf _ _ (fun x' => ?_) x
    unfold playingBaseF
    exact QF.trans' (show QF x' (x'.updC fun c => (play c).1) from play_qq x'.l) (hN _ _)

theorem killF_qf (hN : FQF N) (x : FCfg) : QF x (killF N x).1 := by
  unfold killF; dsimp only
  split
  · exact QF.rfl' x
  · split
    · exact QF.rfl' x
    · split
      · exact QF.updC x _ (hand_tr _ _)
      · split
        · rename_i hs
          have h1 := requestL_qq x.l .kill id (fun _ => (requestL x.l .kill).interrupt) hs
          split
          · exact QQ.trans h1 (QQ.of_tr (hand_tr _ _))
          · exact h1
        · rw [retOf_fst]; exact transitionToF_qf hN x _

theorem failF_qf (hN : FQF N) (x : FCfg) (e : Exc) : QF x (failF N x e).1 := by
  unfold failF; split
  · exact QF.rfl' x
  · rw [retOf_fst]; exact transitionToF_qf hN x _

theorem logRep_qf {x : FCfg} (q : Req) (r : FCfg × RetV) (h : QF x r.1) : QF x (logRep q r) := by
  unfold logRep; split
  · exact h.trans' (QF.of_l rfl)
  · exact h

theorem reqKF_qf (hN : FQF N) (q : Req) (x : FCfg) : QF x (reqKF N q x) := by
  cases q
  · exact logRep_qf _ _ (pauseF_qf hN x)
  · exact logRep_qf _ _ (playF_qf hN x)
  · exact logRep_qf _ _ (killF_qf hN x)
end

theorem fireKF_qf {R : Req → FCfg → FCfg} (hR : ∀ q x, QF x (R q x)) (h : Hook) (x : FCfg) : QF x (fireKF R h x) := by
  unfold fireKF; dsimp only
  have h1 : QF x (x.updL fun l => { l with cnt := bump l.cnt h }) := QF.updL x _ rfl
  split
  · exact h1
  · split
    · exact h1
    · exact (h1.trans' (QF.updL _ _ rfl)).trans' (hR _ _)

theorem fireNF_qf : ∀ n, FQF (fireNF n)
  | 0 => fun _ x => QF.updL x _ rfl
  | n+1 => fun h x => by
    unfold fireNF
    exact fireKF_qf (fun q x => reqKF_qf (fireNF_qf n) q x) h x

end FP
end PMF
