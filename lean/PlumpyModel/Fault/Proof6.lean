import PlumpyModel.PM.LProof16
import PlumpyModel.PM.LProof13
/-!
# Faults in user code that is not a lifecycle hook, on the process-control model with listeners itself

A step function (or an `out()` call in it) that raises is a program whose body raises (`Outcome.raise e`); a failing `call_soon`
callback is the event `tickCb (.usercb true)`.  No twin is needed: these are statements about `PM/Listener.lean`.
-/
namespace PMF
namespace L

theorem excepted_allowed (l : Label) (h : terminal l = false) : Label.excepted ∈ allowed l := by
  cases l <;> simp [terminal, allowed] at h ⊢

theorem setInterrupt_st (c : Cfg) (n : Option Nat) : (setInterrupt c n).st = c.st := (setInterrupt_fix c n).1
theorem setInterrupt_pc (c : Cfg) (n : Option Nat) : (setInterrupt c n).pc = c.pc := by
  unfold setInterrupt; split
  · unfold cancelAction; split
    · unfold setActionStatus; split <;> rfl
    · rfl
  · rfl
theorem setInterrupt_interrupt (c : Cfg) (n : Option Nat) : (setInterrupt c n).interrupt = n := by
  unfold setInterrupt; split <;> rfl

section
variable {F : Hook → LCfg → LCfg}

/-- a transition to EXCEPTED of a live process that is not closed ends in exactly that state object -/
theorem transitionToL_excepted (l : LCfg) (e : Exc) (hc : l.c.closed = false) (hl : terminal l.c.st.label = false) :
    (transitionToL F l (.excepted e)).c.st = .excepted e := by
  have he : ∀ c : Cfg, enteringHooks c (.excepted e) = .ok (setFutExc c e) := fun _ => rfl
  unfold transitionToL
  dsimp only
  split
  · split
    · rename_i h; rw [hc] at h; cases h
    · split
      · rename_i e1 heq; rw [he] at heq; cases heq
      · exact enterNextL_label_terminal _ _ (by simp [SObj.label, terminal, allowed])
  · rename_i h; exact absurd (excepted_allowed _ hl) h

theorem finally_pc (c : Cfg) : (finally_ c).pc = c.pc := by
  unfold finally_; rw [setInterrupt_pc]
theorem finally_st' (c : Cfg) : (finally_ c).st = c.st := by
  unfold finally_; rw [setInterrupt_st]
theorem finally_stepping (c : Cfg) : (finally_ c).stepping = false := by
  unfold finally_ setInterrupt; split
  · unfold cancelAction; split
    · unfold setActionStatus; split <;> rfl
    · rfl
  · rfl

/-- **the closing part of a step whose step function raised `e`**, on a live process, whatever request is pending: EXCEPTED with
`e`, everything agreeing (`Inv2`), the program counter of the stepping task untouched, `_stepping` cleared -/
theorem finishUserL_raise (hF3 : FG3 F) (hFq : FQ F) (l : LCfg) (e : Exc) (hi : Inv2 l.c)
    (hl : terminal l.c.st.label = false) :
    (finishUserL F l (.raise e)).c.st = .excepted e ∧ Inv2 (finishUserL F l (.raise e)).c ∧
    (finishUserL F l (.raise e)).c.pc = l.c.pc ∧ (finishUserL F l (.raise e)).c.stepping = false := by
  have hinv : Inv2 (finishUserL F l (.raise e)).c := finishUserL_inv2 hF3 l _ hi
  refine ⟨?_, hinv, ?_, ?_⟩
  all_goals
    unfold finishUserL endOfStepL
    dsimp only [prepare]
  · rw [upd_c, finally_st']
    unfold dispatchL
    have hl2 : terminal (setInterrupt l.c none).st.label = false := by rw [setInterrupt_st]; exact hl
    simp only [hl2, Bool.false_eq_true, if_false]
    unfold dispatch1L
    simp only [setInterrupt_interrupt]
    have hst := transitionToL_excepted (F := F) { l with executing := false, c := setInterrupt l.c none } e
      (by show (setInterrupt l.c none).closed = false
          have := (setInterrupt_same2 l.c none).2.2.2.1; rw [this]; exact (hi.live hl).2.1) hl2
    rw [enactLoop_terminal _ _ (by rw [hst]; simp [SObj.label, terminal, allowed])]
    exact hst
  · rw [upd_c, finally_pc]
    unfold dispatchL
    have hl2 : terminal (setInterrupt l.c none).st.label = false := by rw [setInterrupt_st]; exact hl
    simp only [hl2, Bool.false_eq_true, if_false]
    unfold dispatch1L
    simp only [setInterrupt_interrupt]
    have hst := transitionToL_excepted (F := F) { l with executing := false, c := setInterrupt l.c none } e
      (by show (setInterrupt l.c none).closed = false
          have := (setInterrupt_same2 l.c none).2.2.2.1; rw [this]; exact (hi.live hl).2.1) hl2
    rw [enactLoop_terminal _ _ (by rw [hst]; simp [SObj.label, terminal, allowed])]
    have hq := transitionToL_qq hFq { l with executing := false, c := setInterrupt l.c none } (.excepted e)
    rw [hq.pc]; exact setInterrupt_pc _ _
  · rw [upd_c]; exact finally_stepping _

/-- the loop of `step_until_terminated` on a terminated process whose task has not crashed: it returns -/
theorem loopHeadL_terminal (P : Prog) (n : Nat) (l : LCfg) (ht : terminal l.c.st.label = true) (hnc : ∀ e, l.c.pc ≠ .crashed e) :
    (loopHeadL F P (n + 1) l).c.pc = .done := by
  unfold loopHeadL
  split
  · rename_i e he; exact absurd he (hnc e)
  · simp only [ht, if_true]; rfl

/-- **a wake-up of the stepping task whose step function is about to raise `e`** (no await left), on a live process: the process
ends EXCEPTED with exactly `e`, everything agrees, and `step_until_terminated()` returns normally -/
theorem tick_raise (hF3 : FG3 F) (hFq : FQ F) (P : Prog) (l : LCfg) (e : Exc) (hi : Inv2 l.c)
    (hl : terminal l.c.st.label = false) (hpc : l.c.pc = .inUser ⟨0, .raise e⟩) :
    (tickStepperL F P l).c.st = .excepted e ∧ Inv2 (tickStepperL F P l).c ∧ (tickStepperL F P l).c.pc = .done := by
  obtain ⟨h1, h2, h3, _⟩ := finishUserL_raise hF3 hFq l e hi hl
  have ht : terminal (finishUserL F l (.raise e)).c.st.label = true := by rw [h1]; simp [SObj.label, terminal, allowed]
  have hnc : ∀ e', (finishUserL F l (.raise e)).c.pc ≠ .crashed e' := fun e' h => by rw [h3, hpc] at h; cases h
  have he : tickStepperL F P l = loopHeadL F P fuel0 (finishUserL F l (.raise e)) := by
    unfold tickStepperL; rw [hpc]; simp only [if_true]
  rw [he]
  have hfix := loopHeadL_fix (F := F) P fuel0 _ ht
  refine ⟨by rw [hfix.1]; exact h1, loopHeadL_inv2 hF3 P _ _ h2, ?_⟩
  exact loopHeadL_terminal P 999 _ ht hnc

/-- **a step function that raises `e` without awaiting anything** (activated by `Process.step` on a live RUNNING process): the same,
within the callback that activated it -/
theorem stepBodyL_raise (hF3 : FG3 F) (hFq : FQ F) (P : Prog) (n : Nat) (l : LCfg) (e : Exc) (fn : Nat) (args : List Val)
    (kw : List (Nat × Val)) (hi : Inv2 l.c) (hst : l.c.st = .running fn args kw) (hb : P fn args kw l.c.ctx = ⟨0, .raise e⟩)
    (hnc : ∀ e', l.c.pc ≠ .crashed e') :
    (stepBodyL F P (n + 1) l).c.st = .excepted e ∧ Inv2 (stepBodyL F P (n + 1) l).c ∧ (stepBodyL F P (n + 1) l).c.pc = .done := by
  generalize hl2 : ({ l with c := { l.c with stepping := true }, executing := true } : LCfg).upd (fun c =>
      { c with trace := { fn := fn, args := args, kw := kw, paused := c.paused.isSome } :: c.trace }) = l2
  have hc2 : l2.c.st = l.c.st ∧ l2.c.pc = l.c.pc := by rw [← hl2]; exact ⟨rfl, rfl⟩
  have hi2 : Inv2 l2.c := by rw [← hl2]; exact hi.same2 ⟨rfl, rfl, rfl, rfl, rfl, rfl⟩
  have hlive : terminal l2.c.st.label = false := by rw [hc2.1, hst]; simp [SObj.label, terminal, allowed]
  have he : stepBodyL F P (n + 1) l = loopHeadL F P (n + 1) (finishUserL F l2 (.raise e)) := by
    unfold stepBodyL stepBodyKL
    dsimp only
    split
    · rename_i h; have h' : l.c.st = .created _ := h; rw [hst] at h'; cases h'
    · rename_i fn' args' kw' h
      have h' : l.c.st = .running fn' args' kw' := h
      rw [hst] at h'
      injection h' with h1 h2 h3
      subst h1; subst h2; subst h3
      rw [show ({ l with c := { l.c with stepping := true }, executing := true } : LCfg).c.ctx = l.c.ctx from rfl, hb]
      simp only [if_true]
      rw [← hl2]
    · rename_i h; have h' : l.c.st = .waiting _ _ _ _ := h; rw [hst] at h'; cases h'
    · rename_i h1 h2 h3
      exact absurd hst (h2 fn args kw)
  obtain ⟨h1, h2, h3, _⟩ := finishUserL_raise hF3 hFq l2 e hi2 hlive
  have ht : terminal (finishUserL F l2 (.raise e)).c.st.label = true := by rw [h1]; simp [SObj.label, terminal, allowed]
  rw [he]
  have hfix := loopHeadL_fix (F := F) P (n + 1) _ ht
  exact ⟨by rw [hfix.1]; exact h1, loopHeadL_inv2 hF3 P _ _ h2,
    loopHeadL_terminal P n _ ht (fun e' h => hnc e' (by rw [← hc2.2, ← h3]; exact h))⟩

/-- **a failing `call_soon` callback on a live process** (`callback_excepted` → `fail()`): EXCEPTED with its exception, everything
agrees -/
theorem callback_raise (hF3 : FG3 F) (l : LCfg) (hi : Inv2 l.c) (hl : terminal l.c.st.label = false)
    (hr : l.c.ready.contains (.usercb true) = true) :
    (tickCbL F l (.usercb true)).c.st = .excepted (.user 8) ∧ Inv2 (tickCbL F l (.usercb true)).c := by
  refine ⟨?_, tickCbL_inv2 hF3 l _ hi⟩
  unfold tickCbL
  simp only [hr, if_true]
  unfold failL
  have hl' : terminal (l.upd fun c => { c with ready := c.ready.erase (.usercb true) }).c.st.label = false := hl
  simp only [hl', Bool.false_eq_true, if_false]
  exact transitionToL_excepted _ _ (hi.live hl).2.1 hl'

/-- **… on a terminated process**: nothing but the ready queue changes (`callback_excepted` checks `has_terminated()`) -/
theorem callback_raise_terminated (l : LCfg) (ht : terminal l.c.st.label = true) :
    tickCbL F l (.usercb true) = (if l.c.ready.contains (.usercb true) then l.upd fun c => { c with ready := c.ready.erase (.usercb true) } else l) := by
  unfold tickCbL
  split
  · unfold failL
    have ht' : terminal (l.upd fun c => { c with ready := c.ready.erase (.usercb true) }).c.st.label = true := ht
    simp only [ht', if_true]
  · rfl

end

theorem excepted_outcome {c : Cfg} {e : Exc} (hi : Inv2 c) (hs : c.st = .excepted e) :
    c.fut = .exc e ∧ c.closed = true ∧ c.cleanups = 1 ∧ termCount c.notif = 1 := by
  have ht : terminal c.st.label = true := by rw [hs]; simp [SObj.label, terminal, allowed]
  obtain ⟨h1, h2, h3, h4⟩ := hi.term ht
  rw [hs] at h4
  exact ⟨by simpa [outcomeOf] using h4.symm, h1, h2, h3⟩


end L
end PMF
