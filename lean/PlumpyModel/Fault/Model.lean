import PlumpyModel.Gen.Lifecycle
/-!
# Fault model: `StateMachine.transition_to` with raising user hooks (C03)

One state transition of a process whose lifecycle hooks are user overrides of the form
`def on_x(self): [raise]; super().on_x(); [raise]`, with at most ONE injected fault (the property's quantifier).
Python mutations are not rolled back by an exception, so every phase returns the configuration reached so far
together with the exception (if any) that interrupted it.  Core Lean only.
-/
namespace Fault
open PMF

/-- the process future; `exc true` = it raises the injected fault, `exc false` = some other exception -/
inductive Fut | pending | result | exc (fault : Bool) | killedErr
deriving DecidableEq, Repr, Inhabited

structure PS where
  label : Label
  excIsFault : Bool := false      -- the exception recorded in an EXCEPTED state is the injected fault
  fut : Fut := .pending
  closed : Bool := false
  hooks : Bool := true            -- the state event callbacks are installed (`close()` clears them)
  cleanups : Nat := 0
  term : List Label := []         -- terminal notifications sent to listeners, oldest first
deriving DecidableEq, Repr, Inhabited

/-- the user hook overrides that run during a transition -/
inductive Phase | exiting | entering | entered | terminated | close
deriving DecidableEq, Repr, Inhabited

structure FaultPt where
  phase : Phase
  after : Bool                    -- raise after `super()` returned (else before calling it)
deriving DecidableEq, Repr, Inhabited

/-- the target of a transition: a label, and for EXCEPTED whether its exception is the injected fault -/
structure Target where
  label : Label
  isFault : Bool := false
deriving DecidableEq, Repr, Inhabited

/-- `true` = the injected fault, `false` = an internal error (invalid transition, exiting a terminal state, …) -/
abbrev Err := Bool
abbrev Res := PS × Option Err

def terminal (l : Label) : Bool := (allowed l).isEmpty

/-- sequencing that keeps the partial configuration when an exception interrupts -/
def andThen (r : Res) (k : PS → Res) : Res :=
  match r with
  | (c, none) => k c
  | (c, some e) => (c, some e)

/-- a user override of a hook: optional fault, the base implementation, optional fault -/
def hook (f : Option FaultPt) (ph : Phase) (base : PS → Res) (c : PS) : Res :=
  if f = some ⟨ph, false⟩ then (c, some true) else
  andThen (base c) fun c' => if f = some ⟨ph, true⟩ then (c', some true) else (c', none)

/-- `Process.on_close`: cleanups (their exceptions are swallowed), callbacks cleared, closed -/
def onCloseBase (c : PS) : Res := ({ c with cleanups := c.cleanups + 1, hooks := false, closed := true }, none)

/-- `Process.close` -/
def close (f : Option FaultPt) (c : PS) : Res := if c.closed then (c, none) else hook f .close onCloseBase c

/-- `Process.on_terminated` (base): release the pause, close -/
def onTerminatedBase (f : Option FaultPt) (c : PS) : Res := close f c

/-- the base implementations of `on_run / on_wait / on_finish / on_kill / on_except` -/
def enteringBase (t : Target) (c : PS) : Res :=
  match t.label with
  | .finished => if c.fut = .pending then ({ c with fut := .result }, none) else (c, some false)
  | .killed => if c.fut = .pending then ({ c with fut := .killedErr }, none) else (c, some false)
  | .excepted => ({ c with fut := .exc t.isFault }, none)          -- a done future is replaced first
  | _ => (c, none)

/-- the base implementations of `on_running / … / on_finished / on_excepted / on_killed`: listeners are notified -/
def enteredBase (c : PS) : Res :=
  if terminal c.label then ({ c with term := c.term ++ [c.label] }, none) else (c, none)

/-- has the current state a user-visible exit hook (`on_exit_running`, `on_exit_waiting`)? -/
def hasExitHook (l : Label) : Bool := l = .running || l = .waiting

/-- `_exit_current_state` -/
def exitPhase (f : Option FaultPt) (c : PS) (t : Target) : Res :=
  if t.label ∉ allowed c.label then (c, some false) else
  andThen (if c.hooks && hasExitHook c.label then hook f .exiting (fun c => (c, none)) c else (c, none)) fun c =>
  if terminal c.label then (c, some false) else (c, none)            -- `State.exit()` of a terminal state raises

/-- `_enter_next_state` followed by `on_terminated` for terminal states -/
def enterPhase (f : Option FaultPt) (c : PS) (t : Target) : Res :=
  andThen (if c.hooks then hook f .entering (enteringBase t) c else (c, none)) fun c =>
  let c := { c with label := t.label, excIsFault := t.isFault }
  andThen (if c.hooks then hook f .entered enteredBase c else (c, none)) fun c =>
  if terminal c.label then hook f .terminated (onTerminatedBase f) c else (c, none)

/-- the `try` block of `transition_to` -/
def tryTransition (f : Option FaultPt) (failing : Bool) (c : PS) (t : Target) : Res :=
  andThen (if failing then (c, none) else exitPhase f c t) fun c => enterPhase f c t

/-- `transition_to` with `Process.transition_failed`: a failure (other than while creating) is turned into a
transition to EXCEPTED with the exit phase bypassed; the injected fault has fired by then (one fault per run); a failure
of that second transition propagates to the caller. -/
def transitionTo (f : Option FaultPt) (c : PS) (t : Target) : Res :=
  match tryTransition f false c t with
  | (c', none) => (c', none)
  | (c', some e) => tryTransition none true c' { label := .excepted, isFault := e }

/-- is the fault point reached during a transition from `from_` to `t`? -/
def reached (from_ : Label) (t : Target) (p : FaultPt) : Bool :=
  match p.phase with
  | .exiting => hasExitHook from_
  | .entering => t.label ≠ .excepted           -- on_except is not a fault point
  | .entered => t.label ≠ .excepted
  | .terminated => terminal t.label
  | .close => terminal t.label

/-- a live process as the invariants of C02 describe it -/
def liveCfg (l : Label) : PS := { label := l }

end Fault

namespace Fault

/-! ### pause / play hooks: `_do_pause` and `play` call user hooks outside any transition -/

inductive PHook | pausing | paused | playing
deriving DecidableEq, Repr, Inhabited

structure PP where
  base : PS
  paused : Bool := false
  pausing : Bool := false           -- a pause request is pending (`_pausing`)
deriving DecidableEq, Repr, Inhabited

/-- `_do_pause` without a next state: `on_pausing`, `on_paused` (base: create the pause future, notify listeners),
`finally: self._pausing = None`.  Returns the exception handed to the requester (direct caller or action future). -/
def doPause (f : Option (PHook × Bool)) (c : PP) : PP × Option Err :=
  let fin (c : PP) : PP := { c with pausing := false }
  if f = some (.pausing, false) then (fin c, some true) else
  if f = some (.pausing, true) then (fin c, some true) else          -- base `on_pausing` only stores the status message
  if f = some (.paused, false) then (fin c, some true) else
  let c := { c with paused := true }
  if f = some (.paused, true) then (fin c, some true) else (fin c, none)

/-- `play()` on a paused process: `on_playing` (base: resolve and drop the pause future, notify listeners) -/
def doPlay (f : Option (PHook × Bool)) (c : PP) : PP × Option Err :=
  if f = some (.playing, false) then (c, some true) else
  let c := { c with paused := false }
  if f = some (.playing, true) then (c, some true) else (c, none)

end Fault

namespace Fault

/-! ### user code that is called in a loop which swallows exceptions: listeners (`EventHelper.fire_event`) and cleanups (`on_close`)

```
for listener in list(self.listeners):            for cleanup in self._cleanups or []:
    try: getattr(listener, name)(*args)              try: cleanup()
    except Exception as exception: LOGGER.error      except Exception: self.logger.exception(...)
```
A callback is its effect on whatever it can reach (`σ`) and whether it raises when it is done with it. -/

structure Callback (σ : Type) where
  eff : σ → σ
  raises : Bool

/-- the loop: state reached, number of callbacks that ran, number of exceptions logged; nothing propagates -/
def callAll {σ : Type} (cbs : List (Callback σ)) (s : σ) : σ × Nat × Nat :=
  cbs.foldl (fun acc cb => (cb.eff acc.1, acc.2.1 + 1, if cb.raises then acc.2.2 + 1 else acc.2.2)) (s, 0, 0)

/-- the same callbacks, none of them raising -/
def quiet {σ : Type} (cbs : List (Callback σ)) : List (Callback σ) := cbs.map fun cb => { cb with raises := false }

/-! ### construction: `StateMachineMeta.__call__` = `__init__`, `transition_to(CREATED)`, `init()`

The ENTERING callback of the initial transition is the user's `on_create`; `Process.transition_failed` re-raises while creating
(`final_state == CREATED`), so `__call__` never returns the instance. -/

/-- `f = some after`: `on_create` raises before (`false`) / after (`true`) calling `super().on_create()` -/
def construct (f : Option Bool) : Option PS × Option Err :=
  let c : PS := { label := .created }
  let r : Res :=
    if f = some false then (c, some true) else
    andThen (c, none) fun c => if f = some true then (c, some true) else (c, none)
  match r with
  | (c, none) => (some c, none)
  | (_, some e) => (none, some e)

/-! ### `Process.out(port, value)` inside a step function: `on_output_emitting`, validation, store, `on_output_emitted`
(base: notify the listeners) -/

inductive OHook | emitting | emitted
deriving DecidableEq, Repr, Inhabited

structure Outs where
  stored : Bool := false
  notified : Bool := false
deriving DecidableEq, Repr, Inhabited

/-- one `out()` call with a valid value; the exception (if any) propagates into the step function that made the call -/
def outCall (f : Option (OHook × Bool)) : Outs × Option Err :=
  if f = some (.emitting, false) then ({}, some true) else
  if f = some (.emitting, true) then ({}, some true) else          -- base `on_output_emitting` does nothing
  let o : Outs := { stored := true }
  if f = some (.emitted, false) then (o, some true) else
  let o := { o with notified := true }
  if f = some (.emitted, true) then (o, some true) else (o, none)

end Fault
