import PlumpyModel.Fault.Proof13
/-!
# Fault twins — the linking invariant for EVERY transition hook (`on_terminated` / `on_close` included), part 1

`Proof10 … Proof12` prove the linking invariant of the stepping task for faults that are not `on_terminated` / `on_close` (`NoTC`): for
those two a transition can let an exception propagate to its caller (alternative `Bad`).  Here the same chain is proved for every
fault with the conclusion weakened to `Bad … ∨ …`; since `Bad` is absorbing (`Proof13`), whatever follows a `Bad` configuration
inside the same event is `Bad` again.

The lemmas of `Proof10` about the inside of a transition (`…_m`) assume `NS a N` of the notification function but only use its
fields `m` / `mst`, which do not mention the fault `a`; they are applied here with the fixed fault `armD`, for which
`NS armD (fireNF n)` is `fireNF_ns`.
-/
namespace PMF
namespace FP
open L

/-- a fault that is not `on_terminated` / `on_close` (only used to instantiate the lemmas of `Proof10`, see above) -/
def armD : Arm := ⟨.onRun, 0, false⟩

theorem armD_notc : NoTC armD := by unfold NoTC armD; intro h; rcases h with h | h <;> cases h

/-- `Bad`, or the linking invariant and "the current state is entered" -/
def SB (a0 : Arm) (y : FCfg) : Prop := Bad a0 y ∨ SI y

section
variable {a0 : Arm} {N : Hook → FCfg → FCfg}

theorem K.kg_live {x : FCfg} (h : K a0 x) (hl : terminal x.l.c.st.label = false) : Kg a0 x := by
  rcases h.g with hb | hk
  · have := hb.terminal; rw [hl] at this; cases this
  · exact hk

theorem Bad.like {y y' : FCfg} (h : Bad a0 y) (hl : y'.l = y.l) (hf : y.fired = true → y'.fired = true) : Bad a0 y' := by
  obtain ⟨hm, hf', e, he, hs⟩ := h
  exact ⟨hm, hf hf', e, he, by rw [hl]; exact hs⟩

theorem SB.like {y y' : FCfg} (h : SB a0 y) (hl : y'.l = y.l) (hi : y'.inState = y.inState)
    (hf : y.fired = true → y'.fired = true) : SB a0 y' := by
  rcases h with hb | hs
  · exact Or.inl (hb.like hl hf)
  · exact Or.inr (hs.like hl hi)

/-- **a transition of a live process, whatever the fault (any hook) does in it**: nothing propagates to the caller unless the
result is `Bad`; and if nothing propagates the linking invariant of the stepping task holds afterwards -/
theorem transitionToF_s2 (hN : NK a0 N) (hS : NS armD N) (hq : FQF N) (hac : afterClose a0 = false)
    (x : FCfg) (s : SObj) (hk : K a0 x) (hi : InvS x.l.c) (hin : x.inState = true)
    (hl : terminal x.l.c.st.label = false) (hs : TargetOk x.l.c s) :
    ((transitionToF N x s).2 = none ∨ Bad a0 (transitionToF N x s).1) ∧
    ((transitionToF N x s).2 = none → InvS (transitionToF N x s).1.l.c ∧ (transitionToF N x s).1.inState = true) := by
  obtain ⟨_, hret⟩ := transitionToF_K' hN x s hk hac hl
  refine ⟨hret, fun hr2 => ?_⟩
  have hlive : LiveW x.l.c := (hk.kg_live hl).1.live hl
  refine ⟨?_, ?_⟩
  all_goals
    unfold transitionToF at hr2 ⊢
    simp only [hk.tr, Option.isSome_none, Bool.false_eq_true, if_false] at hr2 ⊢
    generalize hx0 : (x.updL fun l => { l with trans := some s.label }) = x0 at hr2 ⊢
    have h0 : MQ x0 := by rw [← hx0]; exact ⟨InvM.of_s hi, fun hf => by rw [show (x.updL _).inState = x.inState from rfl, hin] at hf; cases hf⟩
    have hc0 : x0.l.c.closed = false := by rw [← hx0]; exact hlive.2.1
    have htr0 : x0.l.trans.isSome = true := by rw [← hx0]; rfl
    have hs0 : TargetOk x0.l.c s := by rw [← hx0]; exact hs
    have ha0 : ArmOk a0 x0 := by rw [← hx0]; exact hk.arm.updL _
    have hl0 : LiveW x0.l.c := by rw [← hx0]; exact hlive
    obtain ⟨p1, p2⟩ := tryTransitionF_m hS hq x0 s h0 hc0 hs0 htr0
    have hsp := tryTransitionF_spec hN x0 s ha0 hac htr0 hl0
    generalize tryTransitionF N x0 s = r at p1 p2 hsp hr2 ⊢
    obtain ⟨y, e⟩ := r
    cases e with
    | none => first | exact (p2 rfl).1 | exact (p2 rfl).2
    | some e =>
      have hyc : y.l.c.closed = false := by
        rcases hsp with ⟨h1, _⟩ | ⟨e', h1, h2, _⟩
        · cases h1
        · exact h2
      obtain ⟨f1, f2, f3⟩ := forceExceptedF_m hS hq y e p1 hyc
      first | exact f3 hr2 | exact f2

/-- everything assumed of the notification function (every fault) -/
structure NA2 (a0 : Arm) (N : Hook → FCfg → FCfg) : Prop where
  k : NK a0 N
  m : NS armD N
  q : FQF N
  t : FTM N
  s : ∀ h x, K a0 x → SI x → SB a0 (N h x)

/-- a pause / play hook keeps `SB` if its base implementation does -/
theorem hookF_si2 (hk : HK) (base : FCfg → Res)
    (x : FCfg) (hbase : ∀ x', x'.l = x.l → K a0 x' → SI x' → SB a0 (base x').1) (hkx : K a0 x) (h : SI x) :
    SB a0 (hookF hk base x).1 := by
  rcases hookF_cases hk base x hkx.arm with ⟨_, _, _, _, y, hy, h1, _, _, _, h5⟩ | ⟨x', hl, hf, _, hao, han, hcase⟩
  · rw [hy]; exact Or.inr (h.like h1 h5)
  · have hx' : K a0 x' := hkx.of_armok hl hao hf
    have hb := hbase x' hl hx' (h.like hl han.2)
    rcases hcase with ⟨_, _, _, _, _, hcase⟩ | hcase
    · rcases hcase with ⟨y, yy, e, hb', hy, huu, hff⟩ | ⟨y, y', hb', hy, hu1, _, _, hft, hu5⟩
      · rw [hy]; rw [hb'] at hb; exact hb.like huu.1 huu.2.2.2 (fun h => by rw [hff]; exact h)
      · rw [hy]; rw [hb'] at hb; exact hb.like hu1 hu5 (fun _ => hft)
    · rcases hcase with ⟨y, yy, e, hb', hy, huu, hff⟩ | ⟨y, y', e, hb', hy, _, hu, hff, _⟩
      · rw [hy]; rw [hb'] at hb; exact hb.like huu.1 huu.2.2.2 (fun h => by rw [hff]; exact h)
      · rw [hy]; rw [hb'] at hb; exact hb.like hu.1 hu.2.2.2 (fun h => by rw [hff]; exact h)

theorem doPauseF_s2 (hA : NA2 a0 N) (x : FCfg) (hk : K a0 x) (h : SI x) (hq : Hq x.l.c)
    (hl : ∀ pf, x.l.c.pc = .awaitPaused pf → terminal x.l.c.st.label = false) : SB a0 (doPauseF N x).1 := by
  have e1 : doPauseF N x = ((bind (hookF .onPausing ok x) fun x => hookF .onPaused (pausedBaseF N) x).1.updC
      (fun c => { c with pausing := none }), (bind (hookF .onPausing ok x) fun x => hookF .onPaused (pausedBaseF N) x).2) := rfl
  rw [e1]
  have fin : ∀ y : FCfg, SB a0 y → SB a0 (y.updC fun c => { c with pausing := none }) := by
    intro y hy
    rcases hy with hb | ⟨h1, h2⟩
    · exact Or.inl (hb.tm (TM.of_eq rfl id))
    · exact Or.inr ⟨⟨h1.nocrash, h1.aw, h1.ap, h1.pv, h1.wv, h1.tp⟩, h2⟩
  apply fin
  -- `on_pausing`: nothing happens to the `LCfg` part
  have k1 : K a0 (hookF .onPausing ok x).1 := hookF_K .onPausing rfl ok (fun x' hx' => hx') x hk
  have s1 : SI (hookF .onPausing ok x).1 ∧ (hookF .onPausing ok x).1.l = x.l := by
    rcases hookF_cases .onPausing ok x hk.arm with ⟨_, _, _, _, y, hy, h1, _, _, _, h5⟩ | ⟨x', hl', _, _, _, han, hcase⟩
    · rw [hy]; exact ⟨h.like h1 h5, h1⟩
    · rcases hcase with ⟨_, _, _, _, _, hcase⟩ | hcase
      · rcases hcase with ⟨y, yy, e, hb', _⟩ | ⟨y, y', hb', hy, hu1, _, _, _, hu5⟩
        · cases hb'
        · have : y = x' := by cases hb'; rfl
          rw [hy]; subst this
          exact ⟨h.like (hu1.trans hl') (hu5.trans han.2), hu1.trans hl'⟩
      · rcases hcase with ⟨y, yy, e, hb', _⟩ | ⟨y, y', e, hb', hy, _, hu, _, _⟩
        · cases hb'
        · have : y = x' := by cases hb'; rfl
          rw [hy]; subst this
          exact ⟨h.like (hu.1.trans hl') (hu.2.2.2.trans han.2), hu.1.trans hl'⟩
  generalize hookF .onPausing ok x = r at k1 s1
  obtain ⟨y, e⟩ := r
  cases e with
  | some e => exact Or.inr s1.1
  | none =>
    rw [bind_ok]
    refine hookF_si2 .onPaused (pausedBaseF N) y (fun x' hl' hx' hs' => ?_) k1 s1.1
    unfold pausedBaseF
    have hlx : x'.l = x.l := hl'.trans s1.2
    have h1 : InvS (x'.updC doPauseHooks).l.c := by
      rw [updC_l, upd_c]
      exact doPauseHooks_invS _ hs'.1 (by rw [hlx]; exact hq) (by rw [hlx]; exact hl)
    exact hA.s _ _ (hx'.fr (Fr.updC x' doPauseHooks (doPauseHooks_same2 _) rfl)) ⟨h1, hs'.2⟩

theorem pauseF_s2 (hA : NA2 a0 N) (x : FCfg) (hk : K a0 x) (h : SI x) : SB a0 (pauseF N x).1 := by
  unfold pauseF; dsimp only
  split
  · exact Or.inr h
  · rename_i hnt
    split
    · exact Or.inr h
    · rename_i hnp
      split
      · exact Or.inr ⟨h.1.tr (hand_tr _ _) (Or.inl (hand_ctl _ _).2), h.2⟩
      · split
        · exact Or.inr h
        · split
          · have h1 : InvS { requestL x.l .pause with pausing := (requestL x.l .pause).interrupt } := by
              have := requestL_invS x.l .pause h.1
              exact ⟨this.nocrash, this.aw, this.ap, this.pv, this.wv, this.tp⟩
            split
            · exact Or.inr ⟨h1.tr (hand_tr _ _) (Or.inl (hand_ctl _ _).2), h.2⟩
            · exact Or.inr ⟨h1, h.2⟩
          · rw [retOf_fst]
            have hpa : x.l.c.paused = none := by
              cases hpa : x.l.c.paused with
              | none => rfl
              | some pf => simp [hpa] at hnp
            have hl : terminal x.l.c.st.label = false := by simpa using hnt
            exact doPauseF_s2 hA x hk h (hq_of_unpaused (InvM.of_s h.1) hpa) (fun _ _ => hl)

theorem playF_s2 (hA : NA2 a0 N) (x : FCfg) (hk : K a0 x) (h : SI x) : SB a0 (playF N x).1 := by
  unfold playF
  split
  · exact Or.inr ⟨play_invS _ h.1, h.2⟩
  · rw [retOf_fst]
    refine hookF_si2 .onPlaying (playingBaseF N) x (fun x' _ hx' hs' => ?_) hk h
    unfold playingBaseF
    exact hA.s _ _ (hx'.fr (Fr.updC x' _ (play_same2 _) (play_st _))) ⟨play_invS _ hs'.1, hs'.2⟩

/-- the outcome of a transition requested outside a step, as `SB` -/
theorem transitionToF_sb (hA : NA2 a0 N) (hac : afterClose a0 = false) (x : FCfg) (s : SObj) (hk : K a0 x) (h : SI x)
    (hl : terminal x.l.c.st.label = false) (hs : TargetOk x.l.c s) : SB a0 (transitionToF N x s).1 := by
  obtain ⟨r0, r1⟩ := transitionToF_s2 hA.k hA.m hA.q hac x s hk h.1 h.2 hl hs
  rcases r0 with h0 | hb
  · exact Or.inr (r1 h0)
  · exact Or.inl hb

theorem killF_s2 (hA : NA2 a0 N) (hac : afterClose a0 = false) (x : FCfg) (hk : K a0 x) (h : SI x) : SB a0 (killF N x).1 := by
  unfold killF; dsimp only
  split
  · exact Or.inr h
  · split
    · exact Or.inr h
    · rename_i _ hnt
      split
      · exact Or.inr ⟨h.1.tr (hand_tr _ _) (Or.inl (hand_ctl _ _).2), h.2⟩
      · split
        · have h1 : InvS { requestL x.l .kill with killing := (requestL x.l .kill).interrupt } := by
            have := requestL_invS x.l .kill h.1
            exact ⟨this.nocrash, this.aw, this.ap, this.pv, this.wv, this.tp⟩
          split
          · exact Or.inr ⟨h1.tr (hand_tr _ _) (Or.inl (hand_ctl _ _).2), h.2⟩
          · exact Or.inr ⟨h1, h.2⟩
        · rw [retOf_fst]
          exact transitionToF_sb hA hac x .killed hk h (by simpa using hnt) (targetOk_killed _)

theorem failF_s2 (hA : NA2 a0 N) (hac : afterClose a0 = false) (x : FCfg) (e : Exc) (hk : K a0 x) (h : SI x) :
    SB a0 (failF N x e).1 := by
  unfold failF
  split
  · exact Or.inr h
  · rename_i hnt
    rw [retOf_fst]
    exact transitionToF_sb hA hac x (.excepted e) hk h (by simpa using hnt) (targetOk_excepted _ _)

theorem reqKF_s2 (hA : NA2 a0 N) (hac : afterClose a0 = false) (q : Req) (x : FCfg) (hk : K a0 x) (h : SI x) :
    SB a0 (reqKF N q x) := by
  have fr : ∀ (q : Req) (r : FCfg × RetV), r.1.fired = true → (logRep q r).fired = true := by
    intro q r hf; unfold logRep; split <;> exact hf
  cases q
  · exact (pauseF_s2 hA x hk h).like (logRep_like _ _).1 (logRep_like _ _).2 (fr _ _)
  · exact (playF_s2 hA x hk h).like (logRep_like _ _).1 (logRep_like _ _).2 (fr _ _)
  · exact (killF_s2 hA hac x hk h).like (logRep_like _ _).1 (logRep_like _ _).2 (fr _ _)

end

theorem fireKF_s2 {a0 : Arm} (R : Req → FCfg → FCfg) (hR : ∀ q x, K a0 x → SI x → SB a0 (R q x)) (h : Hook) (x : FCfg)
    (hk : K a0 x) (hx : SI x) : SB a0 (fireKF R h x) := by
  unfold fireKF; dsimp only
  have k1 : K a0 (x.updL fun l => { l with cnt := bump l.cnt h }) := hk.fr (Fr.updL' x _ rfl rfl)
  have h1 : SI (x.updL fun l => { l with cnt := bump l.cnt h }) := hx
  split
  · exact Or.inr h1
  · split
    · exact Or.inr h1
    · exact hR _ _ (k1.fr (Fr.updL' _ _ rfl rfl)) h1

/-- **the notification function of the model satisfies everything assumed of it, for every fault** -/
theorem fireNF_na2 {a0 : Arm} (hac : afterClose a0 = false) : ∀ n, NA2 a0 (fireNF n)
  | 0 => ⟨fireNF_nk hac 0, fireNF_ns rfl armD_notc 0, fireNF_qf 0, fireNF_tm 0, fun _ _ _ hs => Or.inr hs⟩
  | n+1 => by
    have ih := fireNF_na2 hac n
    refine ⟨fireNF_nk hac (n+1), fireNF_ns rfl armD_notc (n+1), fireNF_qf (n+1), fireNF_tm (n+1), fun h x hk hs => ?_⟩
    unfold fireNF
    exact fireKF_s2 _ (fun q x hk hs => reqKF_s2 ih hac q x hk hs) h x hk hs

end FP
end PMF
