namespace Outline

inductive Instr where
  | call (f : Nat)
  | ite (bs : List (Option Nat × List Instr))   -- none = else_
  | while_ (p : Nat) (body : List Instr)
  | ret (code : Option Int)
deriving Repr, Inhabited

abbrev Block := List Instr
abbrev Branch := Option Nat × Block

inductive Ret | none | toCtx (n : Nat) | val (v : Int)
deriving Repr, DecidableEq, Inhabited

structure World (σ : Type) where
  stepFn : σ → Nat → σ × Ret
  pred : σ → Nat → σ × Bool

/-- stepper state: `leaf` for function/return steppers, `node pos child` for block/if/while -/
inductive St where
  | leaf
  | node (pos : Nat) (child : Option St)
deriving Repr, Inhabited

def create : Instr → St
  | .call _ => .leaf
  | .ret _ => .leaf
  | .ite _ => .node 0 none
  | .while_ _ _ => .node 0 none

/-- `_BlockStepper.__init__`: position 0 and the stepper of the first instruction.
    (An empty block raises IndexError in the code: modelled by `child = none` at pos 0 ≠ len … see WF.) -/
def createBlock (is : Block) : St := .node 0 (is.head?.map create)

inductive Out (σ : Type) where
  | ok (finished : Bool) (r : Ret) (s : St) (w : σ)
  | propagate (code : Option Int) (w : σ)
  | error (w : σ)

/-- `_IfStepper.step` scanning loop: iterates over *all* conditionals from the first one, bumping `pos`. -/
def scan {σ} (W : World σ) : List Branch → Nat → σ → Nat × σ × Bool
  | [], pos, w => (pos, w, false)
  | (none, _) :: _, pos, w => (pos, w, true)
  | (some p, _) :: rest, pos, w =>
      let (w', b) := W.pred w p
      if b then (pos, w', true) else scan W rest (pos+1) w'

theorem sizeOf_body_lt {bs : List Branch} {i : Nat} {br : Branch} (h : bs[i]? = some br) :
    sizeOf br.2 < sizeOf bs := by
  have hm : br ∈ bs := List.mem_of_getElem? h
  have := List.sizeOf_lt_of_mem hm
  cases br with
  | mk a b => simp at this ⊢; omega

mutual
def stepI {σ} (W : World σ) : Instr → St → σ → Out σ
  | .call f, _, w => let (w', r) := W.stepFn w f; .ok true r .leaf w'
  | .ret c, _, w => .propagate c w
  | .ite _, .leaf, w => .error w
  | .ite bs, .node pos child, w =>
      if pos = bs.length then .ok true .none (.node pos child) w else
      match child with
      | some c =>
        (match h : bs[pos]? with
        | none => .error w
        | some br =>
          match stepB W br.2 c w with
          | .ok fin r c' w' =>
              if fin then .ok true r (.node bs.length none) w'
              else .ok false r (.node pos (some c')) w'
          | o => o)
      | none =>
        let (pos', w1, _) := scan W bs pos w
        if pos' = bs.length then .ok true .none (.node pos' none) w1 else
        (match h : bs[pos']? with
        | none => .error w1
        | some br =>
          match stepB W br.2 (createBlock br.2) w1 with
          | .ok fin r c' w' =>
              if fin then .ok true r (.node bs.length none) w'
              else .ok false r (.node pos' (some c')) w'
          | o => o)
  | .while_ _ _, .leaf, w => .error w
  | .while_ p body, .node _ child, w =>
      match child with
      | some c =>
        (match stepB W body c w with
        | .ok fin r c' w' => .ok false r (.node 0 (if fin then none else some c')) w'
        | o => o)
      | none =>
        let (w1, b) := W.pred w p
        if b then
          (match stepB W body (createBlock body) w1 with
          | .ok fin r c' w' => .ok false r (.node 0 (if fin then none else some c')) w'
          | o => o)
        else .ok true .none (.node 0 none) w1
termination_by i => sizeOf i
decreasing_by
  all_goals simp_wf
  · have := sizeOf_body_lt h; omega
  · have := sizeOf_body_lt h; omega
  · omega
  · omega

def stepB {σ} (W : World σ) : Block → St → σ → Out σ
  | _, .leaf, w => .error w
  | _, .node _ none, w => .error w          -- "Can't call step after the block is finished"
  | is, .node pos (some c), w =>
      match h : is[pos]? with
      | none => .error w
      | some i =>
        match stepI W i c w with
        | .ok fin r c' w' =>
            if fin then
              let pos' := pos + 1
              .ok (pos' == is.length) r (.node pos' ((is[pos']?).map create)) w'
            else .ok false r (.node pos (some c')) w'
        | o => o
termination_by is => sizeOf is
decreasing_by
  all_goals simp_wf
  have hm : i ∈ is := List.mem_of_getElem? h
  have := List.sizeOf_lt_of_mem hm
  omega
end

/-! reference small-step semantics on continuations -/
inductive R1 (σ : Type) where
  | halt                                  -- empty continuation or `ret`
  | next (k : Block) (w : σ) (r : Option Ret)

def ref1 {σ} (W : World σ) : Block → σ → R1 σ
  | [], _ => .halt
  | .call f :: k, w => let (w', r) := W.stepFn w f; .next k w' (some r)
  | .ret _ :: _, _ => .halt
  | .ite [] :: k, w => .next k w none
  | .ite ((none, b) :: _) :: k, w => .next (b ++ k) w none
  | .ite ((some p, b) :: rest) :: k, w =>
      let (w', t) := W.pred w p
      if t then .next (b ++ k) w' none else .next (.ite rest :: k) w' none
  | .while_ p b :: k, w =>
      let (w', t) := W.pred w p
      if t then .next (b ++ .while_ p b :: k) w' none else .next k w' none

end Outline

namespace Outline

/-! ### `WorkChain._do_step` and the chain of `_do_step` calls -/

/-- what `_do_step` hands back to the process: continue with the next `_do_step` (a `Continue`, or a `Wait` when
    awaitables were registered), or finish with a result -/
inductive DoOut (σ : Type) where
  | cont (s : St) (w : σ) (r : Ret)
  | done (result : Ret) (w : σ)            -- `.none` = `None`
  | error (w : σ)

def retOfCode : Option Int → Ret
  | none => .none
  | some v => .val v

def isCtxOrNone : Ret → Bool
  | .none => true | .toCtx _ => true | .val _ => false

/-- `_do_step`: `finished, return_value = stepper.step()` with `_PropagateReturn` caught -/
def doStep {σ} (W : World σ) (is : Block) (s : St) (w : σ) : DoOut σ :=
  match stepB W is s w with
  | .ok fin r s' w' => if !fin && isCtxOrNone r then .cont s' w' r else .done r w'
  | .propagate c w' => .done (retOfCode c) w'
  | .error w' => .error w'

/-- the chain: `_do_step` is re-entered (through Continue / Wait) until it returns a result -/
def runChain {σ} (W : World σ) (is : Block) : Nat → St → σ → Option (Ret × σ)
  | 0, _, _ => none
  | fuel+1, s, w =>
    match doStep W is s w with
    | .cont s' w' _ => runChain W is fuel s' w'
    | .done r w' => some (r, w')
    | .error _ => none

end Outline
