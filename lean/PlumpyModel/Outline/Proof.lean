import PlumpyModel.Outline.Model
namespace Outline

/-! abstraction: the remaining program denoted by a stepper state -/
mutual
def absI : Instr → St → Block
  | .call f, _ => [.call f]
  | .ret c, _ => [.ret c]
  | .ite _, .leaf => []
  | .ite bs, .node pos none => if pos = bs.length then [] else [.ite bs]
  | .ite bs, .node pos (some c) =>
      match h : bs[pos]? with
      | some br => absB br.2 c
      | none => []
  | .while_ _ _, .leaf => []
  | .while_ p b, .node _ none => [.while_ p b]
  | .while_ p b, .node _ (some c) => absB b c ++ [.while_ p b]
termination_by i => sizeOf i
decreasing_by
  all_goals simp_wf
  · have := sizeOf_body_lt h; omega
  · omega
def absB : Block → St → Block
  | is, .node pos (some c) =>
      match h : is[pos]? with
      | some i => absI i c ++ is.drop (pos+1)
      | none => []
  | _, _ => []
termination_by is => sizeOf is
decreasing_by
  all_goals simp_wf
  have hm : i ∈ is := List.mem_of_getElem? h
  have := List.sizeOf_lt_of_mem hm
  omega
end

/-- iterate the reference step; returns the configuration reached and the last step-function result seen -/
def refIter {σ} (W : World σ) : Nat → Block → σ → Ret → Block × σ × Ret
  | 0, k, w, r => (k, w, r)
  | n+1, k, w, r =>
    match ref1 W k w with
    | .halt => (k, w, r)
    | .next k' w' r' => refIter W n k' w' (r'.getD r)

#eval absB [.call 1, .while_ 0 [.call 2], .call 3] (createBlock [.call 1, .while_ 0 [.call 2], .call 3])

end Outline

namespace Outline

theorem refIter_add {σ} (W : World σ) (n m : Nat) (k : Block) (w : σ) (r : Ret) :
    refIter W (n + m) k w r =
      refIter W m (refIter W n k w r).1 (refIter W n k w r).2.1 (refIter W n k w r).2.2 := by
  induction n generalizing k w r with
  | zero => simp [refIter]
  | succ n ih =>
    rw [Nat.add_right_comm]
    simp only [refIter]
    cases h : ref1 W k w with
    | halt =>
      simp only
      -- halting is absorbing
      have : ∀ m, refIter W m k w r = (k, w, r) := by
        intro m; cases m with
        | zero => rfl
        | succ m => simp [refIter, h]
      rw [this]
    | next k' w' r' => simp only; exact ih ..

-- well-formed outlines: no empty block anywhere, every if_ has at least one branch
mutual
def wfI : Instr → Bool
  | .call _ => true
  | .ret _ => true
  | .ite bs => !bs.isEmpty && wfBranches bs
  | .while_ _ b => wfB b
def wfB : Block → Bool
  | [] => false
  | i :: is => wfI i && wfRest is
def wfRest : Block → Bool
  | [] => true
  | i :: is => wfI i && wfRest is
def wfBranches : List Branch → Bool
  | [] => true
  | (_, b) :: bs => wfB b && wfBranches bs
end

theorem wfRest_get {is : Block} (h : wfRest is = true) {j : Nat} {i : Instr} (hj : is[j]? = some i) : wfI i = true := by
  induction is generalizing j with
  | nil => simp at hj
  | cons a as ih =>
    simp [wfRest] at h
    cases j with
    | zero => simp at hj; subst hj; exact h.1
    | succ j => simp at hj; exact ih h.2 hj

theorem wfB_get {is : Block} (h : wfB is = true) {j : Nat} {i : Instr} (hj : is[j]? = some i) : wfI i = true := by
  cases is with
  | nil => simp [wfB] at h
  | cons a as =>
    simp [wfB] at h
    exact wfRest_get (is := a :: as) (by simp [wfRest, h]) hj

theorem wfBranches_get {bs : List Branch} (h : wfBranches bs = true) {j : Nat} {br : Branch} (hj : bs[j]? = some br) :
    wfB br.2 = true := by
  induction bs generalizing j with
  | nil => simp at hj
  | cons a as ih =>
    obtain ⟨p, b⟩ := a
    simp [wfBranches] at h
    cases j with
    | zero => simp at hj; subst hj; exact h.1
    | succ j => simp at hj; exact ih h.2 hj

/-- the abstraction of a freshly created stepper is the instruction itself -/
theorem absI_create (i : Instr) (h : wfI i = true) : absI i (create i) = [i] := by
  cases i with
  | call f => simp [create, absI]
  | ret c => simp [create, absI]
  | ite bs => cases bs <;> simp_all [create, absI, wfI]
  | while_ p b => simp [create, absI]

end Outline

namespace Outline

-- invariant of *live* stepper states (finished steppers are discarded by their parent)
mutual
def invI : Instr → St → Prop
  | .call _, _ => True
  | .ret _, _ => True
  | .ite _, .leaf => False
  | .ite _, .node pos none => pos = 0
  | .ite bs, .node pos (some c) =>
      match h : bs[pos]? with
      | some br => invB br.2 c
      | none => False
  | .while_ _ _, .leaf => False
  | .while_ _ _, .node _ none => True
  | .while_ _ b, .node _ (some c) => invB b c
termination_by i => sizeOf i
decreasing_by
  all_goals simp_wf
  · have := sizeOf_body_lt h; omega
  · omega
def invB : Block → St → Prop
  | is, .node pos (some c) =>
      match h : is[pos]? with
      | some i => invI i c
      | none => False
  | _, _ => False
termination_by is => sizeOf is
decreasing_by
  all_goals simp_wf
  have hm : i ∈ is := List.mem_of_getElem? h
  have := List.sizeOf_lt_of_mem hm
  omega
end

/-- what one stepper call must correspond to in the reference semantics -/
def Sim {σ} (W : World σ) (o : Out σ) (start : Block) (abs' : St → Block) (inv' : St → Prop)
    (k : Block) (w : σ) : Prop :=
  match o with
  | .ok fin r s' w' =>
      ∃ n, refIter W n (start ++ k) w .none = ((if fin then [] else abs' s') ++ k, w', r) ∧
        (fin = false → inv' s')
  | .propagate c w' =>
      ∃ n k', (refIter W n (start ++ k) w .none).1 = .ret c :: k' ∧ (refIter W n (start ++ k) w .none).2.1 = w'
  | .error _ => False

theorem absB_some {is : Block} {pos : Nat} {i : Instr} (c : St) (h : is[pos]? = some i) :
    absB is (.node pos (some c)) = absI i c ++ is.drop (pos+1) := by
  unfold absB; split
  · rename_i i' h'; rw [h] at h'; cases h'; rfl
  · rename_i h'; rw [h] at h'; cases h'

theorem invB_some {is : Block} {pos : Nat} {i : Instr} (c : St) (h : is[pos]? = some i) :
    invB is (.node pos (some c)) = invI i c := by
  unfold invB; split
  · rename_i i' h'; rw [h] at h'; cases h'; rfl
  · rename_i h'; rw [h] at h'; cases h'

theorem absI_ite_some {bs : List Branch} {pos : Nat} {br : Branch} (c : St) (h : bs[pos]? = some br) :
    absI (.ite bs) (.node pos (some c)) = absB br.2 c := by
  unfold absI; split
  · rename_i br' h'; rw [h] at h'; cases h'; rfl
  · rename_i h'; rw [h] at h'; cases h'

theorem invI_ite_some {bs : List Branch} {pos : Nat} {br : Branch} (c : St) (h : bs[pos]? = some br) :
    invI (.ite bs) (.node pos (some c)) = invB br.2 c := by
  unfold invI; split
  · rename_i br' h'; rw [h] at h'; cases h'; rfl
  · rename_i h'; rw [h] at h'; cases h'

theorem invI_create (i : Instr) : invI i (create i) := by
  cases i <;> simp [create, invI]

theorem absB_createBlock (is : Block) (h : wfB is = true) : absB is (createBlock is) = is := by
  cases is with
  | nil => simp [wfB] at h
  | cons a as =>
    simp [wfB] at h
    have : (a :: as)[0]? = some a := rfl
    simp [createBlock, absB_some _ this, absI_create a h.1]

theorem invB_createBlock (is : Block) (h : wfB is = true) : invB is (createBlock is) := by
  cases is with
  | nil => simp [wfB] at h
  | cons a as =>
    have : (a :: as)[0]? = some a := rfl
    simp [createBlock, invB_some _ this, invI_create a]

end Outline

namespace Outline

theorem scan_sim {σ} (W : World σ) (rest : List Branch) (pos : Nat) (w : σ) (k : Block) (r : Ret) :
    ∃ n, ((scan W rest pos w).2.2 = true →
            ∃ br, rest[(scan W rest pos w).1 - pos]? = some br ∧ pos ≤ (scan W rest pos w).1 ∧
              refIter W n (.ite rest :: k) w r = (br.2 ++ k, (scan W rest pos w).2.1, r)) ∧
         ((scan W rest pos w).2.2 = false →
            (scan W rest pos w).1 = pos + rest.length ∧
              refIter W n (.ite rest :: k) w r = (k, (scan W rest pos w).2.1, r)) := by
  induction rest generalizing pos w with
  | nil => exact ⟨1, by simp [scan], by simp [scan, refIter, ref1]⟩
  | cons a rest ih =>
    obtain ⟨p, b⟩ := a
    cases p with
    | none => exact ⟨1, by simp [scan, refIter, ref1], by simp [scan]⟩
    | some p =>
      cases hp : W.pred w p with
      | mk w' t =>
        cases t with
        | true => exact ⟨1, by simp [scan, hp, refIter, ref1], by simp [scan, hp]⟩
        | false =>
          obtain ⟨n, h1, h2⟩ := ih (pos+1) w'
          refine ⟨n+1, ?_, ?_⟩
          · intro hf
            simp [scan, hp] at hf
            obtain ⟨br, hbr, hle, hit⟩ := h1 hf
            refine ⟨br, ?_, ?_, ?_⟩
            · simp only [scan, hp]
              have : (scan W rest (pos+1) w').1 - pos = ((scan W rest (pos+1) w').1 - (pos+1)) + 1 := by omega
              simp [this, hbr]
            · simp only [scan, hp]; simp; omega
            · simp [scan, hp, refIter, ref1, hit]
          · intro hf
            simp [scan, hp] at hf
            obtain ⟨hlen, hit⟩ := h2 hf
            refine ⟨?_, ?_⟩
            · simp [scan, hp, hlen]; omega
            · simp [scan, hp, refIter, ref1, hit]

end Outline

namespace Outline

def PI {σ} (W : World σ) (i : Instr) : Prop :=
  wfI i = true → ∀ (s : St) (w : σ) (k : Block), invI i s → Sim W (stepI W i s w) (absI i s) (absI i) (invI i) k w
def PB {σ} (W : World σ) (is : Block) : Prop :=
  wfB is = true → ∀ (s : St) (w : σ) (k : Block), invB is s → Sim W (stepB W is s w) (absB is s) (absB is) (invB is) k w

/-- block case, given the property for every element -/
theorem simB_of_elems {σ} (W : World σ) (is : Block) (hel : ∀ i ∈ is, PI W i) : PB W is := by
  intro hwf s w k hinv
  match s, hinv with
  | .node pos (some c), hinv =>
    cases hget : is[pos]? with
    | none =>
      unfold invB at hinv; split at hinv
      · rename_i h'; rw [hget] at h'; cases h'
      · exact hinv.elim
    | some i =>
      rw [invB_some c hget] at hinv
      have hi := hel i (List.mem_of_getElem? hget) (wfB_get hwf hget) c w (is.drop (pos+1) ++ k) hinv
      rw [absB_some c hget]
      unfold stepB
      split
      · simp_all
      · rename_i i' hget'
        rw [hget] at hget'; cases hget'
        revert hi
        cases hstep : stepI W i c w with
        | error w' => simp [Sim]
        | propagate code w' =>
          simp only [Sim]
          intro ⟨n, k', h1, h2⟩
          exact ⟨n, k', by simpa [List.append_assoc] using h1, by simpa [List.append_assoc] using h2⟩
        | ok fin r c' w' =>
          simp only [Sim]
          intro ⟨n, hit, hinv'⟩
          cases fin with
          | false =>
            simp only [Bool.false_eq_true, if_false] at hit ⊢
            refine ⟨n, ?_, ?_⟩
            · simp [absB_some c' hget, List.append_assoc, hit]
            · intro _; rw [invB_some c' hget]; exact hinv' rfl
          | true =>
            simp only [if_true] at hit ⊢
            refine ⟨n, ?_, ?_⟩
            · by_cases hend : pos + 1 = is.length
              · simp [hend]
                have : is.drop (pos+1) = [] := by simp [hend]
                simpa [this, List.append_assoc] using hit
              · have hlt : pos + 1 < is.length := by
                  have := (List.getElem?_eq_some_iff.mp hget).1; omega
                have hget2 : is[pos+1]? = some is[pos+1] := by simp [hlt]
                have hne : (pos + 1 == is.length) = false := by simp [hend]
                rw [hne, hget2]
                simp only [Option.map_some, Bool.false_eq_true, if_false]
                rw [absB_some _ hget2, absI_create _ (wfB_get hwf hget2)]
                have hd : is.drop (pos+1) = is[pos+1] :: is.drop (pos+1+1) := by
                  rw [List.drop_eq_getElem_cons hlt]
                rw [hd] at hit
                simpa [List.append_assoc] using hit
            · intro hnf
              have hend : ¬ (pos + 1 = is.length) := by simpa using hnf
              have hlt : pos + 1 < is.length := by
                have := (List.getElem?_eq_some_iff.mp hget).1; omega
              have hget2 : is[pos+1]? = some is[pos+1] := by simp [hlt]
              rw [hget2]; simp only [Option.map_some]
              rw [invB_some _ hget2]; exact invI_create _
  | .leaf, hinv => simp [invB] at hinv
  | .node _ none, hinv => simp [invB] at hinv

end Outline

namespace Outline

theorem refIter_one_next {σ} (W : World σ) {k k' : Block} {w w' : σ} {ro : Option Ret} (r : Ret)
    (h : ref1 W k w = .next k' w' ro) (n : Nat) :
    refIter W (n+1) k w r = refIter W n k' w' (ro.getD r) := by
  simp [refIter, h]

/-- lift the simulation of a body block to the enclosing instruction, after `m` reference steps reached the body -/
theorem Sim_lift {σ} (W : World σ) {o : Out σ} {body tail k : Block} {w w0 : σ} {start : Block}
    {absb : St → Block} {invb : St → Prop}
    (m : Nat) (hpre : refIter W m (start ++ k) w0 .none = (body ++ (tail ++ k), w, .none))
    (h : Sim W o body absb invb (tail ++ k) w)
    (o' : Out σ) (abs' : St → Block) (inv' : St → Prop)
    (hok : ∀ fin r s' w', o = .ok fin r s' w' →
        ∃ fin' s'', o' = .ok fin' r s'' w' ∧
          ((if fin then [] else absb s') ++ (tail ++ k) = (if fin' then [] else abs' s'') ++ k) ∧
          ((fin = false → invb s') → fin' = false → inv' s''))
    (hprop : ∀ c w', o = .propagate c w' → o' = .propagate c w')
    : Sim W o' start abs' inv' k w0 := by
  cases o with
  | error w' => simp [Sim] at h
  | propagate c w' =>
    rw [hprop c w' rfl]
    obtain ⟨n, k', h1, h2⟩ := h
    refine ⟨m + n, k', ?_, ?_⟩ <;> rw [refIter_add, hpre] <;> assumption
  | ok fin r s' w' =>
    obtain ⟨fin', s'', ho', habs, hinv⟩ := hok fin r s' w' rfl
    rw [ho']
    obtain ⟨n, h1, h2⟩ := h
    refine ⟨m + n, ?_, hinv h2⟩
    rw [refIter_add, hpre]; simp only; rw [h1, habs]

end Outline

namespace Outline

theorem simI_call {σ} (W : World σ) (f : Nat) : PI W (.call f) := by
  intro _ s w k _
  cases hf : W.stepFn w f with
  | mk w' r =>
    simp only [stepI, hf, Sim]
    refine ⟨1, ?_, by simp⟩
    simp [absI, refIter, ref1, hf]

theorem simI_ret {σ} (W : World σ) (c : Option Int) : PI W (.ret c) := by
  intro _ s w k _
  simp only [stepI, Sim]
  exact ⟨0, k, by simp [absI, refIter], by simp [refIter]⟩

theorem simI_while {σ} (W : World σ) (p : Nat) (b : Block) (hb : PB W b) : PI W (.while_ p b) := by
  intro hwf s w k hinv
  have hwb : wfB b = true := by simpa [wfI] using hwf
  match s, hinv with
  | .leaf, h => simp [invI] at h
  | .node q (some c), h =>
    have hc : invB b c := by simpa [invI] using h
    have hs := hb hwb c w ([.while_ p b] ++ k) hc
    have habs : absI (.while_ p b) (.node q (some c)) = absB b c ++ [.while_ p b] := by simp [absI]
    rw [habs]
    refine Sim_lift W (tail := [.while_ p b]) 0 (by simp [refIter, List.append_assoc]) hs _ _ _ ?_ ?_
    · intro fin r s' w' ho
      refine ⟨false, .node 0 (if fin then none else some s'), by simp [stepI, ho], ?_, ?_⟩
      · cases fin <;> simp [absI]
      · intro hi _; cases fin <;> simp_all [invI]
    · intro c' w' ho; simp [stepI, ho]
  | .node q none, _ =>
    cases hp : W.pred w p with
    | mk w1 t =>
      cases t with
      | false =>
        simp only [stepI, hp, Sim]
        refine ⟨1, ?_, by simp⟩
        simp [absI, refIter, ref1, hp]
      | true =>
        have hs := hb hwb (createBlock b) w1 ([.while_ p b] ++ k) (invB_createBlock b hwb)
        rw [absB_createBlock b hwb] at hs
        refine Sim_lift W (tail := [.while_ p b]) 1 (by simp [absI, refIter, ref1, hp]) hs _ _ _ ?_ ?_
        · intro fin r s' w' ho
          refine ⟨false, .node 0 (if fin then none else some s'), by simp [stepI, hp, ho], ?_, ?_⟩
          · cases fin <;> simp [absI]
          · intro hi _; cases fin <;> simp_all [invI]
        · intro c' w' ho; simp [stepI, hp, ho]

end Outline

namespace Outline

theorem simI_ite {σ} (W : World σ) (bs : List Branch) (hb : ∀ br ∈ bs, PB W br.2) : PI W (.ite bs) := by
  intro hwf s w k hinv
  have hne : bs ≠ [] := by
    intro h; subst h; simp [wfI] at hwf
  have hwbs : wfBranches bs = true := by
    simp [wfI] at hwf; exact hwf.2
  match s, hinv with
  | .leaf, h => simp [invI] at h
  | .node pos (some c), h =>
    cases hget : bs[pos]? with
    | none =>
      unfold invI at h; split at h
      · rename_i h'; rw [hget] at h'; cases h'
      · exact h.elim
    | some br =>
      rw [invI_ite_some c hget] at h
      have hlt : pos < bs.length := (List.getElem?_eq_some_iff.mp hget).1
      have hposne : ¬ (pos = bs.length) := by omega
      have hs := hb br (List.mem_of_getElem? hget) (wfBranches_get hwbs hget) c w ([] ++ k) h
      rw [absI_ite_some c hget]
      have hstep : stepI W (.ite bs) (.node pos (some c)) w =
          (match stepB W br.2 c w with
           | .ok fin r c' w' => if fin then .ok true r (.node bs.length none) w' else .ok false r (.node pos (some c')) w'
           | o => o) := by
        rw [stepI]; simp only [hposne, if_false]
        split
        · rename_i h'; rw [hget] at h'; cases h'
        · rename_i br' h'; rw [hget] at h'; cases h'; rfl
      rw [hstep]
      refine Sim_lift W (tail := []) 0 (by simp [refIter]) hs _ _ _ ?_ ?_
      · intro fin r s' w' ho
        cases fin with
        | true => exact ⟨true, .node bs.length none, by simp [ho], by simp, by simp⟩
        | false =>
          refine ⟨false, .node pos (some s'), by simp [ho], by simp [absI_ite_some s' hget], ?_⟩
          intro hi _; rw [invI_ite_some s' hget]; exact hi rfl
      · intro c' w' ho; simp [ho]
  | .node pos none, h =>
    have hpos : pos = 0 := by simpa [invI] using h
    subst hpos
    have hlen : ¬ (0 = bs.length) := by
      intro h0; exact hne (List.eq_nil_of_length_eq_zero h0.symm)
    have habs : absI (.ite bs) (.node 0 none) = [.ite bs] := by simp [absI, hlen]
    rw [habs]
    obtain ⟨n, hfound, hnot⟩ := scan_sim W bs 0 w k .none
    cases hsc : scan W bs 0 w with
    | mk pos' rest =>
      obtain ⟨w1, found⟩ := rest
      rw [hsc] at hfound hnot
      simp only at hfound hnot
      cases found with
      | false =>
        obtain ⟨hp', hit⟩ := hnot rfl
        have hp'' : pos' = bs.length := by omega
        have hstep : stepI W (.ite bs) (.node 0 none) w = .ok true .none (.node pos' none) w1 := by
          rw [stepI]; simp only [hlen, if_false, hsc, hp'', if_true]
        rw [hstep]
        exact ⟨n, by simpa using hit, by simp⟩
      | true =>
        obtain ⟨br, hget, _, hit⟩ := hfound rfl
        simp only [Nat.sub_zero] at hget
        have hlt : pos' < bs.length := (List.getElem?_eq_some_iff.mp hget).1
        have hp'' : ¬ (pos' = bs.length) := by omega
        have hwb := wfBranches_get hwbs hget
        have hs := hb br (List.mem_of_getElem? hget) hwb (createBlock br.2) w1 ([] ++ k) (invB_createBlock _ hwb)
        rw [absB_createBlock _ hwb] at hs
        have hstep : stepI W (.ite bs) (.node 0 none) w =
            (match stepB W br.2 (createBlock br.2) w1 with
             | .ok fin r c' w' => if fin then .ok true r (.node bs.length none) w' else .ok false r (.node pos' (some c')) w'
             | o => o) := by
          rw [stepI]; simp only [hlen, if_false, hsc, hp'']
          split
          · rename_i h'; simp only [hsc] at h'; rw [hget] at h'; cases h'
          · rename_i br' h'; simp only [hsc] at h'; rw [hget] at h'; cases h'; rfl
        rw [hstep]
        refine Sim_lift W (tail := []) n (by simpa using hit) hs _ _ _ ?_ ?_
        · intro fin r s' w' ho
          cases fin with
          | true => exact ⟨true, .node bs.length none, by simp [ho], by simp, by simp⟩
          | false =>
            refine ⟨false, .node pos' (some s'), by simp [ho], by simp [absI_ite_some s' hget], ?_⟩
            intro hi _; rw [invI_ite_some s' hget]; exact hi rfl
        · intro c' w' ho; simp [ho]

end Outline

namespace Outline

theorem sim_all {σ} (W : World σ) : ∀ m : Nat,
    (∀ i : Instr, sizeOf i ≤ m → PI W i) ∧ (∀ is : Block, sizeOf is ≤ m → PB W is) := by
  intro m
  induction m with
  | zero =>
    refine ⟨fun i hi => ?_, fun is his => ?_⟩
    · cases i <;> simp at hi <;> omega
    · cases is <;> simp at his
  | succ m ih =>
    refine ⟨fun i hi => ?_, fun is his => ?_⟩
    · cases i with
      | call f => exact simI_call W f
      | ret c => exact simI_ret W c
      | while_ p b => exact simI_while W p b (ih.2 b (by simp at hi; omega))
      | ite bs =>
        refine simI_ite W bs (fun br hbr => ih.2 br.2 ?_)
        have h1 := List.sizeOf_lt_of_mem hbr
        have h2 : sizeOf br.2 < sizeOf br := by cases br; simp; omega
        simp at hi; omega
    · refine simB_of_elems W is (fun i hi => ih.1 i ?_)
      have := List.sizeOf_lt_of_mem hi
      omega

/-- **Refinement**: one call of a well-formed block stepper in a live state is a finite number of reference
steps on the remaining program, returns the last step function's value, and leaves a live state. -/
theorem stepper_refines {σ} (W : World σ) (is : Block) (hwf : wfB is = true) (s : St) (w : σ) (k : Block)
    (hinv : invB is s) : Sim W (stepB W is s w) (absB is s) (absB is) (invB is) k w :=
  (sim_all W (sizeOf is)).2 is (Nat.le_refl _) hwf s w k hinv

/-- the initial stepper denotes the whole outline and is live -/
theorem initial_stepper (is : Block) (hwf : wfB is = true) :
    absB is (createBlock is) = is ∧ invB is (createBlock is) :=
  ⟨absB_createBlock is hwf, invB_createBlock is hwf⟩

-- non-vacuity: a concrete nested outline is well formed
example : wfB [.call 1, .ite [(some 0, [.while_ 1 [.call 2, .ret (some 3)]]), (none, [.call 4])], .call 5] = true := by
  decide

end Outline

#print axioms Outline.stepper_refines
#print axioms Outline.initial_stepper
