import PlumpyModel.Gen.Misc
import PlumpyModel.Gen.Launcher
/-!
# Model of `plumpy.process_comms.ProcessLauncher` (property C17)

One Lean function per Python method, same branch order:

| Python (`src/plumpy/process_comms.py`)         | here                       |
|------------------------------------------------|----------------------------|
| `ProcessLauncher.__call__`                     | `call`                     |
| `**task.get(TASK_ARGS, {})` keyword binding    | `taskArgs`, `binds`, `launchArgs?` / `continueArgs?` / `createArgs?` |
| `ProcessLauncher._launch`                      | `launch`                   |
| `ProcessLauncher._continue`                    | `continue_`                |
| `ProcessLauncher._create`                      | `create`                   |
| `nowait` tail shared by `_launch`/`_continue`  | `finish`                   |
| `Persister.save_checkpoint` / `load_checkpoint`| `Store.put` / `Store.get`  |
| `Bundle(proc, save_context)`                   | `bundle`                   |
| `Bundle.unbundle(load_context)` (`Savable.load`, `_ensure_object_loader`) | `loadLoader`, `recreate` |

Everything the launcher does not decide itself is a parameter:
* `Loaders` — the two object loaders in play (the global default one and a custom one), as partial maps from
  identifiers to classes plus the identifier each writes for a class;
* `Runtime` — the process classes: `construct` (the constructor raises or not) and `complete` (what
  `step_until_terminated()` followed by `future().result()` yields for a process of that class, with those
  constructor arguments, resumed at iteration `pos`).

Assumed contracts (modelled, exercised by the correspondence check through the real libraries, not verified):
`Persister.save_checkpoint(proc)` stores under `(proc.pid, None)` and does not fail; `load_checkpoint` of an absent key
raises; a bundle records the class identifier written by the loader of the save context (the default loader when there
is none) and that loader's class; `asyncio.ensure_future(coro)` runs nothing before the caller returns; a constructed
process gets an id no earlier process has (ids are allocated from a counter here, uuids there).
-/
namespace Launcher

/-- values found in task bodies -/
inductive Val where
  | none
  | bool (b : Bool)
  | int (i : Int)
  | str (s : String)
  | pid (p : Nat)
  | dict (kvs : List (String × Val))

abbrev Dict := List (String × Val)

/-- `d[k]` / `d.get(k)` -/
def lookup (k : String) : Dict → Option Val
  | [] => none
  | (k', v) :: r => if k' = k then some v else lookup k r

/-- Python truthiness (`if persist`, `if nowait`) -/
def Val.truthy : Val → Bool
  | .none => false
  | .bool b => b
  | .int i => i != 0
  | .str s => s != ""
  | .pid _ => true
  | .dict kvs => !kvs.isEmpty

abbrev Ident := String
abbrev ClassId := String
abbrev Pid := Nat
abbrev Tag := Option String
abbrev Outputs := List (String × Int)

inductive LoaderKind where
  | default   -- `loaders.get_object_loader()`
  | custom    -- an `ObjectLoader` instance passed by the user
  | fresh     -- a default-constructed instance of that loader's class (what a bundle that recorded the class yields)
  deriving DecidableEq, Repr

structure Loaders where
  /-- `loader.load_object(identifier)`; `none` = raises `ValueError` -/
  load : LoaderKind → Ident → Option ClassId
  /-- `loader.identify_object(cls)` -/
  identify : LoaderKind → ClassId → Ident

inductive PersKind where
  | mem (loader : Option LoaderKind)   -- `InMemoryPersister(loader=…)`
  | pickle                             -- `PicklePersister(dir)`: bundles without save context
  deriving DecidableEq, Repr

/-- how the launcher was constructed -/
structure Config where
  persister : Option PersKind       -- `none` = `persister=None`
  loader : Option LoaderKind        -- the `loader=` argument; `none` = not given
  /-- the loader carried by a caller-supplied `load_context=`; `none` = no load context given, or one without loader -/
  ctxLoader : Option LoaderKind := none
  deriving DecidableEq, Repr

/-- `self._loader` -/
def Config.launchLoader (cfg : Config) : LoaderKind := cfg.loader.getD .default

/-- the loader of `self._load_context`: `__init__` takes the caller's load context (or an empty one) and, when a
`loader` is given, overrides its loader with it (`copyextend(loader=loader)`) -/
def Config.contextLoader (cfg : Config) : Option LoaderKind :=
  match cfg.loader with
  | some l => some l
  | none => cfg.ctxLoader

/-- the loader of the persister's save context -/
def Config.saveLoader (cfg : Config) : Option LoaderKind :=
  match cfg.persister with
  | some (.mem l) => l
  | _ => none

/-- constructor arguments: `(init_args, init_kwargs)`; `.none` stands for `()` / `{}` (Python replaces `None` by them) -/
abbrev CtorArgs := Val × Val

structure Proc where
  pid : Pid
  cls : ClassId
  /-- the class the process was constructed as: stands for whatever of its persisted state was produced before the
  checkpoint (it differs from `cls` only when a loader resolves the saved identifier to another class) -/
  origin : ClassId
  init : CtorArgs
  /-- number of `Process.step()` iterations performed so far; `0` = state CREATED, nothing has run -/
  pos : Nat

inductive Outcome where
  | outputs (o : Outputs)   -- FINISHED: `future().result()` is the outputs
  | raised (e : String)     -- EXCEPTED: it raises the exception of the process (class `e`)
  | killed                  -- KILLED (by whoever, while it ran): it raises `KilledError`

structure Runtime where
  /-- `proc_class(*init_args, **init_kwargs)`: `.error c` = the constructor raises an exception of class `c` -/
  construct : ClassId → CtorArgs → Except String Unit
  /-- `await proc.step_until_terminated(); proc.future().result()` -/
  complete : Proc → Outcome

structure Checkpoint where
  ident : Ident                   -- class name written into the bundle
  recorded : Option LoaderKind    -- loader class recorded in the bundle, if the save context had one
  pid : Pid
  origin : ClassId
  init : CtorArgs
  pos : Nat

abbrev Key := Pid × Tag
abbrev Store := List (Key × Checkpoint)

def Store.get (s : Store) (k : Key) : Option Checkpoint :=
  match s with
  | [] => none
  | (k', c) :: r => if k' = k then some c else Store.get r k

def Store.erase (s : Store) (k : Key) : Store :=
  match s with
  | [] => []
  | (k', c) :: r => if k' = k then Store.erase r k else (k', c) :: Store.erase r k

def Store.put (s : Store) (k : Key) (c : Checkpoint) : Store := (k, c) :: s.erase k

def Store.keys (s : Store) : List Key := s.map (·.1)

/-- `Bundle(proc, save_context)` as made by the configured persister -/
def bundle (L : Loaders) (saveLoader : Option LoaderKind) (p : Proc) : Checkpoint :=
  { ident := L.identify (saveLoader.getD .default) p.cls, recorded := saveLoader, pid := p.pid, origin := p.origin,
    init := p.init, pos := p.pos }

/-- the bundle records the loader's CLASS; loading instantiates it without arguments -/
def instanceOfClassOf : LoaderKind → LoaderKind
  | .default => .default
  | .custom => .fresh
  | .fresh => .fresh

/-- `_ensure_object_loader`: 1) the loader of the load context, 2) a new instance of the loader class recorded in the
saved state, 3) the global default -/
def loadLoader (cfg : Config) (c : Checkpoint) : LoaderKind :=
  match cfg.contextLoader with
  | some l => l
  | none => match c.recorded with
    | some l => instanceOfClassOf l
    | none => .default

def recreate (c : Checkpoint) (cls : ClassId) : Proc :=
  { pid := c.pid, cls := cls, origin := c.origin, init := c.init, pos := c.pos }

inductive Err where
  | missingTaskKey      -- `task[TASK_KEY]` raised KeyError
  | badArguments        -- TypeError: the task arguments do not fit the method's keywords (or are not a dict)
  | badValue            -- an argument has a shape no `create_*_body` produces (fails inside the loader)
  | unknownIdentifier   -- `load_object` raised ValueError
  | noCheckpoint        -- `load_checkpoint` raised (KeyError / FileNotFoundError)
  | ctor (e : String)   -- the constructor raised
  | proc (e : String)   -- the process ended excepted: `future().result()` raised its exception
  | killed              -- the process was killed: `future().result()` raised `KilledError`
  deriving DecidableEq, Repr

inductive Reply where
  | pid (p : Pid)
  | outputs (o : Outputs)
  | error (e : Err)
  | rejected             -- `communications.TaskRejected`
  deriving DecidableEq, Repr

/-- effects of a task, in the order they happen -/
inductive Event where
  | resolved (by_ : LoaderKind) (ident : Ident) (cls : Option ClassId)   -- `load_object`
  | constructed (p : Proc)                                               -- `proc_class(*args, **kwargs)`
  | saved (k : Key) (c : Checkpoint)                                     -- `save_checkpoint(proc)`
  | loaded (k : Key) (c : Checkpoint)                                    -- `load_checkpoint(pid, tag)`
  | recreated (p : Proc)                                                 -- `unbundle`
  | ran (p : Proc)                                                       -- `p.step_until_terminated()` from `p.pos`

structure State where
  pers : Store    -- content of the persister (stays as it is when none is configured)
  next : Pid      -- the id the next constructed process gets

/-- what one task did -/
structure Step where
  reply : Reply
  st : State
  now : List Event      -- effects before the reply
  later : List Event    -- effects of what was scheduled with `ensure_future`, after the reply

def Step.reject (s : State) : Step := { reply := .rejected, st := s, now := [], later := [] }
def Step.fail (s : State) (e : Err) (pre : List Event := []) : Step := { reply := .error e, st := s, now := pre, later := [] }

def replyOf : Outcome → Reply
  | .outputs o => .outputs o
  | .raised e => .error (.proc e)
  | .killed => .error .killed

/-- the tail of `_launch` and `_continue`: `if nowait: ensure_future(...); return proc.pid` else run and report -/
def finish (R : Runtime) (s : State) (pre : List Event) (p : Proc) (nowait : Bool) : Step :=
  if nowait then { reply := .pid p.pid, st := s, now := pre, later := [.ran p] }
  else { reply := replyOf (R.complete p), st := s, now := pre ++ [.ran p], later := [] }

structure LaunchArgs where
  processClass : Val
  persist : Bool
  nowait : Bool
  init : CtorArgs

structure ContinueArgs where
  pid : Val
  nowait : Bool
  tag : Val

structure CreateArgs where
  processClass : Val
  persist : Bool
  init : CtorArgs

/-- `if persist and self._persister is not None: self._persister.save_checkpoint(proc)` -/
def persistIfAsked (cfg : Config) (L : Loaders) (s : State) (persist : Bool) (p : Proc) : State × List Event :=
  if persist && cfg.persister.isSome then
    let c := bundle L cfg.saveLoader p
    ({ s with pers := s.pers.put (p.pid, none) c }, [.saved (p.pid, none) c])
  else (s, [])

/-- `proc_class = self._loader.load_object(process_class); proc = proc_class(*init_args, **init_kwargs)`.
`.inl` = the task fails with that step, `.inr` = the new process (in state CREATED), the state with its id taken, and
the events so far -/
def instantiate (cfg : Config) (L : Loaders) (R : Runtime) (s : State) (processClass : Val) (init : CtorArgs) :
    Step ⊕ (Proc × State × List Event) :=
  match processClass with
  | .str ident =>
    match L.load cfg.launchLoader ident with
    | none => .inl (Step.fail s .unknownIdentifier [.resolved cfg.launchLoader ident none])
    | some cls =>
      match R.construct cls init with
      | .error e => .inl (Step.fail s (.ctor e) [.resolved cfg.launchLoader ident (some cls)])
      | .ok () =>
        let p : Proc := { pid := s.next, cls := cls, origin := cls, init := init, pos := 0 }
        .inr (p, { s with next := s.next + 1 }, [.resolved cfg.launchLoader ident (some cls), .constructed p])
  | _ => .inl (Step.fail s .badValue)

/-- `ProcessLauncher._launch` -/
def launch (cfg : Config) (L : Loaders) (R : Runtime) (s : State) (a : LaunchArgs) : Step :=
  if a.persist && cfg.persister.isNone then Step.reject s
  else
    match instantiate cfg L R s a.processClass a.init with
    | .inl failed => failed
    | .inr (p, s1, ev) =>
      let (s2, evSave) := persistIfAsked cfg L s1 a.persist p
      finish R s2 (ev ++ evSave) p a.nowait

/-- `ProcessLauncher._create` -/
def create (cfg : Config) (L : Loaders) (R : Runtime) (s : State) (a : CreateArgs) : Step :=
  if a.persist && cfg.persister.isNone then Step.reject s
  else
    match instantiate cfg L R s a.processClass a.init with
    | .inl failed => failed
    | .inr (p, s1, ev) =>
      let (s2, evSave) := persistIfAsked cfg L s1 a.persist p
      { reply := .pid p.pid, st := s2, now := ev ++ evSave, later := [] }

/-- the key `load_checkpoint(pid, tag)` looks up; shapes that no process id / tag has find nothing -/
def keyOf (pid tag : Val) : Option Key :=
  match pid, tag with
  | .pid p, .none => some (p, none)
  | .pid p, .str t => some (p, some t)
  | _, _ => none

/-- `ProcessLauncher._continue` -/
def continue_ (cfg : Config) (L : Loaders) (R : Runtime) (s : State) (a : ContinueArgs) : Step :=
  if cfg.persister.isNone then Step.reject s
  else
    match (keyOf a.pid a.tag).bind (fun k => (s.pers.get k).map (fun c => (k, c))) with
    | none => Step.fail s .noCheckpoint
    | some (k, c) =>
      match L.load (loadLoader cfg c) c.ident with
      | none => Step.fail s .unknownIdentifier [.loaded k c, .resolved (loadLoader cfg c) c.ident none]
      | some cls =>
        let p := recreate c cls
        finish R s [.loaded k c, .resolved (loadLoader cfg c) c.ident (some cls), .recreated p] p a.nowait

/-! ### keyword binding of `**task.get(TASK_ARGS, {})` -/

/-- the call `f(**d)` binds: every required keyword is there and (unless `**kwargs`) nothing unexpected -/
def binds (required optional : List String) (varkw : Bool) (d : Dict) : Bool :=
  required.all (fun k => (lookup k d).isSome) &&
    (varkw || d.all (fun kv => required.contains kv.1 || optional.contains kv.1))

def optVal (k : String) (d : Dict) : Val := (lookup k d).getD .none

def ctorArgs (d : Dict) : CtorArgs := (optVal Gen.comms_args_key d, optVal Gen.comms_kwargs_key d)

def launchArgs? (d : Dict) : Option LaunchArgs :=
  if binds Gen.launcher_launch_required Gen.launcher_launch_optional Gen.launcher_launch_varkw d then
    match lookup Gen.comms_process_class_key d, lookup Gen.comms_persist_key d, lookup Gen.comms_nowait_key d with
    | some c, some p, some w => some { processClass := c, persist := p.truthy, nowait := w.truthy, init := ctorArgs d }
    | _, _, _ => none
  else none

def continueArgs? (d : Dict) : Option ContinueArgs :=
  if binds Gen.launcher_continue_required Gen.launcher_continue_optional Gen.launcher_continue_varkw d then
    match lookup Gen.comms_pid_key d, lookup Gen.comms_nowait_key d with
    | some p, some w => some { pid := p, nowait := w.truthy, tag := optVal Gen.comms_tag_key d }
    | _, _ => none
  else none

def createArgs? (d : Dict) : Option CreateArgs :=
  if binds Gen.launcher_create_required Gen.launcher_create_optional Gen.launcher_create_varkw d then
    match lookup Gen.comms_process_class_key d, lookup Gen.comms_persist_key d with
    | some c, some p => some { processClass := c, persist := p.truthy, init := ctorArgs d }
    | _, _ => none
  else none

inductive Method where
  | launch | continue_ | create
  deriving DecidableEq, Repr

def methodOfName (n : String) : Option Method :=
  if n = "_launch" then some .launch
  else if n = "_continue" then some .continue_
  else if n = "_create" then some .create
  else none

/-- the `if task_type == …` chain of `__call__`, in source order (table generated from the source) -/
def dispatchIn : List (String × String) → String → Option Method
  | [], _ => none
  | (name, meth) :: r, t => if t = name then methodOfName meth else dispatchIn r t

def dispatch (taskType : Val) : Option Method :=
  match taskType with
  | .str t => dispatchIn Gen.launcherDispatch t
  | _ => none

/-- `task.get(TASK_ARGS, {})`, which must be a mapping to be splatted -/
def taskArgs (body : Dict) : Option Dict :=
  match lookup Gen.comms_task_args body with
  | none => some []
  | some (.dict d) => some d
  | some _ => none

def orBadArguments {α} (s : State) (a : Option α) (f : α → Step) : Step :=
  match a with
  | some x => f x
  | none => Step.fail s .badArguments

/-- `ProcessLauncher.__call__(communicator, task)` -/
def call (cfg : Config) (L : Loaders) (R : Runtime) (s : State) (body : Dict) : Step :=
  match lookup Gen.launcherTaskSubject body with
  | none => Step.fail s .missingTaskKey
  | some t =>
    match dispatch t with
    | none => Step.reject s
    | some m =>
      orBadArguments s (taskArgs body) fun d =>
        match m with
        | .launch => orBadArguments s (launchArgs? d) (launch cfg L R s)
        | .continue_ => orBadArguments s (continueArgs? d) (continue_ cfg L R s)
        | .create => orBadArguments s (createArgs? d) (create cfg L R s)

/-- a history of tasks against one launcher: the persister (and the id counter) is the state threaded through -/
def runAll (cfg : Config) (L : Loaders) (R : Runtime) : State → List Dict → List Step
  | _, [] => []
  | s, b :: r => let st := call cfg L R s b; st :: runAll cfg L R st.st r

def finalState (cfg : Config) (L : Loaders) (R : Runtime) : State → List Dict → State
  | s, [] => s
  | s, b :: r => finalState cfg L R (call cfg L R s b).st r

/-! ### the bodies written by `create_launch_body`, `create_continue_body`, `create_create_body` -/

def launchBody (ident : Ident) (init : CtorArgs) (persist nowait : Bool) : Dict :=
  [(Gen.comms_task_key, .str Gen.comms_launch_task),
   (Gen.comms_task_args, .dict [(Gen.comms_process_class_key, .str ident), (Gen.comms_persist_key, .bool persist),
      (Gen.comms_nowait_key, .bool nowait), (Gen.comms_args_key, init.1), (Gen.comms_kwargs_key, init.2)])]

def continueBody (pid : Pid) (tag : Tag) (nowait : Bool) : Dict :=
  [(Gen.comms_task_key, .str Gen.comms_continue_task),
   (Gen.comms_task_args, .dict [(Gen.comms_pid_key, .pid pid), (Gen.comms_nowait_key, .bool nowait),
      (Gen.comms_tag_key, match tag with | none => .none | some t => .str t)])]

def createBody (ident : Ident) (init : CtorArgs) (persist : Bool) : Dict :=
  [(Gen.comms_task_key, .str Gen.comms_create_task),
   (Gen.comms_task_args, .dict [(Gen.comms_process_class_key, .str ident), (Gen.comms_persist_key, .bool persist),
      (Gen.comms_args_key, init.1), (Gen.comms_kwargs_key, init.2)])]

end Launcher
