import PlumpyModel.Launcher.Model
/-!
Helper lemmas for the C17 theorems: projections of event lists, the store (`get`/`put`), what one task may do to the
state (frame lemmas), and the invariants of a history.
-/
namespace Launcher

/-! ### projections of the event list -/

def ranProcs : List Event → List Proc
  | [] => []
  | .ran p :: r => p :: ranProcs r
  | _ :: r => ranProcs r

def savedOf : List Event → List (Key × Checkpoint)
  | [] => []
  | .saved k c :: r => (k, c) :: savedOf r
  | _ :: r => savedOf r

def loadedOf : List Event → List (Key × Checkpoint)
  | [] => []
  | .loaded k c :: r => (k, c) :: loadedOf r
  | _ :: r => loadedOf r

def builtOf : List Event → List Proc
  | [] => []
  | .constructed p :: r => p :: builtOf r
  | .recreated p :: r => p :: builtOf r
  | _ :: r => builtOf r

def resolutionsOf : List Event → List (LoaderKind × Ident × Option ClassId)
  | [] => []
  | .resolved k i c :: r => (k, i, c) :: resolutionsOf r
  | _ :: r => resolutionsOf r

@[simp] theorem ranProcs_append (a b : List Event) : ranProcs (a ++ b) = ranProcs a ++ ranProcs b := by
  induction a with
  | nil => rfl
  | cons e r ih => cases e <;> simp [ranProcs, ih]

@[simp] theorem savedOf_append (a b : List Event) : savedOf (a ++ b) = savedOf a ++ savedOf b := by
  induction a with
  | nil => rfl
  | cons e r ih => cases e <;> simp [savedOf, ih]

@[simp] theorem builtOf_append (a b : List Event) : builtOf (a ++ b) = builtOf a ++ builtOf b := by
  induction a with
  | nil => rfl
  | cons e r ih => cases e <;> simp [builtOf, ih]

@[simp] theorem loadedOf_append (a b : List Event) : loadedOf (a ++ b) = loadedOf a ++ loadedOf b := by
  induction a with
  | nil => rfl
  | cons e r ih => cases e <;> simp [loadedOf, ih]

@[simp] theorem resolutionsOf_append (a b : List Event) : resolutionsOf (a ++ b) = resolutionsOf a ++ resolutionsOf b := by
  induction a with
  | nil => rfl
  | cons e r ih => cases e <;> simp [resolutionsOf, ih]

/-- `save_checkpoint` calls replayed on a store, oldest first -/
def applySaves : List (Key × Checkpoint) → Store → Store
  | [], s => s
  | (k, c) :: r, s => applySaves r (s.put k c)

theorem applySaves_append (a b : List (Key × Checkpoint)) (s : Store) :
    applySaves (a ++ b) s = applySaves b (applySaves a s) := by
  induction a generalizing s with
  | nil => rfl
  | cons e r ih => obtain ⟨k, c⟩ := e; simp [applySaves, ih]

/-- a step that refuses the task: `TaskRejected`, or an exception that is not the outcome of a process -/
def Reply.refused : Reply → Bool
  | .rejected => true
  | .error (.proc _) => false
  | .error .killed => false
  | .error _ => true
  | _ => false

/-- nothing was constructed, recreated, saved or run, nothing is scheduled, the state is as before -/
structure Step.Inert (st : Step) (s : State) : Prop where
  state : st.st = s
  later : st.later = []
  ran : ranProcs st.now = []
  saved : savedOf st.now = []
  built : builtOf st.now = []

theorem Step.reject_inert (s : State) : (Step.reject s).Inert s := ⟨rfl, rfl, rfl, rfl, rfl⟩

/-! ### the store -/

theorem Store.get_put_same (s : Store) (k : Key) (c : Checkpoint) : (s.put k c).get k = some c := by
  simp [Store.put, Store.get]

theorem Store.get_erase_ne (s : Store) (k k' : Key) (h : k' ≠ k) : (s.erase k).get k' = s.get k' := by
  induction s with
  | nil => rfl
  | cons e r ih =>
    obtain ⟨ke, ce⟩ := e
    by_cases hk : ke = k
    · subst hk
      have hne : ¬ ke = k' := fun h' => h h'.symm
      simp [Store.erase, Store.get, hne, ih]
    · by_cases hk' : ke = k'
      · subst hk'
        simp [Store.erase, Store.get, hk]
      · simp [Store.erase, Store.get, hk, hk', ih]

theorem Store.get_put_other (s : Store) (k k' : Key) (c : Checkpoint) (h : k' ≠ k) : (s.put k c).get k' = s.get k' := by
  have hk : k ≠ k' := fun h' => h h'.symm
  simp only [Store.put, Store.get, hk, if_false]
  exact Store.get_erase_ne s k k' h

theorem Store.mem_erase {s : Store} {k k' : Key} {c' : Checkpoint} (h : (k', c') ∈ s.erase k) : (k', c') ∈ s := by
  induction s with
  | nil => simp [Store.erase] at h
  | cons e r ih =>
    obtain ⟨ke, ce⟩ := e
    by_cases hk : ke = k
    · simp only [Store.erase, hk, if_true] at h
      exact List.mem_cons_of_mem _ (ih h)
    · simp only [Store.erase, hk, if_false, List.mem_cons] at h
      rcases h with h | h
      · rw [h]; exact List.mem_cons_self
      · exact List.mem_cons_of_mem _ (ih h)

theorem Store.mem_of_get {s : Store} {k : Key} {c : Checkpoint} (h : s.get k = some c) : (k, c) ∈ s := by
  induction s with
  | nil => simp [Store.get] at h
  | cons e r ih =>
    obtain ⟨ke, ce⟩ := e
    by_cases hk : ke = k
    · simp [Store.get, hk] at h
      subst hk; subst h; exact List.mem_cons_self
    · simp [Store.get, hk] at h
      exact List.mem_cons_of_mem _ (ih h)

/-- every checkpoint is filed under the id of the process it is a checkpoint of, and that id has been handed out -/
def Inv (s : State) : Prop := ∀ k c, (k, c) ∈ s.pers → c.pid = k.1 ∧ k.1 < s.next

theorem mem_put {s : Store} {k k' : Key} {c c' : Checkpoint} (h : (k', c') ∈ s.put k c) :
    (k' = k ∧ c' = c) ∨ (k', c') ∈ s := by
  simp only [Store.put, List.mem_cons] at h
  rcases h with h | h
  · left; cases h; exact ⟨rfl, rfl⟩
  · right; exact Store.mem_erase h

/-! ### case analysis of the three methods -/

variable (cfg : Config) (L : Loaders) (R : Runtime) (s : State)

theorem replyOf_not_refused (o : Outcome) : (replyOf o).refused = false := by cases o <;> rfl

theorem finish_not_refused (pre : List Event) (p : Proc) (w : Bool) : (finish R s pre p w).reply.refused = false := by
  cases w
  · exact replyOf_not_refused _
  · rfl

/-- the process a launch/create task constructs -/
def fresh (s : State) (cls : ClassId) (init : CtorArgs) : Proc :=
  { pid := s.next, cls := cls, origin := cls, init := init, pos := 0 }

theorem instantiate_inl {pc : Val} {init : CtorArgs} {f : Step} (h : instantiate cfg L R s pc init = .inl f) :
    f.Inert s ∧ f.reply.refused = true ∧ loadedOf f.now = [] ∧
      ∀ e ∈ resolutionsOf f.now, e.1 = cfg.launchLoader ∧ e.2.2 = L.load cfg.launchLoader e.2.1 := by
  unfold instantiate at h
  split at h
  · split at h
    · rename_i hl
      cases h; refine ⟨⟨rfl, rfl, rfl, rfl, rfl⟩, rfl, rfl, ?_⟩
      simp [Step.fail, resolutionsOf, hl]
    · split at h
      · rename_i hl _ _ _
        cases h; refine ⟨⟨rfl, rfl, rfl, rfl, rfl⟩, rfl, rfl, ?_⟩
        simp [Step.fail, resolutionsOf, hl]
      · cases h
  · cases h; exact ⟨⟨rfl, rfl, rfl, rfl, rfl⟩, rfl, rfl, by simp [Step.fail, resolutionsOf]⟩

theorem instantiate_inr {pc : Val} {init : CtorArgs} {p : Proc} {s1 : State} {ev : List Event}
    (h : instantiate cfg L R s pc init = .inr (p, s1, ev)) :
    ∃ ident cls, pc = .str ident ∧ L.load cfg.launchLoader ident = some cls ∧ R.construct cls init = .ok () ∧
      p = fresh s cls init ∧ s1 = { s with next := s.next + 1 } ∧
      ev = [.resolved cfg.launchLoader ident (some cls), .constructed (fresh s cls init)] := by
  unfold instantiate at h
  split at h
  · rename_i ident
    split at h
    · cases h
    · rename_i cls hl
      split at h
      · cases h
      · rename_i hc
        cases h
        exact ⟨ident, cls, rfl, hl, hc, rfl, rfl, rfl⟩
  · cases h

theorem instantiate_ok {ident : Ident} {cls : ClassId} {init : CtorArgs}
    (hl : L.load cfg.launchLoader ident = some cls) (hc : R.construct cls init = .ok ()) :
    instantiate cfg L R s (.str ident) init = .inr (fresh s cls init, { s with next := s.next + 1 },
      [.resolved cfg.launchLoader ident (some cls), .constructed (fresh s cls init)]) := by
  simp [instantiate, hl, hc, fresh]

/-- the three ways `_launch` can go -/
theorem launch_cases (a : LaunchArgs) :
    (a.persist = true ∧ cfg.persister = none ∧ launch cfg L R s a = Step.reject s) ∨
    (∃ f, instantiate cfg L R s a.processClass a.init = .inl f ∧ launch cfg L R s a = f) ∨
    (∃ ident cls, ¬ (a.persist = true ∧ cfg.persister = none) ∧ a.processClass = .str ident ∧
      L.load cfg.launchLoader ident = some cls ∧ R.construct cls a.init = .ok () ∧
      launch cfg L R s a =
        finish R (persistIfAsked cfg L { s with next := s.next + 1 } a.persist (fresh s cls a.init)).1
          ([.resolved cfg.launchLoader ident (some cls), .constructed (fresh s cls a.init)] ++
            (persistIfAsked cfg L { s with next := s.next + 1 } a.persist (fresh s cls a.init)).2)
          (fresh s cls a.init) a.nowait) := by
  by_cases hp : a.persist = true ∧ cfg.persister = none
  · left
    refine ⟨hp.1, hp.2, ?_⟩
    simp [launch, hp.1, hp.2]
  · right
    have hp' : (a.persist && cfg.persister.isNone) = false := by
      cases hpp : a.persist <;> cases hq : cfg.persister <;> simp_all
    cases hi : instantiate cfg L R s a.processClass a.init with
    | inl f => left; exact ⟨f, rfl, by simp [launch, hp', hi]⟩
    | inr r =>
      obtain ⟨p, s1, ev⟩ := r
      obtain ⟨ident, cls, h1, h2, h3, h4, h5, h6⟩ := instantiate_inr cfg L R s hi
      right
      refine ⟨ident, cls, hp, h1, h2, h3, ?_⟩
      subst h4 h5 h6
      simp [launch, hp', hi]

/-- the two ways `_create` differs from `_launch`: it replies the id and neither runs nor schedules anything -/
theorem create_cases (a : CreateArgs) :
    (a.persist = true ∧ cfg.persister = none ∧ create cfg L R s a = Step.reject s) ∨
    (∃ f, instantiate cfg L R s a.processClass a.init = .inl f ∧ create cfg L R s a = f) ∨
    (∃ ident cls, ¬ (a.persist = true ∧ cfg.persister = none) ∧ a.processClass = .str ident ∧
      L.load cfg.launchLoader ident = some cls ∧ R.construct cls a.init = .ok () ∧
      create cfg L R s a =
        { reply := .pid s.next,
          st := (persistIfAsked cfg L { s with next := s.next + 1 } a.persist (fresh s cls a.init)).1,
          now := [.resolved cfg.launchLoader ident (some cls), .constructed (fresh s cls a.init)] ++
            (persistIfAsked cfg L { s with next := s.next + 1 } a.persist (fresh s cls a.init)).2,
          later := [] }) := by
  by_cases hp : a.persist = true ∧ cfg.persister = none
  · left
    refine ⟨hp.1, hp.2, ?_⟩
    simp [create, hp.1, hp.2]
  · right
    have hp' : (a.persist && cfg.persister.isNone) = false := by
      cases hpp : a.persist <;> cases hq : cfg.persister <;> simp_all
    cases hi : instantiate cfg L R s a.processClass a.init with
    | inl f => left; exact ⟨f, rfl, by simp [create, hp', hi]⟩
    | inr r =>
      obtain ⟨p, s1, ev⟩ := r
      obtain ⟨ident, cls, h1, h2, h3, h4, h5, h6⟩ := instantiate_inr cfg L R s hi
      right
      refine ⟨ident, cls, hp, h1, h2, h3, ?_⟩
      subst h4 h5 h6
      simp [create, hp', hi, fresh]

/-- the ways `_continue` can go -/
theorem continue_cases (a : ContinueArgs) :
    (cfg.persister = none ∧ continue_ cfg L R s a = Step.reject s) ∨
    (cfg.persister ≠ none ∧ (∀ k, keyOf a.pid a.tag = some k → s.pers.get k = none) ∧
      continue_ cfg L R s a = Step.fail s .noCheckpoint) ∨
    (∃ k c, cfg.persister ≠ none ∧ keyOf a.pid a.tag = some k ∧ s.pers.get k = some c ∧
      L.load (loadLoader cfg c) c.ident = none ∧
      continue_ cfg L R s a = Step.fail s .unknownIdentifier [.loaded k c, .resolved (loadLoader cfg c) c.ident none]) ∨
    (∃ k c cls, cfg.persister ≠ none ∧ keyOf a.pid a.tag = some k ∧ s.pers.get k = some c ∧
      L.load (loadLoader cfg c) c.ident = some cls ∧
      continue_ cfg L R s a = finish R s
        [.loaded k c, .resolved (loadLoader cfg c) c.ident (some cls), .recreated (recreate c cls)] (recreate c cls) a.nowait) := by
  cases hp : cfg.persister with
  | none => left; exact ⟨rfl, by simp [continue_, hp]⟩
  | some pk =>
    right
    cases hk : keyOf a.pid a.tag with
    | none => left; exact ⟨by simp, by simp, by simp [continue_, hp, hk]⟩
    | some k =>
      cases hg : s.pers.get k with
      | none =>
        left
        refine ⟨by simp, ?_, by simp [continue_, hp, hk, hg]⟩
        intro k' hk'; cases hk'; exact hg
      | some c =>
        right
        cases hl : L.load (loadLoader cfg c) c.ident with
        | none => left; exact ⟨k, c, by simp, rfl, hg, hl, by simp [continue_, hp, hk, hg, hl]⟩
        | some cls => right; exact ⟨k, c, cls, by simp, rfl, hg, hl, by simp [continue_, hp, hk, hg, hl]⟩

/-! ### `persistIfAsked` -/

theorem persistIfAsked_no (s1 : State) (p : Proc) (persist : Bool) (h : ¬ (persist = true ∧ cfg.persister ≠ none)) :
    persistIfAsked cfg L s1 persist p = (s1, []) := by
  cases persist <;> cases hq : cfg.persister <;> simp_all [persistIfAsked]

theorem persistIfAsked_yes (s1 : State) (p : Proc) (persist : Bool) (h1 : persist = true) (h2 : cfg.persister ≠ none) :
    persistIfAsked cfg L s1 persist p =
      ({ s1 with pers := s1.pers.put (p.pid, none) (bundle L cfg.saveLoader p) },
       [.saved (p.pid, none) (bundle L cfg.saveLoader p)]) := by
  cases hq : cfg.persister <;> simp_all [persistIfAsked]

/-- in every case: the store afterwards is the store before plus the saves announced, and the id counter is kept -/
theorem persistIfAsked_frame (s1 : State) (p : Proc) (persist : Bool) :
    (persistIfAsked cfg L s1 persist p).1.next = s1.next ∧
    (persistIfAsked cfg L s1 persist p).1.pers = applySaves (savedOf (persistIfAsked cfg L s1 persist p).2) s1.pers ∧
    ranProcs (persistIfAsked cfg L s1 persist p).2 = [] ∧ builtOf (persistIfAsked cfg L s1 persist p).2 = [] ∧
    resolutionsOf (persistIfAsked cfg L s1 persist p).2 = [] ∧
    (cfg.persister = none → (persistIfAsked cfg L s1 persist p).2 = []) := by
  by_cases h : persist = true ∧ cfg.persister ≠ none
  · rw [persistIfAsked_yes cfg L s1 p persist h.1 h.2]
    refine ⟨rfl, rfl, rfl, rfl, rfl, fun hn => absurd hn h.2⟩
  · rw [persistIfAsked_no cfg L s1 p persist h]
    exact ⟨rfl, rfl, rfl, rfl, rfl, fun _ => rfl⟩

/-! ### what every task guarantees about the state it leaves and the effects it announces -/

structure Frame (cfg : Config) (s : State) (st : Step) : Prop where
  /-- ids are only ever handed out -/
  next_le : s.next ≤ st.st.next
  /-- the persister changes through the announced saves and in no other way -/
  pers : st.st.pers = applySaves (savedOf st.now) s.pers
  /-- a save made by the launcher files the INITIAL state of the process constructed by this task under `(pid, None)` -/
  saves : ∀ kc ∈ savedOf st.now, kc.1 = (s.next, none) ∧ kc.2.pid = s.next ∧ kc.2.pos = 0 ∧ st.st.next = s.next + 1
  /-- what is left for after the reply is running only -/
  later : savedOf st.later = [] ∧ builtOf st.later = [] ∧ loadedOf st.later = []
  /-- without persister nothing is saved or loaded -/
  nopers : cfg.persister = none → savedOf st.now = [] ∧ loadedOf st.now = []
  /-- only a process constructed or recreated by this very task runs -/
  ran : ∀ p ∈ ranProcs (st.now ++ st.later), p ∈ builtOf st.now
  /-- what is loaded is what the store holds under that key -/
  loaded : ∀ kc ∈ loadedOf st.now, s.pers.get kc.1 = some kc.2

theorem Frame.of_inert {st : Step} (h : st.Inert s) (hl : ∀ kc ∈ loadedOf st.now, s.pers.get kc.1 = some kc.2)
    (hn : cfg.persister = none → loadedOf st.now = []) : Frame cfg s st where
  next_le := by rw [h.state]; exact Nat.le_refl _
  pers := by rw [h.state, h.saved]; rfl
  saves := by rw [h.saved]; intro kc hkc; cases hkc
  later := by rw [h.later]; exact ⟨rfl, rfl, rfl⟩
  nopers := fun hp => ⟨h.saved, hn hp⟩
  ran := by rw [h.later, List.append_nil, h.ran]; intro p hp; cases hp
  loaded := hl

theorem Frame.reject : Frame cfg s (Step.reject s) :=
  Frame.of_inert cfg s (Step.reject_inert s) (by intro kc hkc; cases hkc) (fun _ => rfl)

theorem Frame.fail (e : Err) : Frame cfg s (Step.fail s e) :=
  Frame.of_inert cfg s ⟨rfl, rfl, rfl, rfl, rfl⟩ (by intro kc hkc; cases hkc) (fun _ => rfl)

theorem launch_frame (a : LaunchArgs) : Frame cfg s (launch cfg L R s a) := by
  rcases launch_cases cfg L R s a with ⟨_, _, h⟩ | ⟨f, hf, h⟩ | ⟨ident, cls, hp, hc, hl, hcons, h⟩ <;> rw [h]
  · exact Frame.reject cfg s
  · have hi := instantiate_inl cfg L R s hf
    exact Frame.of_inert cfg s hi.1 (by rw [hi.2.2.1]; intro kc hkc; cases hkc) (fun _ => hi.2.2.1)
  · by_cases hq : a.persist = true ∧ cfg.persister ≠ none
    · rw [persistIfAsked_yes cfg L _ _ _ hq.1 hq.2]
      cases a.nowait <;>
        constructor <;> simp [finish, savedOf, builtOf, ranProcs, loadedOf, applySaves, fresh, bundle, hq.2]
    · rw [persistIfAsked_no cfg L _ _ _ hq]
      cases a.nowait <;>
        constructor <;> simp [finish, savedOf, builtOf, ranProcs, loadedOf, applySaves, fresh]

theorem create_frame (a : CreateArgs) : Frame cfg s (create cfg L R s a) := by
  rcases create_cases cfg L R s a with ⟨_, _, h⟩ | ⟨f, hf, h⟩ | ⟨ident, cls, hp, hc, hl, hcons, h⟩ <;> rw [h]
  · exact Frame.reject cfg s
  · have hi := instantiate_inl cfg L R s hf
    exact Frame.of_inert cfg s hi.1 (by rw [hi.2.2.1]; intro kc hkc; cases hkc) (fun _ => hi.2.2.1)
  · by_cases hq : a.persist = true ∧ cfg.persister ≠ none
    · rw [persistIfAsked_yes cfg L _ _ _ hq.1 hq.2]
      constructor <;> simp [savedOf, builtOf, ranProcs, loadedOf, applySaves, fresh, bundle, hq.2]
    · rw [persistIfAsked_no cfg L _ _ _ hq]
      constructor <;> simp [savedOf, builtOf, ranProcs, loadedOf, applySaves, fresh]

theorem continue_frame (a : ContinueArgs) : Frame cfg s (continue_ cfg L R s a) := by
  rcases continue_cases cfg L R s a with ⟨_, h⟩ | ⟨_, _, h⟩ | ⟨k, c, hp, hk, hg, hl, h⟩ | ⟨k, c, cls, hp, hk, hg, hl, h⟩ <;> rw [h]
  · exact Frame.reject cfg s
  · exact Frame.fail cfg s _
  · constructor <;> simp [Step.fail, savedOf, builtOf, ranProcs, loadedOf, applySaves, hp, hg]
  · cases a.nowait <;>
      constructor <;> simp [finish, savedOf, builtOf, ranProcs, loadedOf, applySaves, hp, hg]

/-- the six shapes of `__call__` -/
theorem call_cases (body : Dict) :
    call cfg L R s body = Step.fail s .missingTaskKey ∨ call cfg L R s body = Step.reject s ∨
    call cfg L R s body = Step.fail s .badArguments ∨
    (∃ a, call cfg L R s body = launch cfg L R s a) ∨ (∃ a, call cfg L R s body = continue_ cfg L R s a) ∨
    (∃ a, call cfg L R s body = create cfg L R s a) := by
  unfold call
  split
  · left; rfl
  · split
    · right; left; rfl
    · rename_i m _
      cases taskArgs body with
      | none => right; right; left; rfl
      | some d =>
        simp only [orBadArguments]
        cases m with
        | launch => cases launchArgs? d with
          | none => right; right; left; rfl
          | some a => right; right; right; left; exact ⟨a, rfl⟩
        | continue_ => cases continueArgs? d with
          | none => right; right; left; rfl
          | some a => right; right; right; right; left; exact ⟨a, rfl⟩
        | create => cases createArgs? d with
          | none => right; right; left; rfl
          | some a => right; right; right; right; right; exact ⟨a, rfl⟩

theorem call_frame (body : Dict) : Frame cfg s (call cfg L R s body) := by
  rcases call_cases cfg L R s body with h | h | h | ⟨a, h⟩ | ⟨a, h⟩ | ⟨a, h⟩ <;> rw [h]
  · exact Frame.fail cfg s _
  · exact Frame.reject cfg s
  · exact Frame.fail cfg s _
  · exact launch_frame cfg L R s a
  · exact continue_frame cfg L R s a
  · exact create_frame cfg L R s a

/-! ### histories -/

def InvStore (n : Nat) (st : Store) : Prop := ∀ k c, (k, c) ∈ st → c.pid = k.1 ∧ k.1 < n

theorem InvStore.mono {n m : Nat} {st : Store} (h : n ≤ m) (hi : InvStore n st) : InvStore m st :=
  fun k c hm => ⟨(hi k c hm).1, Nat.lt_of_lt_of_le (hi k c hm).2 h⟩

theorem InvStore.put {n : Nat} {st : Store} {k : Key} {c : Checkpoint} (hi : InvStore n st) (h1 : c.pid = k.1) (h2 : k.1 < n) :
    InvStore n (st.put k c) := by
  intro k' c' hm
  rcases mem_put hm with ⟨rfl, rfl⟩ | hm'
  · exact ⟨h1, h2⟩
  · exact hi k' c' hm'

theorem InvStore.applySaves {n : Nat} (l : List (Key × Checkpoint)) {st : Store} (hi : InvStore n st)
    (hl : ∀ kc ∈ l, kc.2.pid = kc.1.1 ∧ kc.1.1 < n) : InvStore n (applySaves l st) := by
  induction l generalizing st with
  | nil => exact hi
  | cons e r ih =>
    obtain ⟨k, c⟩ := e
    have he := hl (k, c) List.mem_cons_self
    exact ih (hi.put he.1 he.2) (fun kc hkc => hl kc (List.mem_cons_of_mem _ hkc))

theorem applySaves_get_other (l : List (Key × Checkpoint)) (st : Store) (k : Key) (h : ∀ kc ∈ l, kc.1 ≠ k) :
    (applySaves l st).get k = st.get k := by
  induction l generalizing st with
  | nil => rfl
  | cons e r ih =>
    obtain ⟨k', c⟩ := e
    have hne : k ≠ k' := fun h' => h (k', c) List.mem_cons_self h'.symm
    simp only [applySaves]
    rw [ih _ (fun kc hkc => h kc (List.mem_cons_of_mem _ hkc)), Store.get_put_other _ _ _ _ hne]

theorem inv_iff (s : State) : Inv s ↔ InvStore s.next s.pers := Iff.rfl

/-- one task keeps the invariant -/
theorem call_inv (body : Dict) (h : Inv s) : Inv (call cfg L R s body).st := by
  have f := call_frame cfg L R s body
  rw [inv_iff, f.pers]
  apply InvStore.applySaves _ (InvStore.mono f.next_le h)
  intro kc hkc
  obtain ⟨h1, h2, _, h4⟩ := f.saves kc hkc
  rw [h1, h2, h4]
  exact ⟨rfl, Nat.lt_succ_self _⟩

/-- one task leaves the checkpoints of earlier processes alone -/
theorem call_get_old (body : Dict) (k : Key) (hk : k.1 < s.next) : (call cfg L R s body).st.pers.get k = s.pers.get k := by
  have f := call_frame cfg L R s body
  rw [f.pers]
  apply applySaves_get_other
  intro kc hkc h
  have := (f.saves kc hkc).1
  rw [h] at this
  rw [this] at hk
  exact Nat.lt_irrefl _ hk

theorem finalState_next_le (hist : List Dict) : s.next ≤ (finalState cfg L R s hist).next := by
  induction hist generalizing s with
  | nil => exact Nat.le_refl _
  | cons b r ih => exact Nat.le_trans (call_frame cfg L R s b).next_le (ih _)

theorem finalState_inv (hist : List Dict) (h : Inv s) : Inv (finalState cfg L R s hist) := by
  induction hist generalizing s with
  | nil => exact h
  | cons b r ih => exact ih _ (call_inv cfg L R s b h)

theorem finalState_get_old (hist : List Dict) (k : Key) (hk : k.1 < s.next) :
    (finalState cfg L R s hist).pers.get k = s.pers.get k := by
  induction hist generalizing s with
  | nil => rfl
  | cons b r ih =>
    simp only [finalState]
    rw [ih _ (Nat.lt_of_lt_of_le hk (call_frame cfg L R s b).next_le), call_get_old cfg L R s b k hk]

/-- the step a task of a history takes is `call` in the state the tasks before it have left -/
theorem runAll_step (pre post : List Dict) (b : Dict) :
    (runAll cfg L R s (pre ++ b :: post))[pre.length]? = some (call cfg L R (finalState cfg L R s pre) b) := by
  induction pre generalizing s with
  | nil => simp [runAll, finalState]
  | cons x r ih => simp [runAll, finalState, ih]

theorem runAll_length (hist : List Dict) : (runAll cfg L R s hist).length = hist.length := by
  induction hist generalizing s with
  | nil => rfl
  | cons b r ih => simp [runAll, ih]

/-- every step of a history is a `call` from some state (reached by the tasks before it) -/
theorem runAll_mem {hist : List Dict} {st : Step} (h : st ∈ runAll cfg L R s hist) :
    ∃ pre b post, hist = pre ++ b :: post ∧ st = call cfg L R (finalState cfg L R s pre) b := by
  induction hist generalizing s with
  | nil => simp [runAll] at h
  | cons b r ih =>
    simp only [runAll, List.mem_cons] at h
    rcases h with h | h
    · exact ⟨[], b, r, rfl, h⟩
    · obtain ⟨pre, b', post, h1, h2⟩ := ih _ h
      exact ⟨b :: pre, b', post, by rw [h1]; rfl, h2⟩

/-! ### dispatch and refusals -/

theorem dispatch_unknown (t : Val) (h1 : t ≠ .str Gen.comms_launch_task) (h2 : t ≠ .str Gen.comms_continue_task)
    (h3 : t ≠ .str Gen.comms_create_task) : dispatch t = none := by
  cases t with
  | str x =>
    have e1 : x ≠ Gen.comms_launch_task := fun h => h1 (by rw [h])
    have e2 : x ≠ Gen.comms_continue_task := fun h => h2 (by rw [h])
    have e3 : x ≠ Gen.comms_create_task := fun h => h3 (by rw [h])
    simp [dispatch, dispatchIn, Gen.launcherDispatch, Gen.comms_launch_task, Gen.comms_continue_task,
      Gen.comms_create_task] at *
    simp [e1, e2, e3]
  | _ => rfl

theorem launch_refused_inert (a : LaunchArgs) (h : (launch cfg L R s a).reply.refused = true) :
    (launch cfg L R s a).Inert s := by
  rcases launch_cases cfg L R s a with ⟨_, _, e⟩ | ⟨f, hf, e⟩ | ⟨ident, cls, hp, hc, hl, hcons, e⟩
  · rw [e]; exact Step.reject_inert s
  · rw [e]; exact (instantiate_inl cfg L R s hf).1
  · rw [e, finish_not_refused] at h; cases h

theorem create_refused_inert (a : CreateArgs) (h : (create cfg L R s a).reply.refused = true) :
    (create cfg L R s a).Inert s := by
  rcases create_cases cfg L R s a with ⟨_, _, e⟩ | ⟨f, hf, e⟩ | ⟨ident, cls, hp, hc, hl, hcons, e⟩
  · rw [e]; exact Step.reject_inert s
  · rw [e]; exact (instantiate_inl cfg L R s hf).1
  · rw [e] at h; cases h

theorem continue_refused_inert (a : ContinueArgs) (h : (continue_ cfg L R s a).reply.refused = true) :
    (continue_ cfg L R s a).Inert s := by
  rcases continue_cases cfg L R s a with ⟨_, e⟩ | ⟨_, _, e⟩ | ⟨k, c, hp, hk, hg, hl, e⟩ | ⟨k, c, cls, hp, hk, hg, hl, e⟩
  · rw [e]; exact Step.reject_inert s
  · rw [e]; exact ⟨rfl, rfl, rfl, rfl, rfl⟩
  · rw [e]; exact ⟨rfl, rfl, rfl, rfl, rfl⟩
  · rw [e, finish_not_refused] at h; cases h

end Launcher
