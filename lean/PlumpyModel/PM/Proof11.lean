import PlumpyModel.PM.Proof7
import PlumpyModel.PM.Proof8
import PlumpyModel.PM.Proof9
/-!
# C06 at the level of histories, part 1: frames and the end of a step

Helper lemmas for `Props/C06.lean` (history-level delivery of a wake-up).  Everything lives in `PMF.H6` so that the
names cannot clash with the other proof files.

* `Core c d`: `d` agrees with `c` on the stepping coroutine's bookkeeping (program counter, `stepping`, the interrupt
  action, the action table, the pause alias, the pause future in use, the user-call trace).  No transition touches these.
* `transitionTo_res`: a transition ends in the requested state or in EXCEPTED, and what it does to the waiting futures.
* `endOfStep_spec`: the end of a step as one statement (the step is over, the interrupt action is gone, the trace and the
  program counter are untouched, and the state is the old one, a terminal one, or the one the step asked for).
-/
namespace PMF.H6
open PMF

/-- `d` agrees with `c` on the bookkeeping of the stepping coroutine -/
structure Core (c d : Cfg) : Prop where
  pc : d.pc = c.pc
  stepping : d.stepping = c.stepping
  interrupt : d.interrupt = c.interrupt
  actions : d.actions = c.actions
  pausing : d.pausing = c.pausing
  paused : d.paused = c.paused
  trace : d.trace = c.trace

theorem Core.rfl' (c : Cfg) : Core c c := ⟨rfl, rfl, rfl, rfl, rfl, rfl, rfl⟩
theorem Core.trans {a b c : Cfg} (h1 : Core a b) (h2 : Core b c) : Core a c :=
  ⟨h2.pc.trans h1.pc, h2.stepping.trans h1.stepping, h2.interrupt.trans h1.interrupt, h2.actions.trans h1.actions,
   h2.pausing.trans h1.pausing, h2.paused.trans h1.paused, h2.trace.trans h1.trace⟩

theorem exitState_core (c : Cfg) : Core c (exitState c) := by
  unfold exitState; split
  · dsimp only; split <;> exact ⟨rfl, rfl, rfl, rfl, rfl, rfl, rfl⟩
  · exact Core.rfl' c
theorem freshFut_core (c : Cfg) : Core c (freshFutIfCancelled c) := by
  unfold freshFutIfCancelled; split <;> exact ⟨rfl, rfl, rfl, rfl, rfl, rfl, rfl⟩
theorem setFutExc_core (c : Cfg) (e) : Core c (setFutExc c e) := by
  unfold setFutExc; split <;> exact ⟨rfl, rfl, rfl, rfl, rfl, rfl, rfl⟩
theorem enteringHooks_core (c c2 : Cfg) (s : SObj) (h : enteringHooks c s = .ok c2) : Core c c2 := by
  unfold enteringHooks at h
  split at h
  · dsimp only at h
    split at h
    · cases h; exact Core.trans (freshFut_core c) ⟨rfl, rfl, rfl, rfl, rfl, rfl, rfl⟩
    · cases h
  · dsimp only at h
    split at h
    · cases h; exact Core.trans (freshFut_core c) ⟨rfl, rfl, rfl, rfl, rfl, rfl, rfl⟩
    · cases h
  · cases h; exact setFutExc_core c _
  · cases h; exact Core.rfl' c

theorem enterState_core (c : Cfg) (s : SObj) : Core c (enterState c s) := by
  unfold enterState; split
  · rename_i aw
    generalize hc : c = c0
    have : ∀ (l : List (Nat × Nat)) (d : Cfg), Core c0 d →
        Core c0 (l.foldl (fun c (p : Nat × Nat) =>
          let c := { c with efKeys := p :: c.efKeys }
          match c.efs[p.1]? with
          | some EFut.pending => { c with efCb := c.efCb ++ [p.1] }
          | some _ => { c with ready := c.ready ++ [.adone p.1] }
          | none => c) d) := by
      intro l; induction l with
      | nil => intro d hd; exact hd
      | cons a l ih =>
        intro d hd; simp only [List.foldl]
        apply ih
        split <;> exact Core.trans hd ⟨rfl, rfl, rfl, rfl, rfl, rfl, rfl⟩
    exact this aw c0 (Core.rfl' c0)
  · exact Core.rfl' c

theorem enteredHooks_core (c : Cfg) (s : SObj) : Core c (enteredHooks c s) := by
  unfold enteredHooks
  split <;> split <;> exact ⟨rfl, rfl, rfl, rfl, rfl, rfl, rfl⟩
theorem setState_core (c : Cfg) (s : SObj) : Core c (setState c s) := ⟨rfl, rfl, rfl, rfl, rfl, rfl, rfl⟩
theorem onClose_core (c : Cfg) : Core c (onClose c) := by
  unfold onClose; split <;> exact ⟨rfl, rfl, rfl, rfl, rfl, rfl, rfl⟩
theorem releasePause_core (c : Cfg) : Core c (releasePause c) := by
  unfold releasePause; split
  · split <;> exact ⟨rfl, rfl, rfl, rfl, rfl, rfl, rfl⟩
  · exact Core.rfl' c
theorem onTerminated_core (c : Cfg) : Core c (onTerminated c) := by
  unfold onTerminated; exact Core.trans (releasePause_core c) (onClose_core _)
theorem forceExcepted_core (c : Cfg) (e) : Core c (forceExcepted c e) := by
  unfold forceExcepted; split
  · exact ⟨rfl, rfl, rfl, rfl, rfl, rfl, rfl⟩
  · exact Core.trans (Core.trans (Core.trans (setFutExc_core c e) (setState_core _ _)) (enteredHooks_core _ _))
      (onTerminated_core _)
theorem enterNext_core (c : Cfg) (s) : Core c (enterNext c s) := by
  unfold enterNext
  have h := Core.trans (Core.trans (enterState_core c s) (setState_core _ s)) (enteredHooks_core _ s)
  dsimp only
  split
  · exact Core.trans h (onTerminated_core _)
  · exact h
/-- no transition touches the stepping coroutine's bookkeeping -/
theorem transitionTo_core (c : Cfg) (s) : Core c (transitionTo c s) := by
  unfold transitionTo
  split
  · dsimp only
    split
    · exact Core.trans (exitState_core c) ⟨rfl, rfl, rfl, rfl, rfl, rfl, rfl⟩
    · split
      · exact Core.trans (exitState_core c) (forceExcepted_core _ _)
      · rename_i c2 hok
        exact Core.trans (Core.trans (exitState_core c) (enteringHooks_core _ _ _ hok)) (enterNext_core _ _)
  · exact forceExcepted_core _ _

/-! ### what a transition does to the state object, the waiting futures, `killing`, `closed`, the pause futures -/

theorem forceExcepted_st (c : Cfg) (e : Exc) : (forceExcepted c e).st = .excepted e := by
  unfold forceExcepted; split
  · rfl
  · rw [(onTerminated_keep _).1, (enteredHooks_keep _ _).1]; rfl

theorem enterState_killing (c : Cfg) (s : SObj) : (enterState c s).killing = c.killing := by
  unfold enterState; split
  · rename_i aw
    generalize hc : c = c0
    have : ∀ (l : List (Nat × Nat)) (d : Cfg), d.killing = c0.killing →
        (l.foldl (fun c (p : Nat × Nat) =>
          let c := { c with efKeys := p :: c.efKeys }
          match c.efs[p.1]? with
          | some EFut.pending => { c with efCb := c.efCb ++ [p.1] }
          | some _ => { c with ready := c.ready ++ [.adone p.1] }
          | none => c) d).killing = c0.killing := by
      intro l; induction l with
      | nil => intro d hd; exact hd
      | cons a l ih =>
        intro d hd; simp only [List.foldl]
        apply ih
        split <;> exact hd
    exact this aw c0 rfl
  · rfl

/-- fields of the non-terminal branch of `enterNext` -/
theorem enterNext_live (c : Cfg) (s : SObj) (hs : terminal s.label = false) :
    (enterNext c s).st = s ∧ (enterNext c s).wfs = c.wfs ∧ (enterNext c s).pfs = c.pfs ∧
    (enterNext c s).closed = c.closed ∧ (enterNext c s).killing = c.killing := by
  have hW := enterState_sameW c s
  have hP := enterState_sameP c s
  have hS := enterState_same c s
  have hnk : s.label ≠ .killed := by intro h; rw [h] at hs; simp [terminal, allowed] at hs
  unfold enterNext
  simp only [hs, Bool.false_eq_true, if_false]
  unfold enteredHooks
  simp only [hnk, if_false]
  have hkill := enterState_killing c s
  split <;> exact ⟨rfl, hW.2, hP.2.2.2, hS.2.2, hkill⟩


theorem exitState_more (c : Cfg) : (exitState c).pfs = c.pfs ∧ (exitState c).closed = c.closed ∧
    (exitState c).killing = c.killing ∧ (exitState c).st = c.st := by
  unfold exitState; split
  · dsimp only; split <;> exact ⟨rfl, rfl, rfl, rfl⟩
  · exact ⟨rfl, rfl, rfl, rfl⟩

theorem enteringHooks_killing (c c2 : Cfg) (s : SObj) (h : enteringHooks c s = .ok c2) : c2.killing = c.killing := by
  unfold enteringHooks at h
  split at h
  · dsimp only at h
    split at h
    · cases h; unfold freshFutIfCancelled; split <;> rfl
    · cases h
  · dsimp only at h
    split at h
    · cases h; unfold freshFutIfCancelled; split <;> rfl
    · cases h
  · cases h; unfold setFutExc; split <;> rfl
  · cases h; rfl

/-- a transition ends EXCEPTED, or in the requested state with the waiting futures as `exitState` left them; if the
requested state is live, the pause futures, `closed` and `killing` are untouched -/
theorem transitionTo_res (c : Cfg) (s : SObj) :
    (∃ e, (transitionTo c s).st = .excepted e) ∨
    ((transitionTo c s).st = s ∧ (transitionTo c s).wfs = (exitState c).wfs ∧
      (terminal s.label = false → (transitionTo c s).pfs = c.pfs ∧ (transitionTo c s).closed = c.closed ∧
        (transitionTo c s).killing = c.killing)) := by
  have hx := exitState_more c
  unfold transitionTo
  split
  · dsimp only
    split
    · exact Or.inr ⟨rfl, rfl, fun _ => ⟨hx.1, hx.2.1, hx.2.2.1⟩⟩
    · split
      · exact Or.inl ⟨_, forceExcepted_st _ _⟩
      · rename_i c2 hok
        right
        have hW := enteringHooks_sameW _ c2 s hok
        have hP := enteringHooks_sameP _ c2 s hok
        have hS := enteringHooks_same _ c2 s hok
        have hK := enteringHooks_killing _ c2 s hok
        by_cases ht : terminal s.label = true
        · refine ⟨?_, ?_, fun h => by rw [ht] at h; cases h⟩
          · unfold enterNext; simp only [ht, if_true]
            rw [(onTerminated_keep _).1, (enteredHooks_keep _ _).1]; rfl
          · unfold enterNext; simp only [ht, if_true]
            rw [(onTerminated_sameW _).2, (enteredHooks_sameW _ _).2]
            show (enterState c2 s).wfs = _
            rw [(enterState_sameW c2 s).2, hW.2]
        · have ht' : terminal s.label = false := by simpa using ht
          obtain ⟨a, b, d, e, f⟩ := enterNext_live c2 s ht'
          exact ⟨a, by rw [b, hW.2], fun _ => ⟨by rw [d, hP.2.2.2, hx.1], by rw [e, hS.2.2, hx.2.1], by rw [f, hK, hx.2.2.1]⟩⟩
  · exact Or.inl ⟨_, forceExcepted_st _ _⟩

/-- a transition to a state other than KILLED leaves `_killing` alone -/
theorem transitionTo_killing (c : Cfg) (s : SObj) (hs : s.label ≠ .killed) : (transitionTo c s).killing = c.killing := by
  have hfe : ∀ d e, (forceExcepted d e).killing = d.killing := by
    intro d e
    unfold forceExcepted; split
    · rfl
    · unfold onTerminated onClose releasePause enteredHooks
      have : (SObj.excepted e).label ≠ .killed := by simp [SObj.label]
      simp only [this, if_false, enteredNotif, setState]
      have hk : (setFutExc d e).killing = d.killing := by unfold setFutExc; split <;> rfl
      repeat' split
      all_goals exact hk
  have hx := exitState_more c
  unfold transitionTo
  split
  · dsimp only
    split
    · exact hx.2.2.1
    · split
      · rw [hfe]; exact hx.2.2.1
      · rename_i c2 hok
        have hK := enteringHooks_killing _ c2 s hok
        have : (enterNext c2 s).killing = c2.killing := by
          have hes := enterState_killing c2 s
          unfold enterNext onTerminated onClose releasePause enteredHooks
          simp only [hs, if_false, setState]
          repeat' split
          all_goals exact hes
        rw [this, hK]; exact hx.2.2.1
  · exact hfe _ _


/-! ### bookkeeping functions: everything but the action table and the interrupt action is untouched -/

/-- `d` agrees with `c` on everything except (possibly) the action table and the interrupt action -/
structure Rest (c d : Cfg) : Prop where
  st : d.st = c.st
  wfs : d.wfs = c.wfs
  pc : d.pc = c.pc
  stepping : d.stepping = c.stepping
  pausing : d.pausing = c.pausing
  killing : d.killing = c.killing
  paused : d.paused = c.paused
  pfs : d.pfs = c.pfs
  trace : d.trace = c.trace
  closed : d.closed = c.closed

theorem Rest.rfl' (c : Cfg) : Rest c c := ⟨rfl, rfl, rfl, rfl, rfl, rfl, rfl, rfl, rfl, rfl⟩
theorem Rest.trans {a b c : Cfg} (h1 : Rest a b) (h2 : Rest b c) : Rest a c :=
  ⟨h2.st.trans h1.st, h2.wfs.trans h1.wfs, h2.pc.trans h1.pc, h2.stepping.trans h1.stepping, h2.pausing.trans h1.pausing,
   h2.killing.trans h1.killing, h2.paused.trans h1.paused, h2.pfs.trans h1.pfs, h2.trace.trans h1.trace,
   h2.closed.trans h1.closed⟩

theorem setActionStatus_rest (c : Cfg) (i s) : Rest c (setActionStatus c i s) ∧ (setActionStatus c i s).interrupt = c.interrupt := by
  unfold setActionStatus; split <;> exact ⟨⟨rfl, rfl, rfl, rfl, rfl, rfl, rfl, rfl, rfl, rfl⟩, rfl⟩
theorem cancelAction_rest (c : Cfg) (i) : Rest c (cancelAction c i) ∧ (cancelAction c i).interrupt = c.interrupt := by
  unfold cancelAction; split
  · exact setActionStatus_rest ..
  · exact ⟨Rest.rfl' c, rfl⟩
theorem setInterrupt_rest (c : Cfg) (n) : Rest c (setInterrupt c n) ∧ (setInterrupt c n).interrupt = n := by
  unfold setInterrupt
  split
  · exact ⟨Rest.trans (cancelAction_rest c _).1 ⟨rfl, rfl, rfl, rfl, rfl, rfl, rfl, rfl, rfl, rfl⟩, rfl⟩
  · exact ⟨⟨rfl, rfl, rfl, rfl, rfl, rfl, rfl, rfl, rfl, rfl⟩, rfl⟩
theorem cancelInterrupt_rest (c : Cfg) : Rest c (cancelInterrupt c) := by
  unfold cancelInterrupt; split
  · exact (cancelAction_rest c _).1
  · exact Rest.rfl' c
theorem setInterruptFromExc_rest (c : Cfg) (k n) : Rest c (setInterruptFromExc c k n) := by
  unfold setInterruptFromExc
  exact Rest.trans (cancelInterrupt_rest c) ⟨rfl, rfl, rfl, rfl, rfl, rfl, rfl, rfl, rfl, rfl⟩

/-- the action installed by `_set_interrupt_action_from_exception` is fresh and pending -/
theorem setInterruptFromExc_new (c : Cfg) (k : AKind) (n : Nat) :
    (setInterruptFromExc c k n).interrupt = some c.actions.length ∧
    actionStatus (setInterruptFromExc c k n) c.actions.length = .pending := by
  have hlen := cancelInterrupt_len c
  unfold setInterruptFromExc
  dsimp only
  have hget : ((cancelInterrupt c).actions ++ [({ kind := k, cookie := n, status := .pending } : Action)])[c.actions.length]? =
      some { kind := k, cookie := n, status := .pending } := by
    rw [List.getElem?_append_right (by rw [hlen]; exact Nat.le_refl _)]
    simp [hlen]
  exact ⟨by rw [hlen], by simp [actionStatus, hget]⟩

/-- cancelling a pending action leaves it cancelled -/
theorem cancelAction_self (c : Cfg) (i : Nat) (h : actionStatus c i = .pending ∨ actionStatus c i = .cancelled) :
    actionStatus (cancelAction c i) i = .cancelled := by
  unfold cancelAction
  rcases h with h | h
  · rw [if_pos h]
    unfold setActionStatus
    cases ha : c.actions[i]? with
    | none => simp [actionStatus, ha] at h
    | some a =>
      have hlt : i < c.actions.length := (List.getElem?_eq_some_iff.mp ha).1
      simp [actionStatus, setAt, hlt]
  · have : ¬ actionStatus c i = .pending := by rw [h]; intro g; cases g
    rw [if_neg this]; exact h

/-- what the three `except` clauses of `Process.step` leave behind -/
theorem prepare_rest (c : Cfg) (r : StepEnd) : Rest c (prepare c r).1 := by
  unfold prepare
  split
  · exact (setInterrupt_rest ..).1
  · exact Rest.rfl' c
  · split
    · exact Rest.rfl' c
    · exact setInterruptFromExc_rest ..
  · exact (setInterrupt_rest ..).1

theorem prepare_snd (c : Cfg) (r : StepEnd) :
    (prepare c r).2 = (match r with | .next s => s | .interruption _ => none | .exception e => some (.excepted e)) := by
  unfold prepare
  split
  · rfl
  · rfl
  · split <;> rfl
  · rfl

/-- the interrupt action is still runnable: pending, or cancelled by a `play()` -/
def ActOk (c : Cfg) : Prop := ∀ i, c.interrupt = some i → actionStatus c i = .pending ∨ actionStatus c i = .cancelled

theorem prepare_actOk (c : Cfg) (r : StepEnd) (h : ActOk c) : ActOk (prepare c r).1 := by
  have hnone : ∀ d : Cfg, ActOk (setInterrupt d none) := by
    intro d i hi; rw [(setInterrupt_rest d none).2] at hi; cases hi
  unfold prepare
  split
  · exact hnone c
  · exact h
  · rename_i cookie
    split
    · exact h
    · intro i hi
      obtain ⟨h1, h2⟩ := setInterruptFromExc_new c (kindOfCookie c cookie) cookie
      have hi' : (setInterruptFromExc c (kindOfCookie c cookie) cookie).interrupt = some i := hi
      rw [h1] at hi'; cases hi'
      exact Or.inl h2
  · exact hnone c

/-- the three possible results of the end of a step: the state object is the old one (and no waiting future changed),
or a terminal one, or the one the step asked for (and the waiting futures are as `exitState` left them) -/
def StepRes (c d : Cfg) (next : Option SObj) : Prop :=
  (d.st = c.st ∧ d.wfs = c.wfs) ∨ terminal d.st.label = true ∨
  (∃ s, next = some s ∧ d.st = s ∧ d.wfs = (exitState c).wfs)

theorem StepRes.congr {c d e : Cfg} {next : Option SObj} (h : StepRes c d next) (h1 : e.st = d.st) (h2 : e.wfs = d.wfs) :
    StepRes c e next := by
  rcases h with ⟨a, b⟩ | a | ⟨s, a, b, d'⟩
  · exact Or.inl ⟨h1.trans a, h2.trans b⟩
  · exact Or.inr (Or.inl (by rw [h1]; exact a))
  · exact Or.inr (Or.inr ⟨s, a, h1.trans b, h2.trans d'⟩)

theorem transitionTo_stepRes (c : Cfg) (s : SObj) : StepRes c (transitionTo c s) (some s) := by
  rcases transitionTo_res c s with ⟨e, he⟩ | ⟨a, b, _⟩
  · exact Or.inr (Or.inl (by rw [he]; simp [SObj.label, terminal, allowed]))
  · exact Or.inr (Or.inr ⟨s, rfl, a, b⟩)

theorem optTrans_stepRes (c : Cfg) (next : Option SObj) :
    StepRes c (match next with | some s => transitionTo c s | none => c) next ∧
    Core c (match next with | some s => transitionTo c s | none => c) := by
  cases next with
  | none => exact ⟨Or.inl ⟨rfl, rfl⟩, Core.rfl' c⟩
  | some s => exact ⟨transitionTo_stepRes c s, transitionTo_core c s⟩

theorem runAction_spec (c : Cfg) (i : Nat) (next : Option SObj) (hp : actionStatus c i = .pending) :
    (runAction c i next).pc = c.pc ∧ (runAction c i next).trace = c.trace ∧ StepRes c (runAction c i next) next := by
  unfold runAction
  split
  · exact ⟨rfl, rfl, Or.inl ⟨rfl, rfl⟩⟩
  · rename_i a ha
    have hs : a.status = .pending := by simpa [actionStatus, ha] using hp
    simp only [hs, ne_eq, not_true_eq_false, if_false]
    split
    · cases next with
      | none =>
        have hr := (setActionStatus_rest (doPauseHooks c) i .done).1
        exact ⟨hr.pc, hr.trace, Or.inl ⟨hr.st, hr.wfs⟩⟩
      | some s =>
        have hr := (setActionStatus_rest (doPauseHooks (transitionTo c s)) i .done).1
        have h2 := transitionTo_core c s
        refine ⟨?_, ?_, ?_⟩
        · show (setActionStatus (doPauseHooks (transitionTo c s)) i .done).pc = c.pc
          rw [hr.pc]; exact h2.pc
        · show (setActionStatus (doPauseHooks (transitionTo c s)) i .done).trace = c.trace
          rw [hr.trace]; exact h2.trace
        · exact (transitionTo_stepRes c s).congr (e := setActionStatus (doPauseHooks (transitionTo c s)) i .done)
            (by rw [hr.st]; rfl) (by rw [hr.wfs]; rfl)
    · have hr := (setActionStatus_rest { transitionTo c .killed with killing := none } i .done).1
      have hc := transitionTo_core c .killed
      refine ⟨?_, ?_, Or.inr (Or.inl ?_)⟩
      · rw [hr.pc]; exact hc.pc
      · rw [hr.trace]; exact hc.trace
      · rw [hr.st]
        show terminal (transitionTo c .killed).st.label = true
        rcases transitionTo_label c .killed with h | h <;> rw [h] <;> simp [SObj.label, terminal, allowed]

theorem dispatch_spec (c : Cfg) (next : Option SObj) (hact : ActOk c) :
    (dispatch c next).pc = c.pc ∧ (dispatch c next).trace = c.trace ∧ StepRes c (dispatch c next) next := by
  unfold dispatch
  split
  · exact ⟨rfl, rfl, Or.inl ⟨rfl, rfl⟩⟩
  · split
    · rename_i i hi
      split
      · rename_i hne
        rcases hact i hi with h | h
        · exact runAction_spec c i next h
        · exact absurd h hne
      · obtain ⟨h1, h2⟩ := optTrans_stepRes c next
        exact ⟨h2.pc, h2.trace, h1⟩
    · obtain ⟨h1, h2⟩ := optTrans_stepRes c next
      exact ⟨h2.pc, h2.trace, h1⟩

theorem finally_rest (c : Cfg) : Rest { c with stepping := false } (finally_ c) ∧ (finally_ c).interrupt = none := by
  unfold finally_; exact setInterrupt_rest _ _

theorem exitState_wfs_congr (c d : Cfg) (h1 : d.st = c.st) (h2 : d.wfs = c.wfs) : (exitState d).wfs = (exitState c).wfs := by
  unfold exitState
  rw [h1]
  split
  · dsimp only; rw [h2]; split <;> simp [h2]
  · exact h2

/-- **the end of a step, as one statement** (for a runnable interrupt action, which is what every reachable
configuration has): the step is over and no interrupt action is installed any more; the program counter and the trace of
user calls are untouched; the state object is the old one, a terminal one, or the one the step returned. -/
theorem endOfStep_spec (c : Cfg) (r : StepEnd) (hact : ActOk c) :
    (endOfStep c r).stepping = false ∧ (endOfStep c r).interrupt = none ∧ (endOfStep c r).pc = c.pc ∧
    (endOfStep c r).trace = c.trace ∧
    StepRes c (endOfStep c r) (match r with | .next s => s | .interruption _ => none | .exception e => some (.excepted e)) := by
  have hr := prepare_rest c r
  have hd := dispatch_spec (prepare c r).1 (prepare c r).2 (prepare_actOk c r hact)
  have hf := finally_rest (dispatch (prepare c r).1 (prepare c r).2)
  unfold endOfStep
  dsimp only
  refine ⟨hf.1.stepping, hf.2, ?_, ?_, ?_⟩
  · rw [hf.1.pc]; exact hd.1.trans hr.pc
  · rw [hf.1.trace]; exact hd.2.1.trans hr.trace
  · rw [← prepare_snd c r]
    have h3 := hd.2.2.congr (e := finally_ (dispatch (prepare c r).1 (prepare c r).2)) hf.1.st hf.1.wfs
    rcases h3 with ⟨a, b⟩ | a | ⟨s, a, b, d'⟩
    · exact Or.inl ⟨a.trans hr.st, b.trans hr.wfs⟩
    · exact Or.inr (Or.inl a)
    · exact Or.inr (Or.inr ⟨s, a, b, d'.trans (exitState_wfs_congr c _ hr.st hr.wfs)⟩)

end PMF.H6
