import PlumpyModel.PM.Proof7
import PlumpyModel.PM.Proof8
import PlumpyModel.PM.Proof9
/-!
# C06 at the level of histories, part 1: frames and the end of a step

Helper lemmas for `Props/C06.lean` (history-level delivery of a wake-up).  Everything lives in `PMF.H6` so that the
names cannot clash with the other proof files.

* `Core c d`: `d` agrees with `c` on the stepping coroutine's bookkeeping (program counter, `stepping`, the interrupt
  action, the action table, the pause alias, the pause future in use, the user-call trace).  No transition touches these.
* `transitionTo_res`: a transition ends in the requested state or in EXCEPTED, and what it does to the waiting futures.
* `endOfStep_spec`: the end of a step as one statement (the step is over, the interrupt action is gone, the trace and the
  program counter are untouched, and the state is the old one, a terminal one, or the one the step asked for).
-/
namespace PMF.H6
open PMF

/-- `d` agrees with `c` on the bookkeeping of the stepping coroutine -/
structure Core (c d : Cfg) : Prop where
  pc : d.pc = c.pc
  stepping : d.stepping = c.stepping
  interrupt : d.interrupt = c.interrupt
  actions : d.actions = c.actions
  pausing : d.pausing = c.pausing
  paused : d.paused = c.paused
  trace : d.trace = c.trace

theorem Core.rfl' (c : Cfg) : Core c c := ⟨rfl, rfl, rfl, rfl, rfl, rfl, rfl⟩
theorem Core.trans {a b c : Cfg} (h1 : Core a b) (h2 : Core b c) : Core a c :=
  ⟨h2.pc.trans h1.pc, h2.stepping.trans h1.stepping, h2.interrupt.trans h1.interrupt, h2.actions.trans h1.actions,
   h2.pausing.trans h1.pausing, h2.paused.trans h1.paused, h2.trace.trans h1.trace⟩

theorem exitState_core (c : Cfg) : Core c (exitState c) := by
  unfold exitState; split
  · dsimp only; split <;> exact ⟨rfl, rfl, rfl, rfl, rfl, rfl, rfl⟩
  · exact Core.rfl' c
theorem freshFut_core (c : Cfg) : Core c (freshFutIfCancelled c) := by
  unfold freshFutIfCancelled; split <;> exact ⟨rfl, rfl, rfl, rfl, rfl, rfl, rfl⟩
theorem setFutExc_core (c : Cfg) (e) : Core c (setFutExc c e) := by
  unfold setFutExc; split <;> exact ⟨rfl, rfl, rfl, rfl, rfl, rfl, rfl⟩
theorem enteringHooks_core (c c2 : Cfg) (s : SObj) (h : enteringHooks c s = .ok c2) : Core c c2 := by
  unfold enteringHooks at h
  split at h
  · dsimp only at h
    split at h
    · cases h; exact Core.trans (freshFut_core c) ⟨rfl, rfl, rfl, rfl, rfl, rfl, rfl⟩
    · cases h
  · dsimp only at h
    split at h
    · cases h; exact Core.trans (freshFut_core c) ⟨rfl, rfl, rfl, rfl, rfl, rfl, rfl⟩
    · cases h
  · cases h; exact setFutExc_core c _
  · cases h; exact Core.rfl' c

theorem enterState_core (c : Cfg) (s : SObj) : Core c (enterState c s) := by
  unfold enterState; split
  · rename_i aw
    generalize hc : c = c0
    have : ∀ (l : List (Nat × Nat)) (d : Cfg), Core c0 d →
        Core c0 (l.foldl (fun c (p : Nat × Nat) =>
          let c := { c with efKeys := p :: c.efKeys }
          match c.efs[p.1]? with
          | some EFut.pending => { c with efCb := c.efCb ++ [p.1] }
          | some _ => { c with ready := c.ready ++ [.adone p.1] }
          | none => c) d) := by
      intro l; induction l with
      | nil => intro d hd; exact hd
      | cons a l ih =>
        intro d hd; simp only [List.foldl]
        apply ih
        split <;> exact Core.trans hd ⟨rfl, rfl, rfl, rfl, rfl, rfl, rfl⟩
    exact this aw c0 (Core.rfl' c0)
  · exact Core.rfl' c

theorem enteredHooks_core (c : Cfg) (s : SObj) : Core c (enteredHooks c s) := by
  unfold enteredHooks
  split <;> split <;> exact ⟨rfl, rfl, rfl, rfl, rfl, rfl, rfl⟩
theorem setState_core (c : Cfg) (s : SObj) : Core c (setState c s) := ⟨rfl, rfl, rfl, rfl, rfl, rfl, rfl⟩
theorem onClose_core (c : Cfg) : Core c (onClose c) := by
  unfold onClose; split <;> exact ⟨rfl, rfl, rfl, rfl, rfl, rfl, rfl⟩
theorem releasePause_core (c : Cfg) : Core c (releasePause c) := by
  unfold releasePause; split
  · split <;> exact ⟨rfl, rfl, rfl, rfl, rfl, rfl, rfl⟩
  · exact Core.rfl' c
theorem onTerminated_core (c : Cfg) : Core c (onTerminated c) := by
  unfold onTerminated; exact Core.trans (releasePause_core c) (onClose_core _)
theorem forceExcepted_core (c : Cfg) (e) : Core c (forceExcepted c e) := by
  unfold forceExcepted; split
  · exact ⟨rfl, rfl, rfl, rfl, rfl, rfl, rfl⟩
  · exact Core.trans (Core.trans (Core.trans (setFutExc_core c e) (setState_core _ _)) (enteredHooks_core _ _))
      (onTerminated_core _)
theorem enterNext_core (c : Cfg) (s) : Core c (enterNext c s) := by
  unfold enterNext
  have h := Core.trans (Core.trans (enterState_core c s) (setState_core _ s)) (enteredHooks_core _ s)
  dsimp only
  split
  · exact Core.trans h (onTerminated_core _)
  · exact h
/-- no transition touches the stepping coroutine's bookkeeping -/
theorem transitionTo_core (c : Cfg) (s) : Core c (transitionTo c s) := by
  unfold transitionTo
  split
  · dsimp only
    split
    · exact Core.trans (exitState_core c) ⟨rfl, rfl, rfl, rfl, rfl, rfl, rfl⟩
    · split
      · exact Core.trans (exitState_core c) (forceExcepted_core _ _)
      · rename_i c2 hok
        exact Core.trans (Core.trans (exitState_core c) (enteringHooks_core _ _ _ hok)) (enterNext_core _ _)
  · exact forceExcepted_core _ _

/-! ### what a transition does to the state object, the waiting futures, `killing`, `closed`, the pause futures -/

theorem forceExcepted_st (c : Cfg) (e : Exc) : (forceExcepted c e).st = .excepted e := by
  unfold forceExcepted; split
  · rfl
  · rw [(onTerminated_keep _).1, (enteredHooks_keep _ _).1]; rfl

theorem enterState_killing (c : Cfg) (s : SObj) : (enterState c s).killing = c.killing := by
  unfold enterState; split
  · rename_i aw
    generalize hc : c = c0
    have : ∀ (l : List (Nat × Nat)) (d : Cfg), d.killing = c0.killing →
        (l.foldl (fun c (p : Nat × Nat) =>
          let c := { c with efKeys := p :: c.efKeys }
          match c.efs[p.1]? with
          | some EFut.pending => { c with efCb := c.efCb ++ [p.1] }
          | some _ => { c with ready := c.ready ++ [.adone p.1] }
          | none => c) d).killing = c0.killing := by
      intro l; induction l with
      | nil => intro d hd; exact hd
      | cons a l ih =>
        intro d hd; simp only [List.foldl]
        apply ih
        split <;> exact hd
    exact this aw c0 rfl
  · rfl

/-- fields of the non-terminal branch of `enterNext` -/
theorem enterNext_live (c : Cfg) (s : SObj) (hs : terminal s.label = false) :
    (enterNext c s).st = s ∧ (enterNext c s).wfs = c.wfs ∧ (enterNext c s).pfs = c.pfs ∧
    (enterNext c s).closed = c.closed ∧ (enterNext c s).killing = c.killing := by
  have hW := enterState_sameW c s
  have hP := enterState_sameP c s
  have hS := enterState_same c s
  have hnk : s.label ≠ .killed := by intro h; rw [h] at hs; simp [terminal, allowed] at hs
  unfold enterNext
  simp only [hs, Bool.false_eq_true, if_false]
  unfold enteredHooks
  simp only [hnk, if_false]
  have hkill := enterState_killing c s
  split <;> exact ⟨rfl, hW.2, hP.2.2.2, hS.2.2, hkill⟩


theorem exitState_more (c : Cfg) : (exitState c).pfs = c.pfs ∧ (exitState c).closed = c.closed ∧
    (exitState c).killing = c.killing ∧ (exitState c).st = c.st := by
  unfold exitState; split
  · dsimp only; split <;> exact ⟨rfl, rfl, rfl, rfl⟩
  · exact ⟨rfl, rfl, rfl, rfl⟩

theorem enteringHooks_killing (c c2 : Cfg) (s : SObj) (h : enteringHooks c s = .ok c2) : c2.killing = c.killing := by
  unfold enteringHooks at h
  split at h
  · dsimp only at h
    split at h
    · cases h; unfold freshFutIfCancelled; split <;> rfl
    · cases h
  · dsimp only at h
    split at h
    · cases h; unfold freshFutIfCancelled; split <;> rfl
    · cases h
  · cases h; unfold setFutExc; split <;> rfl
  · cases h; rfl

/-- a transition ends EXCEPTED, or in the requested state with the waiting futures as `exitState` left them; if the
requested state is live, the pause futures, `closed` and `killing` are untouched -/
theorem transitionTo_res (c : Cfg) (s : SObj) :
    (∃ e, (transitionTo c s).st = .excepted e) ∨
    ((transitionTo c s).st = s ∧ (transitionTo c s).wfs = (exitState c).wfs ∧
      (terminal s.label = false → (transitionTo c s).pfs = c.pfs ∧ (transitionTo c s).closed = c.closed ∧
        (transitionTo c s).killing = c.killing)) := by
  have hx := exitState_more c
  unfold transitionTo
  split
  · dsimp only
    split
    · exact Or.inr ⟨rfl, rfl, fun _ => ⟨hx.1, hx.2.1, hx.2.2.1⟩⟩
    · split
      · exact Or.inl ⟨_, forceExcepted_st _ _⟩
      · rename_i c2 hok
        right
        have hW := enteringHooks_sameW _ c2 s hok
        have hP := enteringHooks_sameP _ c2 s hok
        have hS := enteringHooks_same _ c2 s hok
        have hK := enteringHooks_killing _ c2 s hok
        by_cases ht : terminal s.label = true
        · refine ⟨?_, ?_, fun h => by rw [ht] at h; cases h⟩
          · unfold enterNext; simp only [ht, if_true]
            rw [(onTerminated_keep _).1, (enteredHooks_keep _ _).1]; rfl
          · unfold enterNext; simp only [ht, if_true]
            rw [(onTerminated_sameW _).2, (enteredHooks_sameW _ _).2]
            show (enterState c2 s).wfs = _
            rw [(enterState_sameW c2 s).2, hW.2]
        · have ht' : terminal s.label = false := by simpa using ht
          obtain ⟨a, b, d, e, f⟩ := enterNext_live c2 s ht'
          exact ⟨a, by rw [b, hW.2], fun _ => ⟨by rw [d, hP.2.2.2, hx.1], by rw [e, hS.2.2, hx.2.1], by rw [f, hK, hx.2.2.1]⟩⟩
  · exact Or.inl ⟨_, forceExcepted_st _ _⟩

/-- a transition to a state other than KILLED leaves `_killing` alone -/
theorem transitionTo_killing (c : Cfg) (s : SObj) (hs : s.label ≠ .killed) : (transitionTo c s).killing = c.killing := by
  have hfe : ∀ d e, (forceExcepted d e).killing = d.killing := by
    intro d e
    unfold forceExcepted; split
    · rfl
    · unfold onTerminated onClose releasePause enteredHooks
      have : (SObj.excepted e).label ≠ .killed := by simp [SObj.label]
      simp only [this, if_false, enteredNotif, setState]
      have hk : (setFutExc d e).killing = d.killing := by unfold setFutExc; split <;> rfl
      repeat' split
      all_goals exact hk
  have hx := exitState_more c
  unfold transitionTo
  split
  · dsimp only
    split
    · exact hx.2.2.1
    · split
      · rw [hfe]; exact hx.2.2.1
      · rename_i c2 hok
        have hK := enteringHooks_killing _ c2 s hok
        have : (enterNext c2 s).killing = c2.killing := by
          have hes := enterState_killing c2 s
          unfold enterNext onTerminated onClose releasePause enteredHooks
          simp only [hs, if_false, setState]
          repeat' split
          all_goals exact hes
        rw [this, hK]; exact hx.2.2.1
  · exact hfe _ _

end PMF.H6
