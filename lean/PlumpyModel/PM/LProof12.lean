import PlumpyModel.PM.LProof11
/-!
# `PMF.L` — C05 with listeners: no user code is started while paused (`InvP`) for every history of `runL`
-/
namespace PMF
namespace L

def FInvP (F : Hook → LCfg → LCfg) : Prop := ∀ h l, InvP l.c → InvP (F h l).c

structure FG2 (F : Hook → LCfg → LCfg) : Prop where
  inv : FInvP F
  phase : FHkPhase F

theorem invP_to_terminal {c c' : Cfg} (h : InvP c) (htr : c'.trace = c.trace) (ht : terminal c'.st.label = true) : InvP c' :=
  ⟨by rw [htr]; exact h.traceOk, fun hl => by rw [ht] at hl; cases hl⟩

theorem invP_setState_live {c : Cfg} (h : InvP c) (s : SObj) (hl : terminal c.st.label = false) : InvP (setState c s) :=
  ⟨h.traceOk, fun _ pf hp => h.pausedPending hl pf hp⟩

theorem requestL_sameP (l : LCfg) (k : AKind) : SameP l.c (requestL l k) := by
  unfold requestL; split
  · exact requestInterrupt_sameP ..
  · exact SameP.trans (⟨rfl, rfl, rfl, rfl⟩ : SameP l.c { l.c with nextCookie := l.c.nextCookie + 1 }) (setInterruptFromExc_sameP ..)

section
variable {F : Hook → LCfg → LCfg}

theorem enteredHooksL_invP (hF : FG2 F) (l : LCfg) (s : SObj) (h : InvP l.c) : InvP (enteredHooksL F l s).c := by
  unfold enteredHooksL; dsimp only
  have hk := enteredHooks_keep l.c s
  have h1 : InvP (l.upd (fun c => enteredHooks c s)).c := h.same ⟨by rw [upd_c, hk.1], hk.2.1, hk.2.2.1, hk.2.2.2⟩
  split
  · exact hF.inv _ _ h1
  · exact h1

theorem forceExceptedL_invP (hF : FG2 F) (l : LCfg) (e : Exc) (h : InvP l.c) : InvP (forceExceptedL F l e).c := by
  unfold forceExceptedL
  split
  · exact invP_to_terminal h rfl (by simp [SObj.label, terminal, allowed])
  · dsimp only
    rw [enteredHooksL_nohook _ _ (by simp [SObj.label, terminal, allowed])]
    have h1 : InvP ({ l with trans := some .excepted }.upd (fun c => setFutExc c e)).c := h.same (setFutExc_sameP l.c e)
    have h2 := hF.inv .entering _ h1
    have h3 : InvP ((F .entering ({ l with trans := some .excepted }.upd (fun c => setFutExc c e))).upd
        (fun c => setState c (.excepted e))).c := invP_to_terminal h2 rfl (by simp [setState, SObj.label, terminal, allowed])
    have hk := enteredHooks_keep ((F .entering ({ l with trans := some .excepted }.upd (fun c => setFutExc c e))).upd
        (fun c => setState c (.excepted e))).c (.excepted e)
    refine invP_to_terminal h3 (((onTerminated_keep _).2).trans hk.2.1) ?_
    rw [upd_c, (onTerminated_keep _).1, upd_c, hk.1]
    simp [setState, SObj.label, terminal, allowed]

theorem enterNextL_invP (hF : FG2 F) (l : LCfg) (s : SObj) (h : InvP l.c) (hl : terminal l.c.st.label = false) :
    InvP (enterNextL F l s).c := by
  have he := enterState_sameP l.c s
  have h1 : InvP (l.upd (fun c => setState (enterState c s) s)).c :=
    invP_setState_live (h.same he) s (by rw [he.1]; exact hl)
  by_cases ht : terminal s.label = true
  · have hst := enterNextL_label_terminal (F := F) l s ht
    unfold enterNextL at hst ⊢; dsimp only at hst ⊢
    rw [enteredHooksL_nohook _ _ ht] at hst ⊢
    simp only [ht, if_true] at hst ⊢
    have hk := enteredHooks_keep (setState (enterState l.c s) s) s
    exact invP_to_terminal h1 (((onTerminated_keep _).2).trans hk.2.1) (by rw [hst]; exact ht)
  · unfold enterNextL; dsimp only
    simp only [ht]
    exact enteredHooksL_invP hF _ s h1

theorem exitPhaseL_invP (hF : FG2 F) (l : LCfg) (s : SObj) (h : InvP l.c) : InvP (exitPhaseL F l s).c := by
  unfold exitPhaseL; dsimp only
  have h1 : InvP ((F .exiting l).upd exitState).c := (hF.inv _ _ h).same (exitState_sameP _)
  split
  · exact (hF.inv _ _ h1).same (exitState_sameP _)
  · exact h1

theorem exitPhaseL_st (hF : FG2 F) (l : LCfg) (s : SObj) : (exitPhaseL F l s).c.st = l.c.st := by
  unfold exitPhaseL; dsimp only
  have e1 : ((F .exiting l).upd exitState).c.st = l.c.st := by
    rw [upd_c]
    obtain ⟨w, e, h⟩ := exitState_shape (F .exiting l).c
    rw [h]; exact (hF.phase .exiting l rfl).c.st
  split
  · rw [upd_c]
    obtain ⟨w, e, h⟩ := exitState_shape (F .exiting ((F .exiting l).upd exitState)).c
    rw [h]; exact ((hF.phase .exiting _ rfl).c.st).trans e1
  · exact e1

theorem transitionToL_invP (hF : FG2 F) (l : LCfg) (s : SObj) (h : InvP l.c) : InvP (transitionToL F l s).c := by
  unfold transitionToL; dsimp only
  split
  · rename_i hin
    have hlive := live_of_allowed hin
    split
    · -- closed: the state object is replaced
      have hex := exitState_sameP l.c
      have h1 : InvP (exitState l.c) := h.same hex
      exact ⟨h1.traceOk, fun _ pf hp => h1.pausedPending (by rw [hex.1]; exact hlive) pf hp⟩
    · have h1 := exitPhaseL_invP hF { l with trans := some s.label } s h
      have hst1 := exitPhaseL_st hF { l with trans := some s.label } s
      split
      · exact forceExceptedL_invP hF _ _ h1
      · rename_i c2 hok
        have hs2 := enteringHooks_sameP _ _ _ hok
        have h2 : InvP c2 := h1.same hs2
        have h3 := hF.inv .entering { exitPhaseL F { l with trans := some s.label } s with c := c2 } h2
        refine enterNextL_invP hF _ s h3 ?_
        rw [(hF.phase .entering _ rfl).c.st]
        show terminal c2.st.label = false
        rw [hs2.1, hst1]; exact hlive
  · exact forceExceptedL_invP hF _ _ h

theorem doPauseL_invP (hF : FG2 F) (l : LCfg) (h : InvP l.c) : InvP (doPauseL F l).c := by
  unfold doPauseL; dsimp only
  have h1 : InvP (F .paused (l.upd doPauseHooks)).c := hF.inv _ _ (doPauseHooks_invP l.c h)
  exact h1.same ⟨rfl, rfl, rfl, rfl⟩

theorem pauseL_invP (hF : FG2 F) (l : LCfg) (h : InvP l.c) : InvP (pauseL F l).1.c := by
  unfold pauseL; dsimp only
  split
  · exact h
  · split
    · exact h
    · split
      · exact h.same (hand_sameP ..)
      · split
        · exact h
        · split
          · have hs : SameP l.c { requestL l .pause with pausing := (requestL l .pause).interrupt } :=
              (requestL_sameP l .pause).trans ⟨rfl, rfl, rfl, rfl⟩
            split
            · exact (h.same hs).same (hand_sameP ..)
            · exact h.same hs
          · exact doPauseL_invP hF l h

theorem playL_invP (hF : FG2 F) (l : LCfg) (h : InvP l.c) : InvP (playL F l).1.c := by
  unfold playL
  split
  · exact play_invP l.c h
  · exact hF.inv _ _ (play_invP l.c h)

theorem killL_invP (hF : FG2 F) (l : LCfg) (h : InvP l.c) : InvP (killL F l).1.c := by
  unfold killL; dsimp only
  split
  · exact h
  · split
    · exact h
    · split
      · exact h.same (hand_sameP ..)
      · split
        · have hs : SameP l.c { requestL l .kill with killing := (requestL l .kill).interrupt } :=
            (requestL_sameP l .kill).trans ⟨rfl, rfl, rfl, rfl⟩
          split
          · exact (h.same hs).same (hand_sameP ..)
          · exact h.same hs
        · exact transitionToL_invP hF l .killed h

theorem failL_invP (hF : FG2 F) (l : LCfg) (e : Exc) (h : InvP l.c) : InvP (failL F l e).1.c := by
  unfold failL; split
  · exact h
  · exact transitionToL_invP hF l _ h

theorem reqK_invP (hF : FG2 F) (r : Req) (l : LCfg) (h : InvP l.c) : InvP (reqK F r l).c := by
  cases r
  · exact pauseL_invP hF l h
  · exact playL_invP hF l h
  · exact killL_invP hF l h
end

theorem fireK_invP {R : Req → LCfg → LCfg} (hR : ∀ r l, InvP l.c → InvP (R r l).c) (h : Hook) (l : LCfg) (hi : InvP l.c) :
    InvP (fireK R h l).c := by
  rcases fireK_cases R h l with h1 | ⟨e, _, h1⟩
  · rw [h1]; exact hi
  · rw [h1]; exact hR _ _ hi

theorem fireN_g2 : ∀ n, FG2 (fireN n)
  | 0 => ⟨fun _ _ h => h, fireN_fhkPhase 0⟩
  | n+1 => ⟨fun h l hi => by
      unfold fireN
      exact fireK_invP (fun r l hi => reqK_invP (fireN_g2 n) r l hi) h l hi, fireN_fhkPhase (n+1)⟩

section
variable {F : Hook → LCfg → LCfg}

theorem runActionL_invP (hF : FG2 F) (l : LCfg) (i : Nat) (next : Option SObj) (h : InvP l.c) :
    InvP (runActionL F l i next).c := by
  unfold runActionL
  split
  · exact h
  · split
    · exact h.same ⟨rfl, rfl, rfl, rfl⟩
    · have hclose : ∀ body : LCfg, InvP body.c →
          InvP (if actionStatus body.c i = .pending then body.upd (fun c => setActionStatus c i .done) else body).c := by
        intro body hb
        split
        · exact hb.same (setActionStatus_sameP ..)
        · exact hb
      apply hclose
      split
      · split
        · dsimp only
          split
          · exact transitionToL_invP hF _ _ h
          · exact doPauseL_invP hF _ (transitionToL_invP hF _ _ h)
        · exact doPauseL_invP hF _ h
      · exact (transitionToL_invP hF _ _ h).same ⟨rfl, rfl, rfl, rfl⟩

theorem enactLoop_invP (hF : FG2 F) : ∀ (n : Nat) (l : LCfg), InvP l.c → InvP (enactLoop F n l).c
  | 0, _, h => h
  | n+1, l, h => by
    unfold enactLoop
    split
    · split
      · exact enactLoop_invP hF n _ (runActionL_invP hF l _ none h)
      · exact h
    · exact h

theorem dispatchL_invP (hF : FG2 F) (l : LCfg) (next : Option SObj) (h : InvP l.c) : InvP (dispatchL F l next).c := by
  unfold dispatchL
  split
  · exact h
  · apply enactLoop_invP hF
    unfold dispatch1L
    split
    · split
      · exact runActionL_invP hF l _ next h
      · split
        · exact transitionToL_invP hF l _ h
        · exact h
    · split
      · exact transitionToL_invP hF l _ h
      · exact h

theorem endOfStepL_invP (hF : FG2 F) (l : LCfg) (r : StepEnd) (h : InvP l.c) : InvP (endOfStepL F l r).c := by
  unfold endOfStepL; dsimp only
  rw [upd_c]
  exact (dispatchL_invP hF _ _ (h.same (prepare_sameP l.c r))).same (finally_sameP _)

theorem finishUserL_invP (hF : FG2 F) (l : LCfg) (o : Outcome) (h : InvP l.c) : InvP (finishUserL F l o).c := by
  unfold finishUserL
  split
  · exact endOfStepL_invP hF _ _ (h.same (cmdToState_sameP ..))
  · exact endOfStepL_invP hF _ _ h

theorem rearm_sameP (c : Cfg) (wf : Nat) : SameP c (rearm c wf) := by
  unfold rearm
  split
  · rename_i hst
    split
    · exact ⟨by simp [hst, SObj.label], rfl, rfl, rfl⟩
    · exact SameP.rfl' c
  · exact SameP.rfl' c

theorem wakeL_invP (hF : FG2 F) (l : LCfg) (fn wf : Nat) (w : WF) (h : InvP l.c) : InvP (wakeL F l fn wf w).c := by
  unfold wakeL
  split
  · exact endOfStepL_invP hF _ _ h
  · exact endOfStepL_invP hF _ _ (h.same (rearm_sameP _ _))
  · exact endOfStepL_invP hF _ _ h
  · exact h

/-- the step body may only start a user activation when not paused -/
theorem stepBodyKL_invP (hF : FG2 F) (P : Prog) (k : LCfg → LCfg) (hk : ∀ d, InvP d.c → InvP (k d).c) (l : LCfg) (h : InvP l.c)
    (hnp : terminal l.c.st.label = false → l.c.paused = none) : InvP (stepBodyKL F P k l).c := by
  unfold stepBodyKL
  have hs : InvP ({ l with c := { l.c with stepping := true }, executing := true } : LCfg).c := h.same ⟨rfl, rfl, rfl, rfl⟩
  dsimp only
  split
  · exact hk _ (endOfStepL_invP hF _ _ hs)
  · rename_i fn args kw hst
    have hlive : terminal l.c.st.label = false := by
      have : l.c.st = .running fn args kw := hst
      rw [this]; simp [SObj.label, terminal, allowed]
    have hp : l.c.paused = none := hnp hlive
    have hs2 : InvP (({ l with c := { l.c with stepping := true }, executing := true } : LCfg).upd (fun c =>
        { c with trace := { fn := fn, args := args, kw := kw, paused := c.paused.isSome } :: c.trace })).c := by
      refine ⟨?_, h.pausedPending⟩
      intro a ha
      simp at ha
      rcases ha with rfl | ha
      · simp [hp]
      · exact h.traceOk a ha
    split
    · exact hk _ (finishUserL_invP hF _ _ hs2)
    · exact hs2.same ⟨rfl, rfl, rfl, rfl⟩
  · split
    · exact hs.same ⟨rfl, rfl, rfl, rfl⟩
    · exact hk _ (wakeL_invP hF _ _ _ _ hs)
    · exact hs
  · exact hk _ (endOfStepL_invP hF _ _ hs)

theorem loopHeadL_invP (hF : FG2 F) (P : Prog) : ∀ (fuel : Nat) (l : LCfg), InvP l.c → InvP (loopHeadL F P fuel l).c
  | 0, _, h => h
  | n+1, l, h => by
    unfold loopHeadL
    split
    · exact h
    · split
      · exact h.same ⟨rfl, rfl, rfl, rfl⟩
      · rename_i hnt
        have hl : terminal l.c.st.label = false := by simpa using hnt
        split
        · exact h.same ⟨rfl, rfl, rfl, rfl⟩
        · split
          · rename_i pf hpa
            split
            · exact h.same ⟨rfl, rfl, rfl, rfl⟩
            · rename_i hne
              exact absurd (h.pausedPending hl pf hpa) hne
          · rename_i hpa
            exact stepBodyKL_invP hF P _ (loopHeadL_invP hF P n) l h (fun _ => hpa)

theorem stepBodyL_invP (hF : FG2 F) (P : Prog) (fuel : Nat) (l : LCfg) (h : InvP l.c)
    (hnp : terminal l.c.st.label = false → l.c.paused = none) : InvP (stepBodyL F P fuel l).c :=
  stepBodyKL_invP hF P _ (loopHeadL_invP hF P fuel) l h hnp

theorem tickStepperL_invP (hF : FG2 F) (P : Prog) (l : LCfg) (h : InvP l.c) : InvP (tickStepperL F P l).c := by
  unfold tickStepperL
  split
  · exact loopHeadL_invP hF P _ l h
  · split
    · split
      · rename_i pf' hpa
        split
        · exact h.same ⟨rfl, rfl, rfl, rfl⟩
        · rename_i hne
          apply stepBodyL_invP hF P _ l h
          intro hl
          exact absurd (h.pausedPending hl pf' hpa) hne
      · rename_i hpa
        exact stepBodyL_invP hF P _ l h (fun _ => hpa)
    · exact h
  · split
    · exact loopHeadL_invP hF P _ _ (finishUserL_invP hF _ _ h)
    · exact h.same ⟨rfl, rfl, rfl, rfl⟩
  · split
    · exact h
    · exact loopHeadL_invP hF P _ _ (wakeL_invP hF _ _ _ _ h)
    · exact h
  · exact h

theorem tickCbL_invP (hF : FG2 F) (l : LCfg) (cb : Cb) (h : InvP l.c) : InvP (tickCbL F l cb).c := by
  unfold tickCbL; split
  · have h1 : InvP (l.upd (fun c => { c with ready := c.ready.erase cb })).c := h.same ⟨rfl, rfl, rfl, rfl⟩
    dsimp only
    split
    · exact awaitableDone_invP _ _ h1
    · unfold tryKillingL
      have h2 := killL_invP hF _ h1
      exact h2.same ⟨rfl, rfl, rfl, rfl⟩
    · split
      · exact failL_invP hF _ _ h1
      · exact h1
  · exact h

theorem stepLF_invP (hF : FG2 F) (P : Prog) (l : LCfg) (ev : Ev) (h : InvP l.c) : InvP (stepLF F P l ev).1.c := by
  cases ev <;> simp only [stepLF]
  · exact tickStepperL_invP hF P l h
  · exact tickCbL_invP hF l _ h
  · exact pauseL_invP hF l h
  · exact playL_invP hF l h
  · exact killL_invP hF l h
  · rw [upd_c]; unfold resume; split
    · exact h.same (deliver_sameP ..)
    · exact h
  · exact failL_invP hF l _ h
  · rw [upd_c]; unfold cancelFut; split
    · exact h.same ⟨rfl, rfl, rfl, rfl⟩
    · exact h
  · rw [upd_c]; unfold complete; split
    · dsimp only; split <;> exact h.same ⟨rfl, rfl, rfl, rfl⟩
    · exact h
  · exact h.same ⟨rfl, rfl, rfl, rfl⟩
end

theorem runL_invP (P : Prog) (l0 : LCfg) (evs : List Ev) (h : InvP l0.c) : InvP (runL P l0 evs).c := by
  induction evs generalizing l0 with
  | nil => exact h
  | cons e es ih => exact ih _ (stepLF_invP (fireN_g2 _) P l0 e h)

end L
end PMF
