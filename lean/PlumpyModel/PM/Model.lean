import PlumpyModel.Gen.Lifecycle
/-!
# Process-control model `PM`

Hand-written executable model of plumpy's process control (`Process.step`, `step_until_terminated`,
`pause/play/kill/resume/fail`, `transition_to`, the `Waiting` state and the workchain's awaitables).
One function per Python statement block.  Core Lean only (the driver links it into a native executable).
`Label` and `allowed` come from the generated `Gen/Lifecycle.lean`.
-/
namespace PMF

def terminal (l : Label) : Bool := (allowed l).isEmpty

inductive Exc | user (n : Nat) | invalidState | noTransition (a b : Label) | killedErr | assertion | eventError | closedErr | alreadyRan
deriving DecidableEq, Repr, Inhabited

abbrev Val := Int

inductive Cmd
  | cont (fn : Nat) (args : List Val) (kw : List (Nat × Val))
  | wait (fn : Nat)
  | waitOn (fn : Nat) (aw : List (Nat × Nat))      -- workchain: (external future id, context key)
  | stop (v : Option Val) (ok : Bool)
  | kill
deriving Repr, Inhabited, DecidableEq

/-- outcome of a waiting future -/
inductive WF | pending | result (v : Option Val) | interrupted (cookie : Nat) | failed (e : Exc)
deriving Repr, Inhabited, DecidableEq

inductive SObj
  | created (fn : Nat)
  | running (fn : Nat) (args : List Val) (kw : List (Nat × Val))
  | waiting (fn : Nat) (wf : Nat) (wakeup : Option WF) (awaiting : List (Nat × Nat))
  | finished (v : Option Val) (ok : Bool)
  | excepted (e : Exc)
  | killed
deriving Repr, Inhabited, DecidableEq

def SObj.label : SObj → Label
  | .created _ => .created | .running .. => .running | .waiting .. => .waiting
  | .finished .. => .finished | .excepted _ => .excepted | .killed => .killed

inductive AKind | pause | kill deriving Repr, DecidableEq, Inhabited
inductive AStatus | pending | cancelled | done | failed (e : Exc) deriving Repr, DecidableEq, Inhabited
structure Action where
  kind : AKind
  cookie : Nat
  status : AStatus
deriving Repr, Inhabited

inductive Outcome | ret (c : Cmd) | raise (e : Exc) deriving Repr, Inhabited, DecidableEq
structure Body where
  awaits : Nat
  out : Outcome
deriving Repr, Inhabited, DecidableEq

inductive Pc
  | notStarted | awaitPaused (pf : Nat) | inUser (b : Body) | awaitWaiting (wf : Nat) | done | crashed (e : Exc)
deriving Repr, Inhabited, DecidableEq

inductive PFut | pending | result | exc (e : Exc) | cancelled
deriving Repr, Inhabited, DecidableEq

inductive EFut | pending | result (v : Val) | exc (e : Exc)
deriving Repr, Inhabited, DecidableEq

inductive Cb | adone (f : Nat) | trykill | usercb (raises : Bool)
deriving Repr, Inhabited, DecidableEq

inductive Notif | finished | excepted | killed | paused | played | running | waiting
deriving Repr, Inhabited, DecidableEq

structure Act where
  fn : Nat
  args : List Val
  kw : List (Nat × Val)
  paused : Bool
deriving Repr, Inhabited, DecidableEq

structure Cfg where
  st : SObj := .created 0
  stepping : Bool := false
  actions : List Action := []
  handed : List Nat := []            -- actions handed out to callers (newest first)
  pausing : Option Nat := none
  killing : Option Nat := none
  interrupt : Option Nat := none
  nextCookie : Nat := 0
  wfs : List WF := []
  pfs : List Bool := []
  paused : Option Nat := none
  fut : PFut := .pending
  futHasKillCb : Bool := true        -- the try_killing callback sits on the current future object
  closed : Bool := false
  cleanups : Nat := 0
  efs : List EFut := []              -- external awaitables
  efCb : List Nat := []              -- external futures carrying an _awaitable_done callback
  efKeys : List (Nat × Nat) := []    -- context key under which each awaitable was registered
  ctx : List (Nat × Val) := []
  ready : List Cb := []              -- scheduled callbacks other than the stepping task (FIFO, oldest first)
  pc : Pc := .notStarted
  entered : List Label := [.created] -- newest first
  notif : List Notif := []           -- newest first
  trace : List Act := []             -- newest first
  loopErrs : List Exc := []
deriving Repr, Inhabited

/-- user program: function id, args, kwargs, context ↦ body -/
abbrev Prog := Nat → List Val → List (Nat × Val) → List (Nat × Val) → Body

/-! ### small helpers -/
def setAt {α} (l : List α) (i : Nat) (a : α) : List α := l.set i a
def live (c : Cfg) : Bool := !terminal c.st.label

def actionStatus (c : Cfg) (i : Nat) : AStatus := match c.actions[i]? with | some a => a.status | none => .cancelled
def setActionStatus (c : Cfg) (i : Nat) (s : AStatus) : Cfg :=
  match c.actions[i]? with
  | some a => { c with actions := setAt c.actions i { a with status := s } }
  | none => c

def cancelAction (c : Cfg) (i : Nat) : Cfg :=
  if actionStatus c i = .pending then setActionStatus c i .cancelled else c

def setInterrupt (c : Cfg) (n : Option Nat) : Cfg :=
  let c := match c.interrupt with | some i => cancelAction c i | none => c
  { c with interrupt := n }

def newAction (c : Cfg) (k : AKind) (cookie : Nat) : Cfg × Nat :=
  ({ c with actions := c.actions ++ [{ kind := k, cookie := cookie, status := .pending }] }, c.actions.length)

/-- `_set_interrupt_action_from_exception`: the old action (a distinct object) is cancelled, a fresh pending action
    is created and installed.  Cancel-then-append keeps the index-based table free of aliasing. -/
def cancelInterrupt (c : Cfg) : Cfg := match c.interrupt with | some i => cancelAction c i | none => c
def setInterruptFromExc (c : Cfg) (k : AKind) (cookie : Nat) : Cfg :=
  let c := cancelInterrupt c
  { c with actions := c.actions ++ [{ kind := k, cookie := cookie, status := .pending }], interrupt := some c.actions.length }

/-! ### process future -/
def futCancelled (c : Cfg) : Bool := c.fut = .cancelled
/-- replace a cancelled future by a fresh one (patch H); the fresh one has no try_killing callback -/
def freshFutIfCancelled (c : Cfg) : Cfg :=
  if futCancelled c then { c with fut := .pending, futHasKillCb := false } else c

/-- on_except: a done (or cancelled) future is replaced before the exception is set -/
def setFutExc (c : Cfg) (e : Exc) : Cfg :=
  let c := if c.fut ≠ .pending then { c with fut := .pending, futHasKillCb := false } else c
  { c with fut := .exc e }

/-! ### transitions (non-raising hooks) -/
def onClose (c : Cfg) : Cfg :=
  if c.closed then c else { c with closed := true, cleanups := c.cleanups + 1 }

/-- patch G: release a stepper that is blocked on the pause future -/
def releasePause (c : Cfg) : Cfg :=
  match c.paused with
  | some pf => if c.pfs[pf]? = some false then { c with pfs := setAt c.pfs pf true } else c
  | none => c

/-- Process.on_terminated: release the stepper, then close -/
def onTerminated (c : Cfg) : Cfg := onClose (releasePause c)

/-- Waiting.exit (patch J) + workchain Waiting.exit: complete a pending wait, drop awaitable callbacks -/
def exitState (c : Cfg) : Cfg :=
  match c.st with
  | .waiting _ wf _ aw =>
      let c := if c.wfs[wf]? = some .pending then { c with wfs := setAt c.wfs wf (.result none) } else c
      { c with efCb := c.efCb.filter (fun f => !(aw.any (·.1 = f))) }
  | _ => c

/-- entering hooks: on_finish/on_kill/on_except resolve the process future -/
def enteringHooks (c : Cfg) (s : SObj) : Except Exc Cfg :=
  match s with
  | .finished _ _ =>
      let c := freshFutIfCancelled c
      if c.fut = .pending then .ok { c with fut := .result } else .error .invalidState
  | .killed =>
      let c := freshFutIfCancelled c
      if c.fut = .pending then .ok { c with fut := .exc .killedErr } else .error .invalidState
  | .excepted e => .ok (setFutExc c e)
  | _ => .ok c

/-- workchain Waiting.enter: register done-callbacks; an already completed awaitable schedules it at once -/
def enterState (c : Cfg) (s : SObj) : Cfg :=
  match s with
  | .waiting _ _ _ aw =>
      aw.foldl (fun c (p : Nat × Nat) =>
        let c := { c with efKeys := p :: c.efKeys }
        match c.efs[p.1]? with
        | some EFut.pending => { c with efCb := c.efCb ++ [p.1] }
        | some _ => { c with ready := c.ready ++ [.adone p.1] }
        | none => c) c
  | _ => c

def enteredNotif (s : SObj) : Option Notif :=
  match s with
  | .running .. => some .running | .waiting .. => some .waiting | .finished .. => some .finished
  | .excepted _ => some .excepted | .killed => some .killed | .created _ => none

/-- on_killed clears `_killing`; listeners are notified only while the event hooks are installed -/
def enteredHooks (c : Cfg) (s : SObj) : Cfg :=
  let c := if s.label = .killed then { c with killing := none } else c
  match enteredNotif s with | some n => { c with notif := n :: c.notif } | none => c

/-- `self._state = next_state` (with the ENTERED log entry) -/
def setState (c : Cfg) (s : SObj) : Cfg := { c with st := s, entered := s.label :: c.entered }

/-- transition_failed → transition_to(EXCEPTED) with `_transition_failing` set (no exit phase) -/
def forceExcepted (c : Cfg) (e : Exc) : Cfg :=
  if c.closed then { c with st := .excepted e } else
  onTerminated (enteredHooks (setState (setFutExc c e) (.excepted e)) (.excepted e))

/-- after the entering hooks succeeded -/
def enterNext (c : Cfg) (s : SObj) : Cfg :=
  let c := enteredHooks (setState (enterState c s) s) s
  if terminal s.label then onTerminated c else c

/-- `transition_to` with non-raising user hooks; internal failures are routed to EXCEPTED with the exit bypassed -/
def transitionTo (c : Cfg) (s : SObj) : Cfg :=
  if s.label ∈ allowed c.st.label then
    let c1 := exitState c
    if c.closed then
      -- event callbacks were cleared by close(): no hooks fire, the state object is just replaced
      { c1 with st := s }
    else
      match enteringHooks c1 s with
      | .error e => forceExcepted c1 e
      | .ok c2 => enterNext c2 s
  else forceExcepted c (.noTransition c.st.label s.label)

/-! ### control calls -/
inductive RetV | bool (b : Bool) | action (i : Nat) | raised (e : Exc) | none
deriving Repr, DecidableEq, Inhabited

/-- State.interrupt (patch I.1): only a Waiting state with a still pending future is affected -/
def interruptState (c : Cfg) (cookie : Nat) : Cfg :=
  match c.st with
  | .waiting _ wf _ _ => if c.wfs[wf]? = some .pending then { c with wfs := setAt c.wfs wf (.interrupted cookie) } else c
  | _ => c

def doPauseHooks (c : Cfg) : Cfg :=
  { c with pausing := none, paused := some c.pfs.length, pfs := c.pfs ++ [false], notif := .paused :: c.notif }

def hand (c : Cfg) (i : Nat) : Cfg := if c.handed.contains i then c else { c with handed := i :: c.handed }

/-- the `_stepping` branch shared by pause() and kill(): a new action replaces the interrupt action and the
    current state is interrupted -/
def requestInterrupt (c : Cfg) (k : AKind) : Cfg :=
  interruptState (setInterruptFromExc { c with nextCookie := c.nextCookie + 1 } k c.nextCookie) c.nextCookie

def pause (c : Cfg) : Cfg × RetV :=
  if terminal c.st.label then (c, .bool false)
  else if c.paused.isSome then (c, .bool true)
  else match c.pausing with
  | some i => (hand c i, .action i)
  | none =>
    if c.killing.isSome then (c, .bool false)          -- patch D
    else if c.stepping then
      let c := requestInterrupt c .pause
      let c := { c with pausing := c.interrupt }
      match c.interrupt with | some i => (hand c i, .action i) | none => (c, .none)
    else (doPauseHooks c, .bool true)

def play (c : Cfg) : Cfg × RetV :=
  match c.paused with
  | none =>
      match c.pausing with
      | some i => ({ cancelAction c i with pausing := none }, .bool true)      -- patch I.2: interrupt action stays
      | none => (c, .bool true)
  | some pf =>
      let c := if c.pfs[pf]? = some false then { c with pfs := setAt c.pfs pf true } else c
      ({ c with paused := none, notif := .played :: c.notif }, .bool true)

def kill (c : Cfg) : Cfg × RetV :=
  if c.st.label = .killed then (c, .bool true)
  else if terminal c.st.label then (c, .bool false)
  else match c.killing with
  | some i => (hand c i, .action i)
  | none =>
    if c.stepping then
      let c := requestInterrupt c .kill
      let c := { c with killing := c.interrupt }
      match c.interrupt with | some i => (hand c i, .action i) | none => (c, .none)
    else (transitionTo c .killed, .bool true)

/-- Waiting._deliver (patch I.3) on the *current* state object -/
def deliver (c : Cfg) (o : WF) : Cfg :=
  match c.st with
  | .waiting fn wf wakeup aw =>
      match c.wfs[wf]? with
      | some .pending => { c with wfs := setAt c.wfs wf o }
      | some (.interrupted _) => if wakeup.isNone then { c with st := .waiting fn wf (some o) aw } else c
      | _ => c
  | _ => c

def resume (c : Cfg) (v : Option Val) : Cfg × RetV :=
  match c.st with
  | .waiting .. => (deliver c (.result v), .none)
  | _ => (c, .raised .eventError)

def fail (c : Cfg) (e : Exc) : Cfg × RetV :=
  if terminal c.st.label then (c, .bool false) else (transitionTo c (.excepted e), .none)   -- patch B

def cancelFut (c : Cfg) : Cfg × RetV :=
  if c.fut = .pending then
    ({ c with fut := .cancelled, ready := if c.futHasKillCb then c.ready ++ [.trykill] else c.ready }, .bool true)
  else (c, .bool false)

def complete (c : Cfg) (f : Nat) (o : EFut) : Cfg :=
  match c.efs[f]? with
  | some .pending =>
      let c := { c with efs := setAt c.efs f o }
      if c.efCb.contains f then { c with efCb := c.efCb.erase f, ready := c.ready ++ [.adone f] } else c
  | _ => c

/-! ### end of a step -/
def runAction (c : Cfg) (i : Nat) (next : Option SObj) : Cfg :=
  match c.actions[i]? with
  | none => c
  | some a =>
    if a.status ≠ .pending then { c with pc := .crashed .alreadyRan } else
    match a.kind with
    | .pause =>
        let c := match next with | some s => transitionTo c s | none => c
        let c := doPauseHooks c
        setActionStatus c i .done
    | .kill =>
        let c := transitionTo c .killed
        let c := { c with killing := none }
        setActionStatus c i .done

inductive StepEnd | next (s : Option SObj) | interruption (cookie : Nat) | exception (e : Exc)

def kindOfCookie (c : Cfg) (cookie : Nat) : AKind :=
  match (c.actions.find? (·.cookie = cookie)) with | some a => a.kind | none => .pause

def prepare (c : Cfg) : StepEnd → Cfg × Option SObj
  | .next (some (.excepted e)) => (setInterrupt c none, some (.excepted e))    -- patch K: a failed step excepts
  | .next s => (c, s)
  | .interruption cookie =>
      match c.interrupt with
      | some _ => (c, none)
      | none => (setInterruptFromExc c (kindOfCookie c cookie) cookie, none)
  | .exception e => (setInterrupt c none, some (.excepted e))

def dispatch (c : Cfg) (next : Option SObj) : Cfg :=
  if terminal c.st.label then c else                                 -- patch C
  match c.interrupt with
  | some i =>
      if actionStatus c i ≠ .cancelled then runAction c i next
      else
        let c := match next with | some s => transitionTo c s | none => c
        c
  | none =>
      let c := match next with | some s => transitionTo c s | none => c
      -- patch E: an action requested while transitioning (not expressible without listener oracles here)
      c

def finally_ (c : Cfg) : Cfg := setInterrupt { c with stepping := false } none

def endOfStep (c : Cfg) (r : StepEnd) : Cfg :=
  let p := prepare c r
  finally_ (dispatch p.1 p.2)

def cmdToState (c : Cfg) : Cmd → Cfg × SObj
  | .cont fn args kw => (c, .running fn args kw)
  | .wait fn => ({ c with wfs := c.wfs ++ [.pending] }, .waiting fn c.wfs.length none [])
  | .waitOn fn aw => ({ c with wfs := c.wfs ++ [.pending] }, .waiting fn c.wfs.length none aw)
  | .stop v ok => (c, .finished v ok)
  | .kill => (c, .killed)

def finishUser (c : Cfg) (o : Outcome) : Cfg :=
  match o with
  | .ret cmd => let (c, s) := cmdToState c cmd; endOfStep c (.next (some s))
  | .raise e => endOfStep c (.next (some (.excepted e)))   -- Running.execute turns the exception into an EXCEPTED *state*

/-- Waiting.execute after its future completed -/
def wake (c : Cfg) (fn wf : Nat) (w : WF) : Cfg :=
  match w with
  | .result v => endOfStep c (.next (some (.running fn (match v with | some x => [x] | none => []) [])))
  | .interrupted cookie =>
      -- re-arm the wait on the (same) state object and deliver a parked wake-up
      let c := match c.st with
        | .waiting f wf' wakeup aw =>
            if wf' = wf then
              let nw : WF := match wakeup with | some o => o | none => .pending
              { c with st := .waiting f c.wfs.length none aw, wfs := c.wfs ++ [nw] }
            else c
        | _ => c
      endOfStep c (.interruption cookie)
  | .failed e => endOfStep c (.exception e)
  | .pending => c

/-- body of `Process.step` after the pause check; `k` is the rest of `step_until_terminated`'s loop -/
def stepBodyK (P : Prog) (k : Cfg → Cfg) (c : Cfg) : Cfg :=
  let c := { c with stepping := true }
  match c.st with
  | .created fn => k (endOfStep c (.next (some (.running fn [] []))))
  | .running fn args kw =>
      let b := P fn args kw c.ctx
      let c := { c with trace := { fn := fn, args := args, kw := kw, paused := c.paused.isSome } :: c.trace }
      if b.awaits = 0 then k (finishUser c b.out) else { c with pc := .inUser { b with awaits := b.awaits - 1 } }
  | .waiting fn wf _ _ =>
      match c.wfs[wf]? with
      | some .pending => { c with pc := .awaitWaiting wf }
      | some w => k (wake c fn wf w)
      | none => c
  | _ => k (endOfStep c (.next none))

/-- the stepping coroutine from the head of `step_until_terminated`'s loop until it suspends -/
def loopHead (P : Prog) : Nat → Cfg → Cfg
  | 0, c => c
  | fuel+1, c =>
    match c.pc with
    | .crashed _ => c
    | _ =>
    if terminal c.st.label then { c with pc := .done } else
    if c.closed then { c with pc := .crashed .closedErr } else
    match c.paused with
    | some pf => if c.pfs[pf]? = some false then { c with pc := .awaitPaused pf } else stepBodyK P (loopHead P fuel) c
    | none => stepBodyK P (loopHead P fuel) c

/-- `Process.step` body followed by the rest of the loop -/
def stepBody (P : Prog) (fuel : Nat) (c : Cfg) : Cfg := stepBodyK P (loopHead P fuel) c

def fuel0 : Nat := 1000

/-- wake-up of the stepping task: after `await self._paused` the `while` is re-evaluated -/
def tickStepper (P : Prog) (c : Cfg) : Cfg :=
  match c.pc with
  | .notStarted => loopHead P fuel0 c
  | .awaitPaused pf =>
      if c.pfs[pf]? = some true then
        match c.paused with
        | some pf' => if c.pfs[pf']? = some false then { c with pc := .awaitPaused pf' } else stepBody P fuel0 c
        | none => stepBody P fuel0 c
      else c
  | .inUser b =>
      if b.awaits = 0 then loopHead P fuel0 (finishUser c b.out) else { c with pc := .inUser { b with awaits := b.awaits - 1 } }
  | .awaitWaiting wf =>
      match c.wfs[wf]? with
      | some .pending => c
      | some w =>
          let fn := match c.st with | .waiting fn .. => fn | _ => 0
          loopHead P fuel0 (wake c fn wf w)
      | none => c
  | _ => c

/-- workchain `_awaitable_done` for external future `f` on the current waiting state -/
def awaitableDone (c : Cfg) (f : Nat) : Cfg :=
  let onOld (c : Cfg) : Cfg :=
    -- the callback was scheduled before its state object was left: it still writes the context
    match c.efKeys.find? (·.1 = f), c.efs[f]? with
    | some (_, key), some (EFut.result v) => { c with ctx := (key, v) :: c.ctx.filter (·.1 ≠ key) }
    | _, _ => c
  match c.st with
  | .waiting fn wf wakeup aw =>
      match aw.find? (·.1 = f) with
      | none => onOld c
      | some (_, key) =>
        let aw' := aw.filter (·.1 ≠ f)
        let c := { c with st := .waiting fn wf wakeup aw' }
        match c.efs[f]? with
        | some (EFut.result v) =>
            let c := { c with ctx := (key, v) :: c.ctx.filter (·.1 ≠ key) }
            if aw'.isEmpty then deliver c (.result none) else c
        | some (EFut.exc e) => deliver c (.failed e)
        | _ => c
  | _ => onOld c

def tryKilling (c : Cfg) : Cfg := { (kill c).1 with handed := c.handed }   -- the returned future stays inside try_killing

def tickCb (c : Cfg) (cb : Cb) : Cfg :=
  if c.ready.contains cb then
    let c := { c with ready := c.ready.erase cb }
    match cb with
    | .adone f => awaitableDone c f
    | .trykill => tryKilling c
    | .usercb raises => if raises then (fail c (.user 8)).1 else c     -- callback_excepted → fail (repair B guards terminated)
  else c

inductive Ev
  | tick | tickCb (cb : Cb) | pause | play | kill | resume (v : Option Val) | fail (e : Exc) | cancelFut
  | complete (f : Nat) (o : EFut)
  | callSoon (raises : Bool)        -- `Process.call_soon(cb)`: a task that runs `cb` through `_run_task`
deriving Repr, Inhabited, DecidableEq

def step (P : Prog) (c : Cfg) : Ev → Cfg × RetV
  | .tick => (tickStepper P c, .none)
  | .tickCb cb => (tickCb c cb, .none)
  | .pause => pause c
  | .play => play c
  | .kill => kill c
  | .resume v => resume c v
  | .fail e => fail c e
  | .cancelFut => cancelFut c
  | .complete f o => (complete c f o, .none)
  | .callSoon r => ({ c with ready := c.ready ++ [.usercb r] }, .none)

def run (P : Prog) (c0 : Cfg) (evs : List Ev) : Cfg := evs.foldl (fun c e => (step P c e).1) c0

/-- initial configuration of a process awaiting `nfut` external futures (all pending) -/
def init (nfut : Nat) : Cfg := { efs := List.replicate nfut .pending }

end PMF
