import PlumpyModel.PM.LProof3
/-!
# `PMF.L` — the `while` loop of the closing part enacts everything that was requested

`Le`: no model function lengthens the plan.  `Adv`: a function either uses up a plan entry or leaves the interrupt-action slot
and the action table alone.  Hence every iteration of `enactLoop` that leaves a pending action behind has consumed an entry, and
`plan.length + 1` iterations are enough: `dispatchL_quiet`.
-/
namespace PMF
namespace L

def Le (l l' : LCfg) : Prop := l'.plan.length ≤ l.plan.length
theorem Le.rfl' (l : LCfg) : Le l l := Nat.le_refl _
theorem Le.trans {a b c : LCfg} (h1 : Le a b) (h2 : Le b c) : Le a c := Nat.le_trans h2 h1
theorem Le.upd (l : LCfg) (f : Cfg → Cfg) : Le l (l.upd f) := Nat.le_refl _

def FLe (F : Hook → LCfg → LCfg) : Prop := ∀ h l, Le l (F h l)

section
variable {F : Hook → LCfg → LCfg}

theorem enteredHooksL_le (hF : FLe F) (l : LCfg) (s : SObj) : Le l (enteredHooksL F l s) := by
  unfold enteredHooksL; dsimp only
  split
  · exact (Le.upd l _).trans (hF _ _)
  · exact Le.upd l _

theorem forceExceptedL_le (hF : FLe F) (l : LCfg) (e : Exc) : Le l (forceExceptedL F l e) := by
  unfold forceExceptedL
  split
  · exact Le.upd l _
  · dsimp only
    refine Le.trans ?_ (Le.upd _ _)
    refine Le.trans ?_ (enteredHooksL_le hF _ _)
    refine Le.trans ?_ (Le.upd _ _)
    refine Le.trans ?_ (hF _ _)
    exact Nat.le_refl _

theorem enterNextL_le (hF : FLe F) (l : LCfg) (s : SObj) : Le l (enterNextL F l s) := by
  unfold enterNextL; dsimp only
  have h1 : Le l (enteredHooksL F (l.upd (fun c => setState (enterState c s) s)) s) :=
    (Le.upd l _).trans (enteredHooksL_le hF _ _)
  split
  · exact h1.trans (Le.upd _ _)
  · exact h1

theorem exitPhaseL_le (hF : FLe F) (l : LCfg) (s : SObj) : Le l (exitPhaseL F l s) := by
  unfold exitPhaseL; dsimp only
  have h1 : Le l ((F .exiting l).upd exitState) := (hF _ _).trans (Le.upd _ _)
  split
  · exact h1.trans ((hF _ _).trans (Le.upd _ _))
  · exact h1

theorem transitionToL_le (hF : FLe F) (l : LCfg) (s : SObj) : Le l (transitionToL F l s) := by
  unfold transitionToL; dsimp only
  show (_ : LCfg).plan.length ≤ _
  split
  · split
    · exact Nat.le_refl _
    · split
      · exact Le.trans (exitPhaseL_le hF { l with trans := some s.label } s) (forceExceptedL_le hF _ _)
      · refine Le.trans (exitPhaseL_le hF { l with trans := some s.label } s) ?_
        refine Le.trans ?_ (enterNextL_le hF _ _)
        exact hF _ _
  · exact forceExceptedL_le hF { l with trans := some s.label } _

theorem doPauseL_le (hF : FLe F) (l : LCfg) : Le l (doPauseL F l) := by
  unfold doPauseL; dsimp only
  exact ((Le.upd l _).trans (hF _ _)).trans (Le.upd _ _)

theorem pauseL_le (hF : FLe F) (l : LCfg) : Le l (pauseL F l).1 := by
  unfold pauseL; dsimp only
  split
  · exact Le.rfl' l
  · split
    · exact Le.rfl' l
    · split
      · exact Le.upd l _
      · split
        · exact Le.rfl' l
        · split
          · split <;> exact Nat.le_refl _
          · exact doPauseL_le hF l

theorem playL_le (hF : FLe F) (l : LCfg) : Le l (playL F l).1 := by
  unfold playL
  split
  · exact Le.upd l _
  · exact (Le.upd l _).trans (hF _ _)

theorem killL_le (hF : FLe F) (l : LCfg) : Le l (killL F l).1 := by
  unfold killL; dsimp only
  split
  · exact Le.rfl' l
  · split
    · exact Le.rfl' l
    · split
      · exact Le.upd l _
      · split
        · split <;> exact Nat.le_refl _
        · exact transitionToL_le hF l _

theorem reqK_le (hF : FLe F) (r : Req) (l : LCfg) : Le l (reqK F r l) := by
  cases r
  · exact pauseL_le hF l
  · exact playL_le hF l
  · exact killL_le hF l
end

/-- what `fireK` does to the plan: nothing, or it removes an entry and hands over to the request -/
theorem fireK_cases (R : Req → LCfg → LCfg) (h : Hook) (l : LCfg) :
    (fireK R h l = { l with cnt := bump l.cnt h }) ∨
    (∃ e, e ∈ l.plan ∧ fireK R h l = R e.2.2 (logIssued { { l with cnt := bump l.cnt h } with plan := l.plan.erase e } h e.2.2)) := by
  unfold fireK; dsimp only
  split
  · exact Or.inl rfl
  · split
    · exact Or.inl rfl
    · rename_i e he
      exact Or.inr ⟨e, List.mem_of_find?_eq_some he, rfl⟩

theorem erase_lt {α} [BEq α] [LawfulBEq α] (p : List α) (e : α) (h : e ∈ p) : (p.erase e).length < p.length := by
  rw [List.length_erase_of_mem h]
  cases p with
  | nil => cases h
  | cons a t => simp

theorem fireK_le {R : Req → LCfg → LCfg} (hR : ∀ r l, Le l (R r l)) (h : Hook) (l : LCfg) : Le l (fireK R h l) := by
  rcases fireK_cases R h l with h1 | ⟨e, he, h1⟩
  · rw [h1]; exact Nat.le_refl _
  · rw [h1]
    refine Le.trans ?_ (hR _ _)
    exact Nat.le_of_lt (erase_lt l.plan e he)

theorem fireN_le : ∀ n, FLe (fireN n)
  | 0 => fun _ _ => Nat.le_refl _
  | n+1 => fun h l => by
      unfold fireN
      exact fireK_le (fun r l => reqK_le (fireN_le n) r l) h l

/-! ### `Adv` -/
def Adv (l l' : LCfg) : Prop :=
  l'.plan.length < l.plan.length ∨
  (l'.plan.length = l.plan.length ∧ l'.c.interrupt = l.c.interrupt ∧ l'.c.actions = l.c.actions)

theorem Adv.rfl' (l : LCfg) : Adv l l := Or.inr ⟨rfl, rfl, rfl⟩
theorem Adv.le {l l' : LCfg} (h : Adv l l') : Le l l' := by
  rcases h with h | h
  · exact Nat.le_of_lt h
  · exact Nat.le_of_eq h.1
theorem Adv.trans {a b c : LCfg} (h1 : Adv a b) (h2 : Adv b c) : Adv a c := by
  rcases h1 with h1 | h1
  · exact Or.inl (Nat.lt_of_le_of_lt h2.le h1)
  · rcases h2 with h2 | h2
    · exact Or.inl (by rw [← h1.1]; exact h2)
    · exact Or.inr ⟨h2.1.trans h1.1, h2.2.1.trans h1.2.1, h2.2.2.trans h1.2.2⟩
theorem Adv.upd (l : LCfg) (f : Cfg → Cfg) (h1 : (f l.c).interrupt = l.c.interrupt) (h2 : (f l.c).actions = l.c.actions) :
    Adv l (l.upd f) := Or.inr ⟨rfl, h1, h2⟩

def FAdv (F : Hook → LCfg → LCfg) : Prop := ∀ h l, Adv l (F h l)

theorem fireK_adv {R : Req → LCfg → LCfg} (hR : ∀ r l, Le l (R r l)) (h : Hook) (l : LCfg) : Adv l (fireK R h l) := by
  rcases fireK_cases R h l with h1 | ⟨e, he, h1⟩
  · rw [h1]; exact Or.inr ⟨rfl, rfl, rfl⟩
  · rw [h1]
    left
    exact Nat.lt_of_le_of_lt (hR _ _) (erase_lt l.plan e he)

theorem fireN_adv : ∀ n, FAdv (fireN n)
  | 0 => fun _ _ => Or.inr ⟨rfl, rfl, rfl⟩
  | n+1 => fun h l => by
      unfold fireN
      exact fireK_adv (fun r l => reqK_le (fireN_le n) r l) h l

section
variable {F : Hook → LCfg → LCfg}

theorem adv_exitState (l : LCfg) : Adv l (l.upd exitState) := by
  obtain ⟨w, e, h⟩ := exitState_shape l.c
  exact Adv.upd l _ (by rw [h]) (by rw [h])
theorem adv_onTerminated (l : LCfg) : Adv l (l.upd onTerminated) := by
  obtain ⟨p, cl, n, h⟩ := onTerminated_shape l.c
  exact Adv.upd l _ (by rw [h]) (by rw [h])
theorem adv_enteredHooks (l : LCfg) (s : SObj) : Adv l (l.upd (fun c => enteredHooks c s)) := by
  obtain ⟨n, h⟩ := enteredHooks_shape l.c s
  exact Adv.upd l _ (by simp only [h]) (by simp only [h])
theorem adv_setFutExc (l : LCfg) (e : Exc) : Adv l (l.upd (fun c => setFutExc c e)) := by
  obtain ⟨f, b, h⟩ := setFutExc_shape l.c e
  exact Adv.upd l _ (by simp only [h]) (by simp only [h])
theorem adv_enter (l : LCfg) (s : SObj) : Adv l (l.upd (fun c => setState (enterState c s) s)) := by
  obtain ⟨k, e, r, h⟩ := enterState_shape l.c s
  exact Adv.upd l _ (by simp only [h, setState]) (by simp only [h, setState])

theorem enteredHooksL_adv (hF : FAdv F) (l : LCfg) (s : SObj) : Adv l (enteredHooksL F l s) := by
  unfold enteredHooksL; dsimp only
  split
  · exact (adv_enteredHooks l s).trans (hF _ _)
  · exact adv_enteredHooks l s

theorem forceExceptedL_adv (hF : FAdv F) (l : LCfg) (e : Exc) : Adv l (forceExceptedL F l e) := by
  unfold forceExceptedL
  split
  · exact Or.inr ⟨rfl, rfl, rfl⟩
  · dsimp only
    refine Adv.trans ?_ (adv_onTerminated _)
    refine Adv.trans ?_ (enteredHooksL_adv hF _ _)
    refine Adv.trans ?_ (Or.inr ⟨rfl, rfl, rfl⟩ : Adv _ (LCfg.upd _ (fun c => setState c (.excepted e))))
    refine Adv.trans ?_ (hF _ _)
    exact Adv.trans (Or.inr ⟨rfl, rfl, rfl⟩ : Adv l { l with trans := some .excepted }) (adv_setFutExc _ e)

theorem enterNextL_adv (hF : FAdv F) (l : LCfg) (s : SObj) : Adv l (enterNextL F l s) := by
  unfold enterNextL; dsimp only
  have h1 : Adv l (enteredHooksL F (l.upd (fun c => setState (enterState c s) s)) s) :=
    (adv_enter l s).trans (enteredHooksL_adv hF _ _)
  split
  · exact h1.trans (adv_onTerminated _)
  · exact h1

theorem exitPhaseL_adv (hF : FAdv F) (l : LCfg) (s : SObj) : Adv l (exitPhaseL F l s) := by
  unfold exitPhaseL; dsimp only
  have h1 : Adv l ((F .exiting l).upd exitState) := (hF _ _).trans (adv_exitState _)
  split
  · exact h1.trans ((hF _ _).trans (adv_exitState _))
  · exact h1

theorem transitionToL_adv (hF : FAdv F) (l : LCfg) (s : SObj) : Adv l (transitionToL F l s) := by
  have h0 : Adv l { l with trans := some s.label } := Or.inr ⟨rfl, rfl, rfl⟩
  have hfin : ∀ d : LCfg, Adv l d → Adv l { d with trans := none } := fun d hd => hd.trans (Or.inr ⟨rfl, rfl, rfl⟩)
  unfold transitionToL; dsimp only
  apply hfin
  split
  · split
    · obtain ⟨w, e, h⟩ := exitState_shape l.c
      exact Or.inr ⟨rfl, by simp only [upd_c, h], by simp only [upd_c, h]⟩
    · have h1 := h0.trans (exitPhaseL_adv hF { l with trans := some s.label } s)
      split
      · exact h1.trans (forceExceptedL_adv hF _ _)
      · rename_i c2 hok
        obtain ⟨f, b, h⟩ := enteringHooks_shape _ _ _ hok
        refine Adv.trans (h1.trans ?_) (enterNextL_adv hF _ _)
        refine Adv.trans ?_ (hF _ _)
        exact Or.inr ⟨rfl, by simp only [h], by simp only [h]⟩
  · exact h0.trans (forceExceptedL_adv hF _ _)

theorem doPauseL_adv (hF : FAdv F) (l : LCfg) : Adv l (doPauseL F l) := by
  unfold doPauseL; dsimp only
  refine Adv.trans (Adv.trans ?_ (hF _ _)) (Or.inr ⟨rfl, rfl, rfl⟩)
  exact Or.inr ⟨rfl, rfl, rfl⟩

/-! ### the loop -/
/-- nothing is left to enact: the slot is empty, or its action is done (ran, or was cancelled), or the process terminated -/
def Quiet (l : LCfg) : Prop :=
  match l.c.interrupt with
  | some i => actionStatus l.c i ≠ .pending ∨ terminal l.c.st.label = true
  | none => True

theorem setActionStatus_status (c : Cfg) (i : Nat) (s : AStatus) (hs : s ≠ .pending) :
    actionStatus (setActionStatus c i s) i ≠ .pending := by
  unfold setActionStatus
  split
  · rename_i a ha
    have hi : i < c.actions.length := (List.getElem?_eq_some_iff.mp ha).1
    simp [actionStatus, setAt, hi, hs]
  · rename_i hn
    simp [actionStatus, hn]

theorem setActionStatus_interrupt (c : Cfg) (i : Nat) (s : AStatus) : (setActionStatus c i s).interrupt = c.interrupt := by
  unfold setActionStatus; split <;> rfl

/-- running an action either uses up a plan entry or leaves it in the slot, no longer pending -/
theorem runActionL_adv (hF : FAdv F) (l : LCfg) (i : Nat) (next : Option SObj) :
    (runActionL F l i next).plan.length < l.plan.length ∨
    ((runActionL F l i next).plan.length = l.plan.length ∧ (runActionL F l i next).c.interrupt = l.c.interrupt ∧
      actionStatus (runActionL F l i next).c i ≠ .pending) := by
  unfold runActionL
  split
  · rename_i hn
    exact Or.inr ⟨rfl, rfl, by simp [actionStatus, hn]⟩
  · rename_i a ha
    split
    · rename_i hnp
      exact Or.inr ⟨rfl, rfl, by simpa [actionStatus, ha] using hnp⟩
    · -- the body
      have hbody : ∀ body : LCfg, Adv l body →
          (if actionStatus body.c i = .pending then body.upd (fun c => setActionStatus c i .done) else body).plan.length < l.plan.length ∨
          ((if actionStatus body.c i = .pending then body.upd (fun c => setActionStatus c i .done) else body).plan.length = l.plan.length ∧
           (if actionStatus body.c i = .pending then body.upd (fun c => setActionStatus c i .done) else body).c.interrupt = l.c.interrupt ∧
           actionStatus (if actionStatus body.c i = .pending then body.upd (fun c => setActionStatus c i .done) else body).c i ≠ .pending) := by
        intro body hb
        rcases hb with hb | hb
        · left; split <;> exact hb
        · right
          split
          · exact ⟨hb.1, by rw [upd_c, setActionStatus_interrupt]; exact hb.2.1, setActionStatus_status _ _ _ (by simp)⟩
          · rename_i hnp
            exact ⟨hb.1, hb.2.1, hnp⟩
      apply hbody
      split
      · split
        · dsimp only
          split
          · exact transitionToL_adv hF _ _
          · exact (transitionToL_adv hF _ _).trans (doPauseL_adv hF _)
        · exact doPauseL_adv hF _
      · exact (transitionToL_adv hF _ _).trans (Or.inr ⟨rfl, rfl, rfl⟩)

theorem enactLoop_of_quiet (n : Nat) (l : LCfg) (h : Quiet l) : enactLoop F n l = l := by
  cases n with
  | zero => rfl
  | succ n =>
    unfold enactLoop
    unfold Quiet at h
    split
    · rename_i i hi
      rw [hi] at h
      rcases h with h | h
      · simp [h]
      · simp [h]
    · rfl

theorem enactLoop_quiet (hF : FAdv F) : ∀ (n : Nat) (l : LCfg), l.plan.length < n → Quiet (enactLoop F n l)
  | 0, l, h => by cases h
  | n+1, l, h => by
    unfold enactLoop
    split
    · rename_i i hi
      split
      · rcases runActionL_adv hF l i none with h1 | h1
        · exact enactLoop_quiet hF n _ (by omega)
        · have hq : Quiet (runActionL F l i none) := by
            unfold Quiet; rw [h1.2.1, hi]; exact Or.inl h1.2.2
          rw [enactLoop_of_quiet n _ hq]; exact hq
      · rename_i hc
        unfold Quiet; rw [hi]
        simp only [Bool.and_eq_true, decide_eq_true_eq, Bool.not_eq_true', not_and, Bool.not_eq_false] at hc
        by_cases hp : actionStatus l.c i = .pending
        · exact Or.inr (hc hp)
        · exact Or.inl hp
    · rename_i hn
      unfold Quiet; rw [hn]; trivial

/-- **nothing requested during the closing part is left behind**: when `dispatchL` returns, the interrupt-action slot is empty,
or holds an action that is done, or the process has terminated — so the `finally` of `step()` cancels nothing that a listener
asked for on a process that is still live. -/
theorem dispatchL_quiet (hF : FAdv F) (l : LCfg) (next : Option SObj) : Quiet (dispatchL F l next) := by
  unfold dispatchL
  split
  · rename_i ht
    unfold Quiet; split
    · exact Or.inr ht
    · trivial
  · exact enactLoop_quiet hF _ _ (Nat.lt_succ_self _)
end

end L
end PMF
