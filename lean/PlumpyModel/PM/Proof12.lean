import PlumpyModel.PM.Proof3
import PlumpyModel.PM.Proof9
import PlumpyModel.PM.Proof8
/-!
# C05 — transparency of pause/play as a simulation (helper definitions and lemmas)

`c` is always the configuration of the run *with* pause/play requests, `d` the configuration of the reference run
without them.  The reference history is computed from the history with pauses by `unpaused`: pause and play requests are
dropped, and so is every tick that finds the stepping task suspended on a pause future (those ticks either do nothing,
or re-suspend, or start the step body that the reference run already executed in the tick that ended the previous step).
-/
namespace PMF

def isAwaitPaused : Pc → Bool
  | .awaitPaused _ => true
  | _ => false

/-- no interrupt action is installed and the stepping task is not suspended on a pause future -/
def quiet (c : Cfg) : Bool := c.interrupt.isNone && !isAwaitPaused c.pc

/-- the class of histories of the partial theorem: ticks, pause and play anywhere; wake-up requests (`resume`, completion of
an awaited future, its done-callback) only at quiet moments; no kill / fail / cancel / call_soon -/
def evAllowed (c : Cfg) : Ev → Bool
  | .tick | .pause | .play => true
  | .resume _ | .complete _ _ | .tickCb (.adone _) => quiet c
  | _ => false

def admissible (P : Prog) : Cfg → List Ev → Bool
  | _, [] => true
  | c, e :: es => evAllowed c e && admissible P (step P c e).1 es

/-- the reference history: pause/play dropped, ticks of a stepper suspended on a pause future dropped -/
def unpaused (P : Prog) : Cfg → List Ev → List Ev
  | _, [] => []
  | c, e :: es =>
    let rest := unpaused P (step P c e).1 es
    match e with
    | .pause | .play => rest
    | .tick => if isAwaitPaused c.pc then rest else .tick :: rest
    | e => e :: rest

/-! ### "the synchronous chain of steps run by one tick ends within the fuel" -/

def stepDoneK (P : Prog) (k : Cfg → Bool) (c : Cfg) : Bool :=
  let c := { c with stepping := true }
  match c.st with
  | .created fn => k (endOfStep c (.next (some (.running fn [] []))))
  | .running fn args kw =>
      let b := P fn args kw c.ctx
      let c := { c with trace := { fn := fn, args := args, kw := kw, paused := c.paused.isSome } :: c.trace }
      if b.awaits = 0 then k (finishUser c b.out) else true
  | .waiting fn wf _ _ =>
      match c.wfs[wf]? with
      | some .pending => true
      | some w => k (wake c fn wf w)
      | none => true
  | _ => k (endOfStep c (.next none))

/-- mirrors `loopHead`: `true` iff the loop suspends (or ends) before the fuel is used up -/
def loopDone (P : Prog) : Nat → Cfg → Bool
  | 0, _ => false
  | fuel+1, c =>
    match c.pc with
    | .crashed _ => true
    | _ =>
    if terminal c.st.label then true else
    if c.closed then true else
    match c.paused with
    | some pf => if c.pfs[pf]? = some false then true else stepDoneK P (loopDone P fuel) c
    | none => stepDoneK P (loopDone P fuel) c

/-- mirrors `tickStepper` -/
def tickDone (P : Prog) (c : Cfg) : Bool :=
  match c.pc with
  | .notStarted => loopDone P fuel0 c
  | .awaitPaused pf =>
      if c.pfs[pf]? = some true then
        match c.paused with
        | some pf' => if c.pfs[pf']? = some false then true else stepDoneK P (loopDone P fuel0) c
        | none => stepDoneK P (loopDone P fuel0) c
      else true
  | .inUser b => if b.awaits = 0 then loopDone P fuel0 (finishUser c b.out) else true
  | .awaitWaiting wf =>
      match c.wfs[wf]? with
      | some .pending => true
      | some w =>
          let fn := match c.st with | .waiting fn .. => fn | _ => 0
          loopDone P fuel0 (wake c fn wf w)
      | none => true
  | _ => true

/-- no tick of the history exhausts the fuel of the model's step loop -/
def fuelOk (P : Prog) : Cfg → List Ev → Bool
  | _, [] => true
  | c, e :: es => (match e with | .tick => tickDone P c | _ => true) && fuelOk P (step P c e).1 es

/-! ### the fields on which both runs agree -/

def notPP : Notif → Bool
  | .paused => false
  | .played => false
  | _ => true

structure ShRec where
  stepping : Bool
  fut : PFut
  futHasKillCb : Bool
  closed : Bool
  cleanups : Nat
  efs : List EFut
  efCb : List Nat
  efKeys : List (Nat × Nat)
  ctx : List (Nat × Val)
  ready : List Cb
  entered : List Label
  trace : List Act
  loopErrs : List Exc
  notif : List Notif
  killing : Option Nat

/-- what both runs share: everything except the pause machinery (actions, interrupt, pausing, paused, pause futures,
cookies, handed-out actions, the paused/played notifications) and the heap of wait futures with the pointers into it -/
def sh (c : Cfg) : ShRec :=
  { stepping := c.stepping, fut := c.fut, futHasKillCb := c.futHasKillCb, closed := c.closed, cleanups := c.cleanups,
    efs := c.efs, efCb := c.efCb, efKeys := c.efKeys, ctx := c.ctx, ready := c.ready, entered := c.entered,
    trace := c.trace, loopErrs := c.loopErrs, notif := c.notif.filter notPP, killing := c.killing }

theorem sh_eq_iff (c d : Cfg) : sh c = sh d ↔
    c.stepping = d.stepping ∧ c.fut = d.fut ∧ c.futHasKillCb = d.futHasKillCb ∧ c.closed = d.closed ∧
    c.cleanups = d.cleanups ∧ c.efs = d.efs ∧ c.efCb = d.efCb ∧ c.efKeys = d.efKeys ∧ c.ctx = d.ctx ∧
    c.ready = d.ready ∧ c.entered = d.entered ∧ c.trace = d.trace ∧ c.loopErrs = d.loopErrs ∧
    c.notif.filter notPP = d.notif.filter notPP ∧ c.killing = d.killing := by
  simp [sh]

/-- one-sided frame: `c'` differs from `c` in pause machinery only -/
def PFrame (c c' : Cfg) : Prop := sh c' = sh c ∧ c'.st = c.st ∧ c'.wfs = c.wfs ∧ c'.pc = c.pc
theorem PFrame.rfl' (c : Cfg) : PFrame c c := ⟨rfl, rfl, rfl, rfl⟩
theorem PFrame.trans {a b c : Cfg} (h1 : PFrame a b) (h2 : PFrame b c) : PFrame a c :=
  ⟨h2.1.trans h1.1, h2.2.1.trans h1.2.1, h2.2.2.1.trans h1.2.2.1, h2.2.2.2.trans h1.2.2.2⟩

theorem setActionStatus_pf (c : Cfg) (i s) : PFrame c (setActionStatus c i s) := by
  unfold setActionStatus; split <;> exact ⟨rfl, rfl, rfl, rfl⟩
theorem cancelAction_pf (c : Cfg) (i) : PFrame c (cancelAction c i) := by
  unfold cancelAction; split
  · exact setActionStatus_pf ..
  · exact PFrame.rfl' c
theorem setInterrupt_pf (c : Cfg) (n) : PFrame c (setInterrupt c n) := by
  unfold setInterrupt; split
  · exact PFrame.trans (cancelAction_pf c _) ⟨rfl, rfl, rfl, rfl⟩
  · exact ⟨rfl, rfl, rfl, rfl⟩
theorem setInterruptFromExc_pf (c : Cfg) (k n) : PFrame c (setInterruptFromExc c k n) := by
  unfold setInterruptFromExc cancelInterrupt
  split
  · exact PFrame.trans (cancelAction_pf c _) ⟨rfl, rfl, rfl, rfl⟩
  · exact ⟨rfl, rfl, rfl, rfl⟩
theorem hand_pf (c : Cfg) (i) : PFrame c (hand c i) := by
  unfold hand; split <;> exact ⟨rfl, rfl, rfl, rfl⟩
theorem doPauseHooks_pf (c : Cfg) : PFrame c (doPauseHooks c) := ⟨by simp [sh, doPauseHooks, notPP], rfl, rfl, rfl⟩

/-! ### state objects of the two runs -/

def NotWaiting (s : SObj) : Prop := ∀ fn wf wk aw, s ≠ .waiting fn wf wk aw

/-- same state object up to the index of the wait future -/
def SSim (s s' : SObj) : Prop :=
  (s = s' ∧ NotWaiting s) ∨ ∃ fn wf aw wf', s = .waiting fn wf none aw ∧ s' = .waiting fn wf' none aw

theorem SSim.label {s s' : SObj} (h : SSim s s') : s.label = s'.label := by
  rcases h with ⟨rfl, _⟩ | ⟨fn, wf, aw, wf', rfl, rfl⟩ <;> rfl

/-- the state objects agree with respect to the heaps `cw`, `dw` of wait futures: equal, or both WAITING on futures with the
same outcome, which is not an interruption -/
def SRel (cw dw : List WF) (s s' : SObj) : Prop :=
  (s = s' ∧ NotWaiting s) ∨
  ∃ fn wf aw wf' w, s = .waiting fn wf none aw ∧ s' = .waiting fn wf' none aw ∧
     cw[wf]? = some w ∧ dw[wf']? = some w ∧ ∀ k, w ≠ .interrupted k

theorem SRel.ssim {cw dw s s'} (h : SRel cw dw s s') : SSim s s' := by
  rcases h with h | ⟨fn, wf, aw, wf', w, h1, h2, _⟩
  · exact Or.inl h
  · exact Or.inr ⟨fn, wf, aw, wf', h1, h2⟩

theorem SRel.of_notWaiting {cw dw : List WF} {s : SObj} (h : NotWaiting s) : SRel cw dw s s := Or.inl ⟨rfl, h⟩

structure Core (c d : Cfg) : Prop where
  sh : sh c = sh d
  st : SRel c.wfs d.wfs c.st d.st
  ckill : c.killing = none
  dint : d.interrupt = none
  dpaused : d.paused = none

theorem Core.label {c d : Cfg} (h : Core c d) : c.st.label = d.st.label := h.st.ssim.label

/-! ### frame of the transition machinery: it never touches interrupt, paused, pc, actions, stepping -/
def KeepP (c c' : Cfg) : Prop :=
  c'.interrupt = c.interrupt ∧ c'.paused = c.paused ∧ c'.pc = c.pc ∧ c'.actions = c.actions ∧ c'.stepping = c.stepping
theorem KeepP.rfl' (c : Cfg) : KeepP c c := ⟨rfl, rfl, rfl, rfl, rfl⟩
theorem KeepP.trans {a b c : Cfg} (h1 : KeepP a b) (h2 : KeepP b c) : KeepP a c :=
  ⟨h2.1.trans h1.1, h2.2.1.trans h1.2.1, h2.2.2.1.trans h1.2.2.1, h2.2.2.2.1.trans h1.2.2.2.1, h2.2.2.2.2.trans h1.2.2.2.2⟩

theorem exitState_kp (c : Cfg) : KeepP c (exitState c) := by
  unfold exitState; split
  · dsimp only; split <;> exact ⟨rfl, rfl, rfl, rfl, rfl⟩
  · exact KeepP.rfl' c
theorem setFutExc_kp (c : Cfg) (e) : KeepP c (setFutExc c e) := by
  unfold setFutExc; split <;> exact ⟨rfl, rfl, rfl, rfl, rfl⟩
theorem freshFut_kp (c : Cfg) : KeepP c (freshFutIfCancelled c) := by
  unfold freshFutIfCancelled; split <;> exact ⟨rfl, rfl, rfl, rfl, rfl⟩
theorem enteringHooks_kp (c c2 : Cfg) (s : SObj) (h : enteringHooks c s = .ok c2) : KeepP c c2 := by
  unfold enteringHooks at h
  split at h
  · dsimp only at h
    split at h
    · cases h; exact KeepP.trans (freshFut_kp c) ⟨rfl, rfl, rfl, rfl, rfl⟩
    · cases h
  · dsimp only at h
    split at h
    · cases h; exact KeepP.trans (freshFut_kp c) ⟨rfl, rfl, rfl, rfl, rfl⟩
    · cases h
  · cases h; exact setFutExc_kp c _
  · cases h; exact KeepP.rfl' c
theorem enterState_kp (c : Cfg) (s : SObj) : KeepP c (enterState c s) := by
  unfold enterState
  split
  · rename_i aw
    induction aw generalizing c with
    | nil => exact KeepP.rfl' c
    | cons p rest ih =>
      rw [List.foldl_cons]
      refine KeepP.trans ?_ (ih _)
      dsimp only
      split <;> exact ⟨rfl, rfl, rfl, rfl, rfl⟩
  · exact KeepP.rfl' c
theorem enteredHooks_kp (c : Cfg) (s : SObj) : KeepP c (enteredHooks c s) := by
  unfold enteredHooks; dsimp only; split <;> split <;> exact ⟨rfl, rfl, rfl, rfl, rfl⟩
theorem onClose_kp (c : Cfg) : KeepP c (onClose c) := by
  unfold onClose; split <;> exact ⟨rfl, rfl, rfl, rfl, rfl⟩
theorem releasePause_kp (c : Cfg) : KeepP c (releasePause c) := by
  unfold releasePause; split
  · split <;> exact ⟨rfl, rfl, rfl, rfl, rfl⟩
  · exact KeepP.rfl' c
theorem onTerminated_kp (c : Cfg) : KeepP c (onTerminated c) :=
  KeepP.trans (releasePause_kp c) (onClose_kp _)
theorem forceExcepted_kp (c : Cfg) (e) : KeepP c (forceExcepted c e) := by
  unfold forceExcepted; split
  · exact ⟨rfl, rfl, rfl, rfl, rfl⟩
  · refine KeepP.trans (setFutExc_kp c e) (KeepP.trans ?_ (onTerminated_kp _))
    exact KeepP.trans (show KeepP (setFutExc c e) (setState (setFutExc c e) (.excepted e)) from ⟨rfl, rfl, rfl, rfl, rfl⟩)
      (enteredHooks_kp _ _)
theorem enterNext_kp (c : Cfg) (s) : KeepP c (enterNext c s) := by
  unfold enterNext; dsimp only
  have h : KeepP c (enteredHooks (setState (enterState c s) s) s) :=
    KeepP.trans (enterState_kp c s) (KeepP.trans (show KeepP (enterState c s) (setState (enterState c s) s) from
      ⟨rfl, rfl, rfl, rfl, rfl⟩) (enteredHooks_kp _ _))
  split
  · exact KeepP.trans h (onTerminated_kp _)
  · exact h
theorem transitionTo_kp (c : Cfg) (s) : KeepP c (transitionTo c s) := by
  unfold transitionTo
  split
  · dsimp only
    split
    · exact KeepP.trans (exitState_kp c) ⟨rfl, rfl, rfl, rfl, rfl⟩
    · split
      · exact KeepP.trans (exitState_kp c) (forceExcepted_kp _ _)
      · rename_i c2 hok
        exact KeepP.trans (exitState_kp c) (KeepP.trans (enteringHooks_kp _ c2 s hok) (enterNext_kp _ _))
  · exact forceExcepted_kp _ _

/-! ### the transition machinery acts in the same way on the shared fields of both runs -/

theorem sh_fields {c d : Cfg} (h : sh c = sh d) :
    c.stepping = d.stepping ∧ c.fut = d.fut ∧ c.futHasKillCb = d.futHasKillCb ∧ c.closed = d.closed ∧
    c.cleanups = d.cleanups ∧ c.efs = d.efs ∧ c.efCb = d.efCb ∧ c.efKeys = d.efKeys ∧ c.ctx = d.ctx ∧
    c.ready = d.ready ∧ c.entered = d.entered ∧ c.trace = d.trace ∧ c.loopErrs = d.loopErrs ∧
    c.notif.filter notPP = d.notif.filter notPP ∧ c.killing = d.killing := (sh_eq_iff c d).mp h

theorem exitState_sh (c d : Cfg) (h : sh c = sh d) (hs : SSim c.st d.st) : sh (exitState c) = sh (exitState d) := by
  obtain ⟨h1, h2, h3, h4, h5, h6, h7, h8, h9, h10, h11, h12, h13, h14, h15⟩ := sh_fields h
  rcases hs with ⟨heq, hnw⟩ | ⟨fn, wf, aw, wf', hc, hd⟩
  · have e1 : exitState c = c := by
      unfold exitState; split
      · rename_i a b c' d' hst; exact absurd hst (hnw _ _ _ _)
      · rfl
    have e2 : exitState d = d := by
      unfold exitState; split
      · rename_i a b c' d' hst; rw [← heq] at hst; exact absurd hst (hnw _ _ _ _)
      · rfl
    rw [e1, e2]; exact h
  · simp only [exitState, hc, hd]
    rw [sh_eq_iff]
    split <;> split <;> simp [*]

theorem setFutExc_sh (c d : Cfg) (e : Exc) (h : sh c = sh d) : sh (setFutExc c e) = sh (setFutExc d e) := by
  obtain ⟨h1, h2, h3, h4, h5, h6, h7, h8, h9, h10, h11, h12, h13, h14, h15⟩ := sh_fields h
  rw [sh_eq_iff]; unfold setFutExc
  rw [h2]
  split <;> simp [*]

theorem freshFut_sh (c d : Cfg) (h : sh c = sh d) : sh (freshFutIfCancelled c) = sh (freshFutIfCancelled d) := by
  obtain ⟨h1, h2, h3, h4, h5, h6, h7, h8, h9, h10, h11, h12, h13, h14, h15⟩ := sh_fields h
  rw [sh_eq_iff]; unfold freshFutIfCancelled futCancelled
  rw [h2]
  split <;> simp [*]

/-- the entering hooks succeed or fail alike -/
theorem enteringHooks_sh (c d : Cfg) (s s' : SObj) (h : sh c = sh d) (hs : SSim s s') :
    (∃ e, enteringHooks c s = .error e ∧ enteringHooks d s' = .error e) ∨
    (∃ c2 d2, enteringHooks c s = .ok c2 ∧ enteringHooks d s' = .ok d2 ∧ sh c2 = sh d2) := by
  rcases hs with ⟨rfl, _⟩ | ⟨fn, wf, aw, wf', rfl, rfl⟩
  · have hf := freshFut_sh c d h
    have hf2 : (freshFutIfCancelled c).fut = (freshFutIfCancelled d).fut := (sh_fields hf).2.1
    cases s with
    | finished v ok =>
      simp only [enteringHooks]
      rw [hf2]
      split
      · refine Or.inr ⟨_, _, rfl, rfl, ?_⟩
        obtain ⟨h1, h2, h3, h4, h5, h6, h7, h8, h9, h10, h11, h12, h13, h14, h15⟩ := sh_fields hf
        rw [sh_eq_iff]; simp [*]
      · exact Or.inl ⟨_, rfl, rfl⟩
    | killed =>
      simp only [enteringHooks]
      rw [hf2]
      split
      · refine Or.inr ⟨_, _, rfl, rfl, ?_⟩
        obtain ⟨h1, h2, h3, h4, h5, h6, h7, h8, h9, h10, h11, h12, h13, h14, h15⟩ := sh_fields hf
        rw [sh_eq_iff]; simp [*]
      · exact Or.inl ⟨_, rfl, rfl⟩
    | excepted e => exact Or.inr ⟨_, _, rfl, rfl, setFutExc_sh c d e h⟩
    | created fn => exact Or.inr ⟨_, _, rfl, rfl, h⟩
    | running fn a k => exact Or.inr ⟨_, _, rfl, rfl, h⟩
    | waiting fn wf wk aw => exact Or.inr ⟨_, _, rfl, rfl, h⟩
  · exact Or.inr ⟨_, _, rfl, rfl, h⟩

theorem enterState_fold_sh (aw : List (Nat × Nat)) : ∀ (c d : Cfg), sh c = sh d →
    sh (aw.foldl (fun c (p : Nat × Nat) =>
        let c := { c with efKeys := p :: c.efKeys }
        match c.efs[p.1]? with
        | some EFut.pending => { c with efCb := c.efCb ++ [p.1] }
        | some _ => { c with ready := c.ready ++ [.adone p.1] }
        | none => c) c) =
    sh (aw.foldl (fun c (p : Nat × Nat) =>
        let c := { c with efKeys := p :: c.efKeys }
        match c.efs[p.1]? with
        | some EFut.pending => { c with efCb := c.efCb ++ [p.1] }
        | some _ => { c with ready := c.ready ++ [.adone p.1] }
        | none => c) d) := by
  induction aw with
  | nil => intro c d h; exact h
  | cons p rest ih =>
    intro c d h
    rw [List.foldl_cons, List.foldl_cons]
    apply ih
    obtain ⟨h1, h2, h3, h4, h5, h6, h7, h8, h9, h10, h11, h12, h13, h14, h15⟩ := sh_fields h
    rw [sh_eq_iff]
    dsimp only
    rw [h6]
    split <;> simp [*]

theorem enterState_sh (c d : Cfg) (s s' : SObj) (h : sh c = sh d) (hs : SSim s s') :
    sh (enterState c s) = sh (enterState d s') := by
  rcases hs with ⟨rfl, hnw⟩ | ⟨fn, wf, aw, wf', rfl, rfl⟩
  · cases s with
    | waiting fn wf wk aw => exact absurd rfl (hnw fn wf wk aw)
    | _ => exact h
  · exact enterState_fold_sh aw c d h

theorem filter_notPP_cons (n : Notif) (l : List Notif) (hn : notPP n = true) :
    (n :: l).filter notPP = n :: l.filter notPP := by simp [List.filter, hn]

theorem enteredNotif_notPP (s : SObj) (n : Notif) (h : enteredNotif s = some n) : notPP n = true := by
  cases s <;> simp [enteredNotif] at h <;> subst h <;> rfl

theorem sh_killnone (c d : Cfg) (h : sh c = sh d) : sh { c with killing := none } = sh { d with killing := none } := by
  obtain ⟨h1, h2, h3, h4, h5, h6, h7, h8, h9, h10, h11, h12, h13, h14, h15⟩ := sh_fields h
  rw [sh_eq_iff]; simp [*]
theorem sh_notif (c d : Cfg) (n : Notif) (hn : notPP n = true) (h : sh c = sh d) :
    sh { c with notif := n :: c.notif } = sh { d with notif := n :: d.notif } := by
  obtain ⟨h1, h2, h3, h4, h5, h6, h7, h8, h9, h10, h11, h12, h13, h14, h15⟩ := sh_fields h
  rw [sh_eq_iff]; simp [List.filter, hn, *]

theorem enteredHooks_sh (c d : Cfg) (s s' : SObj) (h : sh c = sh d) (hs : SSim s s') :
    sh (enteredHooks c s) = sh (enteredHooks d s') := by
  have hl := hs.label
  have hn : enteredNotif s = enteredNotif s' := by
    rcases hs with ⟨rfl, _⟩ | ⟨fn, wf, aw, wf', rfl, rfl⟩ <;> rfl
  unfold enteredHooks
  rw [← hn, ← hl]
  by_cases hk : s.label = .killed
  · simp only [hk, if_true]
    cases hnn : enteredNotif s with
    | none => exact sh_killnone c d h
    | some n => exact sh_notif _ _ n (enteredNotif_notPP s n hnn) (sh_killnone c d h)
  · simp only [hk, if_false]
    cases hnn : enteredNotif s with
    | none => exact h
    | some n => exact sh_notif _ _ n (enteredNotif_notPP s n hnn) h

theorem setState_sh (c d : Cfg) (s s' : SObj) (h : sh c = sh d) (hs : SSim s s') :
    sh (setState c s) = sh (setState d s') := by
  obtain ⟨h1, h2, h3, h4, h5, h6, h7, h8, h9, h10, h11, h12, h13, h14, h15⟩ := sh_fields h
  rw [sh_eq_iff]; simp [setState, hs.label, *]

theorem onClose_sh (c d : Cfg) (h : sh c = sh d) : sh (onClose c) = sh (onClose d) := by
  obtain ⟨h1, h2, h3, h4, h5, h6, h7, h8, h9, h10, h11, h12, h13, h14, h15⟩ := sh_fields h
  rw [sh_eq_iff]; unfold onClose; rw [h4]
  split <;> simp [*]

theorem releasePause_pf (c : Cfg) : PFrame c (releasePause c) := by
  unfold releasePause; split
  · split <;> exact ⟨rfl, rfl, rfl, rfl⟩
  · exact PFrame.rfl' c

theorem onTerminated_sh (c d : Cfg) (h : sh c = sh d) : sh (onTerminated c) = sh (onTerminated d) := by
  unfold onTerminated
  apply onClose_sh
  rw [(releasePause_pf c).1, (releasePause_pf d).1]; exact h

theorem forceExcepted_sh (c d : Cfg) (e : Exc) (h : sh c = sh d) : sh (forceExcepted c e) = sh (forceExcepted d e) := by
  have h4 : c.closed = d.closed := (sh_fields h).2.2.2.1
  unfold forceExcepted
  rw [h4]
  split
  · obtain ⟨h1, h2, h3, h4, h5, h6, h7, h8, h9, h10, h11, h12, h13, h14, h15⟩ := sh_fields h
    rw [sh_eq_iff]; simp [*]
  · apply onTerminated_sh
    apply enteredHooks_sh _ _ _ _ _ (Or.inl ⟨rfl, by intro a b c d h; cases h⟩)
    apply setState_sh _ _ _ _ _ (Or.inl ⟨rfl, by intro a b c d h; cases h⟩)
    exact setFutExc_sh c d e h

theorem enterNext_sh (c d : Cfg) (s s' : SObj) (h : sh c = sh d) (hs : SSim s s') :
    sh (enterNext c s) = sh (enterNext d s') := by
  unfold enterNext
  dsimp only
  have h1 : sh (enteredHooks (setState (enterState c s) s) s) = sh (enteredHooks (setState (enterState d s') s') s') :=
    enteredHooks_sh _ _ _ _ (setState_sh _ _ _ _ (enterState_sh c d s s' h hs) hs) hs
  rw [hs.label]
  split
  · exact onTerminated_sh _ _ h1
  · exact h1

end PMF
